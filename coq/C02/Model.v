(* C02 - Mech model of the expression parser of the Cb interpreter.

   Mirrors, function by function:
     src/frontend/recursive_parser/parsers/expression_parser.cpp
        parseAssignment / parseLogicalOr ... parseMultiplicative (the binary "ladder") /
        parseUnary / parsePostfix
     src/frontend/recursive_parser/recursive_parser.cpp : RecursiveParser::parseTernary
        (ternary vs. error-propagation `e?` disambiguation with lexer backtracking)
     src/frontend/recursive_parser/parsers/primary_expression_parser.cpp : parsePrimary
        (number, identifier with the generic-call look-ahead `ident < ... > (`, call,
         `(`: cast-vs-parenthesis look-ahead through parseType)
     src/frontend/recursive_parser/parsers/type_utility_parser.cpp : parseType
        (only the part reachable from an identifier that names no type:
         ident '*'* ('&&' | '&' '&'?)? ('[' (number|ident)? ']')* )

   The binary ladder is generic in a level table [tbl] (lowest level first, i.e. in the
   order parseLogicalOr ... parseMultiplicative); the table of the code itself is
   re-extracted from the C++ text into Gen_LadderTable.v on every run.

   Identifiers are numbers that carry the two facts about their SPELLING / DECLARATION the parser
   looks at: [id_upper] (the name starts with an upper-case letter: the `Name<T>` and sizeof
   heuristics of parsePrimary) and [id_type] (the name is a declared typedef / struct / enum / union /
   interface / type parameter: the cast look-ahead); identifier 0 is `sizeof`.

   Definitions only: total, computable, extractable. *)
From Coq Require Import List Arith NArith ZArith Bool.
Import ListNotations.

(* ------------------------------------------------------------------ syntax *)
Inductive binop :=
| Or | And | BOr | BXor | BAnd | EqO | NeO | LtO | LeO | GtO | GeO | Shl | Shr
| Add | Sub | Mul | Div | Mod.

Inductive unop := Not | Neg | BNot | Addr | Deref | Await | TryE | Checked.   (* the last three: keyword prefix operators of parseUnary *)

(* tokens; unary - & * share TOK_MINUS / TOK_BIT_AND / TOK_MUL with the binary operators *)
Inductive tok :=
| TNum (n : N) | TId (x : nat) | TOp (o : binop)
| TNot | TTilde | TInc | TDec
| TLP | TRP | TLB | TRB | TDot | TArrow | TQ | TColon | TComma
| TAsg (o : option binop)            (* =  and  op= *)
| TSemi | TRBrace | TOther
| TAwait | TTry | TChecked            (* await / try / checked *)
| TKw (k : nat).                     (* keyword type: 0 int 1 long 2 short 3 tiny 4 float 5 double 6 bool
                                        7 string 8 char 9 void *)

(* identifier classes: x = 4 * k + 2 * (names a type) + (upper-case initial); 0 = `sizeof` *)
Definition id_upper (x : nat) : bool := Nat.odd x.
Definition id_type (x : nat) : bool := Nat.odd (Nat.div2 x).
Definition is_sizeof (x : nat) : bool := x =? 0.

Inductive expr :=
| Num (n : N)                          (* AST_NUMBER *)
| Var (x : nat)                        (* AST_VARIABLE *)
| Par (e : expr)                       (* source only: an explicit pair of parentheses *)
| Bin (o : binop) (a b : expr)         (* AST_BINARY_OP *)
| Un (u : unop) (a : expr)             (* AST_UNARY_OP  ! - ~ ADDRESS_OF DEREFERENCE *)
| Pre (inc : bool) (a : expr)          (* AST_PRE_INCDEC *)
| Post (inc : bool) (a : expr)         (* AST_POST_INCDEC *)
| Idx (a i : expr)                     (* AST_ARRAY_REF *)
| Mem (a : expr) (m : nat)             (* AST_MEMBER_ACCESS *)
| Arrow (a : expr) (m : nat)           (* AST_ARROW_ACCESS *)
| Call (f : nat) (args : list expr)    (* AST_FUNC_CALL; Call 0 [e] = sizeof(e), AST_SIZEOF_EXPR *)
| MCall (arrow : bool) (a : expr) (m : nat) (args : list expr)   (* a.m(args) / a->m(args): AST_FUNC_CALL with receiver *)
| Tern (c a b : expr)                  (* AST_TERNARY_OP *)
| Asg (o : option binop) (l r : expr)  (* AST_ASSIGN; op= is desugared when dumped *)
| EProp (a : expr)                     (* result only: AST_ERROR_PROPAGATION  e? *)
| Cast (ty : list tok) (a : expr)      (* AST_CAST_EXPR "( type ) unary"; source construct for keyword types *)
| SizeofT                              (* result only: sizeof(Type) *)
| ArrLit (l : list expr)               (* AST_ARRAY_LITERAL  [ e , ... ] *)
| Generic (n : nat) (call : expr).     (* result only: ident<targs>(args), n type arguments *)

Inductive res (A : Type) := Ok (a : A) | Err | Fuel.
Arguments Ok {A} a.
Arguments Err {A}.
Arguments Fuel {A}.

Definition bind {A B} (x : res A) (k : A -> res B) : res B :=
  match x with Ok a => k a | Err => Err | Fuel => Fuel end.

(* ------------------------------------------------------------------ level tables *)
Definition binop_idx (o : binop) : nat :=
  match o with
  | Or => 0 | And => 1 | BOr => 2 | BXor => 3 | BAnd => 4 | EqO => 5 | NeO => 6 | LtO => 7
  | LeO => 8 | GtO => 9 | GeO => 10 | Shl => 11 | Shr => 12 | Add => 13 | Sub => 14
  | Mul => 15 | Div => 16 | Mod => 17
  end.
Definition binop_eqb (a b : binop) : bool := binop_idx a =? binop_idx b.

Definition all_binops : list binop :=
  [Or; And; BOr; BXor; BAnd; EqO; NeO; LtO; LeO; GtO; GeO; Shl; Shr; Add; Sub; Mul; Div; Mod].

Definition table := list (list binop).

Fixpoint lvl_from (k : nat) (t : table) (o : binop) : nat :=
  match t with
  | [] => 0
  | ops :: t' => if existsb (binop_eqb o) ops then k else lvl_from (S k) t' o
  end.
(* 1-based index of the ladder function whose loop accepts [o]; 0 = no loop accepts it *)
Definition lvl (t : table) (o : binop) : nat := lvl_from 1 t o.

Definition table_total (t : table) : bool := forallb (fun o => 1 <=? lvl t o) all_binops.

(* docs/spec.md:309 and docs/BNF.md:407 (lowest first) *)
Definition spec_table : table :=
  [[Or]; [And]; [BOr]; [BXor]; [BAnd]; [EqO; NeO]; [LtO; LeO; GtO; GeO]; [Shl; Shr]; [Add; Sub];
   [Mul; Div; Mod]].

(* the ladder the model (and the extracted driver) is pinned to: since fix 4d0a4b7 (parseRelational
   split off parseComparison) it is the documented table *)
Definition pinned_table : table := spec_table.

(* the ladder before 4d0a4b7 (== != on the relational level); kept for the record and for the mutant
   that reverts the repair *)
Definition old_table : table :=
  [[Or]; [And]; [BOr]; [BXor]; [BAnd]; [EqO; NeO; LtO; LeO; GtO; GeO]; [Shl; Shr]; [Add; Sub];
   [Mul; Div; Mod]].

(* ------------------------------------------------------------------ look-aheads *)
(* primary_expression_parser.cpp, generic-call look-ahead after `ident <` (since fix 9bd33cd): skip to
   the matching `>` counting only TOK_LT / TOK_GT, but give up (it is the comparison operator) at the
   first token that cannot occur in a type-argument list: ; ( ) { } = + - && || .  A call iff `(`
   follows the matching `>`. *)
Fixpoint generic_scan (depth : nat) (ts : list tok) : bool :=
  match ts with
  | [] => false
  | (TSemi | TLP | TRP | TRBrace | TAsg None | TOp Add | TOp Sub | TOp And | TOp Or) :: _ => false
  | TOp LtO :: r => generic_scan (S depth) r
  | TOp GtO :: r =>
      match depth with
      | S (S d) => generic_scan (S d) r
      | _ => match r with TLP :: _ => true | _ => false end
      end
  | _ :: r => generic_scan depth r
  end.

(* since fix 98a0163 the look-ahead reads at most [scan_bound] tokens (`if (++scanned_tokens > 256) break;`):
   [generic_scan_b n] is the loop as coded, [n] = tokens it may still examine; when they run out `<` is
   the comparison operator.  [generic_scan] above stays the bound-free hazard: the bounded scan answers
   "call" only where the unbounded one does (Theorems.scan_b_implies_scan). *)
Fixpoint generic_scan_b (n depth : nat) (ts : list tok) : bool :=
  match n with
  | O => false
  | S n =>
    match ts with
    | [] => false
    | (TSemi | TLP | TRP | TRBrace | TAsg None | TOp Add | TOp Sub | TOp And | TOp Or) :: _ => false
    | TOp LtO :: r => generic_scan_b n (S depth) r
    | TOp GtO :: r =>
        match depth with
        | S (S d) => generic_scan_b n (S d) r
        | _ => match r with TLP :: _ => true | _ => false end
        end
    | _ :: r => generic_scan_b n depth r
    end
  end.
Definition scan_bound : nat := 256.

(* primary_expression_parser.cpp:392-470: the type-argument list of a generic call.
   [targs_one d ts] = inner `while (true)` for one argument (d = type_depth, ne = "type_arg is
   non-empty"); stops before a `>` or `,` at depth 0. *)
Fixpoint targs_one (d : nat) (ne : bool) (ts : list tok) : option (bool * list tok) :=
  match ts with
  | [] => None
  | t :: r =>
      match t with
      | TOp GtO => match d with O => Some (ne, ts) | S d' => targs_one d' true r end
      | TComma => match d with O => Some (ne, ts) | S _ => None end
      | TOp LtO => targs_one (S d) true r
      | TId _ | TOp Mul | TLB | TRB | TNum _ | TKw _ => targs_one d true r
      | _ => None
      end
  end.
(* the `do { ... } while (true)` around it; returns the number of non-empty arguments and the
   tokens after the closing `>`.  [fuel] bounds the number of arguments (<= length ts). *)
Fixpoint targs_list (fuel : nat) (n : nat) (ts : list tok) : option (nat * list tok) :=
  match fuel with
  | O => None
  | S f =>
      match targs_one 0 false ts with
      | None => None
      | Some (ne, r) =>
          let n' := if ne then S n else n in
          match r with
          | TComma :: r' => targs_list f n' r'
          | TOp GtO :: r' => Some (n', r')
          | _ => None
          end
      end
  end.

(* type_utility_parser.cpp parseType, entered at an identifier that names no type:
   ident, '*'*, then '&&' | '&' '&'? , then '[' (number|ident)? ']' *.  Returns the consumed type
   tokens and the rest; None = parseType throws (a missing ']'). *)
Fixpoint ty_dims (acc : list tok) (ts : list tok) : option (list tok * list tok) :=
  match ts with
  | TLB :: TNum n :: TRB :: r => ty_dims (acc ++ [TLB; TNum n; TRB]) r
  | TLB :: TId x :: TRB :: r => ty_dims (acc ++ [TLB; TId x; TRB]) r
  | TLB :: TRB :: r => ty_dims (acc ++ [TLB; TRB]) r
  | TLB :: _ => None
  | _ => Some (acc, ts)
  end.
Definition ty_refs (acc : list tok) (ts : list tok) : option (list tok * list tok) :=
  match ts with
  | TOp And :: r => ty_dims (acc ++ [TOp And]) r
  | TOp BAnd :: TOp BAnd :: r => ty_dims (acc ++ [TOp And]) r
  | TOp BAnd :: r => ty_dims (acc ++ [TOp BAnd]) r
  | _ => ty_dims acc ts
  end.
Fixpoint ty_stars (acc : list tok) (ts : list tok) : option (list tok * list tok) :=
  match ts with
  | TOp Mul :: r => ty_stars (acc ++ [TOp Mul]) r
  | _ => ty_refs acc ts
  end.
(* primary_expression_parser.cpp, cast-vs-parenthesis look-ahead (since fix 34a2124): `(` was consumed;
   a keyword type, or an identifier that names a declared type (may_be_type: typedef_map_ /
   struct_ / enum_ / union_ / interface_definitions_ / a type parameter - NOT the spelling of the
   name), is tried as a type; then a cast iff parseType succeeds and `)` follows.  Returns the type
   and the tokens after `)`.  A `(` directly after the base type starts a function type
   (`int(int)`): not modelled, answered "no cast" (the harness keeps such streams out). *)
Definition cast_from (t : tok) (r : list tok) : option (list tok * list tok) :=
  match r with
  | TLP :: _ => None
  | _ => match ty_stars [t] r with
         | Some (ty, TRP :: r') => Some (ty, r')
         | _ => None
         end
  end.
Definition cast_type (ts : list tok) : option (list tok * list tok) :=
  match ts with
  | TKw k :: r => cast_from (TKw k) r
  | TId x :: r => if id_type x then cast_from (TId x) r else None
  | _ => None
  end.

(* primary_expression_parser.cpp:241-301, the `Name<T>` heuristic: an identifier with an upper-case
   initial directly followed by `<` is taken for a generic type name and the tokens up to the matching
   `>` are skipped ([depth] open brackets); only tokens of a type-argument list may occur, anything
   else (and the end of input) is a parse error.  Returns the tokens after the closing `>`. *)
Fixpoint upper_skip (depth : nat) (ts : list tok) : option (list tok) :=
  match ts with
  | [] => None
  | t :: r =>
      match t with
      | TOp LtO => upper_skip (S depth) r
      | TOp GtO => match depth with S (S d) => upper_skip (S d) r | _ => Some r end
      | TComma | TId _ | TOp Mul | TLB | TRB | TNum _ | TKw _ => upper_skip depth r
      | _ => None
      end
  end.
Definition name_skip (x : nat) (r : list tok) : option (list tok) :=
  if id_upper x then match r with TOp LtO :: r1 => upper_skip 1 r1 | _ => Some r end else Some r.

(* primary_expression_parser.cpp:163-231, sizeof( ... ): the operand is taken for a TYPE when it starts
   with a keyword type (tiny is missing from the list) or with an upper-case identifier: then one
   token, an optional <...> (skipped without looking at the tokens), '*'s. *)
Definition sizeof_type_start (ts : list tok) : bool :=
  match ts with
  | TKw k :: _ => negb (k =? 3)
  | TId y :: _ => id_upper y
  | _ => false
  end.
Fixpoint sz_skip (depth : nat) (ts : list tok) : list tok :=
  match ts with
  | [] => []
  | TOp LtO :: r => sz_skip (S depth) r
  | TOp GtO :: r => match depth with S (S d) => sz_skip (S d) r | _ => r end
  | _ :: r => sz_skip depth r
  end.
Fixpoint skip_stars (ts : list tok) : list tok :=
  match ts with TOp Mul :: r => skip_stars r | _ => ts end.
(* tokens after the type, [] when there is none *)
Definition sizeof_type (ts : list tok) : list tok :=
  match ts with
  | _ :: TOp LtO :: r => skip_stars (sz_skip 1 r)
  | _ :: r => skip_stars r
  | [] => []
  end.

(* ------------------------------------------------------------------ parser *)
Definition closer (ts : list tok) : bool :=
  match ts with
  | [] => true
  | (TSemi | TComma | TRP | TRBrace | TRB) :: _ => true
  | _ => false
  end.

Definition unary_tok (ts : list tok) : option (unop * list tok) :=
  match ts with
  | TNot :: r => Some (Not, r)
  | TOp Sub :: r => Some (Neg, r)
  | TTilde :: r => Some (BNot, r)
  | TOp BAnd :: r => Some (Addr, r)
  | TOp Mul :: r => Some (Deref, r)
  | TAwait :: r => Some (Await, r)
  | TTry :: r => Some (TryE, r)
  | TChecked :: r => Some (Checked, r)
  | _ => None
  end.

(* expression_parser.cpp parseAssignment: which left-hand sides are accepted *)
Definition valid_target (o : option binop) (l : expr) : bool :=
  match l with
  | Var _ | Idx _ _ | Mem _ _ | Arrow _ _ => true
  | Un Deref _ => match o with None => true | Some _ => false end
  | _ => false
  end.

Definition starts_lp (ts : list tok) : bool := match ts with TLP :: _ => true | _ => false end.

Section Parser.
Variable tbl : table.
Let L := length tbl.

Fixpoint p_assign (f : nat) (ts : list tok) {struct f} : res (expr * list tok) :=
  match f with
  | O => Fuel
  | S f =>
      (* parseAssignment: left = parseTernary(); if an assignment token follows, the right side is
         parseAssignment() (right associative) and the target is checked afterwards *)
      bind (p_tern f ts) (fun lr =>
        match lr with
        | (l, TAsg o :: r) =>
            bind (p_assign f r) (fun vr =>
              let (v, r') := vr in
              if valid_target o l then Ok (Asg o l v, r') else Err)
        | _ => Ok lr
        end)
  end
with p_tern (f : nat) (ts : list tok) {struct f} : res (expr * list tok) :=
  match f with
  | O => Fuel
  | S f =>
      (* RecursiveParser::parseTernary *)
      bind (p_bin f 1 ts) (fun cr =>
        match cr with
        | (c, TQ :: r) =>
            if closer r then Ok (EProp c, r)        (* `e?` before ; , ) } ] EOF *)
            else
              match p_tern f r with
              | Ok (a, TColon :: r2) =>
                  match p_tern f r2 with
                  | Ok (b, r3) => Ok (Tern c a b, r3)
                  | Err => Ok (EProp c, r)          (* catch (...): back to just after `?` *)
                  | Fuel => Fuel
                  end
              | Ok _ => Ok (EProp c, r)             (* no `:` : backtrack *)
              | Err => Ok (EProp c, r)              (* catch (...) *)
              | Fuel => Fuel
              end
        | _ => Ok cr
        end)
  end
with p_bin (f : nat) (l : nat) (ts : list tok) {struct f} : res (expr * list tok) :=
  match f with
  | O => Fuel
  | S f =>
      (* ladder function number l (1 = parseLogicalOr); above the table: parseUnary *)
      if L <? l then p_unary f ts
      else bind (p_bin f (S l) ts) (fun ar => let (a, r) := ar in bin_loop f l a r)
  end
with bin_loop (f : nat) (l : nat) (acc : expr) (ts : list tok) {struct f} : res (expr * list tok) :=
  match f with
  | O => Fuel
  | S f =>
      (* while (check(one of the level's tokens)) { right = next level; left = binary } *)
      match ts with
      | TOp o :: r =>
          if lvl tbl o =? l then
            bind (p_bin f (S l) r) (fun br => let (b, r') := br in bin_loop f l (Bin o acc b) r')
          else Ok (acc, ts)
      | _ => Ok (acc, ts)
      end
  end
with p_unary (f : nat) (ts : list tok) {struct f} : res (expr * list tok) :=
  match f with
  | O => Fuel
  | S f =>
      match unary_tok ts with
      | Some (u, r) => bind (p_unary f r) (fun ar => let (a, r') := ar in Ok (Un u a, r'))
      | None =>
          match ts with
          | TInc :: r =>      (* operand = parsePostfix() *)
              bind (bind (p_primary f r) (fun er => let (e, r1) := er in post_loop f e r1))
                   (fun ar => let (a, r') := ar in Ok (Pre true a, r'))
          | TDec :: r =>
              bind (bind (p_primary f r) (fun er => let (e, r1) := er in post_loop f e r1))
                   (fun ar => let (a, r') := ar in Ok (Pre false a, r'))
          | _ => bind (p_primary f ts) (fun er => let (e, r1) := er in post_loop f e r1)
          end
      end
  end
with post_loop (f : nat) (e : expr) (ts : list tok) {struct f} : res (expr * list tok) :=
  match f with
  | O => Fuel
  | S f =>
      (* parsePostfix after parsePrimary: [] . -> in a loop, then at most one ++/-- *)
      match ts with
      | TLB :: r =>
          bind (p_assign f r) (fun ir =>
            match ir with
            | (i, TRB :: r') => post_loop f (Idx e i) r'
            | _ => Err
            end)
      | TDot :: TId m :: r =>        (* parseMemberAccess: a method call when `(` follows *)
          match r with
          | TLP :: r1 => bind (p_args f true r1) (fun ar => let (args, r2) := ar in post_loop f (MCall false e m args) r2)
          | _ => post_loop f (Mem e m) r
          end
      | TDot :: _ => Err
      | TArrow :: TId m :: r =>      (* parseArrowAccess *)
          match r with
          | TLP :: r1 => bind (p_args f true r1) (fun ar => let (args, r2) := ar in post_loop f (MCall true e m args) r2)
          | _ => post_loop f (Arrow e m) r
          end
      | TArrow :: _ => Err
      | TInc :: r => Ok (Post true e, r)
      | TDec :: r => Ok (Post false e, r)
      | TLP :: _ => match e with Un Deref _ => Err (* call through a dereferenced function pointer: not modelled *) | _ => Ok (e, ts) end
      | _ => Ok (e, ts)
      end
  end
with p_primary (f : nat) (ts : list tok) {struct f} : res (expr * list tok) :=
  match f with
  | O => Fuel
  | S f =>
      match ts with
      | TNum n :: r => Ok (Num n, r)
      | TId x :: r =>
          if is_sizeof x && starts_lp r then
            (* sizeof( type | expression ) *)
            match r with
            | TLP :: r1 =>
                if sizeof_type_start r1 then
                  match sizeof_type r1 with
                  | TRP :: r2 => Ok (SizeofT, r2)
                  | _ => Err
                  end
                else
                  bind (p_assign f r1) (fun er =>
                    match er with
                    | (e, TRP :: r2) => Ok (Call x [e], r2)
                    | _ => Err
                    end)
            | _ => Err
            end
          else
            match name_skip x r with        (* the `Name<T>` heuristic for upper-case names *)
            | None => Err
            | Some (TOp LtO :: r1) =>
                if generic_scan_b scan_bound 1 r1 then
                  (* taken for a generic call: parse the type arguments, then the call *)
                  match targs_list (S (length r1)) 0 r1 with
                  | Some (n, TLP :: r2) =>
                      bind (p_args f false r2) (fun ar =>
                        let (args, r3) := ar in
                        if starts_lp r3 then Err (* chained call: not modelled *)
                        else Ok (Generic n (Call x args), r3))
                  | Some (_, r2) => Ok (Var x, r2)
                  | None => Err
                  end
                else Ok (Var x, TOp LtO :: r1)
            | Some (TLP :: r1) =>
                bind (p_args f false r1) (fun ar =>
                  let (args, r2) := ar in
                  if starts_lp r2 then Err (* chained call f(x)(y): not modelled *)
                  else Ok (Call x args, r2))
            | Some r0 => Ok (Var x, r0)
            end
      | TLB :: r =>       (* parseArrayLiteral *)
          bind (p_elems f r) (fun lr => let (l, r') := lr in Ok (ArrLit l, r'))
      | TLP :: r =>
          match cast_type r with
          | Some (ty, r') =>   (* "(type) unary" *)
              bind (p_unary f r') (fun ar => let (a, r2) := ar in Ok (Cast ty a, r2))
          | None =>
              bind (p_assign f r) (fun er =>
                match er with
                | (e, TRP :: r') => Ok (e, r')
                | _ => Err
                end)
          end
      | _ => Err
      end
  end
with p_args (f : nat) (trail : bool) (ts : list tok) {struct f} : res (list expr * list tok) :=
  match f with
  | O => Fuel
  | S f =>
      (* `(` consumed: if (!check(RPAREN)) do { parseExpression } while (match(COMMA)); consume(RPAREN).
         [trail]: the argument loop of parseMemberAccess / parseArrowAccess (method calls) leaves when
         `)` follows a comma, i.e. it accepts a trailing comma; a function call does not *)
      match ts with
      | TRP :: r => Ok ([], r)
      | _ =>
          bind (p_assign f ts) (fun ar =>
            match ar with
            | (a, TComma :: r) =>
                match r with
                | TRP :: r' => if trail then Ok ([a], r') else Err      (* after a comma an expression is required *)
                | _ => bind (p_args f trail r) (fun asr => let (l, r') := asr in Ok (a :: l, r'))
                end
            | (a, TRP :: r) => Ok ([a], r)
            | _ => Err
            end)
      end
  end
with p_elems (f : nat) (ts : list tok) {struct f} : res (list expr * list tok) :=
  match f with
  | O => Fuel
  | S f =>
      (* `[` consumed: while (!check(RBRACKET) && !isAtEnd()) { parseExpression; `,` or `]` must follow };
         consume(RBRACKET): a trailing comma is accepted ({...} struct-literal elements are not modelled) *)
      match ts with
      | TRB :: r => Ok ([], r)
      | _ =>
          bind (p_assign f ts) (fun ar =>
            match ar with
            | (a, TComma :: r) => bind (p_elems f r) (fun lr => let (l, r') := lr in Ok (a :: l, r'))
            | (a, TRB :: r) => Ok ([a], r)
            | _ => Err
            end)
      end
  end.

End Parser.

(* fuel that is always enough for the driver: every call consumes one unit and the ladder is
   walked once per primary *)
Definition enough_fuel (t : table) (ts : list tok) : nat := (length t + 12) * (2 * length ts + 4).

Definition parse (t : table) (ts : list tok) : res (expr * list tok) :=
  p_assign t (enough_fuel t ts) ts.

(* ------------------------------------------------------------------ printer *)
Definition utok (u : unop) : tok :=
  match u with Not => TNot | Neg => TOp Sub | BNot => TTilde | Addr => TOp BAnd | Deref => TOp Mul
  | Await => TAwait | TryE => TTry | Checked => TChecked end.
Definition itok (inc : bool) : tok := if inc then TInc else TDec.

(* ranks of contexts / expression kinds, for a table with L levels:
   0 assignment, 1 ternary, k+1 binary level k (1..L), L+2 unary, L+3 postfix incl. final ++/--,
   L+4 postfix chain ([] . ->), L+5 primary *)
Section Printer.
Variable tbl : table.
Let L := length tbl.

Definition lev (e : expr) : nat :=
  match e with
  | Asg _ _ _ => 0
  | Tern _ _ _ | EProp _ => 1
  | Bin o _ _ => lvl tbl o + 1
  | Un _ _ | Pre _ _ | Cast _ _ => L + 2
  | Post _ _ => L + 3
  | Idx _ _ | Mem _ _ | Arrow _ _ | MCall _ _ _ _ => L + 4
  | Num _ | Var _ | Par _ | Call _ _ | Generic _ _ | SizeofT | ArrLit _ => L + 5
  end.

Fixpoint pr (c : nat) (e : expr) {struct e} : list tok :=
  let body :=
    match e with
    | Num n => [TNum n]
    | Var x => [TId x]
    | Par a => TLP :: pr 0 a ++ [TRP]
    | Bin o a b => pr (lvl tbl o + 1) a ++ TOp o :: pr (lvl tbl o + 2) b
    | Un u a => utok u :: pr (L + 2) a
    | Pre d a => itok d :: pr (L + 3) a
    | Post d a => pr (L + 4) a ++ [itok d]
    | Idx a i => pr (L + 4) a ++ TLB :: pr 0 i ++ [TRB]
    | Mem a m => pr (L + 4) a ++ [TDot; TId m]
    | Arrow a m => pr (L + 4) a ++ [TArrow; TId m]
    | Call f args =>
        TId f :: TLP ::
        (fix go (l : list expr) : list tok :=
           match l with
           | [] => [TRP]
           | a :: l' => pr 0 a ++ match l' with [] => [TRP] | _ => TComma :: go l' end
           end) args
    | MCall ar a m args =>
        pr (L + 4) a ++ (if ar then TArrow else TDot) :: TId m :: TLP ::
        (fix go (l : list expr) : list tok :=
           match l with
           | [] => [TRP]
           | a :: l' => pr 0 a ++ match l' with [] => [TRP] | _ => TComma :: go l' end
           end) args
    | Tern c0 a b => pr 2 c0 ++ TQ :: pr 1 a ++ TColon :: pr 1 b
    | Asg o l r => pr 1 l ++ TAsg o :: pr 0 r
    | EProp a => pr 2 a ++ [TQ]
    | Cast ty a => TLP :: ty ++ TRP :: pr (L + 2) a
    | Generic _ a => pr (L + 5) a
    | SizeofT => [TId 0; TLP; TKw 0; TRP]
    | ArrLit l =>
        TLB ::
        (fix go (l : list expr) : list tok :=
           match l with
           | [] => [TRB]
           | a :: l' => pr 0 a ++ match l' with [] => [TRB] | _ => TComma :: go l' end
           end) l
    end in
  if c <=? lev e then body else TLP :: body ++ [TRP].

End Printer.

(* erase the explicit parentheses *)
Fixpoint strip (e : expr) : expr :=
  match e with
  | Num n => Num n
  | Var x => Var x
  | Par a => strip a
  | Bin o a b => Bin o (strip a) (strip b)
  | Un u a => Un u (strip a)
  | Pre d a => Pre d (strip a)
  | Post d a => Post d (strip a)
  | Idx a i => Idx (strip a) (strip i)
  | Mem a m => Mem (strip a) m
  | Arrow a m => Arrow (strip a) m
  | Call f args => Call f (map strip args)
  | MCall ar a m args => MCall ar (strip a) m (map strip args)
  | Tern c a b => Tern (strip c) (strip a) (strip b)
  | Asg o l r => Asg o (strip l) (strip r)
  | EProp a => EProp (strip a)
  | Cast ty a => Cast ty (strip a)
  | Generic n a => Generic n (strip a)
  | SizeofT => SizeofT
  | ArrLit l => ArrLit (map strip l)
  end.

(* the types of source casts: a keyword type followed by '*'s *)
Definition is_star (t : tok) : bool := match t with TOp Mul => true | _ => false end.
Definition wf_ty (ty : list tok) : bool :=
  match ty with TKw _ :: st => forallb is_star st | _ => false end.

(* source expressions the round-trip theorem speaks about: built from the documented operators
   (no result-only node), assignment targets the parser accepts, sizeof with exactly one operand,
   casts to keyword types *)
Fixpoint wf (e : expr) : bool :=
  match e with
  | Num _ | Var _ => true
  | Par a | Un _ a | Pre _ a | Post _ a | Mem a _ | Arrow a _ => wf a
  | Bin _ a b | Idx a b => wf a && wf b
  | Call f args => forallb wf args && (if is_sizeof f then length args =? 1 else true)
  | MCall _ a _ args => wf a && forallb wf args
  | Tern c a b => wf c && wf a && wf b
  | Asg o l r => wf l && wf r && valid_target o (strip l)
  | Cast ty a => wf_ty ty && wf a
  | ArrLit l => forallb wf l
  | EProp _ | Generic _ _ | SizeofT => false
  end.

(* every operand in explicit parentheses ("fully parenthesised"); literals and identifiers stay bare *)
Definition atomic (e : expr) : bool := match e with Num _ | Var _ => true | _ => false end.
Definition wrap (e : expr) : expr := if atomic e then e else Par e.
Fixpoint full (e : expr) : expr :=
  match e with
  | Num n => Num n
  | Var x => Var x
  | Par a => full a
  | Bin o a b => Bin o (wrap (full a)) (wrap (full b))
  | Un u a => Un u (wrap (full a))
  | Pre d a => Pre d (wrap (full a))
  | Post d a => Post d (wrap (full a))
  | Idx a i => Idx (wrap (full a)) (full i)
  | Mem a m => Mem (wrap (full a)) m
  | Arrow a m => Arrow (wrap (full a)) m
  | Call f args => Call f (map full args)
  | MCall ar a m args => MCall ar (wrap (full a)) m (map full args)
  | Tern c a b => Tern (wrap (full c)) (wrap (full a)) (wrap (full b))
  | Asg o l r => Asg o (full l) (wrap (full r))
  | EProp a => EProp (full a)
  | Cast ty a => Cast ty (wrap (full a))
  | Generic n a => Generic n (full a)
  | SizeofT => SizeofT
  | ArrLit l => ArrLit (map full l)
  end.

(* ------------------------------------------------------------------ hazards of the primary level *)
Definition is_id (t : tok) : bool := match t with TId _ => true | _ => false end.

(* [safeb ts]: the stream trips none of the four token-shape heuristics of parsePrimary (each a known
   finding, each clause exact):
   (a) `ident < (tokens that may occur in type arguments) > (` - the generic-call look-ahead
       (C02-generic-lookahead: at parse time nothing tells a generic function name from a variable);
   (b) `Ident <` with an upper-case initial - the `Name<T>` heuristic (C02-upper-ident-lt);
   (c) `sizeof ( Ident` with an upper-case initial - the sizeof heuristic (C02-sizeof-upper-ident);
   (d) `( T '*'* ... )` where the identifier T names a declared type and the `(` opens a primary
       expression - the cast look-ahead (C02-type-named-variable-cast).
   [prev] is the kind of the preceding token: after `.`/`->` an identifier is a member name (no
   primary, none of (a)-(c)); a `(` directly after an identifier opens an argument list (no primary
   parenthesis, no (d)).  A non-type identifier in parentheses is never a cast (fix 34a2124). *)
Inductive pkind := PkNone | PkId | PkDot.
Definition pk_of (t : tok) : pkind :=
  match t with TId _ => PkId | TDot | TArrow => PkDot | _ => PkNone end.
Definition hazard (prev : pkind) (t : tok) (r : list tok) : bool :=
  match t with
  | TId x =>
      match prev with
      | PkDot => false
      | _ => match r with
             | TOp LtO :: r1 => id_upper x || generic_scan 1 r1
             | TLP :: TId y :: _ => is_sizeof x && id_upper y
             | _ => false
             end
      end
  | TLP =>
      match prev with
      | PkId => false
      | _ => match r with
             | TId _ :: _ => match cast_type r with Some _ => true | None => false end
             | _ => false
             end
      end
  | _ => false
  end.
Fixpoint safe_from (prev : pkind) (ts : list tok) : bool :=
  match ts with
  | [] => true
  | t :: r => negb (hazard prev t r) && safe_from (pk_of t) r
  end.
Definition safeb (ts : list tok) : bool := safe_from PkNone ts.

(* a purely syntactic sufficient condition: no `>` directly before `(`, no upper-case identifier
   directly before `<` or directly after `sizeof (`, no type-named identifier directly after `(` *)
Fixpoint syn_safe (ts : list tok) : bool :=
  match ts with
  | [] => true
  | t :: r =>
      negb (match t, r with
            | TOp GtO, TLP :: _ => true
            | TId x, TOp LtO :: _ => id_upper x
            | TId x, TLP :: TId y :: _ => is_sizeof x && id_upper y
            | TLP, TId y :: _ => id_type y
            | _, _ => false
            end) && syn_safe r
  end.

(* the generator's syntactic avoidance for the generic look-ahead: no `>` directly before `(` *)
Fixpoint no_gt_lp (ts : list tok) : bool :=
  match ts with
  | TOp GtO :: ((TLP :: _) as r) => false
  | _ :: r => no_gt_lp r
  | [] => true
  end.

(* which tokens may follow an expression parsed in a context of rank c *)
Definition folb (t : table) (c : nat) (rest : list tok) : bool :=
  match rest with
  | [] => true
  | x :: _ =>
      match x with
      | TRP | TRB | TComma | TColon | TSemi | TRBrace => true
      | TOp o => lvl t o + 1 <? c
      | TQ => 2 <=? c
      | TAsg _ => 1 <=? c
      | _ => false
      end
  end.

(* ------------------------------------------------------------------ evaluation (pure fragment) *)
Definition in32 (z : Z) : bool := (Z.leb (-2147483648) z && Z.leb z 2147483647)%Z.
Definition b2z (b : bool) : Z := if b then 1%Z else 0%Z.

Definition eval_bin (o : binop) (x y : Z) : option Z :=
  match o with
  | Or => Some (b2z (negb (Z.eqb x 0) || negb (Z.eqb y 0)))
  | And => Some (b2z (negb (Z.eqb x 0) && negb (Z.eqb y 0)))
  | BOr => Some (Z.lor x y)
  | BXor => Some (Z.lxor x y)
  | BAnd => Some (Z.land x y)
  | EqO => Some (b2z (Z.eqb x y))
  | NeO => Some (b2z (negb (Z.eqb x y)))
  | LtO => Some (b2z (Z.ltb x y))
  | LeO => Some (b2z (Z.leb x y))
  | GtO => Some (b2z (Z.ltb y x))
  | GeO => Some (b2z (Z.leb y x))
  | Shl => if (Z.leb 0 y && Z.leb y 31)%Z then Some (Z.shiftl x y) else None
  | Shr => if (Z.leb 0 y && Z.leb y 31)%Z then Some (Z.shiftr x y) else None
  | Add => Some (x + y)%Z
  | Sub => Some (x - y)%Z
  | Mul => Some (x * y)%Z
  | Div => if Z.eqb y 0 then None else Some (Z.quot x y)
  | Mod => if Z.eqb y 0 then None else Some (Z.rem x y)
  end.

(* value of a side-effect-free integer expression; [fn] interprets calls (the harness declares two
   pure functions); None = outside the fragment, division by zero, shift count outside 0..31, or
   an intermediate value outside the 32-bit range *)
Definition chk32 (r : option Z) : option Z :=
  match r with Some z => if in32 z then Some z else None | None => None end.

Fixpoint eval_fn (fn : nat -> list Z -> option Z) (env : nat -> Z) (e : expr) : option Z :=
  match e with
  | Num n => chk32 (Some (Z.of_N n))
  | Var x => chk32 (Some (env x))
  | Par a => eval_fn fn env a
  | Bin o a b =>
      match eval_fn fn env a, eval_fn fn env b with
      | Some x, Some y => chk32 (eval_bin o x y)
      | _, _ => None
      end
  | Un Not a => match eval_fn fn env a with Some x => Some (b2z (Z.eqb x 0)) | None => None end
  | Un Neg a => match eval_fn fn env a with Some x => chk32 (Some (- x)%Z) | None => None end
  | Un BNot a => match eval_fn fn env a with Some x => chk32 (Some (Z.lnot x)) | None => None end
  | Tern c a b =>
      match eval_fn fn env c, eval_fn fn env a, eval_fn fn env b with
      | Some x, Some y, Some z => Some (if Z.eqb x 0 then z else y)
      | _, _, _ => None
      end
  | Cast [TKw 0] a => eval_fn fn env a          (* (int) of a 32-bit value *)
  | Call f args =>
      match (fix go (l : list expr) : option (list Z) :=
               match l with
               | [] => Some []
               | a :: l' => match eval_fn fn env a, go l' with
                            | Some x, Some xs => Some (x :: xs)
                            | _, _ => None
                            end
               end) args with
      | Some vs => chk32 (fn f vs)
      | None => None
      end
  | _ => None
  end.

Definition eval (env : nat -> Z) (e : expr) : option Z := eval_fn (fun _ _ => None) env e.
