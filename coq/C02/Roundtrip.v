(* C02 - the round-trip theorem: for every level table in which every binary operator has a level,
   every well-formed source expression e (any explicit parentheses), every follow context the
   grammar allows, if the printed token stream trips neither look-ahead of parsePrimary then
   the parser returns [strip e] and leaves exactly the follow context. *)
From Coq Require Import List Arith Lia Bool NArith.
From Cb Require Import C02.Model C02.Mono C02.Rules.
Import ListNotations.

(* ------------------------------------------------------------------ induction principle (nested lists) *)
Section ExprInd.
Variable P : expr -> Prop.
Hypothesis HNum : forall n, P (Num n).
Hypothesis HVar : forall x, P (Var x).
Hypothesis HPar : forall a, P a -> P (Par a).
Hypothesis HBin : forall o a b, P a -> P b -> P (Bin o a b).
Hypothesis HUn : forall u a, P a -> P (Un u a).
Hypothesis HPre : forall d a, P a -> P (Pre d a).
Hypothesis HPost : forall d a, P a -> P (Post d a).
Hypothesis HIdx : forall a i, P a -> P i -> P (Idx a i).
Hypothesis HMem : forall a m, P a -> P (Mem a m).
Hypothesis HArrow : forall a m, P a -> P (Arrow a m).
Hypothesis HCall : forall f args, Forall P args -> P (Call f args).
Hypothesis HMCall : forall ar a m args, P a -> Forall P args -> P (MCall ar a m args).
Hypothesis HTern : forall c a b, P c -> P a -> P b -> P (Tern c a b).
Hypothesis HAsg : forall o l r, P l -> P r -> P (Asg o l r).
Hypothesis HEProp : forall a, P a -> P (EProp a).
Hypothesis HCast : forall ty a, P a -> P (Cast ty a).
Hypothesis HGeneric : forall n a, P a -> P (Generic n a).
Hypothesis HSizeofT : P SizeofT.
Hypothesis HArrLit : forall l, Forall P l -> P (ArrLit l).

Fixpoint expr_ind2 (e : expr) : P e :=
  match e with
  | Num n => HNum n
  | Var x => HVar x
  | Par a => HPar a (expr_ind2 a)
  | Bin o a b => HBin o a b (expr_ind2 a) (expr_ind2 b)
  | Un u a => HUn u a (expr_ind2 a)
  | Pre d a => HPre d a (expr_ind2 a)
  | Post d a => HPost d a (expr_ind2 a)
  | Idx a i => HIdx a i (expr_ind2 a) (expr_ind2 i)
  | Mem a m => HMem a m (expr_ind2 a)
  | Arrow a m => HArrow a m (expr_ind2 a)
  | Call f args =>
      HCall f args ((fix go (l : list expr) : Forall P l :=
                       match l with
                       | [] => Forall_nil P
                       | a :: l' => Forall_cons a (expr_ind2 a) (go l')
                       end) args)
  | MCall ar a m args =>
      HMCall ar a m args (expr_ind2 a)
             ((fix go (l : list expr) : Forall P l :=
                 match l with
                 | [] => Forall_nil P
                 | a :: l' => Forall_cons a (expr_ind2 a) (go l')
                 end) args)
  | Tern c a b => HTern c a b (expr_ind2 c) (expr_ind2 a) (expr_ind2 b)
  | Asg o l r => HAsg o l r (expr_ind2 l) (expr_ind2 r)
  | EProp a => HEProp a (expr_ind2 a)
  | Cast ty a => HCast ty a (expr_ind2 a)
  | Generic n a => HGeneric n a (expr_ind2 a)
  | SizeofT => HSizeofT
  | ArrLit l =>
      HArrLit l ((fix go (l : list expr) : Forall P l :=
                    match l with
                    | [] => Forall_nil P
                    | a :: l' => Forall_cons a (expr_ind2 a) (go l')
                    end) l)
  end.
End ExprInd.

(* ------------------------------------------------------------------ the hazard predicate *)
Lemma safe_from_after xs : forall p t ys, safe_from p (xs ++ t :: ys) = true -> safe_from (pk_of t) ys = true.
Proof.
  induction xs as [|x xs IH]; intros p t ys H.
  - cbn [app safe_from] in H. apply andb_true_iff in H. apply H.
  - cbn [app safe_from] in H. apply andb_true_iff in H. eapply IH. apply H.
Qed.

(* the tail after any token that is neither an identifier nor `.`/`->` is safe on its own: every
   sub-expression of a printed expression starts after such a token *)
Lemma safe_after xs t ys : pk_of t = PkNone -> safeb (xs ++ t :: ys) = true -> safeb ys = true.
Proof. intros Hk H. unfold safeb in *. rewrite <- Hk. eapply safe_from_after. exact H. Qed.

Lemma safe_var x R : safeb (TId x :: R) = true ->
  forall r1, R = TOp LtO :: r1 -> id_upper x = false /\ generic_scan 1 r1 = false.
Proof.
  intros H r1 ->. unfold safeb in H. cbn [safe_from hazard] in H. apply andb_true_iff in H. destruct H as [H _].
  apply negb_true_iff in H. apply orb_false_iff in H. exact H.
Qed.

(* first token of a printed expression *)
Definition head_ok (ts : list tok) : bool :=
  match ts with
  | (TNum _ | TId _ | TLP | TLB | TNot | TTilde | TInc | TDec | TOp Sub | TOp BAnd | TOp Mul | TAwait | TTry | TChecked) :: _ => true
  | _ => false
  end.

(* a primary parenthesis around a printed expression is a cast only through hazard (d) *)
Lemma safe_paren ts : head_ok ts = true -> safeb (TLP :: ts) = true -> cast_type ts = None.
Proof.
  intros Hh H. unfold safeb in H. cbn [safe_from hazard] in H. apply andb_true_iff in H. destruct H as [H _].
  apply negb_true_iff in H.
  destruct ts as [|t r]; [reflexivity|]. destruct t; try reflexivity; try discriminate Hh.
  destruct (cast_type (TId x :: r)); [discriminate H|reflexivity].
Qed.

(* sizeof ( printed expression ) takes its operand for a type only through hazard (c) *)
Lemma safe_sizeof x ts : is_sizeof x = true -> head_ok ts = true -> safeb (TId x :: TLP :: ts) = true ->
  sizeof_type_start ts = false.
Proof.
  intros Hz Hh H. unfold safeb in H. cbn [safe_from hazard] in H. apply andb_true_iff in H. destruct H as [H _].
  apply negb_true_iff in H.
  destruct ts as [|t r]; [reflexivity|]. destruct t; try reflexivity; try discriminate Hh.
  rewrite Hz in H. exact H.
Qed.

(* the type of a source cast is recognised by the look-ahead *)
Lemma ty_stars_wf st : forall acc r, forallb is_star st = true ->
  ty_stars acc (st ++ TRP :: r) = Some (acc ++ st, TRP :: r).
Proof.
  induction st as [|t st IH]; intros acc r H.
  - cbn [app]. rewrite app_nil_r. reflexivity.
  - cbn [forallb] in H. apply andb_true_iff in H. destruct H as [Ht Hs].
    destruct t; try discriminate Ht. destruct o; try discriminate Ht.
    cbn [app ty_stars]. rewrite (IH _ _ Hs). rewrite <- app_assoc. reflexivity.
Qed.

Lemma cast_type_wf ty r : wf_ty ty = true -> cast_type (ty ++ TRP :: r) = Some (ty, r).
Proof.
  intros H. destruct ty as [|t st]; [discriminate H|]. destruct t; try discriminate H.
  cbn [wf_ty] in H. cbn [app cast_type]. unfold cast_from.
  rewrite (ty_stars_wf st [TKw k] r H). cbn [app].
  destruct st as [|t st]; [reflexivity|]. cbn [forallb] in H. apply andb_true_iff in H. destruct H as [Ht _].
  destruct t; try discriminate Ht. reflexivity.
Qed.

(* ------------------------------------------------------------------ level tables *)
Lemma lvl_from_bound t o : forall k, lvl_from k t o = 0 \/ (k <= lvl_from k t o < k + length t).
Proof.
  induction t as [|ops t IH]; intros k; cbn [lvl_from length].
  - left; reflexivity.
  - destruct (existsb (binop_eqb o) ops).
    + destruct k; [left; reflexivity|right; lia].
    + destruct (IH (S k)) as [E|E]; [left; exact E|right; lia].
Qed.

Lemma lvl_le t o : lvl t o <= length t.
Proof. unfold lvl. destruct (lvl_from_bound t o 1) as [E|E]; lia. Qed.

Section RT.
Variable tbl : table.
Hypothesis tbl_total : forall o, 1 <= lvl tbl o.
Notation L := (length tbl).

Lemma L_pos : 1 <= L.
Proof. pose proof (tbl_total Or). pose proof (lvl_le tbl Or). lia. Qed.

(* ------------------------------------------------------------------ printer equations *)
Fixpoint pr_args (l : list expr) : list tok :=
  match l with
  | [] => [TRP]
  | a :: l' => pr tbl 0 a ++ match l' with [] => [TRP] | _ => TComma :: pr_args l' end
  end.

Fixpoint pr_elems (l : list expr) : list tok :=
  match l with
  | [] => [TRB]
  | a :: l' => pr tbl 0 a ++ match l' with [] => [TRB] | _ => TComma :: pr_elems l' end
  end.

Lemma pr_eq c e : pr tbl c e = if c <=? lev tbl e then pr tbl 0 e else TLP :: pr tbl 0 e ++ [TRP].
Proof. destruct e; reflexivity. Qed.

Lemma pr_le c e : c <= lev tbl e -> pr tbl c e = pr tbl 0 e.
Proof. intros H. rewrite pr_eq. destruct (Nat.leb_spec c (lev tbl e)); [reflexivity|lia]. Qed.
Lemma pr_gt c e : lev tbl e < c -> pr tbl c e = TLP :: pr tbl 0 e ++ [TRP].
Proof. intros H. rewrite pr_eq. destruct (Nat.leb_spec c (lev tbl e)); [lia|reflexivity]. Qed.

Lemma pr0_par a : pr tbl 0 (Par a) = TLP :: pr tbl 0 a ++ [TRP].
Proof. reflexivity. Qed.
Lemma pr0_bin o a b : pr tbl 0 (Bin o a b) = pr tbl (lvl tbl o + 1) a ++ TOp o :: pr tbl (lvl tbl o + 2) b.
Proof. reflexivity. Qed.
Lemma pr0_un u a : pr tbl 0 (Un u a) = utok u :: pr tbl (L + 2) a.
Proof. reflexivity. Qed.
Lemma pr0_pre d a : pr tbl 0 (Pre d a) = itok d :: pr tbl (L + 3) a.
Proof. reflexivity. Qed.
Lemma pr0_post d a : pr tbl 0 (Post d a) = pr tbl (L + 4) a ++ [itok d].
Proof. reflexivity. Qed.
Lemma pr0_idx a i : pr tbl 0 (Idx a i) = pr tbl (L + 4) a ++ TLB :: pr tbl 0 i ++ [TRB].
Proof. reflexivity. Qed.
Lemma pr0_mem a m : pr tbl 0 (Mem a m) = pr tbl (L + 4) a ++ [TDot; TId m].
Proof. reflexivity. Qed.
Lemma pr0_arrow a m : pr tbl 0 (Arrow a m) = pr tbl (L + 4) a ++ [TArrow; TId m].
Proof. reflexivity. Qed.
Lemma pr0_call f args : pr tbl 0 (Call f args) = TId f :: TLP :: pr_args args.
Proof. reflexivity. Qed.
Lemma pr0_mcall ar a m args :
  pr tbl 0 (MCall ar a m args) = pr tbl (L + 4) a ++ (if ar then TArrow else TDot) :: TId m :: TLP :: pr_args args.
Proof. reflexivity. Qed.
Lemma pr0_arr l : pr tbl 0 (ArrLit l) = TLB :: pr_elems l.
Proof. reflexivity. Qed.
Lemma pr0_cast ty a : pr tbl 0 (Cast ty a) = TLP :: ty ++ TRP :: pr tbl (L + 2) a.
Proof. reflexivity. Qed.
Lemma pr0_tern c a b : pr tbl 0 (Tern c a b) = pr tbl 2 c ++ TQ :: pr tbl 1 a ++ TColon :: pr tbl 1 b.
Proof. reflexivity. Qed.
Lemma pr0_asg o l r : pr tbl 0 (Asg o l r) = pr tbl 1 l ++ TAsg o :: pr tbl 0 r.
Proof. reflexivity. Qed.

Lemma head_ok_app xs ys : head_ok xs = true -> head_ok (xs ++ ys) = true.
Proof. destruct xs as [|t xs]; [discriminate|]. cbn [app]. auto. Qed.

Lemma pr_head e : forall c, head_ok (pr tbl c e) = true.
Proof.
  induction e; intros c0; rewrite pr_eq; (destruct (c0 <=? lev tbl _); [|reflexivity]);
    try reflexivity.
  - rewrite pr0_bin. apply head_ok_app, IHe1.
  - rewrite pr0_un. destruct u; reflexivity.
  - rewrite pr0_pre. destruct inc; reflexivity.
  - rewrite pr0_post. apply head_ok_app, IHe.
  - rewrite pr0_idx. apply head_ok_app, IHe1.
  - rewrite pr0_mem. apply head_ok_app, IHe.
  - rewrite pr0_arrow. apply head_ok_app, IHe.
  - rewrite pr0_mcall. apply head_ok_app, IHe.
  - rewrite pr0_tern. apply head_ok_app, IHe1.
  - rewrite pr0_asg. apply head_ok_app, IHe1.
  - change (pr tbl 0 (EProp e)) with (pr tbl 2 e ++ [TQ]). apply head_ok_app, IHe.
  - change (pr tbl 0 (Generic n e)) with (pr tbl (L + 5) e). apply IHe.
Qed.

Lemma head_not_closer ts : head_ok ts = true -> closer ts = false.
Proof. destruct ts as [|t r]; [discriminate|]. destruct t; try discriminate; try reflexivity. Qed.
Lemma head_not_rp ts : head_ok ts = true -> forall r0, ts <> TRP :: r0.
Proof. intros H r0 ->. discriminate H. Qed.

(* an operand that lives at the postfix level or above, or is parenthesised, does not start with a
   prefix operator *)
Lemma ustart_false e : forall c rest, (L + 3 <= lev tbl e \/ lev tbl e < c) ->
  unary_start (pr tbl c e ++ rest) = false.
Proof.
  induction e; intros c0 rest H; rewrite pr_eq;
    (match goal with |- context [c0 <=? ?x] => destruct (Nat.leb_spec c0 x) as [Hle|Hgt] end; [|reflexivity]);
    (destruct H as [H|H]; [|lia]); cbn [lev] in H; try lia; try reflexivity.
  - pose proof (lvl_le tbl o). lia.
  - rewrite pr0_post, <- app_assoc. apply IHe. lia.
  - rewrite pr0_idx, <- app_assoc. apply IHe1. lia.
  - rewrite pr0_mem, <- app_assoc. apply IHe. lia.
  - rewrite pr0_arrow, <- app_assoc. apply IHe. lia.
  - rewrite pr0_mcall, <- app_assoc. apply IHe. lia.
  - change (pr tbl 0 (Generic n e)) with (pr tbl (L + 5) e). apply IHe. lia.
Qed.

(* ------------------------------------------------------------------ follow contexts *)
Lemma fol_mono c c' rest : c <= c' -> folb tbl c rest = true -> folb tbl c' rest = true.
Proof.
  intros Hle H. destruct rest as [|t r]; [reflexivity|].
  destruct t; cbn [folb] in *; try exact H.
  - apply Nat.ltb_lt in H. apply Nat.ltb_lt. lia.
  - apply Nat.leb_le in H. apply Nat.leb_le. lia.
  - apply Nat.leb_le in H. apply Nat.leb_le. lia.
Qed.

Lemma fol_not_asg rest : folb tbl 0 rest = true -> forall o r', rest <> TAsg o :: r'.
Proof. intros H o r' ->. discriminate H. Qed.

Lemma fol_not_q c rest : c <= 1 -> folb tbl c rest = true -> forall r', rest <> TQ :: r'.
Proof.
  intros Hc H r' ->. cbn [folb] in H. apply Nat.leb_le in H. lia.
Qed.

Lemma fol_op c o r : folb tbl c (TOp o :: r) = true -> lvl tbl o + 1 < c.
Proof. cbn [folb]. apply Nat.ltb_lt. Qed.

Lemma fol_postfix c rest : folb tbl c rest = true -> postfix_start rest = false.
Proof. destruct rest as [|t r]; [reflexivity|]. destruct t; try reflexivity; discriminate. Qed.

Lemma fol_nolp c rest : folb tbl c rest = true -> starts_lp rest = false.
Proof. destruct rest as [|t r]; [reflexivity|]. destruct t; try reflexivity; discriminate. Qed.

Lemma postfix_nolp rest : postfix_start rest = false -> starts_lp rest = false.
Proof. destruct rest as [|t r]; [reflexivity|]. destruct t; try reflexivity; discriminate. Qed.

(* ------------------------------------------------------------------ contexts and descent *)
Definition PCtx (c : nat) (ts : list tok) (v : expr * list tok) : Prop :=
  match c with
  | 0 => PAsg tbl ts v
  | 1 => PTern tbl ts v
  | _ => if c <=? L + 1 then PBin tbl (c - 1) ts v
         else if c =? L + 2 then PUn tbl ts v else PPostfix tbl ts v
  end.

Lemma PCtx_bin c ts v : 2 <= c <= L + 1 -> PCtx c ts v = PBin tbl (c - 1) ts v.
Proof.
  intros H. destruct c as [|[|c]]; try lia. unfold PCtx.
  destruct (Nat.leb_spec (S (S c)) (L + 1)); [reflexivity|lia].
Qed.
Lemma PCtx_un ts v : PCtx (L + 2) ts v = PUn tbl ts v.
Proof.
  pose proof L_pos. remember (L + 2) as c eqn:E. destruct c as [|[|c]]; try lia. unfold PCtx.
  destruct (Nat.leb_spec (S (S c)) (L + 1)); [lia|].
  destruct (Nat.eqb_spec (S (S c)) (L + 2)); [reflexivity|lia].
Qed.
Lemma PCtx_pf ts v : PCtx (L + 3) ts v = PPostfix tbl ts v.
Proof.
  remember (L + 3) as c eqn:E. destruct c as [|[|c]]; try lia. unfold PCtx.
  destruct (Nat.leb_spec (S (S c)) (L + 1)); [lia|].
  destruct (Nat.eqb_spec (S (S c)) (L + 2)); [lia|reflexivity].
Qed.

(* a binary-level context reached from the level above when the follow token stops the loop *)
Lemma PBin_up k ts x rest : 1 <= k <= L ->
  PCtx (k + 2) ts (x, rest) -> (forall o r, rest = TOp o :: r -> lvl tbl o <> k) -> PBin tbl k ts (x, rest).
Proof.
  intros Hk H Hn. apply (R_bin tbl k ts x rest); [lia| |apply R_loop_stop; exact Hn].
  destruct (Nat.eq_dec k L) as [->|Hne].
  - rewrite PCtx_un in H. apply R_bin_top; [lia|exact H].
  - rewrite PCtx_bin in H by lia. replace (k + 2 - 1) with (S k) in H by lia. exact H.
Qed.

Lemma descend_step c ts x rest : c <= L + 2 ->
  PCtx (S c) ts (x, rest) -> folb tbl c rest = true -> (c = L + 2 -> unary_start ts = false) ->
  PCtx c ts (x, rest).
Proof.
  intros Hc H Hf Hu. pose proof L_pos as HL.
  destruct (Nat.eq_dec c 0) as [->|H0].
  { apply R_assign_plain; [exact H|apply fol_not_asg; exact Hf]. }
  destruct (Nat.eq_dec c 1) as [->|H1].
  { change (PTern tbl ts (x, rest)). apply R_tern_plain; [|apply (fol_not_q 1); auto].
    rewrite PCtx_bin in H by lia. exact H. }
  destruct (Nat.eq_dec c (L + 2)) as [->|H2].
  { rewrite PCtx_un. apply R_un_post; [auto|]. replace (S (L + 2)) with (L + 3) in H by lia.
    rewrite PCtx_pf in H. exact H. }
  rewrite PCtx_bin by lia.
  apply PBin_up; [lia| |].
  - replace (c - 1 + 2) with (S c) by lia. exact H.
  - intros o r ->. apply fol_op in Hf. lia.
Qed.

Lemma descend d : forall c1 c2 ts x rest, c2 = d + c1 -> c2 <= L + 3 ->
  PCtx c2 ts (x, rest) -> folb tbl c1 rest = true ->
  (c1 <= L + 2 < c2 -> unary_start ts = false) -> PCtx c1 ts (x, rest).
Proof.
  induction d as [|d IH]; intros c1 c2 ts x rest -> Hc H Hf Hu.
  - exact H.
  - apply descend_step; [lia| |exact Hf|intros ->; apply Hu; lia].
    apply (IH (S c1) (S d + c1)); [lia|lia|exact H|apply (fol_mono c1); [lia|exact Hf]|].
    intros Hx. apply Hu. lia.
Qed.


Lemma PCtx_to_bin k ts v : 1 <= k <= L -> PCtx (k + 2) ts v -> PBin tbl (S k) ts v.
Proof.
  intros Hk H. destruct (Nat.eq_dec k L) as [->|Hne].
  - rewrite PCtx_un in H. apply R_bin_top; [lia|exact H].
  - rewrite PCtx_bin in H by lia. replace (k + 2 - 1) with (S k) in H by lia. exact H.
Qed.

Ltac norm := cbn [app] in *; repeat (rewrite <- app_assoc in *; cbn [app] in *).

(* ------------------------------------------------------------------ the three statements *)
(* P: parsing in a context of rank c *)
Definition Pst (e : expr) : Prop := forall c rest, c <= L + 3 -> folb tbl c rest = true ->
  safeb (pr tbl c e ++ rest) = true -> PCtx c (pr tbl c e ++ rest) (strip e, rest).
(* S: as the left operand of a loop of binary level k *)
Definition Sst (e : expr) : Prop := forall k R v, 1 <= k <= L -> folb tbl (k + 2) R = true ->
  safeb (pr tbl (k + 1) e ++ R) = true -> PLoop tbl k (strip e) R v ->
  exists x r, PBin tbl (S k) (pr tbl (k + 1) e ++ R) (x, r) /\ PLoop tbl k x r v.
(* Q: as the head of a postfix chain *)
Definition Qst (e : expr) : Prop := forall R v, starts_lp R = false ->
  safeb (pr tbl (L + 4) e ++ R) = true -> PPostL tbl (strip e) R v ->
  exists x r, PPrim tbl (pr tbl (L + 4) e ++ R) (x, r) /\ PPostL tbl x r v.

Definition P0 (e : expr) : Prop := forall rest, folb tbl 0 rest = true ->
  safeb (pr tbl 0 e ++ rest) = true -> PAsg tbl (pr tbl 0 e ++ rest) (strip e, rest).
Definition Own (e : expr) : Prop := forall rest, folb tbl (lev tbl e) rest = true ->
  safeb (pr tbl 0 e ++ rest) = true ->
  PCtx (Nat.min (lev tbl e) (L + 3)) (pr tbl 0 e ++ rest) (strip e, rest).

Lemma P_le e : Own e -> forall c rest, c <= lev tbl e -> c <= L + 3 -> folb tbl c rest = true ->
  safeb (pr tbl 0 e ++ rest) = true -> PCtx c (pr tbl 0 e ++ rest) (strip e, rest).
Proof.
  intros HO c rest Hc Hc3 Hf Hs.
  apply (descend (Nat.min (lev tbl e) (L + 3) - c) c (Nat.min (lev tbl e) (L + 3))); try lia.
  - apply HO; [apply (fol_mono c); [lia|exact Hf]|exact Hs].
  - exact Hf.
  - intros Hx. apply ustart_false. left. lia.
Qed.

Lemma P0_of_Own e : Own e -> P0 e.
Proof. intros HO rest Hf Hs. apply (P_le e HO 0 rest); try lia; assumption. Qed.

Lemma paren_prim e : P0 e -> forall R, safeb (TLP :: pr tbl 0 e ++ TRP :: R) = true ->
  PPrim tbl (TLP :: pr tbl 0 e ++ TRP :: R) (strip e, R).
Proof.
  intros H0 R Hs. apply R_prim_paren; [apply safe_paren; [apply head_ok_app, pr_head|exact Hs]|].
  apply H0; [reflexivity|]. apply (safe_after [] TLP); [reflexivity|exact Hs].
Qed.

Lemma P_gt e : P0 e -> forall c rest, lev tbl e < c -> c <= L + 3 -> folb tbl c rest = true ->
  safeb (pr tbl c e ++ rest) = true -> PCtx c (pr tbl c e ++ rest) (strip e, rest).
Proof.
  intros H0 c rest Hc Hc3 Hf Hs. rewrite pr_gt in * by exact Hc.
  norm.
  apply (descend (L + 3 - c) c (L + 3)); try lia.
  - rewrite PCtx_pf. eapply postfix_intro; [apply paren_prim; [exact H0|exact Hs]|].
    apply R_post_stop. apply (fol_postfix c). exact Hf.
  - exact Hf.
  - intros _. reflexivity.
Qed.

Lemma Pst_of_Own e : Own e -> Pst e.
Proof.
  intros HO c rest Hc Hf Hs. destruct (Nat.le_gt_cases c (lev tbl e)) as [Hle|Hgt].
  - rewrite pr_le in * by exact Hle. apply P_le; auto.
  - apply P_gt; auto. apply P0_of_Own; exact HO.
Qed.

Lemma Q_of_prim e :
  (forall R, starts_lp R = false -> safeb (pr tbl (L + 4) e ++ R) = true ->
             PPrim tbl (pr tbl (L + 4) e ++ R) (strip e, R)) -> Qst e.
Proof. intros H R v Hl Hs Hv. exists (strip e), R. split; [apply H; assumption|exact Hv]. Qed.

Lemma Q_paren e : P0 e -> lev tbl e < L + 4 -> Qst e.
Proof.
  intros H0 Hlev. apply Q_of_prim. intros R Hl Hs. rewrite pr_gt in * by exact Hlev.
  norm. apply paren_prim; assumption.
Qed.

Lemma Own_of_Q e : L + 4 <= lev tbl e -> Qst e -> Own e.
Proof.
  intros Hlev HQ rest Hf Hs. replace (Nat.min (lev tbl e) (L + 3)) with (L + 3) by lia.
  rewrite PCtx_pf. rewrite <- (pr_le (L + 4) e) in * by exact Hlev.
  destruct (HQ rest (strip e, rest)) as (x & r & Hp & Hl).
  - apply (fol_nolp (lev tbl e)). exact Hf.
  - exact Hs.
  - apply R_post_stop. apply (fol_postfix (lev tbl e)). exact Hf.
  - eapply postfix_intro; eassumption.
Qed.

Lemma S_other e : Pst e -> forall k R v, 1 <= k <= L -> lev tbl e <> k + 1 ->
  folb tbl (k + 2) R = true -> safeb (pr tbl (k + 1) e ++ R) = true ->
  PLoop tbl k (strip e) R v ->
  exists x r, PBin tbl (S k) (pr tbl (k + 1) e ++ R) (x, r) /\ PLoop tbl k x r v.
Proof.
  intros HP k R v Hk Hne Hf Hs Hv.
  assert (E : pr tbl (k + 1) e = pr tbl (k + 2) e).
  { destruct (Nat.le_gt_cases (k + 1) (lev tbl e)).
    - rewrite (pr_le (k + 1)), (pr_le (k + 2)) by lia. reflexivity.
    - rewrite (pr_gt (k + 1)), (pr_gt (k + 2)) by lia. reflexivity. }
  rewrite E in *. exists (strip e), R. split; [|exact Hv].
  apply PCtx_to_bin; [exact Hk|]. apply HP; [lia|exact Hf|exact Hs].
Qed.

(* assembling the three statements for one expression *)
Lemma assemble e : Own e -> (L + 4 <= lev tbl e -> Qst e) ->
  (forall k R v, 1 <= k <= L -> lev tbl e = k + 1 -> folb tbl (k + 2) R = true ->
     safeb (pr tbl (k + 1) e ++ R) = true -> PLoop tbl k (strip e) R v ->
     exists x r, PBin tbl (S k) (pr tbl (k + 1) e ++ R) (x, r) /\ PLoop tbl k x r v) ->
  Pst e /\ Sst e /\ Qst e.
Proof.
  intros HO HQ HS. pose proof (Pst_of_Own e HO) as HP. split; [exact HP|]. split.
  - intros k R v Hk Hf Hs Hv. destruct (Nat.eq_dec (lev tbl e) (k + 1)) as [E|E].
    + apply HS; assumption.
    + apply S_other; assumption.
  - destruct (Nat.le_gt_cases (L + 4) (lev tbl e)) as [H|H]; [apply HQ; exact H|].
    apply Q_paren; [apply P0_of_Own; exact HO|exact H].
Qed.

Lemma assemble_prim e : L + 5 <= lev tbl e ->
  (forall R, starts_lp R = false -> safeb (pr tbl 0 e ++ R) = true ->
             PPrim tbl (pr tbl 0 e ++ R) (strip e, R)) ->
  Pst e /\ Sst e /\ Qst e.
Proof.
  intros Hlev Hp.
  assert (HQ : Qst e).
  { apply Q_of_prim. intros R Hl Hs. rewrite pr_le in * by lia. apply Hp; assumption. }
  apply assemble.
  - apply Own_of_Q; [lia|exact HQ].
  - intros _. exact HQ.
  - intros k R v Hk E. pose proof (lvl_le tbl Or). lia.
Qed.

Lemma assemble_chain e : lev tbl e = L + 4 -> Qst e -> Pst e /\ Sst e /\ Qst e.
Proof.
  intros Hlev HQ. apply assemble.
  - apply Own_of_Q; [lia|exact HQ].
  - intros _. exact HQ.
  - intros k R v Hk E. lia.
Qed.

(* ------------------------------------------------------------------ argument lists *)
Lemma args_parse trail args : Forall (fun a => wf a = true -> Pst a /\ Sst a /\ Qst a) args ->
  forallb wf args = true -> forall R, safeb (pr_args args ++ R) = true ->
  PArgs tbl trail (pr_args args ++ R) (map strip args, R).
Proof.
  induction 1 as [|a l Ha Hl IH]; intros Hw R Hs.
  - apply R_args_nil.
  - cbn [forallb] in Hw. apply andb_true_iff in Hw. destruct Hw as [Hwa Hwl].
    destruct (Ha Hwa) as (HPa & _ & _).
    cbn [pr_args map] in *. destruct l as [|b l'].
    + norm. apply R_args_last.
      * apply head_not_rp, head_ok_app, pr_head.
      * apply (HPa 0); [lia|reflexivity|exact Hs].
    + norm.
      apply (R_args_cons tbl trail _ (strip a) (pr_args (b :: l') ++ R)).
      * apply head_not_rp, head_ok_app, pr_head.
      * cbn [pr_args]. rewrite <- app_assoc. apply head_not_rp, head_ok_app, pr_head.
      * apply (HPa 0); [lia|reflexivity|exact Hs].
      * apply IH; [exact Hwl|]. apply (safe_after (pr tbl 0 a) TComma); [reflexivity|exact Hs].
Qed.

Lemma head_not_rb ts : head_ok ts = true -> forall r0, ts <> TRB :: r0.
Proof. intros H r0 ->. discriminate H. Qed.

Lemma elems_parse l : Forall (fun a => wf a = true -> Pst a /\ Sst a /\ Qst a) l ->
  forallb wf l = true -> forall R, safeb (pr_elems l ++ R) = true ->
  PElems tbl (pr_elems l ++ R) (map strip l, R).
Proof.
  induction 1 as [|a l Ha Hl IH]; intros Hw R Hs.
  - apply R_elems_nil.
  - cbn [forallb] in Hw. apply andb_true_iff in Hw. destruct Hw as [Hwa Hwl].
    destruct (Ha Hwa) as (HPa & _ & _).
    cbn [pr_elems map] in *. destruct l as [|b l'].
    + norm. apply R_elems_last.
      * apply head_not_rb, head_ok_app, pr_head.
      * apply (HPa 0); [lia|reflexivity|exact Hs].
    + norm.
      apply (R_elems_cons tbl _ (strip a) (pr_elems (b :: l') ++ R)).
      * apply head_not_rb, head_ok_app, pr_head.
      * apply (HPa 0); [lia|reflexivity|exact Hs].
      * apply IH; [exact Hwl|]. apply (safe_after (pr tbl 0 a) TComma); [reflexivity|exact Hs].
Qed.

(* ------------------------------------------------------------------ the main induction *)
Theorem roundtrip_all : forall e, wf e = true -> Pst e /\ Sst e /\ Qst e.
Proof.
  pose proof L_pos as HL.
  induction e using expr_ind2; intros Hw; cbn [wf] in Hw; try discriminate Hw.
  - (* Num *)
    apply assemble_prim; [cbn [lev]; lia|]. intros R Hl Hs. apply R_prim_num.
  - (* Var *)
    apply assemble_prim; [cbn [lev]; lia|]. intros R Hl Hs.
    apply R_prim_var; [exact Hl|]. apply (safe_var x). exact Hs.
  - (* Par *)
    destruct (IHe Hw) as (HPa & _ & _).
    apply assemble_prim; [cbn [lev]; lia|]. intros R Hl Hs.
    rewrite pr0_par in *. cbn [strip] in *. norm.
    apply paren_prim; [|exact Hs]. intros rest Hf Hs'. apply (HPa 0); [lia|exact Hf|exact Hs'].
  - (* Bin *)
    apply andb_true_iff in Hw. destruct Hw as [Hwa Hwb].
    destruct (IHe1 Hwa) as (HPa & HSa & _). destruct (IHe2 Hwb) as (HPb & _ & _).
    pose proof (tbl_total o) as Hk1. pose proof (lvl_le tbl o) as Hk2.
    set (k := lvl tbl o) in *.
    assert (HS : forall R v, folb tbl (k + 2) R = true ->
       safeb (pr tbl 0 (Bin o e1 e2) ++ R) = true -> PLoop tbl k (strip (Bin o e1 e2)) R v ->
       exists x r, PBin tbl (S k) (pr tbl 0 (Bin o e1 e2) ++ R) (x, r) /\ PLoop tbl k x r v).
    { intros R v Hf Hs Hv. rewrite pr0_bin in *. fold k in Hs |- *.
      cbn [strip] in *. norm.
      apply HSa; [lia| | exact Hs |].
      - cbn [folb]. fold k. apply Nat.ltb_lt. lia.
      - apply (R_loop_step tbl k _ o _ (strip e2) R); [reflexivity| |exact Hv].
        apply PCtx_to_bin; [lia|]. apply HPb; [lia|exact Hf|].
        apply (safe_after (pr tbl (k + 1) e1) (TOp o)); [reflexivity|exact Hs]. }
    apply assemble.
    + intros rest Hf Hs. cbn [lev] in *. fold k in Hf |- *.
      replace (Nat.min (k + 1) (L + 3)) with (k + 1) by lia.
      rewrite PCtx_bin by lia. replace (k + 1 - 1) with k by lia.
      destruct (HS rest (strip (Bin o e1 e2), rest)) as (x & r & Hb & Hl).
      * apply (fol_mono (k + 1)); [lia|exact Hf].
      * exact Hs.
      * apply R_loop_stop. intros o' r' ->. apply fol_op in Hf. lia.
      * eapply R_bin; [lia|exact Hb|exact Hl].
    + cbn [lev]. fold k. lia.
    + intros k' R v Hk' E Hf Hs Hv. cbn [lev] in E. fold k in E.
      assert (k' = k) by lia. subst k'.
      rewrite pr_le in * by (cbn [lev]; fold k; lia). apply HS; assumption.
  - (* Un *)
    destruct (IHe Hw) as (HPa & _ & _).
    apply assemble.
    + intros rest Hf Hs. cbn [lev] in *. replace (Nat.min (L + 2) (L + 3)) with (L + 2) by lia.
      rewrite PCtx_un. rewrite pr0_un in *. cbn [app strip] in *.
      apply (R_un tbl _ u (pr tbl (L + 2) e ++ rest)); [destruct u; reflexivity|].
      rewrite <- PCtx_un. apply HPa; [lia|exact Hf|].
      apply (safe_after [] (utok u)); [destruct u; reflexivity|exact Hs].
    + cbn [lev]. lia.
    + intros k R v Hk E. cbn [lev] in E. lia.
  - (* Pre *)
    destruct (IHe Hw) as (HPa & _ & _).
    apply assemble.
    + intros rest Hf Hs. cbn [lev] in *. replace (Nat.min (L + 2) (L + 3)) with (L + 2) by lia.
      rewrite PCtx_un. rewrite pr0_pre in *. cbn [app strip] in *.
      apply R_pre. rewrite <- PCtx_pf. apply HPa; [lia|apply (fol_mono (L + 2)); [lia|exact Hf]|].
      apply (safe_after [] (itok d)); [destruct d; reflexivity|exact Hs].
    + cbn [lev]. lia.
    + intros k R v Hk E. cbn [lev] in E. lia.
  - (* Post *)
    destruct (IHe Hw) as (_ & _ & HQa).
    apply assemble.
    + intros rest Hf Hs. cbn [lev] in *. replace (Nat.min (L + 3) (L + 3)) with (L + 3) by lia.
      rewrite PCtx_pf. rewrite pr0_post in *. cbn [strip] in *. norm.
      destruct (HQa (itok d :: rest) (Post d (strip e), rest)) as (x & r & Hp & Hl).
      * destruct d; reflexivity.
      * exact Hs.
      * apply R_post_incdec.
      * eapply postfix_intro; eassumption.
    + cbn [lev]. lia.
    + intros k R v Hk E. cbn [lev] in E. lia.
  - (* Idx *)
    apply andb_true_iff in Hw. destruct Hw as [Hwa Hwi].
    destruct (IHe1 Hwa) as (_ & _ & HQa). destruct (IHe2 Hwi) as (HPi & _ & _).
    apply assemble_chain; [reflexivity|].
    intros R v Hl Hs Hv. rewrite pr_le in * by (cbn [lev]; lia).
    rewrite pr0_idx in *. cbn [strip] in *. norm.
    apply HQa; [reflexivity|exact Hs|].
    apply (R_post_idx tbl _ _ (strip e2) R); [|exact Hv].
    apply (HPi 0); [lia|reflexivity|].
    apply (safe_after (pr tbl (L + 4) e1) TLB); [reflexivity|exact Hs].
  - (* Mem *)
    destruct (IHe Hw) as (_ & _ & HQa).
    apply assemble_chain; [reflexivity|].
    intros R v Hl Hs Hv. rewrite pr_le in * by (cbn [lev]; lia).
    rewrite pr0_mem in *. cbn [strip] in *. norm.
    apply HQa; [reflexivity|exact Hs|]. apply R_post_mem; assumption.
  - (* Arrow *)
    destruct (IHe Hw) as (_ & _ & HQa).
    apply assemble_chain; [reflexivity|].
    intros R v Hl Hs Hv. rewrite pr_le in * by (cbn [lev]; lia).
    rewrite pr0_arrow in *. cbn [strip] in *. norm.
    apply HQa; [reflexivity|exact Hs|]. apply R_post_arrow; assumption.
  - (* Call *)
    apply andb_true_iff in Hw. destruct Hw as [Hw Hz].
    apply assemble_prim; [cbn [lev]; lia|]. intros R Hl Hs.
    rewrite pr0_call in *. cbn [app strip] in *.
    destruct (is_sizeof f) eqn:Ez.
    + (* sizeof ( e ) *)
      destruct args as [|a [|b l]]; try discriminate Hz.
      cbn [pr_args map] in *. norm.
      inversion H as [|a' l' Ha _]; subst.
      cbn [forallb] in Hw. rewrite andb_true_r in Hw. destruct (Ha Hw) as (HPa & _ & _).
      apply R_prim_sizeof; [exact Ez| |].
      * apply (safe_sizeof f); [exact Ez|apply head_ok_app, pr_head|exact Hs].
      * apply (HPa 0); [lia|reflexivity|]. apply (safe_after [TId f] TLP); [reflexivity|exact Hs].
    + apply R_prim_call; [exact Ez| |exact Hl].
      apply args_parse; [exact H|exact Hw|].
      apply (safe_after [TId f] TLP); [reflexivity|exact Hs].
  - (* MCall *)
    apply andb_true_iff in Hw. destruct Hw as [Hwa Hwl].
    destruct (IHe Hwa) as (_ & _ & HQa).
    apply assemble_chain; [reflexivity|].
    intros R v Hl Hs Hv. rewrite pr_le in * by (cbn [lev]; lia).
    rewrite pr0_mcall in *. cbn [strip] in *. norm.
    apply HQa; [destruct ar; reflexivity|exact Hs|].
    apply (R_post_mcall tbl ar _ m _ (map strip args) R); [|exact Hv].
    apply args_parse; [exact H|exact Hwl|].
    apply (safe_after (pr tbl (L + 4) e ++ [(if ar then TArrow else TDot); TId m]) TLP); [reflexivity|].
    rewrite <- app_assoc. exact Hs.
  - (* Tern *)
    apply andb_true_iff in Hw. destruct Hw as [Hw Hwb]. apply andb_true_iff in Hw. destruct Hw as [Hwc Hwa].
    destruct (IHe1 Hwc) as (HPc & _ & _). destruct (IHe2 Hwa) as (HPa & _ & _).
    destruct (IHe3 Hwb) as (HPb & _ & _).
    apply assemble.
    + intros rest Hf Hs. cbn [lev] in *. replace (Nat.min 1 (L + 3)) with 1 by lia.
      change (PTern tbl (pr tbl 0 (Tern e1 e2 e3) ++ rest) (strip (Tern e1 e2 e3), rest)).
      rewrite pr0_tern in *. cbn [strip] in *. norm.
      assert (Hs2 : safeb (pr tbl 1 e2 ++ TColon :: pr tbl 1 e3 ++ rest) = true).
      { apply (safe_after (pr tbl 2 e1) TQ); [reflexivity|exact Hs]. }
      apply (R_tern tbl _ (strip e1) (pr tbl 1 e2 ++ TColon :: pr tbl 1 e3 ++ rest)
                    (strip e2) (pr tbl 1 e3 ++ rest) (strip e3) rest).
      * rewrite <- (PCtx_bin 2) by lia. apply HPc; [lia|reflexivity|exact Hs].
      * apply head_not_closer, head_ok_app, pr_head.
      * apply (HPa 1); [lia|reflexivity|exact Hs2].
      * apply (HPb 1); [lia|exact Hf|]. apply (safe_after (pr tbl 1 e2) TColon); [reflexivity|exact Hs2].
    + cbn [lev]. lia.
    + intros k R v Hk E. cbn [lev] in E. lia.
  - (* Asg *)
    apply andb_true_iff in Hw. destruct Hw as [Hw Hv]. apply andb_true_iff in Hw. destruct Hw as [Hwl Hwr].
    destruct (IHe1 Hwl) as (HPl & _ & _). destruct (IHe2 Hwr) as (HPr & _ & _).
    apply assemble.
    + intros rest Hf Hs. cbn [lev] in *. replace (Nat.min 0 (L + 3)) with 0 by lia.
      change (PAsg tbl (pr tbl 0 (Asg o e1 e2) ++ rest) (strip (Asg o e1 e2), rest)).
      rewrite pr0_asg in *. cbn [strip] in *. norm.
      apply (R_assign tbl _ (strip e1) o (pr tbl 0 e2 ++ rest) (strip e2) rest).
      * apply (HPl 1); [lia|reflexivity|exact Hs].
      * apply (HPr 0); [lia|exact Hf|]. apply (safe_after (pr tbl 1 e1) (TAsg o)); [reflexivity|exact Hs].
      * exact Hv.
    + cbn [lev]. lia.
    + intros k R v Hk E. cbn [lev] in E. lia.
  - (* Cast *)
    apply andb_true_iff in Hw. destruct Hw as [Hty Hwa].
    destruct (IHe Hwa) as (HPa & _ & _).
    apply assemble.
    + intros rest Hf Hs. cbn [lev] in *. replace (Nat.min (L + 2) (L + 3)) with (L + 2) by lia.
      rewrite PCtx_un. rewrite pr0_cast in *. cbn [strip] in *. norm.
      apply R_un_post; [reflexivity|].
      apply (postfix_intro tbl _ (Cast ty (strip e)) rest).
      * apply (R_prim_cast tbl _ ty (pr tbl (L + 2) e ++ rest)); [apply cast_type_wf; exact Hty|].
        rewrite <- PCtx_un. apply HPa; [lia|exact Hf|].
        apply (safe_after (TLP :: ty) TRP); [reflexivity|exact Hs].
      * apply R_post_stop. apply (fol_postfix (L + 2)). exact Hf.
    + cbn [lev]. lia.
    + intros k R v Hk E. cbn [lev] in E. lia.
  - (* ArrLit *)
    apply assemble_prim; [cbn [lev]; lia|]. intros R Hl Hs.
    rewrite pr0_arr in *. cbn [app strip] in *.
    apply R_prim_arr. apply elems_parse; [exact H|exact Hw|].
    apply (safe_after [] TLB); [reflexivity|exact Hs].
Qed.

(* ------------------------------------------------------------------ a parenthesised identifier *)
(* `( x )` with an identifier that names no declared type is the variable x - for EVERY spelling of the
   name (upper-case initial or not) and EVERY continuation r of the stream, safe or not: the cast
   look-ahead consults the declared types only *)
Lemma paren_ident_operand x r : id_type x = false -> PPrim tbl (TLP :: TId x :: TRP :: r) (Var x, r).
Proof.
  intros Ht. pose proof L_pos as HL. apply R_prim_paren.
  - cbn [cast_type]. rewrite Ht. reflexivity.
  - change (PCtx 0 (TId x :: TRP :: r) (Var x, TRP :: r)).
    apply (descend (L + 3) 0 (L + 3)); [lia|lia| |reflexivity|intros _; reflexivity].
    rewrite PCtx_pf. apply (postfix_intro tbl _ (Var x) (TRP :: r)).
    + apply R_prim_var; [reflexivity|]. intros r1 E. discriminate E.
    + apply R_post_stop. reflexivity.
Qed.

End RT.
