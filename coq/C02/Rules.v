(* C02 - fuel-free view of the parser: [P... ts v] = "with enough fuel the function returns Ok v",
   with one introduction rule per success path. *)
From Coq Require Import List Arith Lia Bool NArith.
From Cb Require Import C02.Model C02.Mono.
Import ListNotations.

Section Rules.
Variable tbl : table.
Notation L := (length tbl).

Definition PAsg ts v := exists f, p_assign tbl f ts = Ok v.
Definition PTern ts v := exists f, p_tern tbl f ts = Ok v.
Definition PBin l ts v := exists f, p_bin tbl f l ts = Ok v.
Definition PLoop l acc ts v := exists f, bin_loop tbl f l acc ts = Ok v.
Definition PUn ts v := exists f, p_unary tbl f ts = Ok v.
Definition PPostL e ts v := exists f, post_loop tbl f e ts = Ok v.
Definition PPrim ts v := exists f, p_primary tbl f ts = Ok v.
Definition PArgs trail ts v := exists f, p_args tbl f trail ts = Ok v.
Definition PPostfix ts v := exists f, p_postfix tbl f ts = Ok v.
Definition PElems ts v := exists f, p_elems tbl f ts = Ok v.

Lemma up_assign f f' ts v : p_assign tbl f ts = Ok v -> f <= f' -> p_assign tbl f' ts = Ok v.
Proof. intros H Hle. eapply rle_ok; [apply (proj1 (mono tbl f)); exact Hle|exact H]. Qed.
Lemma up_tern f f' ts v : p_tern tbl f ts = Ok v -> f <= f' -> p_tern tbl f' ts = Ok v.
Proof. intros H Hle. eapply rle_ok; [apply (proj1 (proj2 (mono tbl f))); exact Hle|exact H]. Qed.
Lemma up_bin f f' l ts v : p_bin tbl f l ts = Ok v -> f <= f' -> p_bin tbl f' l ts = Ok v.
Proof. intros H Hle. eapply rle_ok; [apply (proj1 (proj2 (proj2 (mono tbl f)))); exact Hle|exact H]. Qed.
Lemma up_loop f f' l a ts v : bin_loop tbl f l a ts = Ok v -> f <= f' -> bin_loop tbl f' l a ts = Ok v.
Proof. intros H Hle. eapply rle_ok; [apply (proj1 (proj2 (proj2 (proj2 (mono tbl f))))); exact Hle|exact H]. Qed.
Lemma up_unary f f' ts v : p_unary tbl f ts = Ok v -> f <= f' -> p_unary tbl f' ts = Ok v.
Proof. intros H Hle. eapply rle_ok; [apply (proj1 (proj2 (proj2 (proj2 (proj2 (mono tbl f)))))); exact Hle|exact H]. Qed.
Lemma up_postl f f' e ts v : post_loop tbl f e ts = Ok v -> f <= f' -> post_loop tbl f' e ts = Ok v.
Proof. intros H Hle. eapply rle_ok; [apply (proj1 (proj2 (proj2 (proj2 (proj2 (proj2 (mono tbl f))))))); exact Hle|exact H]. Qed.
Lemma up_prim f f' ts v : p_primary tbl f ts = Ok v -> f <= f' -> p_primary tbl f' ts = Ok v.
Proof. intros H Hle. eapply rle_ok; [apply (proj1 (proj2 (proj2 (proj2 (proj2 (proj2 (proj2 (mono tbl f)))))))); exact Hle|exact H]. Qed.
Lemma up_args f f' trail ts v : p_args tbl f trail ts = Ok v -> f <= f' -> p_args tbl f' trail ts = Ok v.
Proof. intros H Hle. eapply rle_ok; [apply (proj1 (proj2 (proj2 (proj2 (proj2 (proj2 (proj2 (proj2 (mono tbl f))))))))); exact Hle|exact H]. Qed.
Lemma up_elems f f' ts v : p_elems tbl f ts = Ok v -> f <= f' -> p_elems tbl f' ts = Ok v.
Proof. intros H Hle. eapply rle_ok; [apply (proj2 (proj2 (proj2 (proj2 (proj2 (proj2 (proj2 (proj2 (mono tbl f))))))))); exact Hle|exact H]. Qed.

Lemma postfix_intro ts e r v : PPrim ts (e, r) -> PPostL e r v -> PPostfix ts v.
Proof.
  intros [f1 H1] [f2 H2]. exists (f1 + f2). unfold p_postfix.
  rewrite (up_prim _ (f1 + f2) _ _ H1) by lia. cbn [bind]. apply (up_postl _ _ _ _ _ H2). lia.
Qed.

(* ---- parseAssignment *)
Lemma R_assign_plain ts l r : PTern ts (l, r) -> (forall o r', r <> TAsg o :: r') -> PAsg ts (l, r).
Proof.
  intros [f H] Hn. exists (S f). rewrite p_assign_S, H. cbn [bind].
  destruct r as [|t r]; [reflexivity|]. destruct t; try reflexivity. exfalso. eapply Hn; reflexivity.
Qed.

Lemma R_assign ts l o r v r' :
  PTern ts (l, TAsg o :: r) -> PAsg r (v, r') -> valid_target o l = true -> PAsg ts (Asg o l v, r').
Proof.
  intros [f1 H1] [f2 H2] Hv. exists (S (f1 + f2)). rewrite p_assign_S.
  rewrite (up_tern _ (f1 + f2) _ _ H1) by lia. cbn [bind].
  rewrite (up_assign _ (f1 + f2) _ _ H2) by lia. cbn [bind]. rewrite Hv. reflexivity.
Qed.

(* ---- parseTernary *)
Lemma R_tern_plain ts c r : PBin 1 ts (c, r) -> (forall r', r <> TQ :: r') -> PTern ts (c, r).
Proof.
  intros [f H] Hn. exists (S f). rewrite p_tern_S, H. cbn [bind].
  destruct r as [|t r]; [reflexivity|]. destruct t; try reflexivity. exfalso. eapply Hn; reflexivity.
Qed.

Lemma R_tern ts c r a r2 b r3 :
  PBin 1 ts (c, TQ :: r) -> closer r = false -> PTern r (a, TColon :: r2) -> PTern r2 (b, r3) ->
  PTern ts (Tern c a b, r3).
Proof.
  intros [f1 H1] Hc [f2 H2] [f3 H3]. exists (S (f1 + f2 + f3)). rewrite p_tern_S.
  rewrite (up_bin _ (f1 + f2 + f3) _ _ _ H1) by lia. cbn [bind]. rewrite Hc.
  rewrite (up_tern _ (f1 + f2 + f3) _ _ H2) by lia.
  rewrite (up_tern _ (f1 + f2 + f3) _ _ H3) by lia. reflexivity.
Qed.

(* ---- the binary ladder *)
Lemma R_bin_top l ts v : L < l -> PUn ts v -> PBin l ts v.
Proof.
  intros Hl [f H]. exists (S f). rewrite p_bin_S.
  destruct (Nat.ltb_spec L l); [exact H|lia].
Qed.

Lemma R_bin l ts a r v : l <= L -> PBin (S l) ts (a, r) -> PLoop l a r v -> PBin l ts v.
Proof.
  intros Hl [f1 H1] [f2 H2]. exists (S (f1 + f2)). rewrite p_bin_S.
  destruct (Nat.ltb_spec L l); [lia|].
  rewrite (up_bin _ (f1 + f2) _ _ _ H1) by lia. cbn [bind]. apply (up_loop _ _ _ _ _ _ H2). lia.
Qed.

Lemma R_loop_stop l acc ts :
  (forall o r, ts = TOp o :: r -> lvl tbl o <> l) -> PLoop l acc ts (acc, ts).
Proof.
  intros Hn. exists 1. rewrite bin_loop_S. destruct ts as [|t r]; [reflexivity|].
  destruct t; try reflexivity. destruct (Nat.eqb_spec (lvl tbl o) l); [|reflexivity].
  exfalso. eapply Hn; eauto.
Qed.

Lemma R_loop_step l acc o r b r' v :
  lvl tbl o = l -> PBin (S l) r (b, r') -> PLoop l (Bin o acc b) r' v -> PLoop l acc (TOp o :: r) v.
Proof.
  intros Hl [f1 H1] [f2 H2]. exists (S (f1 + f2)). rewrite bin_loop_S.
  rewrite (proj2 (Nat.eqb_eq _ _) Hl).
  rewrite (up_bin _ (f1 + f2) _ _ _ H1) by lia. cbn [bind]. apply (up_loop _ _ _ _ _ _ H2). lia.
Qed.

(* ---- parseUnary *)
Lemma R_un ts u r a r' : unary_tok ts = Some (u, r) -> PUn r (a, r') -> PUn ts (Un u a, r').
Proof.
  intros Hu [f H]. exists (S f). rewrite p_unary_S, Hu, H. reflexivity.
Qed.

Lemma R_pre d r a r' : PPostfix r (a, r') -> PUn (itok d :: r) (Pre d a, r').
Proof.
  intros [f H]. exists (S f). rewrite p_unary_S. destruct d; cbn [itok unary_tok]; rewrite H; reflexivity.
Qed.

Definition unary_start (ts : list tok) : bool :=
  match ts with
  | (TNot | TTilde | TInc | TDec | TOp Sub | TOp BAnd | TOp Mul | TAwait | TTry | TChecked) :: _ => true
  | _ => false
  end.

Lemma R_un_post ts v : unary_start ts = false -> PPostfix ts v -> PUn ts v.
Proof.
  intros Hs [f H]. exists (S f). rewrite p_unary_S.
  destruct ts as [|t r]; [exact H|].
  destruct t; try exact H; try discriminate Hs.
  destruct o; try exact H; discriminate Hs.
Qed.

(* ---- parsePostfix loop *)
Lemma R_post_idx e r i r' v : PAsg r (i, TRB :: r') -> PPostL (Idx e i) r' v -> PPostL e (TLB :: r) v.
Proof.
  intros [f1 H1] [f2 H2]. exists (S (f1 + f2)). rewrite post_loop_S.
  rewrite (up_assign _ (f1 + f2) _ _ H1) by lia. cbn [bind]. apply (up_postl _ _ _ _ _ H2). lia.
Qed.

Lemma R_post_mem e m r v : starts_lp r = false -> PPostL (Mem e m) r v -> PPostL e (TDot :: TId m :: r) v.
Proof.
  intros Hs [f H]. exists (S f). rewrite post_loop_S.
  destruct r as [|t r]; [exact H|]. destruct t; try exact H. discriminate Hs.
Qed.

Lemma R_post_arrow e m r v : starts_lp r = false -> PPostL (Arrow e m) r v -> PPostL e (TArrow :: TId m :: r) v.
Proof.
  intros Hs [f H]. exists (S f). rewrite post_loop_S.
  destruct r as [|t r]; [exact H|]. destruct t; try exact H. discriminate Hs.
Qed.

(* a method call a.m(args) / a->m(args) inside the postfix chain *)
Lemma R_post_mcall ar e m r args r2 v :
  PArgs true r (args, r2) -> PPostL (MCall ar e m args) r2 v ->
  PPostL e ((if ar then TArrow else TDot) :: TId m :: TLP :: r) v.
Proof.
  intros [f1 H1] [f2 H2]. exists (S (f1 + f2)). rewrite post_loop_S.
  destruct ar; rewrite (up_args _ (f1 + f2) _ _ _ H1) by lia; cbn [bind];
    apply (up_postl _ _ _ _ _ H2); lia.
Qed.

Lemma R_post_incdec e d r : PPostL e (itok d :: r) (Post d e, r).
Proof. exists 1. rewrite post_loop_S. destruct d; reflexivity. Qed.

Definition postfix_start (ts : list tok) : bool :=
  match ts with
  | (TLB | TDot | TArrow | TInc | TDec | TLP) :: _ => true
  | _ => false
  end.

Lemma R_post_stop e ts : postfix_start ts = false -> PPostL e ts (e, ts).
Proof.
  intros Hs. exists 1. rewrite post_loop_S. destruct ts as [|t r]; [reflexivity|].
  destruct t; try reflexivity; discriminate Hs.
Qed.

(* ---- parsePrimary *)
Lemma R_prim_num n r : PPrim (TNum n :: r) (Num n, r).
Proof. exists 1. rewrite p_primary_S. reflexivity. Qed.

Lemma R_prim_var x r :
  starts_lp r = false ->
  (forall r1, r = TOp LtO :: r1 -> id_upper x = false /\ generic_scan 1 r1 = false) ->
  PPrim (TId x :: r) (Var x, r).
Proof.
  intros Hs Hg. exists 1. rewrite p_primary_S. rewrite Hs, andb_false_r.
  destruct r as [|t r]; [unfold name_skip; destruct (id_upper x); reflexivity|].
  destruct t; try (unfold name_skip; destruct (id_upper x); reflexivity); try discriminate Hs.
  destruct o; try (unfold name_skip; destruct (id_upper x); reflexivity).
  destruct (Hg r eq_refl) as [Hu Hsc]. unfold name_skip. rewrite Hu.
  rewrite (scan_false_b _ _ _ Hsc). reflexivity.
Qed.

Lemma R_prim_call x r args r2 :
  is_sizeof x = false ->
  PArgs false r (args, r2) -> starts_lp r2 = false -> PPrim (TId x :: TLP :: r) (Call x args, r2).
Proof.
  intros Hz [f H] Hs. exists (S f). rewrite p_primary_S. rewrite Hz. cbn [andb].
  unfold name_skip. destruct (id_upper x); rewrite H; cbn [bind]; rewrite Hs; reflexivity.
Qed.

(* sizeof ( expression ) *)
Lemma R_prim_sizeof x r e r2 :
  is_sizeof x = true -> sizeof_type_start r = false ->
  PAsg r (e, TRP :: r2) -> PPrim (TId x :: TLP :: r) (Call x [e], r2).
Proof.
  intros Hz Ht [f H]. exists (S f). rewrite p_primary_S. rewrite Hz. cbn [starts_lp andb].
  rewrite Ht, H. reflexivity.
Qed.

Lemma R_prim_paren r e r' :
  cast_type r = None -> PAsg r (e, TRP :: r') -> PPrim (TLP :: r) (e, r').
Proof.
  intros Hc [f H]. exists (S f). rewrite p_primary_S, Hc, H. reflexivity.
Qed.

(* ( type ) unary *)
Lemma R_prim_cast r ty r' a r2 :
  cast_type r = Some (ty, r') -> PUn r' (a, r2) -> PPrim (TLP :: r) (Cast ty a, r2).
Proof.
  intros Hc [f H]. exists (S f). rewrite p_primary_S, Hc, H. reflexivity.
Qed.

(* ---- array literals *)
Lemma R_prim_arr r l r' : PElems r (l, r') -> PPrim (TLB :: r) (ArrLit l, r').
Proof. intros [f H]. exists (S f). rewrite p_primary_S, H. reflexivity. Qed.

Lemma R_elems_nil r : PElems (TRB :: r) ([], r).
Proof. exists 1. rewrite p_elems_S. reflexivity. Qed.

Lemma R_elems_last ts a r : (forall r0, ts <> TRB :: r0) -> PAsg ts (a, TRB :: r) -> PElems ts ([a], r).
Proof.
  intros Hn [f H]. exists (S f). rewrite p_elems_S.
  destruct ts as [|t ts']; [rewrite H; reflexivity|].
  destruct t; try (rewrite H; reflexivity). exfalso. eapply Hn; reflexivity.
Qed.

Lemma R_elems_cons ts a r l r' :
  (forall r0, ts <> TRB :: r0) -> PAsg ts (a, TComma :: r) -> PElems r (l, r') -> PElems ts (a :: l, r').
Proof.
  intros Hn [f1 H1] [f2 H2]. exists (S (f1 + f2)). rewrite p_elems_S.
  assert (E : bind (p_assign tbl (f1 + f2) ts) (fun ar =>
        match ar with
        | (a, TComma :: r) => bind (p_elems tbl (f1 + f2) r) (fun lr => let (l, r') := lr in Ok (a :: l, r'))
        | (a, TRB :: r) => Ok ([a], r)
        | _ => Err
        end) = Ok (a :: l, r')).
  { rewrite (up_assign _ (f1 + f2) _ _ H1) by lia. cbn [bind].
    rewrite (up_elems _ (f1 + f2) _ _ H2) by lia. reflexivity. }
  destruct ts as [|t ts']; [exact E|].
  destruct t; try exact E. exfalso. eapply Hn; reflexivity.
Qed.

(* ---- argument lists *)
Lemma R_args_nil trail r : PArgs trail (TRP :: r) ([], r).
Proof. exists 1. rewrite p_args_S. reflexivity. Qed.

Lemma R_args_last trail ts a r : (forall r0, ts <> TRP :: r0) -> PAsg ts (a, TRP :: r) -> PArgs trail ts ([a], r).
Proof.
  intros Hn [f H]. exists (S f). rewrite p_args_S.
  destruct ts as [|t ts']; [rewrite H; reflexivity|].
  destruct t; try (rewrite H; reflexivity). exfalso. eapply Hn; reflexivity.
Qed.

Lemma R_args_cons trail ts a r l r' :
  (forall r0, ts <> TRP :: r0) -> (forall r0, r <> TRP :: r0) ->
  PAsg ts (a, TComma :: r) -> PArgs trail r (l, r') -> PArgs trail ts (a :: l, r').
Proof.
  intros Hn Hn2 [f1 H1] [f2 H2]. exists (S (f1 + f2)). rewrite p_args_S.
  assert (E : bind (p_assign tbl (f1 + f2) ts) (fun ar =>
        match ar with
        | (a, TComma :: r) =>
            match r with
            | TRP :: r' => if trail then Ok ([a], r') else Err
            | _ => bind (p_args tbl (f1 + f2) trail r) (fun asr => let (l, r') := asr in Ok (a :: l, r'))
            end
        | (a, TRP :: r) => Ok ([a], r)
        | _ => Err
        end) = Ok (a :: l, r')).
  { rewrite (up_assign _ (f1 + f2) _ _ H1) by lia. cbn [bind].
    rewrite (up_args _ (f1 + f2) _ _ _ H2) by lia.
    destruct r as [|t r0]; [reflexivity|]. destruct t; try reflexivity. exfalso. eapply Hn2; reflexivity. }
  destruct ts as [|t ts']; [exact E|].
  destruct t; try exact E. exfalso. eapply Hn; reflexivity.
Qed.

End Rules.
