(* C02 - property theorems only.  Statements are about the Mech model of expression_parser.cpp,
   RecursiveParser::parseTernary and parsePrimary (Model.v); proofs are in Mono.v, Rules.v,
   Roundtrip.v, Theorems.v and Tables.v.  ladder_table is re-extracted from the C++ text on every run
   (Gen_LadderTable.v).

   Vocabulary: [pr tbl 0 e] prints a source tree with the parentheses the table [tbl] requires plus
   every explicit [Par]; [strip] erases [Par]; [wf] = built from the documented operators with
   assignment targets the parser accepts; [folb tbl 0 rest] = [rest] starts with a token that can
   follow a complete expression; [safeb false ts] = the stream trips neither look-ahead of
   parsePrimary (`( ident-shaped )` taken for a cast, `ident < ... > (` taken for a generic call);
   it is a computable predicate and the generator's avoidance of findings #36 / #37. *)
From Coq Require Import List Arith Bool NArith ZArith String.
From Cb Require Import C02.Model C02.Roundtrip C02.Theorems C02.Gen_LadderTable C02.Tables.
Import ListNotations.

(* MAIN: for EVERY level table that gives each binary operator a level, EVERY well-formed expression
   tree (any depth, any placement of redundant parentheses) and EVERY admissible follow context:
   parsing the printed stream returns the tree without its parentheses and leaves the context. *)
Theorem roundtrip_general : forall tbl e rest,
  table_total tbl = true -> wf e = true -> folb tbl 0 rest = true ->
  safeb false (pr tbl 0 e ++ rest) = true ->
  exists fuel, p_assign tbl fuel (pr tbl 0 e ++ rest) = Ok (strip e, rest).
Proof. exact roundtrip_general_l. Qed.
Print Assumptions roundtrip_general.

(* minimal parentheses: a tree without explicit parentheses comes back unchanged *)
Theorem roundtrip_min : forall tbl e rest,
  table_total tbl = true -> wf e = true -> nopar e = true -> folb tbl 0 rest = true ->
  safeb false (pr tbl 0 e ++ rest) = true ->
  exists fuel, p_assign tbl fuel (pr tbl 0 e ++ rest) = Ok (e, rest).
Proof. exact roundtrip_min_l. Qed.
Print Assumptions roundtrip_min.

(* full parentheses: [full e] puts every operand in parentheses ([fullpar_full]) and parses to the
   same tree *)
Theorem roundtrip_full : forall tbl e rest,
  table_total tbl = true -> wf e = true -> folb tbl 0 rest = true ->
  safeb false (pr tbl 0 (full e) ++ rest) = true ->
  exists fuel, p_assign tbl fuel (pr tbl 0 (full e) ++ rest) = Ok (strip e, rest).
Proof. exact roundtrip_full_l. Qed.
Print Assumptions roundtrip_full.

Theorem full_is_fully_parenthesised : forall e, fullpar (full e) = true /\ strip (full e) = strip e.
Proof. intros e. split; [apply fullpar_full|apply strip_full]. Qed.
Print Assumptions full_is_fully_parenthesised.

(* adding or removing ANY redundant parentheses never changes the parse ... *)
Theorem redundant_parens : forall tbl e e' rest,
  table_total tbl = true -> wf e = true -> wf e' = true -> strip e = strip e' ->
  folb tbl 0 rest = true ->
  safeb false (pr tbl 0 e ++ rest) = true -> safeb false (pr tbl 0 e' ++ rest) = true ->
  exists fuel, p_assign tbl fuel (pr tbl 0 e ++ rest) = Ok (strip e, rest) /\
               p_assign tbl fuel (pr tbl 0 e' ++ rest) = Ok (strip e, rest).
Proof. exact redundant_parens_l. Qed.
Print Assumptions redundant_parens.

(* ... nor the value (pure integer fragment of the model evaluator) *)
Theorem parens_irrelevant_eval : forall tbl e e' rest env f f' x x' r r',
  table_total tbl = true -> wf e = true -> wf e' = true -> strip e = strip e' ->
  folb tbl 0 rest = true ->
  safeb false (pr tbl 0 e ++ rest) = true -> safeb false (pr tbl 0 e' ++ rest) = true ->
  p_assign tbl f (pr tbl 0 e ++ rest) = Ok (x, r) -> p_assign tbl f' (pr tbl 0 e' ++ rest) = Ok (x', r') ->
  x = x' /\ r = r' /\ eval env x = eval env e /\ eval env x' = eval env e.
Proof. exact parens_irrelevant_eval_l. Qed.
Print Assumptions parens_irrelevant_eval.

(* fuel is only recursion depth: with ANY fuel the answer is that tree or an explicit out-of-fuel
   report - never another tree and never a parse error (the driver doubles the fuel until the answer is
   not out-of-fuel; [roundtrip_general] says such a fuel exists) *)
Theorem roundtrip_any_fuel : forall tbl e rest,
  table_total tbl = true -> wf e = true -> folb tbl 0 rest = true ->
  safeb false (pr tbl 0 e ++ rest) = true ->
  forall g, p_assign tbl g (pr tbl 0 e ++ rest) = Ok (strip e, rest) \/
            p_assign tbl g (pr tbl 0 e ++ rest) = Fuel.
Proof. exact roundtrip_any_fuel_l. Qed.
Print Assumptions roundtrip_any_fuel.

(* PARTIAL (missing: a proof that the closed-form bound [enough_fuel] always suffices; it is the first
   fuel the driver tries) *)
Theorem enough_fuel_partial : forall tbl e rest,
  table_total tbl = true -> wf e = true -> folb tbl 0 rest = true ->
  safeb false (pr tbl 0 e ++ rest) = true ->
  parse tbl (pr tbl 0 e ++ rest) = Ok (strip e, rest) \/ parse tbl (pr tbl 0 e ++ rest) = Fuel.
Proof. exact roundtrip_parse_l. Qed.
Print Assumptions enough_fuel_partial.

(* the documented groupings, on concrete streams, for any total table *)
Theorem binary_left_assoc : forall tbl, table_total tbl = true ->
  forall o1 o2 x y z, lvl tbl o1 = lvl tbl o2 ->
  exists fuel, p_assign tbl fuel [TId x; TOp o1; TId y; TOp o2; TId z] =
               Ok (Bin o2 (Bin o1 (Var x) (Var y)) (Var z), []).
Proof. exact binary_left_assoc_l. Qed.
Print Assumptions binary_left_assoc.

Theorem higher_level_binds_tighter : forall tbl, table_total tbl = true ->
  forall o1 o2 x y z, lvl tbl o1 < lvl tbl o2 ->
  (exists fuel, p_assign tbl fuel [TId x; TOp o1; TId y; TOp o2; TId z] =
                Ok (Bin o1 (Var x) (Bin o2 (Var y) (Var z)), [])) /\
  (exists fuel, p_assign tbl fuel [TId x; TOp o2; TId y; TOp o1; TId z] =
                Ok (Bin o1 (Bin o2 (Var x) (Var y)) (Var z), [])).
Proof. exact higher_level_binds_tighter_l. Qed.
Print Assumptions higher_level_binds_tighter.

Theorem ternary_right_assoc : forall tbl, table_total tbl = true -> forall a b c d e,
  exists fuel, p_assign tbl fuel [TId a; TQ; TId b; TColon; TId c; TQ; TId d; TColon; TId e] =
               Ok (Tern (Var a) (Var b) (Tern (Var c) (Var d) (Var e)), []).
Proof. exact ternary_right_assoc_l. Qed.
Print Assumptions ternary_right_assoc.

Theorem assignment_right_assoc : forall tbl, table_total tbl = true -> forall o1 o2 x y z,
  exists fuel, p_assign tbl fuel [TId x; TAsg o1; TId y; TAsg o2; TId z] =
               Ok (Asg o1 (Var x) (Asg o2 (Var y) (Var z)), []).
Proof. exact assignment_right_assoc_l. Qed.
Print Assumptions assignment_right_assoc.

Theorem binary_above_ternary_above_assignment : forall tbl, table_total tbl = true -> forall o x a b c d,
  exists fuel, p_assign tbl fuel [TId x; TAsg None; TId a; TOp o; TId b; TQ; TId c; TColon; TId d] =
               Ok (Asg None (Var x) (Tern (Bin o (Var a) (Var b)) (Var c) (Var d)), []).
Proof. exact binary_ternary_assignment_l. Qed.
Print Assumptions binary_above_ternary_above_assignment.

Theorem unary_binds_tighter_than_binary : forall tbl, table_total tbl = true -> forall u o x y,
  (exists fuel, p_assign tbl fuel [utok u; TId x; TOp o; TId y] = Ok (Bin o (Un u (Var x)) (Var y), [])) /\
  (exists fuel, p_assign tbl fuel [TId x; TOp o; utok u; TId y] = Ok (Bin o (Var x) (Un u (Var y)), [])).
Proof. exact unary_binds_tighter_than_binary_l. Qed.
Print Assumptions unary_binds_tighter_than_binary.

Theorem postfix_binds_tighter_than_unary : forall tbl, table_total tbl = true -> forall u x i m d,
  (exists fuel, p_assign tbl fuel [utok u; TId x; TLB; TId i; TRB] = Ok (Un u (Idx (Var x) (Var i)), [])) /\
  (exists fuel, p_assign tbl fuel [utok u; TId x; itok d] = Ok (Un u (Post d (Var x)), [])) /\
  (exists fuel, p_assign tbl fuel [utok u; TId x; TDot; TId m] = Ok (Un u (Mem (Var x) m), [])).
Proof. exact postfix_binds_tighter_than_unary_l. Qed.
Print Assumptions postfix_binds_tighter_than_unary.

(* the generator's syntactic avoidance implies the generic look-ahead never fires *)
Theorem no_gt_before_lparen_is_generic_safe : forall ts, no_gt_lp ts = true -> forall d, generic_scan d ts = false.
Proof. exact no_gt_lp_generic_safe_l. Qed.
Print Assumptions no_gt_before_lparen_is_generic_safe.

(* ---- the table of the code.  ladder_table, ladder_shape, ... are GENERATED from expression_parser.cpp /
   recursive_parser.cpp on every run; the next obligations are closed by conversion against them, so a
   change of any `while` token set or call structure breaks the obligation that names it. *)
(* the generated table is the table the model is pinned to, and it is total: every theorem above
   applies to it *)
Theorem ladder_is_pinned : ladder_table = pinned_table /\ table_total ladder_table = true.
Proof. exact (conj (eq_refl pinned_table) pinned_total_l). Qed.
Print Assumptions ladder_is_pinned.

(* the functions around the table have the shape Model.v assumes: every level a left-associative
   `while` loop (right operand parsed by the same callee as the left one), one chain from
   parseTernary's condition callee down to parseUnary; ?: parses both branches with parseTernary;
   assignment is parseTernary [op parseAssignment]; prefix operators recurse into parseUnary, ++/--
   and the fall-through use parsePostfix *)
Theorem ladder_structure_is_modelled :
  structure_ok ladder_shape ladder_ternary ladder_entry ladder_assign ladder_unary_prefix
               ladder_unary_calls ladder_table = true.
Proof. exact (eq_refl true). Qed.
Print Assumptions ladder_structure_is_modelled.

(* the documented table is total too; once the ladder equals it, printing by the DOCUMENTED table
   round-trips through the code's ladder *)
Theorem conforms_if_ladder_is_spec : table_total spec_table = true /\
  (ladder_table = spec_table ->
   forall e rest, wf e = true -> folb spec_table 0 rest = true ->
   safeb false (pr spec_table 0 e ++ rest) = true ->
   exists fuel, p_assign ladder_table fuel (pr spec_table 0 e ++ rest) = Ok (strip e, rest)).
Proof. exact (conj spec_total_l (conforms_if_is_spec_l ladder_table)). Qed.
Print Assumptions conforms_if_ladder_is_spec.

(* REFUTED on the pinned tree (known finding C02-eq-rel-same-level): == != share the level of
   < <= > >= *)
Theorem ladder_is_spec_refuted : ladder_table <> spec_table.
Proof. exact pinned_is_not_spec_l. Qed.
Print Assumptions ladder_is_spec_refuted.

(* ... and that is the ONLY deviation: every other pair of operators is ordered as documented *)
Theorem tables_differ_only_eq_rel : forall o1 o2,
  Nat.compare (lvl pinned_table o1) (lvl pinned_table o2) = Nat.compare (lvl spec_table o1) (lvl spec_table o2)
  \/ (is_eq o1 = true /\ is_rel o2 = true) \/ (is_rel o1 = true /\ is_eq o2 = true).
Proof. exact tables_differ_only_eq_rel_l. Qed.
Print Assumptions tables_differ_only_eq_rel.

(* the witness: 3 == 3 > 0 is 0 by the documented grouping, the ladder computes 1 *)
Theorem spec_grouping_refuted :
  exists e, wf e = true /\ nopar e = true /\
    pr spec_table 0 e = [TNum 3; TOp EqO; TNum 3; TOp GtO; TNum 0] /\
    exists e', parse ladder_table (pr spec_table 0 e) = Ok (e', []) /\ e' <> e /\
      eval (fun _ => 0%Z) e = Some 0%Z /\ eval (fun _ => 0%Z) e' = Some 1%Z.
Proof. exact spec_grouping_refuted_l. Qed.
Print Assumptions spec_grouping_refuted.

(* REFUTED without the [safeb] hypothesis (known finding C02-paren-ident-cast, DESIGN #36):
   (a) - 1 parses as the cast (a)(-1) *)
Theorem redundant_parens_refuted :
  exists e e', wf e = true /\ wf e' = true /\ strip e = strip e' /\
    pr pinned_table 0 e' = [TLP; TId 0; TRP; TOp Sub; TNum 1] /\
    parse pinned_table (pr pinned_table 0 e) = Ok (strip e, []) /\
    parse pinned_table (pr pinned_table 0 e') = Ok (Cast [TId 0] (Un Neg (Num 1)), []) /\
    safeb false (pr pinned_table 0 e') = false.
Proof. exact redundant_parens_refuted_l. Qed.
Print Assumptions redundant_parens_refuted.

(* REFUTED without the [safeb] hypothesis (known finding C02-generic-lookahead, DESIGN #37):
   a < b > (c & d), printed with minimal parentheses, parses as the generic call a<b>(c & d) *)
Theorem roundtrip_min_refuted_generic :
  exists e, wf e = true /\ nopar e = true /\
    pr pinned_table 0 e = [TId 0; TOp LtO; TId 1; TOp GtO; TLP; TId 2; TOp BAnd; TId 3; TRP] /\
    parse pinned_table (pr pinned_table 0 e) = Ok (Generic 1 (Call 0 [Bin BAnd (Var 2) (Var 3)]), []) /\
    safeb false (pr pinned_table 0 e) = false.
Proof. exact roundtrip_min_refuted_generic_l. Qed.
Print Assumptions roundtrip_min_refuted_generic.

(* the hypotheses are satisfiable and [enough_fuel] suffices on a stream using every construct *)
Example sample_roundtrip :
  wf sample = true /\ folb pinned_table 0 [TRP; TSemi] = true /\
  safeb false (pr pinned_table 0 sample ++ [TRP; TSemi]) = true /\
  parse pinned_table (pr pinned_table 0 sample ++ [TRP; TSemi]) = Ok (strip sample, [TRP; TSemi]) /\
  parse pinned_table (pr pinned_table 0 (full sample) ++ [TRP; TSemi]) = Ok (strip sample, [TRP; TSemi]).
Proof. exact sample_roundtrip_l. Qed.
