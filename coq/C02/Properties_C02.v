(* C02 - property theorems only.  Statements are about the Mech model of expression_parser.cpp,
   RecursiveParser::parseTernary and parsePrimary (Model.v); proofs are in Mono.v, Rules.v,
   Roundtrip.v, Theorems.v and Tables.v.  ladder_table is re-extracted from the C++ text on every run
   (Gen_LadderTable.v).

   Vocabulary: [pr tbl 0 e] prints a source tree with the parentheses the table [tbl] requires plus
   every explicit [Par]; [strip] erases [Par]; [wf] = built from the documented operators with
   assignment targets the parser accepts; [folb tbl 0 rest] = [rest] starts with a token that can
   follow a complete expression; [safeb ts] = no `identifier <` of the stream trips the generic-call
   look-ahead of parsePrimary (`ident < type-argument-like tokens > (`, the still open part of finding
   C02-generic-lookahead); computable, implied by [no_gt_lp] (no `>` directly before `(`).  Since the
   fixes 4d0a4b7 / 9bd33cd / 34a2124 the ladder is the documented table, the look-ahead stops at
   ; ( ) { } = + - && || and a parenthesised identifier is never a cast. *)
From Coq Require Import List Arith Bool NArith ZArith String.
From Cb Require Import C02.Model C02.Roundtrip C02.Theorems C02.Gen_LadderTable C02.Tables.
Import ListNotations.

(* MAIN: for EVERY level table that gives each binary operator a level, EVERY well-formed expression
   tree (any depth, any placement of redundant parentheses) and EVERY admissible follow context:
   parsing the printed stream returns the tree without its parentheses and leaves the context. *)
Theorem roundtrip_general : forall tbl e rest,
  table_total tbl = true -> wf e = true -> folb tbl 0 rest = true ->
  safeb (pr tbl 0 e ++ rest) = true ->
  exists fuel, p_assign tbl fuel (pr tbl 0 e ++ rest) = Ok (strip e, rest).
Proof. exact roundtrip_general_l. Qed.
Print Assumptions roundtrip_general.

(* minimal parentheses: a tree without explicit parentheses comes back unchanged *)
Theorem roundtrip_min : forall tbl e rest,
  table_total tbl = true -> wf e = true -> nopar e = true -> folb tbl 0 rest = true ->
  safeb (pr tbl 0 e ++ rest) = true ->
  exists fuel, p_assign tbl fuel (pr tbl 0 e ++ rest) = Ok (e, rest).
Proof. exact roundtrip_min_l. Qed.
Print Assumptions roundtrip_min.

(* full parentheses: [full e] puts every operand in parentheses ([fullpar_full]) and parses to the
   same tree *)
Theorem roundtrip_full : forall tbl e rest,
  table_total tbl = true -> wf e = true -> folb tbl 0 rest = true ->
  safeb (pr tbl 0 (full e) ++ rest) = true ->
  exists fuel, p_assign tbl fuel (pr tbl 0 (full e) ++ rest) = Ok (strip e, rest).
Proof. exact roundtrip_full_l. Qed.
Print Assumptions roundtrip_full.

Theorem full_is_fully_parenthesised : forall e, fullpar (full e) = true /\ strip (full e) = strip e.
Proof. intros e. split; [apply fullpar_full|apply strip_full]. Qed.
Print Assumptions full_is_fully_parenthesised.

(* adding or removing ANY redundant parentheses never changes the parse ... *)
Theorem redundant_parens : forall tbl e e' rest,
  table_total tbl = true -> wf e = true -> wf e' = true -> strip e = strip e' ->
  folb tbl 0 rest = true ->
  safeb (pr tbl 0 e ++ rest) = true -> safeb (pr tbl 0 e' ++ rest) = true ->
  exists fuel, p_assign tbl fuel (pr tbl 0 e ++ rest) = Ok (strip e, rest) /\
               p_assign tbl fuel (pr tbl 0 e' ++ rest) = Ok (strip e, rest).
Proof. exact redundant_parens_l. Qed.
Print Assumptions redundant_parens.

(* ... nor the value (pure integer fragment of the model evaluator) *)
Theorem parens_irrelevant_eval : forall tbl e e' rest env f f' x x' r r',
  table_total tbl = true -> wf e = true -> wf e' = true -> strip e = strip e' ->
  folb tbl 0 rest = true ->
  safeb (pr tbl 0 e ++ rest) = true -> safeb (pr tbl 0 e' ++ rest) = true ->
  p_assign tbl f (pr tbl 0 e ++ rest) = Ok (x, r) -> p_assign tbl f' (pr tbl 0 e' ++ rest) = Ok (x', r') ->
  x = x' /\ r = r' /\ eval env x = eval env e /\ eval env x' = eval env e.
Proof. exact parens_irrelevant_eval_l. Qed.
Print Assumptions parens_irrelevant_eval.

(* the same at full strength with a purely syntactic side condition: in neither text a `>` stands
   directly before a `(` (parenthesised identifiers, elements, anything else are fine since 34a2124) *)
Theorem redundant_parens_syntactic : forall tbl e e' rest,
  table_total tbl = true -> wf e = true -> wf e' = true -> strip e = strip e' ->
  folb tbl 0 rest = true ->
  no_gt_lp (pr tbl 0 e ++ rest) = true -> no_gt_lp (pr tbl 0 e' ++ rest) = true ->
  exists fuel, p_assign tbl fuel (pr tbl 0 e ++ rest) = Ok (strip e, rest) /\
               p_assign tbl fuel (pr tbl 0 e' ++ rest) = Ok (strip e, rest).
Proof. exact redundant_parens_syntactic_l. Qed.
Print Assumptions redundant_parens_syntactic.

(* fuel is only recursion depth: with ANY fuel the answer is that tree or an explicit out-of-fuel
   report - never another tree and never a parse error (the driver doubles the fuel until the answer is
   not out-of-fuel; [roundtrip_general] says such a fuel exists) *)
Theorem roundtrip_any_fuel : forall tbl e rest,
  table_total tbl = true -> wf e = true -> folb tbl 0 rest = true ->
  safeb (pr tbl 0 e ++ rest) = true ->
  forall g, p_assign tbl g (pr tbl 0 e ++ rest) = Ok (strip e, rest) \/
            p_assign tbl g (pr tbl 0 e ++ rest) = Fuel.
Proof. exact roundtrip_any_fuel_l. Qed.
Print Assumptions roundtrip_any_fuel.

(* PARTIAL (missing: a proof that the closed-form bound [enough_fuel] always suffices; it is the first
   fuel the driver tries) *)
Theorem enough_fuel_partial : forall tbl e rest,
  table_total tbl = true -> wf e = true -> folb tbl 0 rest = true ->
  safeb (pr tbl 0 e ++ rest) = true ->
  parse tbl (pr tbl 0 e ++ rest) = Ok (strip e, rest) \/ parse tbl (pr tbl 0 e ++ rest) = Fuel.
Proof. exact roundtrip_parse_l. Qed.
Print Assumptions enough_fuel_partial.

(* the documented groupings, on concrete streams, for any total table *)
Theorem binary_left_assoc : forall tbl, table_total tbl = true ->
  forall o1 o2 x y z, lvl tbl o1 = lvl tbl o2 ->
  exists fuel, p_assign tbl fuel [TId x; TOp o1; TId y; TOp o2; TId z] =
               Ok (Bin o2 (Bin o1 (Var x) (Var y)) (Var z), []).
Proof. exact binary_left_assoc_l. Qed.
Print Assumptions binary_left_assoc.

Theorem higher_level_binds_tighter : forall tbl, table_total tbl = true ->
  forall o1 o2 x y z, lvl tbl o1 < lvl tbl o2 ->
  (exists fuel, p_assign tbl fuel [TId x; TOp o1; TId y; TOp o2; TId z] =
                Ok (Bin o1 (Var x) (Bin o2 (Var y) (Var z)), [])) /\
  (exists fuel, p_assign tbl fuel [TId x; TOp o2; TId y; TOp o1; TId z] =
                Ok (Bin o1 (Bin o2 (Var x) (Var y)) (Var z), [])).
Proof. exact higher_level_binds_tighter_l. Qed.
Print Assumptions higher_level_binds_tighter.

Theorem ternary_right_assoc : forall tbl, table_total tbl = true -> forall a b c d e,
  exists fuel, p_assign tbl fuel [TId a; TQ; TId b; TColon; TId c; TQ; TId d; TColon; TId e] =
               Ok (Tern (Var a) (Var b) (Tern (Var c) (Var d) (Var e)), []).
Proof. exact ternary_right_assoc_l. Qed.
Print Assumptions ternary_right_assoc.

Theorem assignment_right_assoc : forall tbl, table_total tbl = true -> forall o1 o2 x y z,
  exists fuel, p_assign tbl fuel [TId x; TAsg o1; TId y; TAsg o2; TId z] =
               Ok (Asg o1 (Var x) (Asg o2 (Var y) (Var z)), []).
Proof. exact assignment_right_assoc_l. Qed.
Print Assumptions assignment_right_assoc.

Theorem binary_above_ternary_above_assignment : forall tbl, table_total tbl = true -> forall o x a b c d,
  exists fuel, p_assign tbl fuel [TId x; TAsg None; TId a; TOp o; TId b; TQ; TId c; TColon; TId d] =
               Ok (Asg None (Var x) (Tern (Bin o (Var a) (Var b)) (Var c) (Var d)), []).
Proof. exact binary_ternary_assignment_l. Qed.
Print Assumptions binary_above_ternary_above_assignment.

Theorem unary_binds_tighter_than_binary : forall tbl, table_total tbl = true -> forall u o x y,
  (exists fuel, p_assign tbl fuel [utok u; TId x; TOp o; TId y] = Ok (Bin o (Un u (Var x)) (Var y), [])) /\
  (exists fuel, p_assign tbl fuel [TId x; TOp o; utok u; TId y] = Ok (Bin o (Var x) (Un u (Var y)), [])).
Proof. exact unary_binds_tighter_than_binary_l. Qed.
Print Assumptions unary_binds_tighter_than_binary.

Theorem postfix_binds_tighter_than_unary : forall tbl, table_total tbl = true -> forall u x i m d,
  (exists fuel, p_assign tbl fuel [utok u; TId x; TLB; TId i; TRB] = Ok (Un u (Idx (Var x) (Var i)), [])) /\
  (exists fuel, p_assign tbl fuel [utok u; TId x; itok d] = Ok (Un u (Post d (Var x)), [])) /\
  (exists fuel, p_assign tbl fuel [utok u; TId x; TDot; TId m] = Ok (Un u (Mem (Var x) m), [])).
Proof. exact postfix_binds_tighter_than_unary_l. Qed.
Print Assumptions postfix_binds_tighter_than_unary.

(* no `>` directly before `(` implies the generic look-ahead never fires and the stream is safe *)
Theorem no_gt_before_lparen_is_safe : forall ts, no_gt_lp ts = true ->
  safeb ts = true /\ forall d, generic_scan d ts = false.
Proof. intros ts H. split; [exact (no_gt_lp_safe_l ts H)|exact (no_gt_lp_generic_safe_l ts H)]. Qed.
Print Assumptions no_gt_before_lparen_is_safe.

(* ---- the table of the code.  ladder_table, ladder_shape, ... are GENERATED from expression_parser.cpp /
   recursive_parser.cpp / primary_expression_parser.cpp on every run; the next obligations are closed by
   conversion against them, so a change of any `while` token set, call structure or look-ahead guard
   breaks the obligation that names it. *)
(* the generated table IS the documented table (docs/spec.md:309, docs/BNF.md:407), and it is total:
   every theorem above applies to it *)
Theorem ladder_is_spec : ladder_table = spec_table /\ table_total ladder_table = true.
Proof. exact (conj (eq_refl spec_table) spec_total_l). Qed.
Print Assumptions ladder_is_spec.

(* the functions around the table have the shape Model.v assumes: every level a left-associative
   `while` loop (right operand parsed by the same callee as the left one), one chain from
   parseTernary's condition callee down to parseUnary; ?: parses both branches with parseTernary;
   assignment is parseTernary [op parseAssignment]; prefix operators recurse into parseUnary, ++/--
   and the fall-through use parsePostfix; the generic look-ahead gives up at ; ( ) { } = + - && || and after scan_bound = 256 tokens;
   `( identifier` is tried as a type only for a type name *)
Theorem ladder_structure_is_modelled :
  structure_ok ladder_shape ladder_ternary ladder_entry ladder_assign ladder_unary_prefix
               ladder_unary_calls ladder_generic_stops ladder_generic_bound ladder_cast_guard ladder_table = true.
Proof. exact (eq_refl true). Qed.
Print Assumptions ladder_structure_is_modelled.

(* printing by the DOCUMENTED table round-trips through the code's ladder: every expression groups
   as the specification table says *)
Theorem ladder_conforms_to_spec : forall e rest,
  wf e = true -> folb spec_table 0 rest = true -> safeb (pr spec_table 0 e ++ rest) = true ->
  exists fuel, p_assign ladder_table fuel (pr spec_table 0 e ++ rest) = Ok (strip e, rest).
Proof. exact conforms_l. Qed.
Print Assumptions ladder_conforms_to_spec.

(* former finding C02-eq-rel-same-level (fixed by 4d0a4b7): == != bind looser than < <= > >= on either
   side; the former witness 3 == 3 > 0 is 3 == (3 > 0) = 0 (the ladder before the fix gave (3 == 3) > 0) *)
Theorem spec_grouping : forall oe orl x y z, is_eq oe = true -> is_rel orl = true ->
  (exists fuel, p_assign ladder_table fuel [TId x; TOp oe; TId y; TOp orl; TId z] =
                Ok (Bin oe (Var x) (Bin orl (Var y) (Var z)), [])) /\
  (exists fuel, p_assign ladder_table fuel [TId x; TOp orl; TId y; TOp oe; TId z] =
                Ok (Bin oe (Bin orl (Var x) (Var y)) (Var z), [])).
Proof. exact spec_grouping_l. Qed.
Print Assumptions spec_grouping.

Theorem spec_grouping_witness :
  parse ladder_table [TNum 3; TOp EqO; TNum 3; TOp GtO; TNum 0] =
    Ok (Bin EqO (Num 3) (Bin GtO (Num 3) (Num 0)), []) /\
  eval (fun _ => 0%Z) (Bin EqO (Num 3) (Bin GtO (Num 3) (Num 0))) = Some 0%Z /\
  parse old_table [TNum 3; TOp EqO; TNum 3; TOp GtO; TNum 0] =
    Ok (Bin GtO (Bin EqO (Num 3) (Num 3)) (Num 0), []).
Proof. exact spec_witness_l. Qed.
Print Assumptions spec_grouping_witness.

(* former finding C02-paren-ident-cast (fixed by 34a2124): the former witnesses (a) - 1, (a[1]) - 1 and
   ((a) * 2) parse as the expressions they are (the general law is [redundant_parens]) *)
Theorem paren_identifier_is_not_a_cast :
  parse pinned_table (pr pinned_table 0 (Bin Sub (Par (Var 0)) (Num 1))) = Ok (Bin Sub (Var 0) (Num 1), []) /\
  pr pinned_table 0 (Bin Sub (Par (Var 0)) (Num 1)) = [TLP; TId 0; TRP; TOp Sub; TNum 1] /\
  parse pinned_table [TLP; TId 0; TLB; TNum 1; TRB; TRP; TOp Sub; TNum 1] =
    Ok (Bin Sub (Idx (Var 0) (Num 1)) (Num 1), []) /\
  parse pinned_table [TLP; TLP; TId 0; TRP; TOp Mul; TNum 2; TRP] = Ok (Bin Mul (Var 0) (Num 2), []).
Proof. exact paren_identifier_l. Qed.
Print Assumptions paren_identifier_is_not_a_cast.

(* C02-generic-lookahead after 9bd33cd: the look-ahead gives up at + and at a statement boundary ... *)
Theorem generic_lookahead_is_bounded :
  parse pinned_table [TId 0; TOp LtO; TId 1; TOp Add; TNum 1; TOp GtO; TLP; TId 2; TRP] =
    Ok (Bin GtO (Bin LtO (Var 0) (Bin Add (Var 1) (Num 1))) (Var 2), []) /\
  generic_scan 1 [TId 1; TRP; TSemi; TOther; TLP; TId 1; TOp GtO; TLP; TId 0; TRP] = false.
Proof. exact generic_lookahead_bounded_l. Qed.
Print Assumptions generic_lookahead_is_bounded.

(* ... but REFUTED without the [safeb] hypothesis (known finding C02-generic-lookahead, what is left of
   DESIGN #37): a < b > (c & d), printed with minimal parentheses, still parses as the generic call
   a<b>(c & d) - nothing at parse time tells a generic function name from a variable *)
Theorem roundtrip_min_refuted_generic :
  exists e, wf e = true /\ nopar e = true /\
    pr pinned_table 0 e = [TId 0; TOp LtO; TId 1; TOp GtO; TLP; TId 2; TOp BAnd; TId 3; TRP] /\
    parse pinned_table (pr pinned_table 0 e) = Ok (Generic 1 (Call 0 [Bin BAnd (Var 2) (Var 3)]), []) /\
    safeb (pr pinned_table 0 e) = false.
Proof. exact roundtrip_min_refuted_generic_l. Qed.
Print Assumptions roundtrip_min_refuted_generic.

(* the hypotheses are satisfiable and [enough_fuel] suffices on a stream using every construct *)
Example sample_roundtrip :
  wf sample = true /\ folb pinned_table 0 [TRP; TSemi] = true /\
  safeb (pr pinned_table 0 sample ++ [TRP; TSemi]) = true /\
  parse pinned_table (pr pinned_table 0 sample ++ [TRP; TSemi]) = Ok (strip sample, [TRP; TSemi]) /\
  parse pinned_table (pr pinned_table 0 (full sample) ++ [TRP; TSemi]) = Ok (strip sample, [TRP; TSemi]).
Proof. exact sample_roundtrip_l. Qed.
