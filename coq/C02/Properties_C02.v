(* C02 - property theorems only.  Statements are about the Mech model of expression_parser.cpp,
   RecursiveParser::parseTernary and parsePrimary (Model.v); proofs are in Mono.v, Rules.v,
   Roundtrip.v, Theorems.v and Tables.v.  ladder_table is re-extracted from the C++ text on every run
   (Gen_LadderTable.v).

   Vocabulary: [pr tbl 0 e] prints a source tree with the parentheses the table [tbl] requires plus
   every explicit [Par]; [strip] erases [Par]; [wf] = built from the documented operators with
   assignment targets the parser accepts; [folb tbl 0 rest] = [rest] starts with a token that can
   follow a complete expression.  Identifiers carry the two facts the parser looks at: [id_upper]
   (upper-case initial) and [id_type] (names a declared type); identifier 0 is sizeof.
   [safeb ts] = the stream trips none of the four token-shape heuristics of parsePrimary, each a known
   finding and each clause exact: `ident < type-argument-like tokens > (` (C02-generic-lookahead),
   `Upper <` (C02-upper-ident-lt), `sizeof ( Upper` (C02-sizeof-upper-ident), `( T '*'* )` with a
   type-named T (C02-type-named-variable-cast); computable, implied by the syntactic [syn_safe].
   Since the fixes 4d0a4b7 / 9bd33cd / 34a2124 the ladder is the documented table, the look-ahead
   stops at ; ( ) { } = + - && || and a parenthesised identifier that names no type is never a
   cast - whatever its spelling ([paren_nontype_identifier]). *)
From Coq Require Import List Arith Bool NArith ZArith String.
From Cb Require Import C02.Model C02.Roundtrip C02.Theorems C02.Gen_LadderTable C02.Tables.
Import ListNotations.

(* MAIN: for EVERY level table that gives each binary operator a level, EVERY well-formed expression
   tree (any depth, any placement of redundant parentheses) and EVERY admissible follow context:
   parsing the printed stream returns the tree without its parentheses and leaves the context. *)
Theorem roundtrip_general : forall tbl e rest,
  table_total tbl = true -> wf e = true -> folb tbl 0 rest = true ->
  safeb (pr tbl 0 e ++ rest) = true ->
  exists fuel, p_assign tbl fuel (pr tbl 0 e ++ rest) = Ok (strip e, rest).
Proof. exact roundtrip_general_l. Qed.
Print Assumptions roundtrip_general.

(* minimal parentheses: a tree without explicit parentheses comes back unchanged *)
Theorem roundtrip_min : forall tbl e rest,
  table_total tbl = true -> wf e = true -> nopar e = true -> folb tbl 0 rest = true ->
  safeb (pr tbl 0 e ++ rest) = true ->
  exists fuel, p_assign tbl fuel (pr tbl 0 e ++ rest) = Ok (e, rest).
Proof. exact roundtrip_min_l. Qed.
Print Assumptions roundtrip_min.

(* full parentheses: [full e] puts every operand in parentheses ([fullpar_full]) and parses to the
   same tree *)
Theorem roundtrip_full : forall tbl e rest,
  table_total tbl = true -> wf e = true -> folb tbl 0 rest = true ->
  safeb (pr tbl 0 (full e) ++ rest) = true ->
  exists fuel, p_assign tbl fuel (pr tbl 0 (full e) ++ rest) = Ok (strip e, rest).
Proof. exact roundtrip_full_l. Qed.
Print Assumptions roundtrip_full.

Theorem full_is_fully_parenthesised : forall e, fullpar (full e) = true /\ strip (full e) = strip e.
Proof. intros e. split; [apply fullpar_full|apply strip_full]. Qed.
Print Assumptions full_is_fully_parenthesised.

(* adding or removing ANY redundant parentheses never changes the parse ... *)
Theorem redundant_parens : forall tbl e e' rest,
  table_total tbl = true -> wf e = true -> wf e' = true -> strip e = strip e' ->
  folb tbl 0 rest = true ->
  safeb (pr tbl 0 e ++ rest) = true -> safeb (pr tbl 0 e' ++ rest) = true ->
  exists fuel, p_assign tbl fuel (pr tbl 0 e ++ rest) = Ok (strip e, rest) /\
               p_assign tbl fuel (pr tbl 0 e' ++ rest) = Ok (strip e, rest).
Proof. exact redundant_parens_l. Qed.
Print Assumptions redundant_parens.

(* ... nor the value (pure integer fragment of the model evaluator) *)
Theorem parens_irrelevant_eval : forall tbl e e' rest env f f' x x' r r',
  table_total tbl = true -> wf e = true -> wf e' = true -> strip e = strip e' ->
  folb tbl 0 rest = true ->
  safeb (pr tbl 0 e ++ rest) = true -> safeb (pr tbl 0 e' ++ rest) = true ->
  p_assign tbl f (pr tbl 0 e ++ rest) = Ok (x, r) -> p_assign tbl f' (pr tbl 0 e' ++ rest) = Ok (x', r') ->
  x = x' /\ r = r' /\ eval env x = eval env e /\ eval env x' = eval env e.
Proof. exact parens_irrelevant_eval_l. Qed.
Print Assumptions parens_irrelevant_eval.

(* the same at full strength with a purely syntactic side condition on both texts: no `>` directly
   before `(`, no upper-case identifier directly before `<` or directly after `sizeof (`, no type-named
   identifier directly after `(` *)
Theorem redundant_parens_syntactic : forall tbl e e' rest,
  table_total tbl = true -> wf e = true -> wf e' = true -> strip e = strip e' ->
  folb tbl 0 rest = true ->
  syn_safe (pr tbl 0 e ++ rest) = true -> syn_safe (pr tbl 0 e' ++ rest) = true ->
  exists fuel, p_assign tbl fuel (pr tbl 0 e ++ rest) = Ok (strip e, rest) /\
               p_assign tbl fuel (pr tbl 0 e' ++ rest) = Ok (strip e, rest).
Proof. exact redundant_parens_syntactic_l. Qed.
Print Assumptions redundant_parens_syntactic.

(* fuel is only recursion depth: with ANY fuel the answer is that tree or an explicit out-of-fuel
   report - never another tree and never a parse error (the driver doubles the fuel until the answer is
   not out-of-fuel; [roundtrip_general] says such a fuel exists) *)
Theorem roundtrip_any_fuel : forall tbl e rest,
  table_total tbl = true -> wf e = true -> folb tbl 0 rest = true ->
  safeb (pr tbl 0 e ++ rest) = true ->
  forall g, p_assign tbl g (pr tbl 0 e ++ rest) = Ok (strip e, rest) \/
            p_assign tbl g (pr tbl 0 e ++ rest) = Fuel.
Proof. exact roundtrip_any_fuel_l. Qed.
Print Assumptions roundtrip_any_fuel.

(* PARTIAL (missing: a proof that the closed-form bound [enough_fuel] always suffices; it is the first
   fuel the driver tries) *)
Theorem enough_fuel_partial : forall tbl e rest,
  table_total tbl = true -> wf e = true -> folb tbl 0 rest = true ->
  safeb (pr tbl 0 e ++ rest) = true ->
  parse tbl (pr tbl 0 e ++ rest) = Ok (strip e, rest) \/ parse tbl (pr tbl 0 e ++ rest) = Fuel.
Proof. exact roundtrip_parse_l. Qed.
Print Assumptions enough_fuel_partial.

(* the documented groupings, on concrete streams, for any total table and any identifiers; the
   [safeb] hypothesis only excludes an upper-case identifier directly before `<` (C02-upper-ident-lt):
   streams without `(` and without that pair are safe ([plain_streams_are_safe]) *)
Theorem binary_left_assoc : forall tbl, table_total tbl = true ->
  forall o1 o2 x y z, lvl tbl o1 = lvl tbl o2 ->
  safeb [TId x; TOp o1; TId y; TOp o2; TId z] = true ->
  exists fuel, p_assign tbl fuel [TId x; TOp o1; TId y; TOp o2; TId z] =
               Ok (Bin o2 (Bin o1 (Var x) (Var y)) (Var z), []).
Proof. exact binary_left_assoc_l. Qed.
Print Assumptions binary_left_assoc.

Theorem higher_level_binds_tighter : forall tbl, table_total tbl = true ->
  forall o1 o2 x y z, lvl tbl o1 < lvl tbl o2 ->
  (safeb [TId x; TOp o1; TId y; TOp o2; TId z] = true ->
   exists fuel, p_assign tbl fuel [TId x; TOp o1; TId y; TOp o2; TId z] =
                Ok (Bin o1 (Var x) (Bin o2 (Var y) (Var z)), [])) /\
  (safeb [TId x; TOp o2; TId y; TOp o1; TId z] = true ->
   exists fuel, p_assign tbl fuel [TId x; TOp o2; TId y; TOp o1; TId z] =
                Ok (Bin o1 (Bin o2 (Var x) (Var y)) (Var z), [])).
Proof. exact higher_level_binds_tighter_l. Qed.
Print Assumptions higher_level_binds_tighter.

Theorem ternary_right_assoc : forall tbl, table_total tbl = true -> forall a b c d e,
  safeb [TId a; TQ; TId b; TColon; TId c; TQ; TId d; TColon; TId e] = true ->
  exists fuel, p_assign tbl fuel [TId a; TQ; TId b; TColon; TId c; TQ; TId d; TColon; TId e] =
               Ok (Tern (Var a) (Var b) (Tern (Var c) (Var d) (Var e)), []).
Proof. exact ternary_right_assoc_l. Qed.
Print Assumptions ternary_right_assoc.

Theorem assignment_right_assoc : forall tbl, table_total tbl = true -> forall o1 o2 x y z,
  safeb [TId x; TAsg o1; TId y; TAsg o2; TId z] = true ->
  exists fuel, p_assign tbl fuel [TId x; TAsg o1; TId y; TAsg o2; TId z] =
               Ok (Asg o1 (Var x) (Asg o2 (Var y) (Var z)), []).
Proof. exact assignment_right_assoc_l. Qed.
Print Assumptions assignment_right_assoc.

Theorem binary_above_ternary_above_assignment : forall tbl, table_total tbl = true -> forall o x a b c d,
  safeb [TId x; TAsg None; TId a; TOp o; TId b; TQ; TId c; TColon; TId d] = true ->
  exists fuel, p_assign tbl fuel [TId x; TAsg None; TId a; TOp o; TId b; TQ; TId c; TColon; TId d] =
               Ok (Asg None (Var x) (Tern (Bin o (Var a) (Var b)) (Var c) (Var d)), []).
Proof. exact binary_ternary_assignment_l. Qed.
Print Assumptions binary_above_ternary_above_assignment.

Theorem unary_binds_tighter_than_binary : forall tbl, table_total tbl = true -> forall u o x y,
  (safeb [utok u; TId x; TOp o; TId y] = true ->
   exists fuel, p_assign tbl fuel [utok u; TId x; TOp o; TId y] = Ok (Bin o (Un u (Var x)) (Var y), [])) /\
  (safeb [TId x; TOp o; utok u; TId y] = true ->
   exists fuel, p_assign tbl fuel [TId x; TOp o; utok u; TId y] = Ok (Bin o (Var x) (Un u (Var y)), [])).
Proof. exact unary_binds_tighter_than_binary_l. Qed.
Print Assumptions unary_binds_tighter_than_binary.

Theorem postfix_binds_tighter_than_unary : forall tbl, table_total tbl = true -> forall u x i m d,
  (exists fuel, p_assign tbl fuel [utok u; TId x; TLB; TId i; TRB] = Ok (Un u (Idx (Var x) (Var i)), [])) /\
  (exists fuel, p_assign tbl fuel [utok u; TId x; itok d] = Ok (Un u (Post d (Var x)), [])) /\
  (exists fuel, p_assign tbl fuel [utok u; TId x; TDot; TId m] = Ok (Un u (Mem (Var x) m), [])).
Proof. exact postfix_binds_tighter_than_unary_l. Qed.
Print Assumptions postfix_binds_tighter_than_unary.

(* no `>` directly before `(` implies that the generic look-ahead never fires; with the other three
   syntactic conditions the stream is safe *)
Theorem no_gt_before_lparen_is_safe : forall ts,
  (no_gt_lp ts = true -> forall d, generic_scan d ts = false) /\
  (syn_safe ts = true -> safeb ts = true).
Proof. intros ts. split; [exact (no_gt_lp_generic_safe_l ts)|exact (syn_safe_l ts)]. Qed.
Print Assumptions no_gt_before_lparen_is_safe.

Theorem plain_streams_are_safe : forall ts, nolp ts = true -> no_upper_lt ts = true -> safeb ts = true.
Proof. exact nolp_safe. Qed.
Print Assumptions plain_streams_are_safe.

(* THE SPELLING OF A NAME DOES NOT MAKE IT A TYPE: `( x )` is the variable x for every identifier that
   names no declared type - upper-case initial or not - and for EVERY continuation of the stream *)
Theorem paren_nontype_identifier : forall tbl x r, table_total tbl = true -> id_type x = false ->
  exists fuel, p_primary tbl fuel (TLP :: TId x :: TRP :: r) = Ok (Var x, r).
Proof. exact paren_nontype_identifier_l. Qed.
Print Assumptions paren_nontype_identifier.

(* ---- the table of the code.  ladder_table, ladder_shape, ... are GENERATED from expression_parser.cpp /
   recursive_parser.cpp / primary_expression_parser.cpp on every run; the next obligations are closed by
   conversion against them, so a change of any `while` token set, call structure or look-ahead guard
   breaks the obligation that names it. *)
(* the generated table IS the documented table (docs/spec.md:309, docs/BNF.md:407), and it is total:
   every theorem above applies to it *)
Theorem ladder_is_spec : ladder_table = spec_table /\ table_total ladder_table = true.
Proof. exact (conj (eq_refl spec_table) spec_total_l). Qed.
Print Assumptions ladder_is_spec.

(* the functions around the table have the shape Model.v assumes: every level a left-associative
   `while` loop (right operand parsed by the same callee as the left one), one chain from
   parseTernary's condition callee down to parseUnary; ?: parses both branches with parseTernary;
   assignment is parseTernary [op parseAssignment]; prefix operators recurse into parseUnary, ++/--
   and the fall-through use parsePostfix; the generic look-ahead gives up at ; ( ) { } = + - && || and after scan_bound = 256 tokens;
   `( identifier` is tried as a type only for a type name *)
Theorem primary_lookaheads_are_modelled :
  primary_ok ladder_cast_guard_maps ladder_cast_guard_assigns ladder_primary_isupper ladder_cast_operand
             ladder_cast_starts ladder_postfix_tests ladder_unary_kw_calls = true.
Proof. exact (eq_refl true). Qed.
Print Assumptions primary_lookaheads_are_modelled.

Theorem ladder_structure_is_modelled :
  structure_ok ladder_shape ladder_ternary ladder_entry ladder_assign ladder_unary_prefix
               ladder_unary_calls ladder_generic_stops ladder_generic_bound ladder_cast_guard ladder_table = true.
Proof. exact (eq_refl true). Qed.
Print Assumptions ladder_structure_is_modelled.

(* printing by the DOCUMENTED table round-trips through the code's ladder: every expression groups
   as the specification table says *)
Theorem ladder_conforms_to_spec : forall e rest,
  wf e = true -> folb spec_table 0 rest = true -> safeb (pr spec_table 0 e ++ rest) = true ->
  exists fuel, p_assign ladder_table fuel (pr spec_table 0 e ++ rest) = Ok (strip e, rest).
Proof. exact conforms_l. Qed.
Print Assumptions ladder_conforms_to_spec.

(* former finding C02-eq-rel-same-level (fixed by 4d0a4b7): == != bind looser than < <= > >= on either
   side; the former witness 3 == 3 > 0 is 3 == (3 > 0) = 0 (the ladder before the fix gave (3 == 3) > 0) *)
Theorem spec_grouping : forall oe orl x y z, is_eq oe = true -> is_rel orl = true ->
  (safeb [TId x; TOp oe; TId y; TOp orl; TId z] = true ->
   exists fuel, p_assign ladder_table fuel [TId x; TOp oe; TId y; TOp orl; TId z] =
                Ok (Bin oe (Var x) (Bin orl (Var y) (Var z)), [])) /\
  (safeb [TId x; TOp orl; TId y; TOp oe; TId z] = true ->
   exists fuel, p_assign ladder_table fuel [TId x; TOp orl; TId y; TOp oe; TId z] =
                Ok (Bin oe (Bin orl (Var x) (Var y)) (Var z), [])).
Proof. exact spec_grouping_l. Qed.
Print Assumptions spec_grouping.

Theorem spec_grouping_witness :
  parse ladder_table [TNum 3; TOp EqO; TNum 3; TOp GtO; TNum 0] =
    Ok (Bin EqO (Num 3) (Bin GtO (Num 3) (Num 0)), []) /\
  eval (fun _ => 0%Z) (Bin EqO (Num 3) (Bin GtO (Num 3) (Num 0))) = Some 0%Z /\
  parse old_table [TNum 3; TOp EqO; TNum 3; TOp GtO; TNum 0] =
    Ok (Bin GtO (Bin EqO (Num 3) (Num 3)) (Num 0), []).
Proof. exact spec_witness_l. Qed.
Print Assumptions spec_grouping_witness.

(* former finding C02-paren-ident-cast (fixed by 34a2124): the former witnesses (a) - 1, (a[1]) - 1 and
   ((a) * 2) parse as the expressions they are, and so do (N) - 1 and 100 - (N) - 1 with an upper-case
   name (the general laws are [redundant_parens] and [paren_nontype_identifier]) *)
Theorem paren_identifier_is_not_a_cast :
  parse pinned_table (pr pinned_table 0 (Bin Sub (Par (Var ia)) (Num 1))) = Ok (Bin Sub (Var ia) (Num 1), []) /\
  pr pinned_table 0 (Bin Sub (Par (Var ia)) (Num 1)) = [TLP; TId ia; TRP; TOp Sub; TNum 1] /\
  parse pinned_table [TLP; TId ia; TLB; TNum 1; TRB; TRP; TOp Sub; TNum 1] =
    Ok (Bin Sub (Idx (Var ia) (Num 1)) (Num 1), []) /\
  parse pinned_table [TLP; TLP; TId ia; TRP; TOp Mul; TNum 2; TRP] = Ok (Bin Mul (Var ia) (Num 2), []) /\
  parse pinned_table [TLP; TId iN; TRP; TOp Sub; TNum 1] = Ok (Bin Sub (Var iN) (Num 1), []) /\
  parse pinned_table [TNum 100; TOp Sub; TLP; TId iN; TRP; TOp Sub; TNum 1] =
    Ok (Bin Sub (Bin Sub (Num 100) (Var iN)) (Num 1), []).
Proof. exact paren_identifier_l. Qed.
Print Assumptions paren_identifier_is_not_a_cast.

(* casts to keyword types are prefix-level: (int) a * b = ((int) a) * b, (int) - a = (int) (- a),
   - (long* ) a[1] = - ((long* ) (a[1])) (the general law is [roundtrip_general]: Cast is a source construct) *)
Theorem cast_binds_like_unary :
  parse pinned_table [TLP; TKw 0; TRP; TId ia; TOp Mul; TId ib] = Ok (Bin Mul (Cast [TKw 0] (Var ia)) (Var ib), []) /\
  parse pinned_table [TLP; TKw 0; TRP; TOp Sub; TId ia] = Ok (Cast [TKw 0] (Un Neg (Var ia)), []) /\
  parse pinned_table [TOp Sub; TLP; TKw 1; TOp Mul; TRP; TId ia; TLB; TNum 1; TRB] =
    Ok (Un Neg (Cast [TKw 1; TOp Mul] (Idx (Var ia) (Num 1))), []).
Proof. exact cast_binds_like_unary_l. Qed.
Print Assumptions cast_binds_like_unary.

(* C02-generic-lookahead after 9bd33cd: the look-ahead gives up at + and at a statement boundary ... *)
Theorem generic_lookahead_is_bounded :
  parse pinned_table [TId ia; TOp LtO; TId ib; TOp Add; TNum 1; TOp GtO; TLP; TId ic; TRP] =
    Ok (Bin GtO (Bin LtO (Var ia) (Bin Add (Var ib) (Num 1))) (Var ic), []) /\
  generic_scan 1 [TId ib; TRP; TSemi; TOther; TLP; TId ib; TOp GtO; TLP; TId ia; TRP] = false.
Proof. exact generic_lookahead_bounded_l. Qed.
Print Assumptions generic_lookahead_is_bounded.

(* ... but REFUTED without the [safeb] hypothesis (known finding C02-generic-lookahead, what is left of
   DESIGN #37): a < b > (c & d), printed with minimal parentheses, still parses as the generic call
   a<b>(c & d) - nothing at parse time tells a generic function name from a variable *)
Theorem roundtrip_min_refuted_generic :
  exists e, wf e = true /\ nopar e = true /\
    pr pinned_table 0 e = [TId ia; TOp LtO; TId ib; TOp GtO; TLP; TId ic; TOp BAnd; TId id_; TRP] /\
    parse pinned_table (pr pinned_table 0 e) = Ok (Generic 1 (Call ia [Bin BAnd (Var ic) (Var id_)]), []) /\
    safeb (pr pinned_table 0 e) = false.
Proof. exact roundtrip_min_refuted_generic_l. Qed.
Print Assumptions roundtrip_min_refuted_generic.

(* REFUTED without [safeb] (known finding C02-upper-ident-lt): an upper-case variable directly before `<`
   is taken for a generic type name - N < 5 is a parse error while (N) < 5 is the comparison, and
   N < M > - 1 silently parses as N - 1 *)
Theorem roundtrip_min_refuted_upper_lt :
  wf (Bin LtO (Var iN) (Num 5)) = true /\
  parse pinned_table (pr pinned_table 0 (Bin LtO (Var iN) (Num 5)) ++ [TRP; TSemi]) = Err /\
  parse pinned_table (pr pinned_table 0 (Bin LtO (Par (Var iN)) (Num 5)) ++ [TRP; TSemi]) =
    Ok (Bin LtO (Var iN) (Num 5), [TRP; TSemi]) /\
  pr pinned_table 0 (Bin GtO (Bin LtO (Var iN) (Var iM)) (Un Neg (Num 1))) =
    [TId iN; TOp LtO; TId iM; TOp GtO; TOp Sub; TNum 1] /\
  parse pinned_table [TId iN; TOp LtO; TId iM; TOp GtO; TOp Sub; TNum 1] = Ok (Bin Sub (Var iN) (Num 1), []) /\
  safeb [TId iN; TOp LtO; TNum 5] = false.
Proof. exact roundtrip_min_refuted_upper_lt_l. Qed.
Print Assumptions roundtrip_min_refuted_upper_lt.

(* REFUTED without [safeb] (known finding C02-sizeof-upper-ident): sizeof(N) takes an upper-case variable
   for a type name (sizeof(N + 1) is a parse error), sizeof((N)) does not *)
Theorem roundtrip_refuted_sizeof_upper :
  wf (Call 0 [Var iN]) = true /\
  parse pinned_table (pr pinned_table 0 (Call 0 [Var iN])) = Ok (SizeofT, []) /\
  parse pinned_table (pr pinned_table 0 (Call 0 [Par (Var iN)])) = Ok (Call 0 [Var iN], []) /\
  parse pinned_table (pr pinned_table 0 (Call 0 [Bin Add (Var iN) (Num 1)])) = Err /\
  safeb (pr pinned_table 0 (Call 0 [Var iN])) = false.
Proof. exact roundtrip_refuted_sizeof_upper_l. Qed.
Print Assumptions roundtrip_refuted_sizeof_upper.

(* REFUTED without [safeb] (known finding C02-type-named-variable-cast): a variable that shares its name with
   a declared type, alone in parentheses before a token that can start a unary expression, is a cast;
   as a call argument, or with more than the name inside the parentheses, it is not *)
Theorem roundtrip_refuted_type_named :
  wf (Bin Sub (Par (Var iT)) (Num 1)) = true /\
  parse pinned_table (pr pinned_table 0 (Bin Sub (Par (Var iT)) (Num 1))) = Ok (Cast [TId iT] (Un Neg (Num 1)), []) /\
  parse pinned_table (pr pinned_table 0 (Bin Sub (Var iT) (Num 1))) = Ok (Bin Sub (Var iT) (Num 1), []) /\
  parse pinned_table (pr pinned_table 0 (Bin Sub (Par (Var it_)) (Num 1))) = Ok (Cast [TId it_] (Un Neg (Num 1)), []) /\
  safeb (pr pinned_table 0 (Bin Sub (Par (Var iT)) (Num 1))) = false /\
  safeb (pr pinned_table 0 (Bin Sub (Call ia [Var iT]) (Num 1))) = true /\
  safeb (pr pinned_table 0 (Bin Sub (Par (Bin Add (Var iT) (Num 0))) (Num 1))) = true.
Proof. exact roundtrip_refuted_type_named_l. Qed.
Print Assumptions roundtrip_refuted_type_named.

(* the hypotheses are satisfiable and [enough_fuel] suffices on a stream using every construct *)
Example sample_roundtrip :
  wf sample = true /\ folb pinned_table 0 [TRP; TSemi] = true /\
  safeb (pr pinned_table 0 sample ++ [TRP; TSemi]) = true /\
  parse pinned_table (pr pinned_table 0 sample ++ [TRP; TSemi]) = Ok (strip sample, [TRP; TSemi]) /\
  parse pinned_table (pr pinned_table 0 (full sample) ++ [TRP; TSemi]) = Ok (strip sample, [TRP; TSemi]).
Proof. exact sample_roundtrip_l. Qed.
