(* C06 - the programs that refuted the property on the code before the fixes (Pinned.v), run on the
   current Mech: transcript as the Spec demands, stacks balanced. *)
From Coq Require Import List Arith Bool.
Import ListNotations.
From Cb Require Import C06.Model C06.Pinned.

Lemma w11_now : mrun 20 w11 = Some (true, mk [] [[]] 1
  [ECtor 100; EMark 1; ECtor 1; EDtor 1; EMark 2; EDtor 100]).
Proof. vm_compute; reflexivity. Qed.

Lemma w43_now : mrun 20 w43 = Some (true, mk [] [[]] 1
  [ECtor 1; EReg 1; EReg 2; ECtor 3; EDefer 2; EDefer 1; EDtor 3; EDtor 1]).
Proof. vm_compute; reflexivity. Qed.

Lemma w44_now : mrun 30 w44 = Some (true, mk [] [[]] 1
  [EReg 1; EReg 2; EMark 3; EDefer 2; EMark 4; EDefer 1]).
Proof. vm_compute; reflexivity. Qed.

Lemma wnever_now : mrun 20 wnever = Some (true, mk [] [[]] 1
  [ECtor 1; ECtor 9; EDtor 9; ECtor 9; EDtor 9; ECtor 2; EDtor 2; EDtor 1]).
Proof. vm_compute; reflexivity. Qed.

Lemma wmain_now : mrun 20 wmain = Some (true, mk [] [[]] 1 [ECtor 1; EDtor 1]).
Proof. vm_compute; reflexivity. Qed.

(* every construct, including the three formerly defective shapes: a scope with objects and defers,
   a return after an object, a return from inside a loop *)
Definition wall : prog :=
  [blk [SObj 1; SDefer 2; SLoop 3 (blk [SDefer 3; SObj 4; SIf (CIter 1) (blk [SBrk]) (blk [SMark 5]); SCall 1]); SCall 2; SMark 6];
   blk [SObj 7; SBlock (blk [SDefer 8; SObj 9; SRet]); SMark 10];
   blk [SDefer 11; SLoop 2 (blk [SObj 12; SIf (CIter 0) (blk [SDefer 13; SRet]) BNil]); SMark 14]].

Lemma wall_run : mrun 40 wall = Some (true, mk [] [[]] 1
  [ECtor 1; EReg 2;
   EReg 3; ECtor 4; EMark 5; ECtor 7; EReg 8; ECtor 9; EDefer 8; EDtor 9; EDtor 7; EDefer 3; EDtor 4;
   EReg 3; ECtor 4; EDefer 3; EDtor 4;
   EReg 11; ECtor 12; EReg 13; EDefer 13; EDtor 12; EDefer 11;
   EMark 6; EDefer 2; EDtor 1]).
Proof. vm_compute; reflexivity. Qed.
