(* C06 - concrete programs on which the faithful Mech model departs from the Spec (known findings) *)
From Coq Require Import List Arith Bool.
Import ListNotations.
From Cb Require Import C06.Model.

Fixpoint blk (l : list stmt) : block := match l with [] => BNil | s :: r => BCons s (blk r) end.

(* #11: int f1(){ R o1(1); return 0; }  main: R o100(100); mark 1; f1(); mark 2 *)
Definition w11 : prog := [blk [SObj 100; SMark 1; SCall 1; SMark 2]; blk [SObj 1; SRet]].
(* #43: main: { R o1(1); defer 1; defer 2; R o3(3); } *)
Definition w43 : prog := [blk [SBlock (blk [SObj 1; SDefer 1; SDefer 2; SObj 3])]].
(* #44: f1: for(i<3){ if (i==1) { return; } }   main: defer 1; { defer 2; f1(); mark 3 } mark 4 *)
Definition w44 : prog :=
  [blk [SDefer 1; SBlock (blk [SDefer 2; SCall 1; SMark 3]); SMark 4];
   blk [SLoop 3 (blk [SIf (CIter 1) (blk [SRet]) BNil])]].
(* #11 twice: main: R o1(1); f1(); f1(); R o2(2)  - o2 is never destroyed *)
Definition wnever : prog := [blk [SObj 1; SCall 1; SCall 1; SObj 2]; blk [SObj 9; SRet]].
(* return in main after an object: transcript as demanded, destructor stack one level short *)
Definition wmain : prog := [blk [SObj 1; SRet]].
(* a conforming program with every construct *)
Definition wsafe : prog :=
  [blk [SObj 1; SLoop 3 (blk [SDefer 2; SIf (CIter 1) (blk [SBrk]) (blk [SMark 3]); SCall 1]); SCall 2; SMark 4];
   blk [SObj 5; SBlock (blk [SDefer 6; SMark 7])];
   blk [SDefer 8; SIf CTrue (blk [SRet]) BNil; SMark 9]].

Lemma w11_run :
  mrun 20 w11 = Some (true, mk [] [] 1
     [ECtor 100; EMark 1; ECtor 1; EDtor 1; EDtor 100; EImb 1 1 1 2 1 2 2; EMark 2]) /\
  srun 20 w11 = Some (true, [ECtor 100; EMark 1; ECtor 1; EDtor 1; EMark 2; EDtor 100]).
Proof. split; vm_compute; reflexivity. Qed.

Lemma w43_run :
  mrun 20 w43 = Some (true, mk [] [[]] 1
     [ECtor 1; EReg 1; EReg 2; ECtor 3; EDtor 3; EDtor 1; EDefer 2; EDefer 1]) /\
  srun 20 w43 = Some (true, [ECtor 1; EReg 1; EReg 2; ECtor 3; EDefer 2; EDefer 1; EDtor 3; EDtor 1]).
Proof. split; vm_compute; reflexivity. Qed.

Lemma w44_run :
  mrun 30 w44 = Some (true, mk [[1]] [[]] 1
     [EReg 1; EReg 2; EImb 1 2 3 3 3 2 2; EMark 3; EMark 4; EDefer 2]) /\
  srun 30 w44 = Some (true, [EReg 1; EReg 2; EMark 3; EDefer 2; EMark 4; EDefer 1]).
Proof. split; vm_compute; reflexivity. Qed.

Lemma wnever_run :
  mrun 20 wnever = Some (true, mk [] [] 1
     [ECtor 1; ECtor 9; EDtor 9; EDtor 1; EImb 1 1 1 2 1 2 2; ECtor 9; EDtor 9; EImb 1 1 1 1 0 2 2; ECtor 2]) /\
  srun 20 wnever = Some (true, [ECtor 1; ECtor 9; EDtor 9; ECtor 9; EDtor 9; ECtor 2; EDtor 2; EDtor 1]).
Proof. split; vm_compute; reflexivity. Qed.

Lemma wmain_run :
  mrun 20 wmain = Some (true, mk [] [] 1 [ECtor 1; EDtor 1]) /\
  srun 20 wmain = Some (true, [ECtor 1; EDtor 1]).
Proof. split; vm_compute; reflexivity. Qed.

Lemma wsafe_run :
  safe_prog wsafe = true /\
  mrun 40 wsafe = Some (true, mk [] [[]] 1
    [ECtor 1; EReg 2; EMark 3; ECtor 5; EReg 6; EMark 7; EDefer 6; EDtor 5; EDefer 2;
     EReg 2; EDefer 2; EReg 8; EDefer 8; EMark 4; EDtor 1]).
Proof. split; vm_compute; reflexivity. Qed.
