(* C06 - concrete runs (vm_compute): the programs that refuted the property on the code before the fixes
   (Pinned.v) on the current Mech; programs that re-use variable names across frames (conforming); and
   the programs on which the name-keyed bookkeeping of the CURRENT code loses an object (finding
   C06-shadowed-object-never-destroyed); the former witness of C06-redeclared-member-flag-stale (conforming now). *)
From Coq Require Import List Arith Bool.
Import ListNotations.
From Cb Require Import C06.Model C06.Pinned.

Lemma w11_now : mrun 20 w11 0 = Some (true, mk [] [[]] [[]]
  [ECtor TR 90; EMark 1; ECtor TR 1; EDtor TR 1; EMark 2; EDtor TR 90]).
Proof. vm_compute; reflexivity. Qed.

Lemma w43_now : mrun 20 w43 0 = Some (true, mk [] [[]] [[]]
  [ECtor TR 1; EReg 1; EReg 2; ECtor TR 3; EDefer 2; EDefer 1; EDtor TR 3; EDtor TR 1]).
Proof. vm_compute; reflexivity. Qed.

Lemma w44_now : mrun 30 w44 0 = Some (true, mk [] [[]] [[]]
  [EReg 1; EReg 2; EMark 3; EDefer 2; EMark 4; EDefer 1]).
Proof. vm_compute; reflexivity. Qed.

Lemma wnever_now : mrun 20 wnever 0 = Some (true, mk [] [[]] [[]]
  [ECtor TR 1; ECtor TR 9; EDtor TR 9; ECtor TR 9; EDtor TR 9; ECtor TR 2; EDtor TR 2; EDtor TR 1]).
Proof. vm_compute; reflexivity. Qed.

Lemma wmain_now : mrun 20 wmain 0 = Some (true, mk [] [[]] [[]] [ECtor TR 1; EDtor TR 1]).
Proof. vm_compute; reflexivity. Qed.

(* every construct, including the three formerly defective shapes: a scope with objects and defers,
   a return after an object, a return from inside a loop *)
Definition wall : prog :=
  [blk [SObj 1 TR 1; SDefer 2; SLoop 3 (blk [SDefer 3; SObj 4 TQ 4; SIf (CIter 1) (blk [SBrk]) (blk [SMark 5]); SCall 1]); SCall 2; SMark 6];
   blk [SObj 7 TR 7; SBlock (blk [SDefer 8; SObj 9 TR 9; SRet]); SMark 10];
   blk [SDefer 11; SLoop 2 (blk [SObj 12 TR 12; SIf (CIter 0) (blk [SDefer 13; SRet]) BNil]); SMark 14]].

Lemma wall_wf : wf_prog wall = true.
Proof. vm_compute; reflexivity. Qed.

Lemma wall_run : mrun 40 wall 0 = Some (true, mk [] [[]] [[]]
  [ECtor TR 1; EReg 2;
   EReg 3; ECtor TQ 4; EMark 5; ECtor TR 7; EReg 8; ECtor TR 9; EDefer 8; EDtor TR 9; EDtor TR 7; EDefer 3; EDtor TQ 4;
   EReg 3; ECtor TQ 4; EDefer 3; EDtor TQ 4;
   EReg 11; ECtor TR 12; EReg 13; EDefer 13; EDtor TR 12; EDefer 11;
   EMark 6; EDefer 2; EDtor TR 1]).
Proof. vm_compute; reflexivity. Qed.

(* ONE variable name (x0) everywhere: live at once in main, in its callee f1 and in all three levels of the
   recursion of f1 (same struct type R), as a Q object of the same name in f2 called from inside the
   recursion, in sibling blocks and in successive loop iterations; a defer per activation.  wf_prog holds:
   no body re-declares a name that is live in the same activation. *)
Definition wnames : prog :=
  [blk [SObj 0 TR 1; SDefer 2; SCall 1; SMark 3];
   blk [SObj 0 TR 4; SDefer 5; SIf CDepth (blk [SCall 1]) (blk [SCall 2]); SMark 6];
   blk [SBlock (blk [SObj 0 TQ 7]); SBlock (blk [SObj 0 TR 8]); SLoop 2 (blk [SObj 0 TQ 9])]].

Lemma wnames_wf : wf_prog wnames = true.
Proof. vm_compute; reflexivity. Qed.

Lemma wnames_run : mrun 60 wnames 2 = Some (true, mk [] [[]] [[]]
  [ECtor TR 201; EReg 202;
     ECtor TR 104; EReg 105;
       ECtor TR 4; EReg 5;
         ECtor TQ 7; EDtor TQ 7; ECtor TR 8; EDtor TR 8; ECtor TQ 9; EDtor TQ 9; ECtor TQ 9; EDtor TQ 9;
       EMark 6; EDefer 5; EDtor TR 4;
     EMark 6; EDefer 105; EDtor TR 104;
   EMark 3; EDefer 202; EDtor TR 201]).
Proof. vm_compute; reflexivity. Qed.

(* ---- findings on the current code: a declaration that re-uses a name which is still live in the SAME
   activation overwrites the variable slot (blocks open no variable scope); the older object is then
   skipped by the destructor_called guard and never destroyed *)
(* R x0(1); { R x0(2); mark 1 } mark 2 *)
Definition wshadow : prog := [blk [SObj 0 TR 1; SBlock (blk [SObj 0 TR 2; SMark 1]); SMark 2]].
(* R x0(1); { Q x0(2); mark 1 } mark 2 *)
Definition wshadowq : prog := [blk [SObj 0 TR 1; SBlock (blk [SObj 0 TQ 2; SMark 1]); SMark 2]].
(* R x0(1); R x0(2); *)
Definition wredecl : prog := [blk [SObj 0 TR 1; SObj 0 TR 2]].
(* for (2) { W x0(1); }  - former finding C06-redeclared-member-flag-stale (the flag of the member variable
   survived the re-declaration; a registration now resets it) *)
Definition wmember : prog := [blk [SLoop 2 (blk [SObj 0 TW 1])]].
(* { W x0(1); } { W x0(2); } mark 9 *)
Definition wmember_sib : prog := [blk [SBlock (blk [SObj 0 TW 1]); SBlock (blk [SObj 0 TW 2]); SMark 9]].
(* W objects outside loops, one per activation: fine *)
Definition wmember_ok : prog := [blk [SObj 0 TW 1; SCall 1; SMark 1]; blk [SObj 0 TW 2; SIf CDepth (blk [SCall 1]) BNil]].

Lemma wshadow_run :
  mrun 20 wshadow 0 = Some (true, mk [] [[]] [[]] [ECtor TR 1; ECtor TR 2; EMark 1; EDtor TR 2; EMark 2]) /\
  srun 20 wshadow 0 = Some (true, [ECtor TR 1; ECtor TR 2; EMark 1; EDtor TR 2; EMark 2; EDtor TR 1]).
Proof. split; vm_compute; reflexivity. Qed.

Lemma wshadowq_run :
  mrun 20 wshadowq 0 = Some (true, mk [] [[]] [[]] [ECtor TR 1; ECtor TQ 2; EMark 1; EDtor TQ 2; EMark 2]) /\
  srun 20 wshadowq 0 = Some (true, [ECtor TR 1; ECtor TQ 2; EMark 1; EDtor TQ 2; EMark 2; EDtor TR 1]).
Proof. split; vm_compute; reflexivity. Qed.

Lemma wredecl_run :
  mrun 20 wredecl 0 = Some (true, mk [] [[]] [[]] [ECtor TR 1; ECtor TR 2; EDtor TR 2]) /\
  srun 20 wredecl 0 = Some (true, [ECtor TR 1; ECtor TR 2; EDtor TR 2; EDtor TR 1]).
Proof. split; vm_compute; reflexivity. Qed.

Lemma wmember_run :
  mrun 20 wmember 0 = Some (true, mk [] [[]] [[]]
     [ECtor TR 51; ECtor TW 1; EDtor TW 1; EDtor TR 51; ECtor TR 51; ECtor TW 1; EDtor TW 1; EDtor TR 51]) /\
  srun 20 wmember 0 = Some (true,
     [ECtor TR 51; ECtor TW 1; EDtor TW 1; EDtor TR 51; ECtor TR 51; ECtor TW 1; EDtor TW 1; EDtor TR 51]).
Proof. split; vm_compute; reflexivity. Qed.

Lemma wmember_wf : wf_prog wmember = true /\ wf_prog wmember_sib = true /\ wf_prog wmember_ok = true.
Proof. repeat split; vm_compute; reflexivity. Qed.

Lemma wmember_sib_run : exists st, mrun 20 wmember_sib 0 = Some (true, st) /\ srun 20 wmember_sib 0 = Some (true, tr st) /\
  tr st = [ECtor TR 51; ECtor TW 1; EDtor TW 1; EDtor TR 51; ECtor TR 52; ECtor TW 2; EDtor TW 2; EDtor TR 52; EMark 9].
Proof. eexists; split; [vm_compute; reflexivity|]. split; vm_compute; reflexivity. Qed.

(* a W object shadowed by a W object of an inner block: outside wf_prog, both sub-objects of the outer one
   are lost (finding C06-shadowed-object-never-destroyed) *)
Definition wshadoww : prog := [blk [SObj 0 TW 1; SBlock (blk [SObj 0 TW 2]); SMark 9]].

Lemma wshadoww_run :
  wf_prog wshadoww = false /\
  mrun 20 wshadoww 0 = Some (true, mk [] [[]] [[]]
     [ECtor TR 51; ECtor TW 1; ECtor TR 52; ECtor TW 2; EDtor TW 2; EDtor TR 52; EMark 9]).
Proof. split; vm_compute; reflexivity. Qed.

Lemma wmember_ok_run : exists st, mrun 30 wmember_ok 1 = Some (true, st) /\ srun 30 wmember_ok 1 = Some (true, tr st) /\
  tr st = [ECtor TR 151; ECtor TW 101; ECtor TR 52; ECtor TW 2; EDtor TW 2; EDtor TR 52; EMark 1; EDtor TW 101; EDtor TR 151].
Proof. eexists; split; [vm_compute; reflexivity|]. split; vm_compute; reflexivity. Qed.
