(* C06 - for EVERY program, by an invariant that does not go through the Spec: no destructor runs more often than its object was
   constructed, no defer more often than it was registered - at every prefix of the transcript.
   Generic invariant lemma over the Mech executor + a counting invariant instantiated twice. *)
From Coq Require Import List Arith Bool Lia.
Import ListNotations.
From Cb Require Import C06.Model C06.Prims.

(* ------------------------------------------------------------------ any predicate preserved by the
   primitives is preserved by the executor *)
Section Inv.
Variable P : state -> Prop.
Hypothesis H_decl : forall k st, P st -> P (declare_obj k st).
Hypothesis H_defer : forall k st, P st -> P (defer_stmt k st).
Hypothesis H_mark : forall k st, P st -> P (emit [EMark k] st).
Hypothesis H_pushd : forall st, P st -> P (push_destructor_scope st).
Hypothesis H_popd : forall st, P st -> P (pop_destructor_scope st).
Hypothesis H_pushf : forall st, P st -> P (push_defer_scope st).
Hypothesis H_popf : forall st, P st -> P (pop_defer_scope st).
Hypothesis H_push : forall st, P st -> P (push_scope st).
Hypothesis H_pop : forall st, P st -> P (pop_scope st).
Hypothesis H_pre : forall st, P st -> P (pre_return_cleanup st).
Hypothesis H_guard : forall g a st, P st -> P (guard_report g a st).

Lemma compound_close_inv : forall r o st', (forall o1 st1, r = Some (o1, st1) -> P st1) ->
  compound_close r = Some (o, st') -> P st'.
Proof.
  intros [[o1 st1]|] o st' H E; simpl in E; [|discriminate].
  inversion E; subst. apply H_popd. eapply H; reflexivity.
Qed.

Lemma exec_inv : forall fuel p,
  (forall it s st o st', mexec fuel p it s st = Some (o, st') -> P st -> P st') /\
  (forall it b st o st', mexec_b fuel p it b st = Some (o, st') -> P st -> P st') /\
  (forall n i b st o st', mloop fuel p n i b st = Some (o, st') -> P st -> P st').
Proof.
  induction fuel as [|f IH]; intros p.
  - repeat split; intros; simpl in *; discriminate.
  - destruct (IH p) as (IHs & IHb & IHl).
    assert (CC : forall it b st o st', P st ->
              compound_close (mexec_b f p it b (push_destructor_scope st)) = Some (o, st') -> P st').
    { intros it b st o st' HP E. eapply compound_close_inv; [|exact E].
      intros o1 st1 E1. eapply IHb; [exact E1|]. now apply H_pushd. }
    split; [|split].
    + intros it s st o st' E HP. destruct s; simpl in E.
      * inversion E; subst; auto.
      * inversion E; subst; auto.
      * inversion E; subst; auto.
      * eapply CC; eauto.
      * destruct (cond_true it c); [eapply CC; eauto|].
        destruct e; [inversion E; subst; auto | eapply CC; eauto].
      * destruct (mloop f p n 0 b (push_defer_scope st)) as [[o1 st1]|] eqn:EL; [|discriminate].
        assert (P st1) by (eapply IHl; [exact EL|]; now apply H_pushf).
        destruct o1; inversion E; subst; auto.
      * destruct (mexec_b f p None (body p f0) (push_scope st)) as [[o1 st1]|] eqn:EB; [|discriminate].
        inversion E; subst. apply H_guard, H_pop. eapply IHb; [exact EB|]. now apply H_push.
      * inversion E; subst; auto.
      * inversion E; subst; auto.
      * inversion E; subst; auto.
    + intros it b st o st' E HP. destruct b as [|s r]; simpl in E.
      * inversion E; subst; auto.
      * destruct (mexec f p it s st) as [[o1 st1]|] eqn:ES; [|discriminate].
        assert (P st1) by (eapply IHs; eauto).
        destruct o1; try (inversion E; subst; assumption).
        eapply IHb; eauto.
    + intros n i b st o st' E HP. simpl in E.
      destruct (n <=? i); [inversion E; subst; auto|].
      destruct (compound_close (mexec_b f p (Some i) b (push_destructor_scope st))) as [[o1 st1]|] eqn:EC;
        [|discriminate].
      assert (P st1) by (eapply CC; eauto).
      destruct o1; try (inversion E; subst; assumption); eapply IHl; eauto.
Qed.

Lemma mrun_inv : forall fuel p ok st, P init_state -> mrun fuel p = Some (ok, st) -> P st.
Proof.
  intros fuel p ok st H0 E. unfold mrun in E.
  destruct (mexec_b fuel p None (body p 0) (push_scope init_state)) as [[o1 st1]|] eqn:EB; [|discriminate].
  assert (P st1).
  { destruct (exec_inv fuel p) as (_ & Hb & _). eapply Hb; [exact EB|]. now apply H_push. }
  destruct o1; inversion E; subst; auto.
Qed.
End Inv.

(* ------------------------------------------------------------------ counting invariant *)
Section Count.
(* cls e = Some (true, k): event "k acquired"; Some (false, k): event "k released" *)
Variable c d : event -> option nat.
Hypothesis disjoint : forall e k, d e = Some k -> c e = None.

Definition hit (f : event -> option nat) (k : nat) (e : event) : bool :=
  match f e with Some k' => Nat.eqb k k' | None => false end.
Definition cnt (f : event -> option nat) (k : nat) (t : list event) : nat := length (filter (hit f k) t).
Definition occ (k : nat) (l : list nat) : nat := length (filter (Nat.eqb k) l).

Lemma cnt_app : forall f k a b, cnt f k (a ++ b) = cnt f k a + cnt f k b.
Proof. intros; unfold cnt. now rewrite filter_app, app_length. Qed.

Lemma occ_app : forall k a b, occ k (a ++ b) = occ k a + occ k b.
Proof. intros; unfold occ. now rewrite filter_app, app_length. Qed.

Lemma occ_cons : forall k x m, occ k (x :: m) = (if Nat.eqb k x then 1 else 0) + occ k m.
Proof. intros; unfold occ; simpl. destruct (k =? x); reflexivity. Qed.

Lemma occ_nil : forall k, occ k [] = 0.
Proof. reflexivity. Qed.

Lemma occ_rev : forall k l, occ k (rev l) = occ k l.
Proof. induction l; simpl; auto. rewrite occ_app, IHl, !occ_cons, occ_nil. lia. Qed.

Definition pref_ok (t : list event) : Prop :=
  forall t1 t2, t = t1 ++ t2 -> forall k, cnt d k t1 <= cnt c k t1.

Definition J (pend : list nat) (t : list event) : Prop :=
  pref_ok t /\ forall k, cnt d k t + occ k pend <= cnt c k t.

Lemma pref_ok_snoc : forall t e, pref_ok t ->
  (forall k, cnt d k (t ++ [e]) <= cnt c k (t ++ [e])) -> pref_ok (t ++ [e]).
Proof.
  intros t e H Hall t1 t2 E k.
  destruct t2 as [|x t2'] using rev_ind.
  - rewrite app_nil_r in E. subst t1. apply Hall.
  - clear IHt2'. rewrite app_assoc in E. apply app_inj_tail in E. destruct E as [E _].
    eapply H; eauto.
Qed.

Lemma J_weaken : forall pend pend' t, J pend t -> (forall k, occ k pend' <= occ k pend) -> J pend' t.
Proof. intros pend pend' t [H1 H2] Hle. split; auto. intros k. specialize (H2 k). specialize (Hle k). lia. Qed.

Lemma J_neutral1 : forall pend t e, J pend t -> c e = None -> d e = None -> J pend (t ++ [e]).
Proof.
  intros pend t e [H1 H2] Hc Hd.
  assert (forall f k, f e = None -> cnt f k (t ++ [e]) = cnt f k t).
  { intros f k Hf. rewrite cnt_app. unfold cnt at 2, hit; simpl. rewrite Hf. simpl. lia. }
  split.
  - apply pref_ok_snoc; auto. intros k. rewrite !H by assumption. specialize (H2 k). lia.
  - intros k. rewrite !H by assumption. apply H2.
Qed.

Lemma J_neutral : forall es pend t, J pend t -> (forall e, In e es -> c e = None /\ d e = None) -> J pend (t ++ es).
Proof.
  induction es as [|e es IH]; intros pend t HJ Hall.
  - now rewrite app_nil_r.
  - replace (t ++ e :: es) with ((t ++ [e]) ++ es) by (now rewrite <- app_assoc).
    apply IH.
    + destruct (Hall e (or_introl eq_refl)). now apply J_neutral1.
    + intros e' Hin. apply Hall. now right.
Qed.

(* acquiring k: one more (or no) pending entry for k *)
Lemma J_acquire : forall pend pend' t e k, J pend t -> c e = Some k -> d e = None ->
  (forall k', occ k' pend' <= occ k' pend + (if Nat.eqb k' k then 1 else 0)) -> J pend' (t ++ [e]).
Proof.
  intros pend pend' t e k [H1 H2] Hc Hd Hle.
  assert (Cd : forall k', cnt d k' (t ++ [e]) = cnt d k' t).
  { intros k'. rewrite cnt_app. unfold cnt at 2, hit; simpl. rewrite Hd. simpl. lia. }
  assert (Cc : forall k', cnt c k' (t ++ [e]) = cnt c k' t + (if Nat.eqb k' k then 1 else 0)).
  { intros k'. rewrite cnt_app. unfold cnt at 2, hit; simpl. rewrite Hc. destruct (k' =? k); simpl; lia. }
  split.
  - apply pref_ok_snoc; auto. intros k'. rewrite Cd, Cc. specialize (H2 k'). lia.
  - intros k'. rewrite Cd, Cc. specialize (H2 k'). specialize (Hle k'). lia.
Qed.

(* releasing the pending entries m (in any order), one event each *)
Lemma J_release : forall (dev : nat -> event) m pend0 pend t,
  (forall k, d (dev k) = Some k) ->
  J pend0 t -> (forall k, occ k m + occ k pend <= occ k pend0) -> J pend (t ++ map dev m).
Proof.
  intros dev m. induction m as [|x m IH]; intros pend0 pend t Hdev HJ Hocc; simpl.
  - rewrite app_nil_r. eapply J_weaken; [exact HJ|]. intros k. specialize (Hocc k). rewrite occ_nil in Hocc. lia.
  - replace (t ++ dev x :: map dev m) with ((t ++ [dev x]) ++ map dev m) by (now rewrite <- app_assoc).
    apply IH with (pend0 := m ++ pend); auto.
    + destruct HJ as [H1 H2].
      assert (Cc : forall k, cnt c k (t ++ [dev x]) = cnt c k t).
      { intros k. rewrite cnt_app. unfold cnt at 2, hit; simpl. rewrite (disjoint _ _ (Hdev x)). simpl. lia. }
      assert (Cd : forall k, cnt d k (t ++ [dev x]) = cnt d k t + (if Nat.eqb k x then 1 else 0)).
      { intros k. rewrite cnt_app. unfold cnt at 2, hit; simpl. rewrite Hdev. destruct (k =? x); simpl; lia. }
      assert (Hx : forall k, (if Nat.eqb k x then 1 else 0) + occ k m + occ k pend <= occ k pend0).
      { intros k. specialize (Hocc k). rewrite occ_cons in Hocc. lia. }
      split.
      * apply pref_ok_snoc; auto. intros k. rewrite Cc, Cd. specialize (H2 k). specialize (Hx k). lia.
      * intros k. rewrite Cc, Cd, occ_app. specialize (H2 k). specialize (Hx k). lia.
    + intros k. rewrite occ_app. lia.
Qed.

Lemma J_init : J [] [].
Proof.
  split.
  - intros t1 t2 E k. destruct t1; [unfold cnt; simpl; lia|discriminate].
  - intros k. unfold cnt, occ; simpl. lia.
Qed.
End Count.

Lemma occ_concat_cons : forall k l r, occ k (concat (l :: r)) = occ k l + occ k (concat r).
Proof. intros; simpl. apply occ_app. Qed.

(* ------------------------------------------------------------------ objects *)
Definition c_obj (e : event) : option nat := match e with ECtor k => Some k | _ => None end.
Definition d_obj (e : event) : option nat := match e with EDtor k => Some k | _ => None end.
Definition Jobj (st : state) : Prop := J c_obj d_obj (concat (dts st)) (tr st).

Lemma disj_obj : forall e k, d_obj e = Some k -> c_obj e = None.
Proof. destruct e; simpl; intros; congruence. Qed.

Lemma neutral_defers_obj : forall l e, In e (map EDefer l) -> c_obj e = None /\ d_obj e = None.
Proof. intros l e H. apply in_map_iff in H. destruct H as (x & <- & _). auto. Qed.

Lemma Jobj_pop_defer : forall st, Jobj st -> Jobj (pop_defer_scope st).
Proof.
  intros [a b c t] H. destruct a as [|l r]; [exact H|].
  rewrite pop_defer_scope_cons. unfold Jobj in *; simpl in *.
  apply J_neutral; auto. apply neutral_defers_obj.
Qed.

Lemma Jobj_pop_destructor : forall st, Jobj st -> Jobj (pop_destructor_scope st).
Proof.
  intros st H. apply Jobj_pop_defer in H. unfold pop_destructor_scope.
  destruct (pop_defer_scope st) as [a b c t]; simpl.
  destruct b as [|l r]; [exact H|].
  rewrite run_destructors_eq. unfold Jobj in *; simpl in *.
  eapply J_release with (dev := EDtor); eauto using disj_obj.
  intros k. rewrite occ_rev, occ_app. lia.
Qed.

Lemma Jobj_emit_neutral : forall e st, c_obj e = None -> d_obj e = None -> Jobj st -> Jobj (emit [e] st).
Proof. intros e [a b c t] Hc Hd H. unfold Jobj in *; simpl in *. now apply J_neutral1. Qed.

Lemma Jobj_stacks : forall a b c c' t a', Jobj (mk a b c t) -> Jobj (mk a' b c' t).
Proof. intros; exact H. Qed.

Lemma Jobj_all : forall fuel p ok stf, mrun fuel p = Some (ok, stf) -> Jobj stf.
Proof.
  intros fuel p ok stf E.
  eapply (mrun_inv Jobj); try exact E.
  - (* declare_obj *)
    intros k [a b c t] H. rewrite declare_obj_eq. unfold register_destructor; simpl.
    destruct b as [|l r]; unfold Jobj in *; simpl in *.
    + eapply J_acquire with (k := k); eauto. intros k'. destruct (k' =? k); lia.
    + eapply J_acquire with (k := k); eauto. intros k'.
      rewrite !occ_app, occ_cons, occ_nil. destruct (k' =? k); lia.
  - (* defer_stmt *)
    intros k [a b c t] H. unfold defer_stmt, add_defer; simpl.
    assert (Jobj (mk a b c (t ++ [EReg k]))) by (unfold Jobj in *; simpl in *; now apply J_neutral1).
    destruct a; auto.
  - intros k st H. now apply Jobj_emit_neutral.
  - intros [a b c t] H; exact H.
  - apply Jobj_pop_destructor.
  - intros [a b c t] H; exact H.
  - apply Jobj_pop_defer.
  - intros [a b c t] H; exact H.
  - intros st H. rewrite pop_scope_unfold. apply Jobj_pop_destructor in H.
    destruct (pop_destructor_scope st); exact H.
  - (* pre_return_cleanup *)
    intros [a b c t] H. unfold pre_return_cleanup; simpl.
    set (st1 := match a with
                | ((_ :: _) as l) :: r => emit (map EDefer (rev l)) (mk ([] :: r) b c t)
                | _ => mk a b c t end).
    assert (H1 : Jobj st1).
    { subst st1. destruct a as [|[|x l] r]; auto. unfold Jobj in *; simpl in *.
      apply J_neutral; auto. apply neutral_defers_obj. }
    assert (Eb : dts st1 = b) by (subst st1; destruct a as [|[|x l] r]; reflexivity).
    destruct st1 as [a1 b1 c1 t1]; simpl in Eb; subst b1; simpl.
    destruct b as [|[|x l] r]; auto.
    rewrite run_destructors_eq; simpl.
    unfold Jobj in *; simpl in *.
    eapply J_release with (dev := EDtor) (m := rev l ++ [x]); eauto using disj_obj.
    intros k. repeat (rewrite occ_cons || rewrite occ_app || rewrite occ_rev || rewrite occ_nil). destruct (k =? x); lia.
  - intros g a st H. unfold guard_report. destruct (depths_differ a st); auto.
    now apply Jobj_emit_neutral.
  - apply J_init.
Qed.

(* ------------------------------------------------------------------ defers *)
Definition c_def (e : event) : option nat := match e with EReg k => Some k | _ => None end.
Definition d_def (e : event) : option nat := match e with EDefer k => Some k | _ => None end.
Definition Jdef (st : state) : Prop := J c_def d_def (concat (dfs st)) (tr st).

Lemma disj_def : forall e k, d_def e = Some k -> c_def e = None.
Proof. destruct e; simpl; intros; congruence. Qed.

Lemma neutral_dtors_def : forall l e, In e (map EDtor l) -> c_def e = None /\ d_def e = None.
Proof. intros l e H. apply in_map_iff in H. destruct H as (x & <- & _). auto. Qed.

Lemma Jdef_pop_defer : forall st, Jdef st -> Jdef (pop_defer_scope st).
Proof.
  intros [a b c t] H. destruct a as [|l r]; [exact H|].
  rewrite pop_defer_scope_cons. unfold Jdef in *; simpl in *.
  eapply J_release with (dev := EDefer); eauto using disj_def.
  intros k. rewrite occ_rev, occ_app. lia.
Qed.

Lemma Jdef_pop_destructor : forall st, Jdef st -> Jdef (pop_destructor_scope st).
Proof.
  intros st H. apply Jdef_pop_defer in H. unfold pop_destructor_scope.
  destruct (pop_defer_scope st) as [a b c t]; simpl.
  destruct b as [|l r]; [exact H|].
  rewrite run_destructors_eq. unfold Jdef in *; simpl in *.
  apply J_neutral; auto. apply neutral_dtors_def.
Qed.

Lemma Jdef_emit_neutral : forall e st, c_def e = None -> d_def e = None -> Jdef st -> Jdef (emit [e] st).
Proof. intros e [a b c t] Hc Hd H. unfold Jdef in *; simpl in *. now apply J_neutral1. Qed.

Lemma Jdef_all : forall fuel p ok stf, mrun fuel p = Some (ok, stf) -> Jdef stf.
Proof.
  intros fuel p ok stf E.
  eapply (mrun_inv Jdef); try exact E.
  - intros k [a b c t] H. rewrite declare_obj_eq. unfold register_destructor; simpl.
    destruct b as [|l r]; unfold Jdef in *; simpl in *; now apply J_neutral1.
  - intros k [a b c t] H. unfold defer_stmt, add_defer; simpl.
    destruct a as [|l r]; unfold Jdef in *; simpl in *.
    + eapply J_acquire with (k := k); eauto. intros k'. destruct (k' =? k); lia.
    + eapply J_acquire with (k := k); eauto. intros k'.
      rewrite !occ_app, occ_cons, occ_nil. destruct (k' =? k); lia.
  - intros k st H. now apply Jdef_emit_neutral.
  - intros [a b c t] H; exact H.
  - apply Jdef_pop_destructor.
  - intros [a b c t] H; exact H.
  - apply Jdef_pop_defer.
  - intros [a b c t] H; exact H.
  - intros st H. rewrite pop_scope_unfold. apply Jdef_pop_destructor in H.
    destruct (pop_destructor_scope st); exact H.
  - intros [a b c t] H. unfold pre_return_cleanup; simpl.
    set (st1 := match a with
                | ((_ :: _) as l) :: r => emit (map EDefer (rev l)) (mk ([] :: r) b c t)
                | _ => mk a b c t end).
    assert (H1 : Jdef st1).
    { subst st1. destruct a as [|[|x l] r]; auto. unfold Jdef in *; simpl in *.
      eapply J_release with (dev := EDefer) (m := rev l ++ [x]); eauto using disj_def.
      intros k. repeat (rewrite occ_cons || rewrite occ_app || rewrite occ_rev || rewrite occ_nil). destruct (k =? x); lia. }
    assert (Eb : dts st1 = b) by (subst st1; destruct a as [|[|x l] r]; reflexivity).
    destruct st1 as [a1 b1 c1 t1]; simpl in Eb; subst b1; simpl.
    destruct b as [|[|x l] r]; auto.
    rewrite run_destructors_eq; simpl.
    unfold Jdef in *; simpl in *. apply J_neutral; auto. apply neutral_dtors_def.
  - intros g a st H. unfold guard_report. destruct (depths_differ a st); auto.
    now apply Jdef_emit_neutral.
  - apply J_init.
Qed.

(* ------------------------------------------------------------------ readable form *)
Definition event_eq_dec : forall a b : event, {a = b} + {a <> b}.
Proof. decide equality; apply Nat.eq_dec. Defined.

Definition count (e : event) (t : list event) : nat := count_occ event_eq_dec t e.

Lemma cnt_cons : forall f k e t, cnt f k (e :: t) = (if hit f k e then 1 else 0) + cnt f k t.
Proof. intros; unfold cnt; simpl. destruct (hit f k e); reflexivity. Qed.

Lemma count_cons : forall e0 e t, count e0 (e :: t) = (if event_eq_dec e e0 then 1 else 0) + count e0 t.
Proof. intros; unfold count; simpl. destruct (event_eq_dec e e0); reflexivity. Qed.

Ltac cnt_count_tac k t :=
  let e := fresh "e" in let IH := fresh "IH" in
  induction t as [|e t IH]; [reflexivity|];
  rewrite cnt_cons, count_cons, IH; f_equal;
  match goal with |- context [event_eq_dec e ?e0] => destruct (event_eq_dec e e0) as [->|N] end;
  [ unfold hit; simpl; now rewrite Nat.eqb_refl
  | unfold hit; destruct e; simpl; auto;
    match goal with |- context [k =? ?k0] => destruct (Nat.eqb_spec k k0); [subst; congruence|auto] end ].

Lemma cnt_obj_d : forall k t, cnt d_obj k t = count (EDtor k) t.
Proof. intros k t. cnt_count_tac k t. Qed.

Lemma cnt_obj_c : forall k t, cnt c_obj k t = count (ECtor k) t.
Proof. intros k t. cnt_count_tac k t. Qed.

Lemma cnt_def_d : forall k t, cnt d_def k t = count (EDefer k) t.
Proof. intros k t. cnt_count_tac k t. Qed.

Lemma cnt_def_c : forall k t, cnt c_def k t = count (EReg k) t.
Proof. intros k t. cnt_count_tac k t. Qed.

Lemma object_at_most_once : forall fuel p ok st, mrun fuel p = Some (ok, st) ->
  forall t1 t2 k, tr st = t1 ++ t2 -> count (EDtor k) t1 <= count (ECtor k) t1.
Proof.
  intros fuel p ok st E t1 t2 k Et.
  destruct (Jobj_all fuel p ok st E) as [H _].
  rewrite <- cnt_obj_d, <- cnt_obj_c. eapply H; eauto.
Qed.

Lemma defer_at_most_once : forall fuel p ok st, mrun fuel p = Some (ok, st) ->
  forall t1 t2 k, tr st = t1 ++ t2 -> count (EDefer k) t1 <= count (EReg k) t1.
Proof.
  intros fuel p ok st E t1 t2 k Et.
  destruct (Jdef_all fuel p ok st E) as [H _].
  rewrite <- cnt_def_d, <- cnt_def_c. eapply H; eauto.
Qed.
