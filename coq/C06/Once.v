(* C06 - for EVERY program (name collisions, shadowing, W objects included), by an invariant that does not
   go through the Spec: no object identity is destroyed more often than it was constructed (this is what
   the destructor_called guard buys), no defer runs more often than it was registered - at every prefix of
   the transcript.  Generic invariant lemma over the Mech executor + a counting invariant instantiated
   twice (objects: the live slots of the variable scopes; defers: the pending defer levels). *)
From Coq Require Import List Arith Bool Lia.
Import ListNotations.
From Cb Require Import C06.Model C06.Prims.

(* ------------------------------------------------------------------ any predicate preserved by the
   primitives is preserved by the executor *)
Section Inv.
Variable P : state -> Prop.
Hypothesis H_decl : forall x t k st, P st -> P (declare_obj x t k st).
Hypothesis H_defer : forall k st, P st -> P (defer_stmt k st).
Hypothesis H_mark : forall k st, P st -> P (emit [EMark k] st).
Hypothesis H_pushd : forall st, P st -> P (push_destructor_scope st).
Hypothesis H_popd : forall st, P st -> P (pop_destructor_scope st).
Hypothesis H_pushf : forall st, P st -> P (push_defer_scope st).
Hypothesis H_popf : forall st, P st -> P (pop_defer_scope st).
Hypothesis H_push : forall st, P st -> P (push_scope st).
Hypothesis H_pop : forall st, P st -> P (pop_scope st).
Hypothesis H_pre : forall st, P st -> P (pre_return_cleanup st).
Hypothesis H_guard : forall g a st, P st -> P (guard_report g a st).

Lemma compound_close_inv : forall r o st', (forall o1 st1, r = Some (o1, st1) -> P st1) ->
  compound_close r = Some (o, st') -> P st'.
Proof.
  intros [[o1 st1]|] o st' H E; simpl in E; [|discriminate].
  inversion E; subst. apply H_popd. eapply H; reflexivity.
Qed.

Lemma exec_inv : forall fuel p,
  (forall n it s st o st', mexec fuel p n it s st = Some (o, st') -> P st -> P st') /\
  (forall n it b st o st', mexec_b fuel p n it b st = Some (o, st') -> P st -> P st') /\
  (forall n m i b st o st', mloop fuel p n m i b st = Some (o, st') -> P st -> P st').
Proof.
  induction fuel as [|f IH]; intros p.
  - repeat split; intros; simpl in *; discriminate.
  - destruct (IH p) as (IHs & IHb & IHl).
    assert (CC : forall n it b st o st', P st ->
              compound_close (mexec_b f p n it b (push_destructor_scope st)) = Some (o, st') -> P st').
    { intros n it b st o st' HP E. eapply compound_close_inv; [|exact E].
      intros o1 st1 E1. eapply IHb; [exact E1|]. now apply H_pushd. }
    split; [|split].
    + intros n it s st o st' E HP. destruct s; simpl in E.
      * inversion E; subst; auto.
      * inversion E; subst; auto.
      * inversion E; subst; auto.
      * eapply CC; eauto.
      * destruct (cond_true n it c); [eapply CC; eauto|].
        destruct e; [inversion E; subst; auto | eapply CC; eauto].
      * destruct (mloop f p n n0 0 b (push_defer_scope st)) as [[o1 st1]|] eqn:EL; [|discriminate].
        assert (P st1) by (eapply IHl; [exact EL|]; now apply H_pushf).
        destruct o1; inversion E; subst; auto.
      * destruct (mexec_b f p (Init.Nat.pred n) None (body p f0) (push_scope st)) as [[o1 st1]|] eqn:EB; [|discriminate].
        inversion E; subst. apply H_guard, H_pop. eapply IHb; [exact EB|]. now apply H_push.
      * inversion E; subst; auto.
      * inversion E; subst; auto.
      * inversion E; subst; auto.
    + intros n it b st o st' E HP. destruct b as [|s r]; simpl in E.
      * inversion E; subst; auto.
      * destruct (mexec f p n it s st) as [[o1 st1]|] eqn:ES; [|discriminate].
        assert (P st1) by (eapply IHs; eauto).
        destruct o1; try (inversion E; subst; assumption).
        eapply IHb; eauto.
    + intros n m i b st o st' E HP. simpl in E.
      destruct (m <=? i); [inversion E; subst; auto|].
      destruct (compound_close (mexec_b f p n (Some i) b (push_destructor_scope st))) as [[o1 st1]|] eqn:EC;
        [|discriminate].
      assert (P st1) by (eapply CC; eauto).
      destruct o1; try (inversion E; subst; assumption); eapply IHl; eauto.
Qed.

Lemma mrun_inv : forall fuel p n0 ok st, P init_state -> mrun fuel p n0 = Some (ok, st) -> P st.
Proof.
  intros fuel p n0 ok st H0 E. unfold mrun in E.
  destruct (mexec_b fuel p n0 None (body p 0) (push_scope init_state)) as [[o1 st1]|] eqn:EB; [|discriminate].
  assert (P st1).
  { destruct (exec_inv fuel p) as (_ & Hb & _). eapply Hb; [exact EB|]. now apply H_push. }
  destruct o1; inversion E; subst; auto.
Qed.
End Inv.

(* ------------------------------------------------------------------ counting invariant *)
Section Count.
(* cls e = Some (true, k): event "k acquired"; Some (false, k): event "k released" *)
Variable c d : event -> option nat.
Hypothesis disjoint : forall e k, d e = Some k -> c e = None.

Definition hit (f : event -> option nat) (k : nat) (e : event) : bool :=
  match f e with Some k' => Nat.eqb k k' | None => false end.
Definition cnt (f : event -> option nat) (k : nat) (t : list event) : nat := length (filter (hit f k) t).
Definition occ (k : nat) (l : list nat) : nat := length (filter (Nat.eqb k) l).

Lemma cnt_app : forall f k a b, cnt f k (a ++ b) = cnt f k a + cnt f k b.
Proof. intros; unfold cnt. now rewrite filter_app, app_length. Qed.

Lemma occ_app : forall k a b, occ k (a ++ b) = occ k a + occ k b.
Proof. intros; unfold occ. now rewrite filter_app, app_length. Qed.

Lemma occ_cons : forall k x m, occ k (x :: m) = (if Nat.eqb k x then 1 else 0) + occ k m.
Proof. intros; unfold occ; simpl. destruct (k =? x); reflexivity. Qed.

Lemma occ_nil : forall k, occ k [] = 0.
Proof. reflexivity. Qed.

Lemma occ_rev : forall k l, occ k (rev l) = occ k l.
Proof. induction l; simpl; auto. rewrite occ_app, IHl, !occ_cons, occ_nil. lia. Qed.

Definition pref_ok (t : list event) : Prop :=
  forall t1 t2, t = t1 ++ t2 -> forall k, cnt d k t1 <= cnt c k t1.

Definition J (pend : list nat) (t : list event) : Prop :=
  pref_ok t /\ forall k, cnt d k t + occ k pend <= cnt c k t.

Lemma pref_ok_snoc : forall t e, pref_ok t ->
  (forall k, cnt d k (t ++ [e]) <= cnt c k (t ++ [e])) -> pref_ok (t ++ [e]).
Proof.
  intros t e H Hall t1 t2 E k.
  destruct t2 as [|x t2'] using rev_ind.
  - rewrite app_nil_r in E. subst t1. apply Hall.
  - clear IHt2'. rewrite app_assoc in E. apply app_inj_tail in E. destruct E as [E _].
    eapply H; eauto.
Qed.

Lemma J_weaken : forall pend pend' t, J pend t -> (forall k, occ k pend' <= occ k pend) -> J pend' t.
Proof. intros pend pend' t [H1 H2] Hle. split; auto. intros k. specialize (H2 k). specialize (Hle k). lia. Qed.

Lemma J_neutral1 : forall pend t e, J pend t -> c e = None -> d e = None -> J pend (t ++ [e]).
Proof.
  intros pend t e [H1 H2] Hc Hd.
  assert (forall f k, f e = None -> cnt f k (t ++ [e]) = cnt f k t).
  { intros f k Hf. rewrite cnt_app. unfold cnt at 2, hit; simpl. rewrite Hf. simpl. lia. }
  split.
  - apply pref_ok_snoc; auto. intros k. rewrite !H by assumption. specialize (H2 k). lia.
  - intros k. rewrite !H by assumption. apply H2.
Qed.

Lemma J_neutral : forall es pend t, J pend t -> (forall e, In e es -> c e = None /\ d e = None) -> J pend (t ++ es).
Proof.
  induction es as [|e es IH]; intros pend t HJ Hall.
  - now rewrite app_nil_r.
  - replace (t ++ e :: es) with ((t ++ [e]) ++ es) by (now rewrite <- app_assoc).
    apply IH.
    + destruct (Hall e (or_introl eq_refl)). now apply J_neutral1.
    + intros e' Hin. apply Hall. now right.
Qed.

(* acquiring k: one more (or no) pending entry for k *)
Lemma J_acquire : forall pend pend' t e k, J pend t -> c e = Some k -> d e = None ->
  (forall k', occ k' pend' <= occ k' pend + (if Nat.eqb k' k then 1 else 0)) -> J pend' (t ++ [e]).
Proof.
  intros pend pend' t e k [H1 H2] Hc Hd Hle.
  assert (Cd : forall k', cnt d k' (t ++ [e]) = cnt d k' t).
  { intros k'. rewrite cnt_app. unfold cnt at 2, hit; simpl. rewrite Hd. simpl. lia. }
  assert (Cc : forall k', cnt c k' (t ++ [e]) = cnt c k' t + (if Nat.eqb k' k then 1 else 0)).
  { intros k'. rewrite cnt_app. unfold cnt at 2, hit; simpl. rewrite Hc. destruct (k' =? k); simpl; lia. }
  split.
  - apply pref_ok_snoc; auto. intros k'. rewrite Cd, Cc. specialize (H2 k'). lia.
  - intros k'. rewrite Cd, Cc. specialize (H2 k'). specialize (Hle k'). lia.
Qed.

(* releasing the pending entries m (in any order), one event each *)
Lemma J_release : forall (dev : nat -> event) m pend0 pend t,
  (forall k, d (dev k) = Some k) ->
  J pend0 t -> (forall k, occ k m + occ k pend <= occ k pend0) -> J pend (t ++ map dev m).
Proof.
  intros dev m. induction m as [|x m IH]; intros pend0 pend t Hdev HJ Hocc; simpl.
  - rewrite app_nil_r. eapply J_weaken; [exact HJ|]. intros k. specialize (Hocc k). rewrite occ_nil in Hocc. lia.
  - replace (t ++ dev x :: map dev m) with ((t ++ [dev x]) ++ map dev m) by (now rewrite <- app_assoc).
    apply IH with (pend0 := m ++ pend); auto.
    + destruct HJ as [H1 H2].
      assert (Cc : forall k, cnt c k (t ++ [dev x]) = cnt c k t).
      { intros k. rewrite cnt_app. unfold cnt at 2, hit; simpl. rewrite (disjoint _ _ (Hdev x)). simpl. lia. }
      assert (Cd : forall k, cnt d k (t ++ [dev x]) = cnt d k t + (if Nat.eqb k x then 1 else 0)).
      { intros k. rewrite cnt_app. unfold cnt at 2, hit; simpl. rewrite Hdev. destruct (k =? x); simpl; lia. }
      assert (Hx : forall k, (if Nat.eqb k x then 1 else 0) + occ k m + occ k pend <= occ k pend0).
      { intros k. specialize (Hocc k). rewrite occ_cons in Hocc. lia. }
      split.
      * apply pref_ok_snoc; auto. intros k. rewrite Cc, Cd. specialize (H2 k). specialize (Hx k). lia.
      * intros k. rewrite Cc, Cd, occ_app. specialize (H2 k). specialize (Hx k). lia.
    + intros k. rewrite occ_app. lia.
Qed.

Lemma J_init : J [] [].
Proof.
  split.
  - intros t1 t2 E k. destruct t1; [unfold cnt; simpl; lia|discriminate].
  - intros k. unfold cnt, occ; simpl. lia.
Qed.
End Count.

Lemma occ_concat_cons : forall k l r, occ k (concat (l :: r)) = occ k l + occ k (concat r).
Proof. intros; simpl. apply occ_app. Qed.

(* ------------------------------------------------------------------ objects *)
(* identities only: the struct type printed by a destructor is the type of the ENTRY, the identity comes
   from the SLOT (see Model.call_destructor); under shadowing they may belong to different declarations *)
Definition c_obj (e : event) : option nat := match e with ECtor _ k => Some k | _ => None end.
Definition d_obj (e : event) : option nat := match e with EDtor _ k => Some k | _ => None end.

(* the identities held by slots whose destructor_called flag is still false *)
Definition live_slot (b : name * slot) : bool := negb (snd (snd b)).
Definition live_ids_f (F : frame) : list nat := map (fun b : name * slot => fst (snd b)) (filter live_slot F).
Definition live_ids (Fs : list frame) : list nat := concat (map live_ids_f Fs).

Definition Jobj (st : state) : Prop := J c_obj d_obj (live_ids (vars st)) (tr st).

Lemma disj_obj : forall e k, d_obj e = Some k -> c_obj e = None.
Proof. destruct e; simpl; intros; congruence. Qed.

Lemma neutral_defers_obj : forall l e, In e (map EDefer l) -> c_obj e = None /\ d_obj e = None.
Proof. intros l e H. apply in_map_iff in H. destruct H as (x & <- & _). auto. Qed.

Lemma live_ids_cons : forall k F Fs, occ k (live_ids (F :: Fs)) = occ k (live_ids_f F) + occ k (live_ids Fs).
Proof. intros. unfold live_ids; simpl. apply occ_app. Qed.

Lemma live_ids_f_cons : forall k x i b F,
  occ k (live_ids_f ((x, (i, b)) :: F)) = (if b then 0 else if Nat.eqb k i then 1 else 0) + occ k (live_ids_f F).
Proof.
  intros. unfold live_ids_f; simpl. unfold live_slot at 1; simpl. destruct b; simpl; auto.
  rewrite occ_cons. reflexivity.
Qed.

Lemma live_set_flag : forall F x k, lookup F x = Some (k, false) ->
  forall k', occ k' (live_ids_f (set_flag F x)) + (if Nat.eqb k' k then 1 else 0) = occ k' (live_ids_f F).
Proof.
  induction F as [|[z [i b]] F IH]; intros x k H k'; simpl in H; [discriminate|].
  simpl. destruct (name_eqb x z).
  - inversion H; subst. rewrite !live_ids_f_cons. lia.
  - rewrite !live_ids_f_cons. rewrite <- (IH x k H k'). lia.
Qed.

Lemma live_mark_var : forall Fs x k, find_var Fs x = Some (k, false) ->
  forall k', occ k' (live_ids (mark_var Fs x)) + (if Nat.eqb k' k then 1 else 0) = occ k' (live_ids Fs).
Proof.
  induction Fs as [|F Fs IH]; intros x k H k'; simpl in H; [discriminate|].
  simpl. destruct (lookup F x) as [v|] eqn:E.
  - inversion H; subst. rewrite !live_ids_cons. rewrite <- (live_set_flag F x k E k'). lia.
  - rewrite !live_ids_cons. rewrite <- (IH x k H k'). lia.
Qed.

Lemma live_tl : forall Fs k, occ k (live_ids (tl Fs)) <= occ k (live_ids Fs).
Proof. destruct Fs; simpl; auto. intros. rewrite live_ids_cons. lia. Qed.

Lemma Jobj_stacks : forall a b a' b' c t, Jobj (mk a b c t) -> Jobj (mk a' b' c t).
Proof. intros; exact H. Qed.

Lemma Jobj_tl : forall a b c t, Jobj (mk a b c t) -> Jobj (mk a b (tl c) t).
Proof. intros a b c t H. unfold Jobj in *; simpl in *. eapply J_weaken; [exact H|]. apply live_tl. Qed.

Lemma Jobj_pop_defer : forall st, Jobj st -> Jobj (pop_defer_scope st).
Proof.
  intros [a b c t] H. destruct a as [|l r]; [exact H|].
  rewrite pop_defer_scope_cons. unfold Jobj in *; simpl in *.
  apply J_neutral; auto. apply neutral_defers_obj.
Qed.

Lemma Jobj_call_destructor : forall x t st, Jobj st -> Jobj (call_destructor x t st).
Proof.
  intros x t [a b c t0] H. rewrite call_destructor_eq; simpl.
  destruct (find_var c x) as [[k [|]]|] eqn:E; auto.
  unfold Jobj in *; simpl in *.
  eapply J_release with (dev := EDtor t) (m := [k]); eauto using disj_obj.
  intros k'. rewrite occ_cons, occ_nil. rewrite <- (live_mark_var c x k E k'). lia.
Qed.

Lemma Jobj_fold : forall m st, Jobj st ->
  Jobj (fold_left (fun s e => call_destructor (fst e) (snd e) s) m st).
Proof. induction m; intros; simpl; auto. apply IHm. now apply Jobj_call_destructor. Qed.

Lemma Jobj_run_destructors : forall l st, Jobj st -> Jobj (run_destructors l st).
Proof. intros. apply Jobj_fold; auto. Qed.

Lemma Jobj_pop_destructor : forall st, Jobj st -> Jobj (pop_destructor_scope st).
Proof.
  intros st H. apply Jobj_pop_defer in H. unfold pop_destructor_scope.
  destruct (pop_defer_scope st) as [a b c t]; simpl.
  destruct b as [|l r]; [exact H|].
  apply Jobj_run_destructors. exact H.
Qed.

Lemma Jobj_emit_neutral : forall e st, c_obj e = None -> d_obj e = None -> Jobj st -> Jobj (emit [e] st).
Proof. intros e [a b c t] Hc Hd H. unfold Jobj in *; simpl in *. now apply J_neutral1. Qed.

Lemma Jobj_register : forall l st, Jobj st -> Jobj (fold_left (fun s e => register_destructor e s) l st).
Proof.
  induction l; intros; simpl; auto. apply IHl.
  destruct st as [a0 b c t]; unfold register_destructor; simpl. destruct b; exact H.
Qed.

(* one constructor line with the slot it announces: the slot may be missing (no scope) or already flagged *)
Lemma Jobj_ctor1 : forall a b c c' t ty k, Jobj (mk a b c t) ->
  (forall k', occ k' (live_ids c') <= occ k' (live_ids c) + (if Nat.eqb k' k then 1 else 0)) ->
  Jobj (mk a b c' (t ++ [ECtor ty k])).
Proof. intros. unfold Jobj in *; simpl in *. eapply J_acquire with (k := k); eauto. Qed.

Ltac ifs_lia := simpl; repeat match goal with |- context [if ?b then _ else _] => destruct b end; lia.

Lemma Jobj_all : forall fuel p n0 ok stf, mrun fuel p n0 = Some (ok, stf) -> Jobj stf.
Proof.
  intros fuel p n0 ok stf E.
  eapply (mrun_inv Jobj); try exact E.
  - (* declare_obj *)
    intros x t k [a b c tr0] H. rewrite declare_obj_eq. unfold register_obj.
    assert (G : Jobj (emit (map ctor_ev (obj_parts t k)) (bind_obj x t k (mk a b c tr0)))).
    { unfold bind_obj; simpl. destruct c as [|F Fs]; unfold emit; simpl.
      - destruct t; simpl.
        + eapply Jobj_ctor1; eauto. intros; lia.
        + eapply Jobj_ctor1; eauto. intros; lia.
        + replace (tr0 ++ [ctor_ev (TR, k + 50); ctor_ev (TW, k)])
            with ((tr0 ++ [ECtor TR (k + 50)]) ++ [ECtor TW k]) by (now rewrite <- app_assoc).
          eapply (Jobj_ctor1 a b [] []); [eapply (Jobj_ctor1 a b [] []); [exact H|]|]; intros; lia.
      - destruct t; simpl.
        + eapply Jobj_ctor1; eauto. intros k'. rewrite !live_ids_cons, live_ids_f_cons. ifs_lia.
        + eapply Jobj_ctor1; eauto. intros k'. rewrite !live_ids_cons, live_ids_f_cons. ifs_lia.
        + replace (tr0 ++ [ctor_ev (TR, k + 50); ctor_ev (TW, k)])
            with ((tr0 ++ [ECtor TR (k + 50)]) ++ [ECtor TW k]) by (now rewrite <- app_assoc).
          eapply Jobj_ctor1 with (c := ((NMem x, (k + 50, false)) :: F) :: Fs).
          * eapply Jobj_ctor1; [exact H|]. intros k'. rewrite !live_ids_cons, live_ids_f_cons.
            ifs_lia.
          * intros k'. rewrite !live_ids_cons, !live_ids_f_cons. ifs_lia. }
    clear H. revert G. generalize (bind_obj x t k (mk a b c tr0)). intros st G.
    assert (R : forall l s, Jobj (emit (map ctor_ev (obj_parts t k)) s) ->
                Jobj (emit (map ctor_ev (obj_parts t k)) (fold_left (fun s e => register_destructor e s) l s))).
    { induction l; intros s Hs; simpl; auto. apply IHl.
      destruct s as [a1 b1 c1 t1]; unfold register_destructor; simpl. destruct b1; exact Hs. }
    apply R. exact G.
  - (* defer_stmt *)
    intros k [a b c t] H. unfold defer_stmt, add_defer; simpl.
    assert (Jobj (mk a b c (t ++ [EReg k]))) by (unfold Jobj in *; simpl in *; now apply J_neutral1).
    destruct a; auto.
  - intros k st H. now apply Jobj_emit_neutral.
  - intros [a b c t] H; exact H.
  - apply Jobj_pop_destructor.
  - intros [a b c t] H; exact H.
  - apply Jobj_pop_defer.
  - intros [a b c t] H; exact H.
  - intros st H. rewrite pop_scope_unfold. apply Jobj_pop_destructor in H.
    destruct (pop_destructor_scope st). now apply Jobj_tl.
  - (* pre_return_cleanup *)
    intros [a b c t] H. unfold pre_return_cleanup; simpl.
    set (st1 := match a with
                | ((_ :: _) as l) :: r => emit (map EDefer (rev l)) (mk ([] :: r) b c t)
                | _ => mk a b c t end).
    assert (H1 : Jobj st1).
    { subst st1. destruct a as [|[|x l] r]; auto. unfold Jobj in *; simpl in *.
      apply J_neutral; auto. apply neutral_defers_obj. }
    assert (Eb : dts st1 = b) by (subst st1; destruct a as [|[|x l] r]; reflexivity).
    destruct st1 as [a1 b1 c1 t1]; simpl in Eb; subst b1; simpl.
    destruct b as [|[|x l] r]; auto.
    apply Jobj_run_destructors. exact H1.
  - intros g a st H. unfold guard_report. destruct (depths_differ a st); auto.
    now apply Jobj_emit_neutral.
  - apply J_init.
Qed.

(* ------------------------------------------------------------------ defers *)
Definition c_def (e : event) : option nat := match e with EReg k => Some k | _ => None end.
Definition d_def (e : event) : option nat := match e with EDefer k => Some k | _ => None end.
Definition Jdef (st : state) : Prop := J c_def d_def (concat (dfs st)) (tr st).

Lemma disj_def : forall e k, d_def e = Some k -> c_def e = None.
Proof. destruct e; simpl; intros; congruence. Qed.


Lemma Jdef_pop_defer : forall st, Jdef st -> Jdef (pop_defer_scope st).
Proof.
  intros [a b c t] H. destruct a as [|l r]; [exact H|].
  rewrite pop_defer_scope_cons. unfold Jdef in *; simpl in *.
  eapply J_release with (dev := EDefer); eauto using disj_def.
  intros k. rewrite occ_rev, occ_app. lia.
Qed.

Lemma Jdef_call_destructor : forall x t st, Jdef st -> Jdef (call_destructor x t st).
Proof.
  intros x t [a b c t0] H. rewrite call_destructor_eq; simpl.
  destruct (find_var c x) as [[k [|]]|]; auto.
  unfold Jdef in *; simpl in *. now apply J_neutral1.
Qed.

Lemma Jdef_run_destructors : forall l st, Jdef st -> Jdef (run_destructors l st).
Proof.
  intros l. unfold run_destructors. induction (rev l); intros; simpl; auto.
  apply IHl0. now apply Jdef_call_destructor.
Qed.

Lemma Jdef_pop_destructor : forall st, Jdef st -> Jdef (pop_destructor_scope st).
Proof.
  intros st H. apply Jdef_pop_defer in H. unfold pop_destructor_scope.
  destruct (pop_defer_scope st) as [a b c t]; simpl.
  destruct b as [|l r]; [exact H|].
  apply Jdef_run_destructors. exact H.
Qed.

Lemma Jdef_emit_neutral : forall e st, c_def e = None -> d_def e = None -> Jdef st -> Jdef (emit [e] st).
Proof. intros e [a b c t] Hc Hd H. unfold Jdef in *; simpl in *. now apply J_neutral1. Qed.

Lemma Jdef_all : forall fuel p n0 ok stf, mrun fuel p n0 = Some (ok, stf) -> Jdef stf.
Proof.
  intros fuel p n0 ok stf E.
  eapply (mrun_inv Jdef); try exact E.
  - intros x t k [a b c tr0] H. rewrite declare_obj_eq.
    assert (G : forall s, Jdef s -> Jdef (emit (map ctor_ev (obj_parts t k)) s)).
    { intros [a0 b0 c0 t0] Hs. unfold Jdef in *; simpl in *. apply J_neutral; auto.
      intros e He. apply in_map_iff in He. destruct He as (r & <- & _). auto. }
    apply G. unfold register_obj.
    assert (R : forall l s, Jdef s -> Jdef (fold_left (fun s e => register_destructor e s) l s)).
    { induction l; intros s Hs; simpl; auto. apply IHl.
      destruct s as [a1 b1 c1 t1]; unfold register_destructor; simpl. destruct b1; exact Hs. }
    apply R. unfold bind_obj; simpl. destruct c; exact H.
  - intros k [a b c t] H. unfold defer_stmt, add_defer; simpl.
    destruct a as [|l r]; unfold Jdef in *; simpl in *.
    + eapply J_acquire with (k := k); eauto. intros k'. destruct (k' =? k); lia.
    + eapply J_acquire with (k := k); eauto. intros k'.
      rewrite !occ_app, occ_cons, occ_nil. destruct (k' =? k); lia.
  - intros k st H. now apply Jdef_emit_neutral.
  - intros [a b c t] H; exact H.
  - apply Jdef_pop_destructor.
  - intros [a b c t] H; exact H.
  - apply Jdef_pop_defer.
  - intros [a b c t] H; exact H.
  - intros st H. rewrite pop_scope_unfold. apply Jdef_pop_destructor in H.
    destruct (pop_destructor_scope st); exact H.
  - intros [a b c t] H. unfold pre_return_cleanup; simpl.
    set (st1 := match a with
                | ((_ :: _) as l) :: r => emit (map EDefer (rev l)) (mk ([] :: r) b c t)
                | _ => mk a b c t end).
    assert (H1 : Jdef st1).
    { subst st1. destruct a as [|[|x l] r]; auto. unfold Jdef in *; simpl in *.
      eapply J_release with (dev := EDefer) (m := rev l ++ [x]); eauto using disj_def.
      intros k. repeat (rewrite occ_cons || rewrite occ_app || rewrite occ_rev || rewrite occ_nil). destruct (k =? x); lia. }
    assert (Eb : dts st1 = b) by (subst st1; destruct a as [|[|x l] r]; reflexivity).
    destruct st1 as [a1 b1 c1 t1]; simpl in Eb; subst b1; simpl.
    destruct b as [|[|x l] r]; auto.
    apply Jdef_run_destructors. exact H1.
  - intros g a st H. unfold guard_report. destruct (depths_differ a st); auto.
    now apply Jdef_emit_neutral.
  - apply J_init.
Qed.

(* ------------------------------------------------------------------ readable form *)
Definition ev_ctor (k : nat) (e : event) : bool := match e with ECtor _ k' => Nat.eqb k k' | _ => false end.
Definition ev_dtor (k : nat) (e : event) : bool := match e with EDtor _ k' => Nat.eqb k k' | _ => false end.
Definition ev_reg (k : nat) (e : event) : bool := match e with EReg k' => Nat.eqb k k' | _ => false end.
Definition ev_defer (k : nat) (e : event) : bool := match e with EDefer k' => Nat.eqb k k' | _ => false end.
Definition count (f : event -> bool) (t : list event) : nat := length (filter f t).

Lemma cnt_count : forall f g k, (forall e, hit f k e = g e) -> forall t, cnt f k t = count g t.
Proof.
  intros f g k H t. unfold cnt, count. f_equal. apply filter_ext. exact H.
Qed.

Lemma object_at_most_once : forall fuel p n0 ok st, mrun fuel p n0 = Some (ok, st) ->
  forall t1 t2 k, tr st = t1 ++ t2 -> count (ev_dtor k) t1 <= count (ev_ctor k) t1.
Proof.
  intros fuel p n0 ok st E t1 t2 k Et.
  destruct (Jobj_all fuel p n0 ok st E) as [H _].
  rewrite <- (cnt_count d_obj (ev_dtor k) k) by (intros []; reflexivity).
  rewrite <- (cnt_count c_obj (ev_ctor k) k) by (intros []; reflexivity).
  eapply H; eauto.
Qed.

Lemma defer_at_most_once : forall fuel p n0 ok st, mrun fuel p n0 = Some (ok, st) ->
  forall t1 t2 k, tr st = t1 ++ t2 -> count (ev_defer k) t1 <= count (ev_reg k) t1.
Proof.
  intros fuel p n0 ok st E t1 t2 k Et.
  destruct (Jdef_all fuel p n0 ok st E) as [H _].
  rewrite <- (cnt_count d_def (ev_defer k) k) by (intros []; reflexivity).
  rewrite <- (cnt_count c_def (ev_reg k) k) by (intros []; reflexivity).
  eapply H; eauto.
Qed.
