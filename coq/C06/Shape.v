(* C06 - for EVERY program, whatever variable names it uses (shadowing, re-declaration, the same name in
   caller and callee or in all levels of a recursion, W objects): a statement only touches its own
   cleanup levels and the variable scope of its own activation; a call gives back both stacks and ALL
   variable scopes of the caller exactly as they were, and never prints an imbalance line.
   Invariant: every pending entry of the current level names a variable of the current activation's
   scope (so find_variable never walks into a caller's scope and never fails). *)
From Coq Require Import List Arith Bool Lia.
Import ListNotations.
From Cb Require Import C06.Model C06.Prims.

Definition dom_ok (F : frame) (Tm : list (name * ty)) : Prop :=
  forall e, In e Tm -> lookup F (fst e) <> None.
Definition dom_le (F F' : frame) : Prop := forall x, lookup F x <> None -> lookup F' x <> None.

Lemma dom_ok_nil : forall F, dom_ok F [].
Proof. intros F e []. Qed.
Lemma dom_le_refl : forall F, dom_le F F.
Proof. red; auto. Qed.
Lemma dom_le_trans : forall A B C, dom_le A B -> dom_le B C -> dom_le A C.
Proof. unfold dom_le; auto. Qed.
Lemma dom_ok_le : forall F F' Tm, dom_ok F Tm -> dom_le F F' -> dom_ok F' Tm.
Proof. unfold dom_ok, dom_le; auto. Qed.
Lemma dom_le_set_flag : forall F x, dom_le F (set_flag F x).
Proof. intros F x y H E. apply lookup_set_flag_none in E. contradiction. Qed.
Lemma dom_le_cons : forall F x v, dom_le F ((x, v) :: F).
Proof. intros F x v y H. simpl. destruct (name_eqb y x); [discriminate|exact H]. Qed.

Definition not_imb (e : event) : Prop := match e with EImb _ _ _ _ _ _ _ => False | _ => True end.

(* one destructor call on a variable of the top scope: only that scope may change (a flag) *)
Lemma call_destructor_shape : forall x t a b F Fs tr0, lookup F x <> None ->
  exists F' t', call_destructor x t (mk a b (F :: Fs) tr0) = mk a b (F' :: Fs) (tr0 ++ t') /\
                dom_le F F' /\ Forall not_imb t'.
Proof.
  intros. rewrite call_destructor_eq; simpl.
  destruct (lookup F x) as [[k [|]]|] eqn:E; [| |contradiction].
  - exists F, []. rewrite app_nil_r. auto using dom_le_refl.
  - exists (set_flag F x), [EDtor t k]. repeat split; auto using dom_le_set_flag.
    repeat constructor.
Qed.

Lemma fold_call_destructor_shape : forall m a b F Fs tr0, dom_ok F m ->
  exists F' t', fold_left (fun s e => call_destructor (fst e) (snd e) s) m (mk a b (F :: Fs) tr0)
                = mk a b (F' :: Fs) (tr0 ++ t') /\ dom_le F F' /\ Forall not_imb t'.
Proof.
  induction m as [|e m IH]; intros a b F Fs tr0 H; simpl.
  - exists F, []. rewrite app_nil_r. auto using dom_le_refl.
  - destruct (call_destructor_shape (fst e) (snd e) a b F Fs tr0) as (F1 & t1 & -> & L1 & N1).
    { apply H. now left. }
    destruct (IH a b F1 Fs (tr0 ++ t1)) as (F2 & t2 & -> & L2 & N2).
    { eapply dom_ok_le; [|exact L1]. intros e' He'. apply H. now right. }
    exists F2, (t1 ++ t2). rewrite app_assoc. repeat split; eauto using dom_le_trans.
    apply Forall_app; auto.
Qed.

Lemma run_destructors_shape : forall l a b F Fs tr0, dom_ok F l ->
  exists F' t', run_destructors l (mk a b (F :: Fs) tr0) = mk a b (F' :: Fs) (tr0 ++ t') /\
                dom_le F F' /\ Forall not_imb t'.
Proof.
  intros. unfold run_destructors. apply fold_call_destructor_shape.
  intros e He. apply H. now apply in_rev.
Qed.

Lemma Forall_map_defer : forall l, Forall not_imb (map EDefer l).
Proof. induction l; simpl; constructor; simpl; auto. Qed.

Lemma pop_destructor_scope_shape : forall D Ds Tm Ts F Fs tr0, dom_ok F Tm ->
  exists F' t', pop_destructor_scope (mk (D :: Ds) (Tm :: Ts) (F :: Fs) tr0) = mk Ds Ts (F' :: Fs) (tr0 ++ t') /\
                dom_le F F' /\ Forall not_imb t'.
Proof.
  intros. unfold pop_destructor_scope. rewrite pop_defer_scope_cons; simpl.
  destruct (run_destructors_shape Tm Ds Ts F Fs (tr0 ++ map EDefer (rev D)) H) as (F' & t' & -> & L & N).
  exists F', (map EDefer (rev D) ++ t'). rewrite app_assoc. repeat split; auto.
  apply Forall_app; auto using Forall_map_defer.
Qed.

Lemma pop_scope_shape : forall D Ds Tm Ts F Fs tr0, dom_ok F Tm ->
  exists t', pop_scope (mk (D :: Ds) (Tm :: Ts) (F :: Fs) tr0) = mk Ds Ts Fs (tr0 ++ t') /\ Forall not_imb t'.
Proof.
  intros. rewrite pop_scope_unfold.
  destruct (pop_destructor_scope_shape D Ds Tm Ts F Fs tr0 H) as (F' & t' & -> & _ & N). simpl. eauto.
Qed.

Lemma pre_return_cleanup_shape : forall D Ds Tm Ts F Fs tr0, dom_ok F Tm ->
  exists D' Tm' F' t', pre_return_cleanup (mk (D :: Ds) (Tm :: Ts) (F :: Fs) tr0) =
                       mk (D' :: Ds) (Tm' :: Ts) (F' :: Fs) (tr0 ++ t') /\
                       dom_ok F' Tm' /\ dom_le F F' /\ Forall not_imb t'.
Proof.
  intros D Ds Tm Ts F Fs tr0 H. unfold pre_return_cleanup.
  assert (A : exists D' t1, match D with
             | _ :: _ => emit (map EDefer (rev D)) (mk ([] :: Ds) (Tm :: Ts) (F :: Fs) tr0)
             | [] => mk (D :: Ds) (Tm :: Ts) (F :: Fs) tr0 end
             = mk (D' :: Ds) (Tm :: Ts) (F :: Fs) (tr0 ++ t1) /\ Forall not_imb t1).
  { destruct D as [|d D0].
    - exists [], []. now rewrite app_nil_r.
    - exists [], (map EDefer (rev (d :: D0))). split; [reflexivity|apply Forall_map_defer]. }
  destruct A as (D' & t1 & A & N1). simpl in A |- *.
  replace (match D with
           | [] => mk (D :: Ds) (Tm :: Ts) (F :: Fs) tr0
           | _ :: _ => emit (map EDefer (rev D)) (mk ([] :: Ds) (Tm :: Ts) (F :: Fs) tr0)
           end) with (mk (D' :: Ds) (Tm :: Ts) (F :: Fs) (tr0 ++ t1))
    by (rewrite <- A; destruct D; reflexivity).
  simpl. destruct Tm as [|e Tm0].
  - exists D', [], F, t1. split; [reflexivity|]. auto using dom_le_refl, dom_ok_nil.
  - destruct (run_destructors_shape (e :: Tm0) (D' :: Ds) ([] :: Ts) F Fs (tr0 ++ t1) H) as (F' & t' & -> & L & N).
    exists D', [], F', (t1 ++ t'). rewrite app_assoc. split; [reflexivity|].
    split; [apply dom_ok_nil|]. split; [exact L|]. apply Forall_app; auto.
Qed.

Lemma declare_obj_shape : forall x t id D Ds Tm Ts F Fs tr0, dom_ok F Tm ->
  exists Tm' F' t', declare_obj x t id (mk (D :: Ds) (Tm :: Ts) (F :: Fs) tr0) =
                    mk (D :: Ds) (Tm' :: Ts) (F' :: Fs) (tr0 ++ t') /\
                    dom_ok F' Tm' /\ dom_le F F' /\ Forall not_imb t'.
Proof.
  intros. rewrite declare_obj_cc.
  exists (Tm ++ obj_entries x t), (obj_slots F x t id), (map ctor_ev (obj_parts t id)).
  assert (L : dom_le F (obj_slots F x t id)).
  { destruct t; simpl; try apply dom_le_cons.
    eapply dom_le_trans; apply dom_le_cons. }
  split; [reflexivity|]. split; [|split; [exact L|]].
  - intros e He. apply in_app_or in He. destruct He as [He|He].
    + apply L. now apply H.
    + destruct t; simpl in He |- *;
        repeat match goal with
               | H : _ \/ _ |- _ => destruct H
               | H : False |- _ => destruct H
               end; subst; simpl; rewrite ?Nat.eqb_refl; discriminate.
  - destruct t; simpl; repeat constructor.
Qed.

Section Sh.
Variable p : prog.

Definition shaped (st' : state) (Ds : list (list nat)) Ts Fs (t0 : list event) (F : frame) : Prop :=
  exists D' Tm' F' t, st' = mk (D' :: Ds) (Tm' :: Ts) (F' :: Fs) (t0 ++ t) /\
                      dom_ok F' Tm' /\ dom_le F F' /\ Forall not_imb t.

Definition Shs (fuel : nat) : Prop := forall n it s D Tm Ds Ts F Fs t0 o st', dom_ok F Tm ->
  mexec fuel p n it s (mk (D :: Ds) (Tm :: Ts) (F :: Fs) t0) = Some (o, st') -> shaped st' Ds Ts Fs t0 F.
Definition Shb (fuel : nat) : Prop := forall n it b D Tm Ds Ts F Fs t0 o st', dom_ok F Tm ->
  mexec_b fuel p n it b (mk (D :: Ds) (Tm :: Ts) (F :: Fs) t0) = Some (o, st') -> shaped st' Ds Ts Fs t0 F.
Definition Shl (fuel : nat) : Prop := forall n m i b Xs Ys F Fs t0 o st',
  mloop fuel p n m i b (mk Xs Ys (F :: Fs) t0) = Some (o, st') ->
  exists F' t, st' = mk Xs Ys (F' :: Fs) (t0 ++ t) /\ dom_le F F' /\ Forall not_imb t.

Lemma compound_shape : forall f, Shb f -> forall n it b Xs Ys F Fs t0 o st',
  compound_close (mexec_b f p n it b (push_destructor_scope (mk Xs Ys (F :: Fs) t0))) = Some (o, st') ->
  exists F' t, st' = mk Xs Ys (F' :: Fs) (t0 ++ t) /\ dom_le F F' /\ Forall not_imb t.
Proof.
  intros f HF n it b Xs Ys F Fs t0 o st' E. unfold push_destructor_scope in E; simpl in E.
  destruct (mexec_b f p n it b (mk ([] :: Xs) ([] :: Ys) (F :: Fs) t0)) as [[o1 st1]|] eqn:EB; simpl in E; [|discriminate].
  inversion E; subst; clear E.
  destruct (HF _ _ _ _ _ _ _ _ _ _ _ _ (dom_ok_nil _) EB) as (D' & Tm' & F' & t & -> & OK & L & N).
  destruct (pop_destructor_scope_shape D' Xs Tm' Ys F' Fs (t0 ++ t) OK) as (F2 & t2 & -> & L2 & N2).
  exists F2, (t ++ t2). rewrite app_assoc. repeat split; eauto using dom_le_trans. apply Forall_app; auto.
Qed.

Lemma keep_shape : forall D Tm Ds Ts F F' Fs t0 t, dom_ok F Tm -> dom_le F F' -> Forall not_imb t ->
  shaped (mk (D :: Ds) (Tm :: Ts) (F' :: Fs) (t0 ++ t)) Ds Ts Fs t0 F.
Proof. intros. exists D, Tm, F', t. repeat split; eauto using dom_ok_le. Qed.

Lemma keep_shape0 : forall D Tm Ds Ts F Fs t0, dom_ok F Tm ->
  shaped (mk (D :: Ds) (Tm :: Ts) (F :: Fs) t0) Ds Ts Fs t0 F.
Proof. intros. exists D, Tm, F, []. rewrite app_nil_r. repeat split; auto using dom_le_refl. Qed.

Lemma shape_all : forall fuel, Shs fuel /\ Shb fuel /\ Shl fuel.
Proof.
  induction fuel as [|f (IHs & IHb & IHl)].
  - repeat split; red; intros; simpl in *; discriminate.
  - split; [|split].
    + red; intros n it s D Tm Ds Ts F Fs t0 o st' OK E.
      destruct s; simpl in E.
      * inversion E; subst; clear E.
        destruct (declare_obj_shape x t (oid n k) D Ds Tm Ts F Fs t0 OK) as (Tm' & F' & t' & -> & A & B & C).
        exists D, Tm', F', t'. auto.
      * inversion E; subst; clear E. rewrite defer_stmt_cc.
        exists (D ++ [oid n k]), Tm, F, [EReg (oid n k)]. repeat split; auto using dom_le_refl.
        repeat constructor.
      * inversion E; subst; clear E.
        apply keep_shape; auto using dom_le_refl. repeat constructor.
      * destruct (compound_shape f IHb _ _ _ _ _ _ _ _ _ _ E) as (F' & t & -> & L & N).
        apply keep_shape; auto.
      * destruct (cond_true n it c).
        -- destruct (compound_shape f IHb _ _ _ _ _ _ _ _ _ _ E) as (F' & t' & -> & L & N).
           apply keep_shape; auto.
        -- destruct e as [|s' r'].
           ++ inversion E; subst; clear E. apply keep_shape0; auto.
           ++ destruct (compound_shape f IHb _ _ _ _ _ _ _ _ _ _ E) as (F' & t' & -> & L & N).
              apply keep_shape; auto.
      * unfold push_defer_scope in E; simpl in E.
        destruct (mloop f p n n0 0 b (mk ([] :: D :: Ds) (Tm :: Ts) (F :: Fs) t0)) as [[o1 st1]|] eqn:EL; [|discriminate].
        destruct (IHl _ _ _ _ _ _ _ _ _ _ _ EL) as (F' & t & -> & L & N).
        assert (st' = mk (D :: Ds) (Tm :: Ts) (F' :: Fs) ((t0 ++ t) ++ [])).
        { destruct o1; inversion E; subst; rewrite pop_defer_scope_cons; reflexivity. }
        subst st'. rewrite app_nil_r. apply keep_shape; auto.
      * unfold push_scope in E; simpl in E.
        destruct (mexec_b f p (Init.Nat.pred n) None (body p f0) (mk ([] :: D :: Ds) ([] :: Tm :: Ts) ([] :: F :: Fs) t0))
          as [[o1 st1]|] eqn:EB; [|discriminate].
        inversion E; subst; clear E.
        destruct (IHb _ _ _ _ _ _ _ _ _ _ _ _ (dom_ok_nil _) EB) as (D' & Tm' & F' & t & -> & OK1 & L & N).
        destruct (pop_scope_shape D' (D :: Ds) Tm' (Tm :: Ts) F' (F :: Fs) (t0 ++ t) OK1) as (t2 & -> & N2).
        rewrite guard_report_same by reflexivity. rewrite <- app_assoc.
        apply keep_shape; auto using dom_le_refl. apply Forall_app; auto.
      * inversion E; subst; clear E.
        destruct (pre_return_cleanup_shape D Ds Tm Ts F Fs t0 OK) as (D' & Tm' & F' & t' & -> & A & B & C).
        exists D', Tm', F', t'. auto.
      * inversion E; subst; clear E. apply keep_shape0; auto.
      * inversion E; subst; clear E. apply keep_shape0; auto.
    + red; intros n it b D Tm Ds Ts F Fs t0 o st' OK E.
      destruct b as [|s r]; simpl in E.
      * inversion E; subst; clear E. apply keep_shape0; auto.
      * destruct (mexec f p n it s (mk (D :: Ds) (Tm :: Ts) (F :: Fs) t0)) as [[o1 st1]|] eqn:ES; [|discriminate].
        pose proof (IHs _ _ _ _ _ _ _ _ _ _ _ _ OK ES) as H1.
        destruct o1; try (inversion E; subst; exact H1).
        destruct H1 as (D1 & Tm1 & F1 & t1 & -> & OK1 & L1 & N1).
        destruct (IHb _ _ _ _ _ _ _ _ _ _ _ _ OK1 E) as (D2 & Tm2 & F2 & t2 & -> & OK2 & L2 & N2).
        exists D2, Tm2, F2, (t1 ++ t2). rewrite app_assoc. repeat split; eauto using dom_le_trans.
        apply Forall_app; auto.
    + red; intros n m i b Xs Ys F Fs t0 o st' E. simpl in E.
      destruct (m <=? i).
      * inversion E; subst. exists F, []. rewrite app_nil_r. auto using dom_le_refl.
      * destruct (compound_close (mexec_b f p n (Some i) b (push_destructor_scope (mk Xs Ys (F :: Fs) t0))))
          as [[o1 st1]|] eqn:EC; [|discriminate].
        destruct (compound_shape f IHb _ _ _ _ _ _ _ _ _ _ EC) as (F1 & t1 & -> & L1 & N1).
        assert (NEXT : mloop f p n m (S i) b (mk Xs Ys (F1 :: Fs) (t0 ++ t1)) = Some (o, st') ->
                       exists F' t, st' = mk Xs Ys (F' :: Fs) (t0 ++ t) /\ dom_le F F' /\ Forall not_imb t).
        { intros E2. destruct (IHl _ _ _ _ _ _ _ _ _ _ _ E2) as (F2 & t2 & -> & L2 & N2).
          exists F2, (t1 ++ t2). rewrite app_assoc. repeat split; eauto using dom_le_trans.
          apply Forall_app; auto. }
        destruct o1.
        -- auto.
        -- inversion E; subst. exists F1, t1; auto.
        -- inversion E; subst. exists F1, t1; auto.
        -- auto.
Qed.
End Sh.

(* ---- corollaries, for every program *)

(* a statement (any outcome) leaves everything below its own cleanup level and every variable scope
   but that of its own activation as they were *)
Lemma stmt_balanced : forall p fuel n it s D Tm Ds Ts F Fs t0 o st', dom_ok F Tm ->
  mexec fuel p n it s (mk (D :: Ds) (Tm :: Ts) (F :: Fs) t0) = Some (o, st') ->
  tl (dfs st') = Ds /\ tl (dts st') = Ts /\ tl (vars st') = Fs /\
  length (dfs st') = S (length Ds) /\ length (dts st') = S (length Ts) /\ length (vars st') = S (length Fs).
Proof.
  intros p fuel n it s D Tm Ds Ts F Fs t0 o st' OK E.
  destruct (shape_all p fuel) as (H & _ & _).
  destruct (H _ _ _ _ _ _ _ _ _ _ _ _ OK E) as (D' & Tm' & F' & t & -> & _). simpl. auto 10.
Qed.

(* a call - of any function, the running one included - gives the caller back both stacks and all its
   variable scopes (destructor_called flags included) exactly as they were, whatever names the callee
   uses, and prints no imbalance line *)
Lemma call_isolated : forall p fuel n it g D Tm Ds Ts F Fs t0 o st',
  mexec fuel p n it (SCall g) (mk (D :: Ds) (Tm :: Ts) (F :: Fs) t0) = Some (o, st') ->
  exists t, st' = mk (D :: Ds) (Tm :: Ts) (F :: Fs) (t0 ++ t) /\ Forall not_imb t.
Proof.
  intros p [|f] n it g D Tm Ds Ts F Fs t0 o st' E; simpl in E; [discriminate|].
  unfold push_scope in E; simpl in E.
  destruct (mexec_b f p (Init.Nat.pred n) None (body p g) (mk ([] :: D :: Ds) ([] :: Tm :: Ts) ([] :: F :: Fs) t0))
    as [[o1 st1]|] eqn:EB; [|discriminate].
  inversion E; subst; clear E.
  destruct (shape_all p f) as (_ & H & _).
  destruct (H _ _ _ _ _ _ _ _ _ _ _ _ (dom_ok_nil _) EB) as (D' & Tm' & F' & t & -> & OK1 & L & N).
  destruct (pop_scope_shape D' (D :: Ds) Tm' (Tm :: Ts) F' (F :: Fs) (t0 ++ t) OK1) as (t2 & -> & N2).
  rewrite guard_report_same by reflexivity. rewrite <- app_assoc.
  eexists; split; [reflexivity|]. apply Forall_app; auto.
Qed.

(* a complete run of ANY program ends with both stacks and the scope stack at their initial depth and
   without an imbalance line *)
Lemma run_balanced : forall p fuel n0 st, mrun fuel p n0 = Some (true, st) ->
  dfs st = [] /\ dts st = [[]] /\ vars st = [[]] /\ Forall not_imb (tr st).
Proof.
  intros p fuel n0 st E. unfold mrun, init_state, push_scope in E; simpl in E.
  destruct (mexec_b fuel p n0 None (body p 0) (mk [[]] [[]; []] [[]; []] [])) as [[o1 st1]|] eqn:EB; [|discriminate].
  destruct (shape_all p fuel) as (_ & H & _).
  destruct (H _ _ _ _ _ _ _ _ _ _ _ _ (dom_ok_nil _) EB) as (D' & Tm' & F' & t & -> & OK1 & L & N).
  destruct (pop_scope_shape D' [] Tm' [[]] F' [[]] ([] ++ t) OK1) as (t2 & EP & N2).
  assert (G : forall s, s = pop_scope (mk [D'] [Tm'; []] [F'; []] ([] ++ t)) ->
                        dfs s = [] /\ dts s = [[]] /\ vars s = [[]] /\ Forall not_imb (tr s)).
  { intros s ->. rewrite EP. simpl. repeat split; auto. apply Forall_app; auto. }
  destruct o1; inversion E; subst; apply G; reflexivity.
Qed.
