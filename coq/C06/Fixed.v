(* C06 - the machine WITH the three proposed repairs (notes/C06.md) refines the Spec for ALL programs.
   This is not the pinned code: it documents that the repairs proposed for findings #11, #43, #44 are
   sufficient.  (The repaired C++ was built in a scratch copy and compared with the Spec on every
   generated program; see notes.)
     #43  pop_scope / pop_destructor_scope: pop_defer_scope BEFORE the destructors
     #11  execute_pre_return_cleanup: run and CLEAR the innermost lists, do not pop the levels
     #44  for/while: a ReturnException leaving the loop runs the loop's pop_defer_scope *)
From Coq Require Import List Arith Bool Lia.
Import ListNotations.
From Cb Require Import C06.Model C06.Prims C06.Refine.

Definition pop_destructor_scope_fx (st : state) : state :=
  let st1 := pop_defer_scope st in
  match dts st1 with
  | [] => st1
  | l :: r => run_destructors l (mk (dfs st1) r (scd st1) (tr st1))
  end.

Definition pop_scope_fx (st : state) : state :=
  let st1 := pop_destructor_scope_fx st in
  mk (dfs st1) (dts st1) (pred (scd st1)) (tr st1).

Definition pre_return_cleanup_fx (st : state) : state :=
  let st1 := match dfs st with
             | l :: r => emit (map EDefer (rev l)) (mk ([] :: r) (dts st) (scd st) (tr st))
             | [] => st
             end in
  match dts st1 with
  | l :: r => run_destructors l (mk (dfs st1) ([] :: r) (scd st1) (tr st1))
  | [] => st1
  end.

Definition declare_obj_fx (k : nat) (st : state) : state :=
  pop_scope_fx (emit [ECtor k] (push_scope (register_destructor k st))).

Definition compound_close_fx (r : option (outcome * state)) : option (outcome * state) :=
  match r with
  | None => None
  | Some (o, st) => Some (o, pop_destructor_scope_fx st)
  end.

Fixpoint fexec (fuel : nat) (p : prog) (it : option nat) (s : stmt) (st : state)
  : option (outcome * state) :=
  match fuel with
  | O => None
  | S f =>
    match s with
    | SObj k => Some (ONormal, declare_obj_fx k st)
    | SDefer k => Some (ONormal, defer_stmt k st)
    | SMark k => Some (ONormal, emit [EMark k] st)
    | SBlock b => compound_close_fx (fexec_b f p it b (push_destructor_scope st))
    | SIf c t e =>
        if cond_true it c then compound_close_fx (fexec_b f p it t (push_destructor_scope st))
        else match e with
             | BNil => Some (ONormal, st)
             | _ => compound_close_fx (fexec_b f p it e (push_destructor_scope st))
             end
    | SLoop n b =>
        match floop f p n 0 b (push_defer_scope st) with
        | None => None
        | Some (ORet, st') => Some (ORet, pop_defer_scope st')      (* repair #44 *)
        | Some (_, st') => Some (ONormal, pop_defer_scope st')
        end
    | SCall g =>
        match fexec_b f p None (body p g) (push_scope st) with
        | None => None
        | Some (o, st') => Some (call_outcome o, guard_report g st (pop_scope_fx st'))
        end
    | SRet => Some (ORet, pre_return_cleanup_fx st)
    | SBrk => Some (OBrk, st)
    | SCont => Some (OCont, st)
    end
  end
with fexec_b (fuel : nat) (p : prog) (it : option nat) (b : block) (st : state)
  : option (outcome * state) :=
  match fuel with
  | O => None
  | S f =>
    match b with
    | BNil => Some (ONormal, st)
    | BCons s r =>
        match fexec f p it s st with
        | None => None
        | Some (ONormal, st') => fexec_b f p it r st'
        | Some (o, st') => Some (o, st')
        end
    end
  end
with floop (fuel : nat) (p : prog) (n i : nat) (b : block) (st : state)
  : option (outcome * state) :=
  match fuel with
  | O => None
  | S f =>
    if n <=? i then Some (ONormal, st)
    else match compound_close_fx (fexec_b f p (Some i) b (push_destructor_scope st)) with
         | None => None
         | Some (ONormal, st') => floop f p n (S i) b st'
         | Some (OCont, st') => floop f p n (S i) b st'
         | Some (OBrk, st') => Some (ONormal, st')
         | Some (ORet, st') => Some (ORet, st')
         end
  end.

Definition frun (fuel : nat) (p : prog) : option (bool * state) :=
  match fexec_b fuel p None (body p 0) (push_scope init_state) with
  | None => None
  | Some (ONormal, st) => Some (true, pop_scope_fx st)
  | Some (ORet, st) => Some (true, pop_scope_fx st)
  | Some (_, st) => Some (false, st)
  end.

(* ---- closed forms *)
Lemma pop_destructor_scope_fx_cc : forall D Ds T Ts c t,
  pop_destructor_scope_fx (mk (D :: Ds) (T :: Ts) c t) =
  mk Ds Ts c (t ++ map EDefer (rev D) ++ map EDtor (rev T)).
Proof.
  intros. unfold pop_destructor_scope_fx. rewrite pop_defer_scope_cons; simpl.
  rewrite run_destructors_eq; simpl. now rewrite app_assoc.
Qed.

Lemma pop_scope_fx_cc : forall D Ds T Ts c t,
  pop_scope_fx (mk (D :: Ds) (T :: Ts) c t) =
  mk Ds Ts (pred c) (t ++ map EDefer (rev D) ++ map EDtor (rev T)).
Proof. intros. unfold pop_scope_fx. now rewrite pop_destructor_scope_fx_cc. Qed.

Lemma declare_obj_fx_cc : forall k a T Ts c t,
  declare_obj_fx k (mk a (T :: Ts) c t) = mk a ((T ++ [k]) :: Ts) c (t ++ [ECtor k]).
Proof.
  intros. unfold declare_obj_fx, register_destructor, push_scope, emit; simpl.
  rewrite pop_scope_fx_cc; simpl. now rewrite app_nil_r.
Qed.

Lemma pre_return_cleanup_fx_cc : forall D Ds T Ts c t,
  pre_return_cleanup_fx (mk (D :: Ds) (T :: Ts) c t) =
  mk ([] :: Ds) ([] :: Ts) c (t ++ map EDefer (rev D) ++ map EDtor (rev T)).
Proof.
  intros. unfold pre_return_cleanup_fx; simpl. rewrite run_destructors_eq; simpl.
  now rewrite app_assoc.
Qed.

(* the machine state after a statement list, relative to the Spec result *)
Definition rel (o : outcome) (st' : state) (D' T' : list nat) Ds Ts sc (t1 : list event) : Prop :=
  st' = mk (D' :: Ds) (T' :: Ts) sc t1 \/
  (o = ORet /\ st' = mk ([] :: Ds) ([] :: Ts) sc (t1 ++ map EDefer (rev D') ++ map EDtor (rev T'))).

Lemma rel_close : forall o st' D' T' Ds Ts sc t1, rel o st' D' T' Ds Ts sc t1 ->
  pop_destructor_scope_fx st' = mk Ds Ts sc (t1 ++ map EDefer (rev D') ++ map EDtor (rev T')).
Proof.
  intros o st' D' T' Ds Ts sc t1 [->|[_ ->]]; rewrite pop_destructor_scope_fx_cc; auto.
  simpl. now rewrite app_nil_r.
Qed.

Lemma rel_close_scope : forall o st' D' T' Ds Ts sc t1, rel o st' D' T' Ds Ts sc t1 ->
  pop_scope_fx st' = mk Ds Ts (pred sc) (t1 ++ map EDefer (rev D') ++ map EDtor (rev T')).
Proof. intros. unfold pop_scope_fx. erewrite rel_close by eassumption. reflexivity. Qed.

Section Fix.
Variable p : prog.

Definition Fs (fuel : nat) : Prop := forall it s D T Ds Ts sc t0,
  match sexec fuel p it s D T with
  | None => fexec fuel p it s (mk (D :: Ds) (T :: Ts) sc t0) = None
  | Some (o, t, D', T') => exists st',
      fexec fuel p it s (mk (D :: Ds) (T :: Ts) sc t0) = Some (o, st') /\
      rel o st' D' T' Ds Ts sc (t0 ++ t) /\ (o <> ORet -> st' = mk (D' :: Ds) (T' :: Ts) sc (t0 ++ t))
  end.

Definition Fb (fuel : nat) : Prop := forall it b D T Ds Ts sc t0,
  match sexec_b fuel p it b D T with
  | None => fexec_b fuel p it b (mk (D :: Ds) (T :: Ts) sc t0) = None
  | Some (o, t, D', T') => exists st',
      fexec_b fuel p it b (mk (D :: Ds) (T :: Ts) sc t0) = Some (o, st') /\
      rel o st' D' T' Ds Ts sc (t0 ++ t) /\ (o <> ORet -> st' = mk (D' :: Ds) (T' :: Ts) sc (t0 ++ t))
  end.

Definition Fl (fuel : nat) : Prop := forall n i b Xs Ys sc t0,
  match sloop fuel p n i b with
  | None => floop fuel p n i b (mk Xs Ys sc t0) = None
  | Some (o, t) => floop fuel p n i b (mk Xs Ys sc t0) = Some (o, mk Xs Ys sc (t0 ++ t))
  end.

Lemma compound_fx : forall f, Fb f -> forall it b Xs Ys sc t0,
  match scope_close (sexec_b f p it b [] []) with
  | None => compound_close_fx (fexec_b f p it b (push_destructor_scope (mk Xs Ys sc t0))) = None
  | Some (o, t) =>
      compound_close_fx (fexec_b f p it b (push_destructor_scope (mk Xs Ys sc t0))) = Some (o, mk Xs Ys sc (t0 ++ t))
  end.
Proof.
  intros f HF it b Xs Ys sc t0. unfold push_destructor_scope; simpl.
  specialize (HF it b [] [] Xs Ys sc t0).
  destruct (sexec_b f p it b [] []) as [[[[o t] D'] T']|]; simpl.
  - destruct HF as (st' & E & R & _). rewrite E; simpl. erewrite rel_close by eassumption.
    now rewrite <- app_assoc.
  - now rewrite HF.
Qed.

Lemma fix_all : forall fuel, Fs fuel /\ Fb fuel /\ Fl fuel.
Proof.
  induction fuel as [|f (IHs & IHb & IHl)].
  - repeat split; red; intros; simpl; auto.
  - split; [|split].
    + red; intros it s D T Ds Ts sc t0.
      destruct s; simpl.
      * rewrite declare_obj_fx_cc. eexists; split; [reflexivity|]. split; [left|]; auto.
      * rewrite defer_stmt_cc. eexists; split; [reflexivity|]. split; [left|]; auto.
      * eexists; split; [reflexivity|]. split; [left|]; auto.
      * pose proof (compound_fx f IHb it b (D :: Ds) (T :: Ts) sc t0) as C.
        destruct (scope_close (sexec_b f p it b [] [])) as [[o t]|]; simpl; auto.
        eexists; split; [exact C|]. split; [left|]; auto.
      * destruct (cond_true it c).
        -- pose proof (compound_fx f IHb it t (D :: Ds) (T :: Ts) sc t0) as C.
           destruct (scope_close (sexec_b f p it t [] [])) as [[o t']|]; simpl; auto.
           eexists; split; [exact C|]. split; [left|]; auto.
        -- destruct e as [|s' r'].
           ++ rewrite app_nil_r. eexists; split; [reflexivity|]. split; [left|]; auto.
           ++ pose proof (compound_fx f IHb it (BCons s' r') (D :: Ds) (T :: Ts) sc t0) as C.
              destruct (scope_close (sexec_b f p it (BCons s' r') [] [])) as [[o t']|]; simpl; auto.
              eexists; split; [exact C|]. split; [left|]; auto.
      * unfold push_defer_scope; simpl.
        pose proof (IHl n 0 b ([] :: D :: Ds) (T :: Ts) sc t0) as L.
        destruct (sloop f p n 0 b) as [[o t]|].
        -- rewrite L.
           destruct o; rewrite pop_defer_scope_cons; simpl; rewrite app_nil_r;
             (eexists; split; [reflexivity|]; split; [left|]; auto).
        -- now rewrite L.
      * unfold push_scope; simpl.
        pose proof (IHb None (body p f0) [] [] (D :: Ds) (T :: Ts) (S sc) t0) as B.
        destruct (sexec_b f p None (body p f0) [] []) as [[[[o t] D'] T']|]; simpl.
        -- destruct B as (st' & E & R & _). rewrite E.
           erewrite rel_close_scope by eassumption. simpl. rewrite guard_report_same.
           eexists; split; [reflexivity|]. rewrite <- app_assoc. split; [left|]; auto.
        -- now rewrite B.
      * rewrite pre_return_cleanup_fx_cc.
        eexists; split; [reflexivity|]. rewrite app_nil_r. split; [right; auto|]. congruence.
      * rewrite app_nil_r. eexists; split; [reflexivity|]. split; [left|]; auto.
      * rewrite app_nil_r. eexists; split; [reflexivity|]. split; [left|]; auto.
    + red; intros it b D T Ds Ts sc t0.
      destruct b as [|s r]; simpl.
      * rewrite app_nil_r. eexists; split; [reflexivity|]. split; [left|]; auto.
      * pose proof (IHs it s D T Ds Ts sc t0) as HS.
        destruct (sexec f p it s D T) as [[[[o t] D1] T1]|].
        -- destruct HS as (st1 & E & R & N). rewrite E.
           destruct o; try (eexists; split; [reflexivity|]; split; auto).
           rewrite (N ltac:(discriminate)).
           pose proof (IHb it r D1 T1 Ds Ts sc (t0 ++ t)) as HB.
           destruct (sexec_b f p it r D1 T1) as [[[[o2 t2] D2] T2]|].
           ++ destruct HB as (st2 & E2 & R2 & N2). rewrite E2, app_assoc.
              eexists; split; [reflexivity|]. auto.
           ++ exact HB.
        -- now rewrite HS.
    + red; intros n i b Xs Ys sc t0. simpl.
      destruct (n <=? i).
      * now rewrite app_nil_r.
      * pose proof (compound_fx f IHb (Some i) b Xs Ys sc t0) as C.
        destruct (scope_close (sexec_b f p (Some i) b [] [])) as [[o t]|].
        -- rewrite C. destruct o; auto.
           ++ pose proof (IHl n (S i) b Xs Ys sc (t0 ++ t)) as L.
              destruct (sloop f p n (S i) b) as [[o2 t2]|]; [now rewrite L, app_assoc|exact L].
           ++ pose proof (IHl n (S i) b Xs Ys sc (t0 ++ t)) as L.
              destruct (sloop f p n (S i) b) as [[o2 t2]|]; [now rewrite L, app_assoc|exact L].
        -- now rewrite C.
Qed.

Lemma fixed_run_ref : forall fuel,
  match srun fuel p with
  | None => frun fuel p = None
  | Some (true, t) => frun fuel p = Some (true, mk [] [[]] 1 t)
  | Some (false, t) => exists st, frun fuel p = Some (false, st) /\ tr st = t
  end.
Proof.
  intros fuel. unfold srun, frun, init_state, push_scope; simpl.
  destruct (fix_all fuel) as (_ & HF & _).
  specialize (HF None (body p 0) [] [] [] [[]] 2 []).
  destruct (sexec_b fuel p None (body p 0) [] []) as [[[[o t] D'] T']|].
  - destruct HF as (st' & E & R & N). rewrite E.
    destruct o.
    + erewrite rel_close_scope by eassumption. reflexivity.
    + erewrite rel_close_scope by eassumption. reflexivity.
    + rewrite (N ltac:(discriminate)). eexists; split; reflexivity.
    + rewrite (N ltac:(discriminate)). eexists; split; reflexivity.
  - now rewrite HF.
Qed.
End Fix.
