(* C06 - HISTORICAL: the cleanup machine of the code BEFORE the fix commits 52ea7be (#43), 605aa41 (#11)
   and c388113 (#44), kept for the record together with the witnesses that refuted the property on it.
   Nothing here describes the current code; the current Mech is Model.v (mexec/mrun).  The definitions
   differ from Model.v in exactly three places: pop_destructor_scope_pin / pop_scope_pin run the
   destructors BEFORE pop_defer_scope; pre_return_cleanup_pin POPS the innermost levels (only if
   non-empty); a ReturnException passes through a loop WITHOUT pop_defer_scope.
   `prun` is extracted only so that the harness can say "the implementation behaves like the code before
   the fixes" when a repair is reverted; `shapes` labels the program shapes the three defects needed. *)
From Coq Require Import List Arith Bool.
Import ListNotations.
From Cb Require Import C06.Model.

(* cleanup.cpp: pop_destructor_scope_pin - destructors of back() reversed FIRST, then pop_defer_scope *)
Definition pop_destructor_scope_pin (st : state) : state :=
  let st1 := match dts st with
             | [] => st
             | l :: r => run_destructors l (mk (dfs st) r (vars st) (tr st))
             end in
  pop_defer_scope st1.

(* cleanup.cpp: pop_scope_pin - same, then variable_manager_->pop_scope_pin() *)
Definition pop_scope_pin (st : state) : state :=
  let st1 := pop_destructor_scope_pin st in
  mk (dfs st1) (dts st1) (tl (vars st1)) (tr st1).

(* cleanup.cpp: execute_pre_return_cleanup - innermost defers (level popped ONLY IF non-empty),
   then innermost destructors (level popped ONLY IF non-empty, after they ran) *)
Definition pre_return_cleanup_pin (st : state) : state :=
  let st1 := match dfs st with
             | ((_ :: _) as l) :: r => emit (map EDefer (rev l)) (mk r (dts st) (vars st) (tr st))
             | _ => st
             end in
  match dts st1 with
  | ((_ :: _) as l) :: _ =>
      let st2 := run_destructors l st1 in
      mk (dfs st2) (tl (dts st2)) (vars st2) (tr st2)
  | _ => st1
  end.

(* declaration.cpp:2413 + interpreter.cpp call_constructor: register, then push_scope, constructor
   body (println("ctor", k)), pop_scope *)
Definition declare_obj_pin (x : nat) (t : ty) (id : nat) (st : state) : state :=
  pop_scope_pin (emit (map ctor_ev (obj_parts t id)) (push_scope (register_obj x t (bind_obj x t id st)))).

(* statement_list_executor.cpp: execute_compound_statement - every one of the four arms pops *)
Definition compound_close_pin (r : option (outcome * state)) : option (outcome * state) :=
  match r with
  | None => None
  | Some (o, st) => Some (o, pop_destructor_scope_pin st)
  end.

Fixpoint pexec (fuel : nat) (p : prog) (n : nat) (it : option nat) (s : stmt) (st : state)
  : option (outcome * state) :=
  match fuel with
  | O => None
  | S f =>
    match s with
    | SObj x t k => Some (ONormal, declare_obj_pin x t (oid n k) st)
    | SDefer k => Some (ONormal, defer_stmt (oid n k) st)
    | SMark k => Some (ONormal, emit [EMark k] st)
    | SBlock b => compound_close_pin (pexec_b f p n it b (push_destructor_scope st))
    | SIf c t e =>
        if cond_true n it c then compound_close_pin (pexec_b f p n it t (push_destructor_scope st))
        else match e with
             | BNil => Some (ONormal, st)
             | _ => compound_close_pin (pexec_b f p n it e (push_destructor_scope st))
             end
    | SLoop m b =>
        (* control_flow_executor.cpp: push_defer_scope; iterations; pop_defer_scope - a ReturnException
           passes through both loop executors WITHOUT the pop *)
        match ploop f p n m 0 b (push_defer_scope st) with
        | None => None
        | Some (ORet, st') => Some (ORet, st')
        | Some (_, st') => Some (ONormal, pop_defer_scope st')
        end
    | SCall g =>
        match pexec_b f p (pred n) None (body p g) (push_scope st) with
        | None => None
        | Some (o, st') => Some (call_outcome o, guard_report g st (pop_scope_pin st'))
        end
    | SRet => Some (ORet, pre_return_cleanup_pin st)
    | SBrk => Some (OBrk, st)
    | SCont => Some (OCont, st)
    end
  end
with pexec_b (fuel : nat) (p : prog) (n : nat) (it : option nat) (b : block) (st : state)
  : option (outcome * state) :=
  match fuel with
  | O => None
  | S f =>
    match b with
    | BNil => Some (ONormal, st)
    | BCons s r =>
        match pexec f p n it s st with
        | None => None
        | Some (ONormal, st') => pexec_b f p n it r st'
        | Some (o, st') => Some (o, st')
        end
    end
  end
with ploop (fuel : nat) (p : prog) (n : nat) (m i : nat) (b : block) (st : state)
  : option (outcome * state) :=
  match fuel with
  | O => None
  | S f =>
    if m <=? i then Some (ONormal, st)
    else match compound_close_pin (pexec_b f p n (Some i) b (push_destructor_scope st)) with
         | None => None
         | Some (ONormal, st') => ploop f p n m (S i) b st'
         | Some (OCont, st') => ploop f p n m (S i) b st'
         | Some (OBrk, st') => Some (ONormal, st')
         | Some (ORet, st') => Some (ORet, st')
         end
  end.

(* interpreter.cpp Interpreter::process: push_scope; body; pop_scope_pin (also in the ReturnException arm).
   A Break/Continue that escapes is not caught: the run aborts (flag false, nothing popped). *)
Definition prun (fuel : nat) (p : prog) (n0 : nat) : option (bool * state) :=
  match pexec_b fuel p n0 None (body p 0) (push_scope init_state) with
  | None => None
  | Some (ONormal, st) => Some (true, pop_scope_pin st)
  | Some (ORet, st) => Some (true, pop_scope_pin st)
  | Some (_, st) => Some (false, st)
  end.


Definition is_obj (s : stmt) : bool := match s with SObj _ _ _ => true | _ => false end.
Definition is_defer (s : stmt) : bool := match s with SDefer _ => true | _ => false end.

(* which of the three formerly defective shapes a program contains (harness: input histogram) *)
Fixpoint has_ret_in_loop_s (inl : bool) (s : stmt) : bool :=
  match s with
  | SBlock b => has_ret_in_loop_b inl b
  | SIf _ t e => has_ret_in_loop_b inl t || has_ret_in_loop_b inl e
  | SLoop _ b => has_ret_in_loop_b true b
  | SRet => inl
  | _ => false
  end
with has_ret_in_loop_b (inl : bool) (b : block) : bool :=
  match b with
  | BNil => false
  | BCons s r => has_ret_in_loop_s inl s || has_ret_in_loop_b inl r
  end.

Fixpoint has_mix_s (s : stmt) : bool :=
  match s with
  | SBlock b => has_mix_b false false b
  | SIf _ t e => has_mix_b false false t || has_mix_b false false e
  | SLoop _ b => has_mix_b false false b
  | _ => false
  end
with has_mix_b (so sd : bool) (b : block) : bool :=
  match b with
  | BNil => false
  | BCons s r =>
      (match s with SObj _ _ _ => sd | SDefer _ => so | _ => false end)
      || has_mix_s s || has_mix_b (so || is_obj s) (sd || is_defer s) r
  end.

Fixpoint has_ret_after_cleanup_s (s : stmt) : bool :=
  match s with
  | SBlock b => has_ret_after_cleanup_b false b
  | SIf _ t e => has_ret_after_cleanup_b false t || has_ret_after_cleanup_b false e
  | SLoop _ b => has_ret_after_cleanup_b false b
  | _ => false
  end
with has_ret_after_cleanup_b (seen : bool) (b : block) : bool :=
  match b with
  | BNil => false
  | BCons s r =>
      (match s with SRet => seen | _ => false end)
      || has_ret_after_cleanup_s s || has_ret_after_cleanup_b (seen || is_obj s || is_defer s) r
  end.

Definition shapes (p : prog) : bool * bool * bool :=
  (existsb (has_ret_after_cleanup_b false) p,       (* #11 *)
   existsb (has_mix_b false false) p,               (* #43 *)
   existsb (has_ret_in_loop_b false) p).            (* #44 *)

(* ---- the historical witnesses (pinned machine vs Spec) *)
Fixpoint blk (l : list stmt) : block := match l with [] => BNil | s :: r => BCons s (blk r) end.

(* #11: int f1(){ R x1(1); return 0; }  main: R x0(100)...; mark 1; f1(); mark 2   (ids at depth 0) *)
Definition w11 : prog := [blk [SObj 0 TR 90; SMark 1; SCall 1; SMark 2]; blk [SObj 1 TR 1; SRet]].
(* #43: main: { R x1(1); defer 1; defer 2; R x3(3); } *)
Definition w43 : prog := [blk [SBlock (blk [SObj 1 TR 1; SDefer 1; SDefer 2; SObj 3 TR 3])]].
(* #44: f1: for(i<3){ if (i==1) { return; } }   main: defer 1; { defer 2; f1(); mark 3 } mark 4 *)
Definition w44 : prog :=
  [blk [SDefer 1; SBlock (blk [SDefer 2; SCall 1; SMark 3]); SMark 4];
   blk [SLoop 3 (blk [SIf (CIter 1) (blk [SRet]) BNil])]].
(* #11 twice: main: R x1(1); f1(); f1(); R x2(2)  - x2 is never destroyed *)
Definition wnever : prog := [blk [SObj 1 TR 1; SCall 1; SCall 1; SObj 2 TR 2]; blk [SObj 9 TR 9; SRet]].
(* return in main after an object: transcript as demanded, destructor stack one level short *)
Definition wmain : prog := [blk [SObj 1 TR 1; SRet]].

Lemma w11_run :
  prun 20 w11 0 = Some (true, mk [] [] [[]]
     [ECtor TR 90; EMark 1; ECtor TR 1; EDtor TR 1; EDtor TR 90; EImb 1 1 1 2 1 2 2; EMark 2]) /\
  srun 20 w11 0 = Some (true, [ECtor TR 90; EMark 1; ECtor TR 1; EDtor TR 1; EMark 2; EDtor TR 90]).
Proof. split; vm_compute; reflexivity. Qed.

Lemma w43_run :
  prun 20 w43 0 = Some (true, mk [] [[]] [[]]
     [ECtor TR 1; EReg 1; EReg 2; ECtor TR 3; EDtor TR 3; EDtor TR 1; EDefer 2; EDefer 1]) /\
  srun 20 w43 0 = Some (true, [ECtor TR 1; EReg 1; EReg 2; ECtor TR 3; EDefer 2; EDefer 1; EDtor TR 3; EDtor TR 1]).
Proof. split; vm_compute; reflexivity. Qed.

Lemma w44_run :
  prun 30 w44 0 = Some (true, mk [[1]] [[]] [[]]
     [EReg 1; EReg 2; EImb 1 2 3 3 3 2 2; EMark 3; EMark 4; EDefer 2]) /\
  srun 30 w44 0 = Some (true, [EReg 1; EReg 2; EMark 3; EDefer 2; EMark 4; EDefer 1]).
Proof. split; vm_compute; reflexivity. Qed.

Lemma wnever_run :
  srun 20 wnever 0 = Some (true, [ECtor TR 1; ECtor TR 9; EDtor TR 9; ECtor TR 9; EDtor TR 9; ECtor TR 2; EDtor TR 2; EDtor TR 1]) /\
  exists st, prun 20 wnever 0 = Some (true, st) /\ dts st = [] /\
    tr st = [ECtor TR 1; ECtor TR 9; EDtor TR 9; EDtor TR 1; EImb 1 1 1 2 1 2 2; ECtor TR 9; EDtor TR 9; EImb 1 1 1 1 0 2 2; ECtor TR 2].
Proof. split; [vm_compute; reflexivity|]. eexists; split; [vm_compute; reflexivity|]. split; reflexivity. Qed.

Lemma wmain_run :
  prun 20 wmain 0 = Some (true, mk [] [] [[]] [ECtor TR 1; EDtor TR 1]) /\
  srun 20 wmain 0 = Some (true, [ECtor TR 1; EDtor TR 1]).
Proof. split; vm_compute; reflexivity. Qed.
