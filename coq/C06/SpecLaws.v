(* C06 - the structural Spec has the shape the property text demands: the transcript of a complete run
   is well bracketed for objects (ctor/dtor) and for defers (reg/defer) - every object destroyed exactly
   once, every reached defer run exactly once, both LIFO, enclosed scopes closed before enclosing ones -
   and it never contains a stack-imbalance line; by the refinement the same holds of the machine. *)
From Coq Require Import List Arith Bool Lia.
Import ListNotations.
From Cb Require Import C06.Model C06.Prims C06.Refine C06.Shape.

(* two-stack bracket checker: (pending defers, live objects (type, identity)), innermost first *)
Fixpoint chk2 (sd : list nat) (so : list (ty * nat)) (t : list event) : option (list nat * list (ty * nat)) :=
  match t with
  | [] => Some (sd, so)
  | ECtor c k :: r => chk2 sd ((c, k) :: so) r
  | EDtor c k :: r => match so with
                    | (c', k') :: so' => if ty_eqb c c' && Nat.eqb k k' then chk2 sd so' r else None
                    | [] => None
                    end
  | EReg k :: r => chk2 (k :: sd) so r
  | EDefer k :: r => match sd with
                     | k' :: sd' => if Nat.eqb k k' then chk2 sd' so r else None
                     | [] => None
                     end
  | _ :: r => chk2 sd so r
  end.

Lemma chk2_app : forall a b sd so,
  chk2 sd so (a ++ b) = match chk2 sd so a with Some (sd', so') => chk2 sd' so' b | None => None end.
Proof.
  induction a as [|e a IH]; intros; simpl; auto.
  destruct e; auto.
  - destruct so as [|[c' k'] so']; auto. destruct (ty_eqb t c' && (k =? k')); auto.
  - destruct sd as [|k' sd']; auto. destruct (k =? k'); auto.
Qed.

Lemma ty_eqb_refl : forall c, ty_eqb c c = true.
Proof. destruct c; reflexivity. Qed.

Lemma chk2_dtors : forall m sd so, chk2 sd (m ++ so) (map dtor_ev m) = Some (sd, so).
Proof. induction m as [|[c k] m IH]; intros; simpl; auto. rewrite ty_eqb_refl, Nat.eqb_refl; simpl; apply IH. Qed.

Lemma chk2_ctors : forall m sd so, chk2 sd so (map ctor_ev m) = Some (sd, rev m ++ so).
Proof.
  induction m as [|[c k] m IH]; intros; simpl; auto.
  rewrite IH. now rewrite <- app_assoc.
Qed.

Lemma chk2_defers : forall m sd so, chk2 (m ++ sd) so (map EDefer m) = Some (sd, so).
Proof. induction m; intros; simpl; auto. now rewrite Nat.eqb_refl. Qed.

Lemma chk2_close : forall ND NT sd so,
  chk2 (rev ND ++ sd) (rev NT ++ so) (map EDefer (rev ND) ++ map dtor_ev (rev NT)) = Some (sd, so).
Proof. intros. rewrite chk2_app, chk2_defers. apply chk2_dtors. Qed.

Section Spec.
Variable p : prog.

Definition Qs (fuel : nat) : Prop := forall n it s D T o t D' T',
  sexec fuel p n it s D T = Some (o, t, D', T') ->
  forall sd so, chk2 sd so t = Some (rev (regD n s) ++ sd, rev (regT n s) ++ so).

Definition Qb (fuel : nat) : Prop := forall n it b D T o t D' T',
  sexec_b fuel p n it b D T = Some (o, t, D', T') ->
  exists ND NT, D' = D ++ ND /\ T' = T ++ NT /\
                forall sd so, chk2 sd so t = Some (rev ND ++ sd, rev NT ++ so).

Definition Ql (fuel : nat) : Prop := forall n m i b o t,
  sloop fuel p n m i b = Some (o, t) -> forall sd so, chk2 sd so t = Some (sd, so).

Lemma scope_chk : forall f, Qb f -> forall n it b o t,
  scope_close (sexec_b f p n it b [] []) = Some (o, t) -> forall sd so, chk2 sd so t = Some (sd, so).
Proof.
  intros f HQ n it b o t E sd so.
  destruct (sexec_b f p n it b [] []) as [[[[o1 t1] D1] T1]|] eqn:EB; simpl in E; [|discriminate].
  inversion E; subst; clear E.
  destruct (HQ _ _ _ _ _ _ _ _ _ EB) as (ND & NT & -> & -> & H). simpl.
  rewrite chk2_app, H. apply chk2_close.
Qed.

Lemma spec_all : forall fuel, Qs fuel /\ Qb fuel /\ Ql fuel.
Proof.
  induction fuel as [|f (IHs & IHb & IHl)].
  - repeat split; red; intros; simpl in *; discriminate.
  - split; [|split].
    + red; intros n it s D T o t D' T' E sd so.
      destruct s; simpl in E |- *.
      * inversion E; subst. apply chk2_ctors.
      * inversion E; subst. reflexivity.
      * inversion E; subst. reflexivity.
      * destruct (scope_close (sexec_b f p n it b [] [])) as [[o1 t1]|] eqn:EC; simpl in E; [|discriminate].
        inversion E; subst. eapply scope_chk; eauto.
      * destruct (cond_true n it c).
        -- destruct (scope_close (sexec_b f p n it t0 [] [])) as [[o1 t1]|] eqn:EC; simpl in E; [|discriminate].
           inversion E; subst. eapply scope_chk; eauto.
        -- destruct e as [|s' r'].
           ++ inversion E; subst. reflexivity.
           ++ destruct (scope_close (sexec_b f p n it (BCons s' r') [] [])) as [[o1 t1]|] eqn:EC; simpl in E; [|discriminate].
              inversion E; subst. eapply scope_chk; eauto.
      * destruct (sloop f p n n0 0 b) as [[o1 t1]|] eqn:EL; [|discriminate].
        assert (t = t1) by (destruct o1; inversion E; reflexivity). subst.
        eapply IHl; eauto.
      * destruct (scope_close (sexec_b f p (Init.Nat.pred n) None (body p f0) [] [])) as [[o1 t1]|] eqn:EC; [|discriminate].
        inversion E; subst. eapply scope_chk; eauto.
      * inversion E; subst. reflexivity.
      * inversion E; subst. reflexivity.
      * inversion E; subst. reflexivity.
    + red; intros n it b D T o t D' T' E.
      destruct b as [|s r]; simpl in E.
      * inversion E; subst. exists [], []. rewrite !app_nil_r. auto.
      * destruct (sexec f p n it s D T) as [[[[o1 t1] D1] T1]|] eqn:ES; [|discriminate].
        pose proof (IHs _ _ _ _ _ _ _ _ _ ES) as H1.
        apply sexec_DT in ES. destruct ES as [-> ->].
        destruct o1.
        -- destruct (sexec_b f p n it r (D ++ regD n s) (T ++ regT n s)) as [[[[o2 t2] D2] T2]|] eqn:EB; [|discriminate].
           inversion E; subst; clear E.
           destruct (IHb _ _ _ _ _ _ _ _ _ EB) as (ND & NT & -> & -> & H2).
           exists (regD n s ++ ND), (regT n s ++ NT). rewrite !app_assoc. split; [reflexivity|]. split; [reflexivity|].
           intros sd so. rewrite chk2_app, H1, H2, !rev_app_distr, !app_assoc. reflexivity.
        -- inversion E; subst. exists (regD n s), (regT n s). auto.
        -- inversion E; subst. exists (regD n s), (regT n s). auto.
        -- inversion E; subst. exists (regD n s), (regT n s). auto.
    + red; intros n m i b o t E sd so. simpl in E.
      destruct (m <=? i); [inversion E; subst; reflexivity|].
      destruct (scope_close (sexec_b f p n (Some i) b [] [])) as [[o1 t1]|] eqn:EC; [|discriminate].
      pose proof (scope_chk f IHb _ _ _ _ _ EC) as H1.
      destruct o1.
      * destruct (sloop f p n m (S i) b) as [[o2 t2]|] eqn:EL; [|discriminate].
        inversion E; subst. rewrite chk2_app, H1. eapply IHl; eauto.
      * inversion E; subst. apply H1.
      * inversion E; subst. apply H1.
      * destruct (sloop f p n m (S i) b) as [[o2 t2]|] eqn:EL; [|discriminate].
        inversion E; subst. rewrite chk2_app, H1. eapply IHl; eauto.
Qed.

Lemma srun_brackets : forall fuel n0 t, srun fuel p n0 = Some (true, t) -> chk2 [] [] t = Some ([], []).
Proof.
  intros fuel n0 t E. unfold srun in E.
  destruct (sexec_b fuel p n0 None (body p 0) [] []) as [[[[o1 t1] D1] T1]|] eqn:EB; [|discriminate].
  destruct (spec_all fuel) as (_ & HQ & _).
  destruct (HQ _ _ _ _ _ _ _ _ _ EB) as (ND & NT & -> & -> & H). simpl in E.
  assert (t = t1 ++ map EDefer (rev ND) ++ map dtor_ev (rev NT)) by (destruct o1; inversion E; reflexivity).
  subst. rewrite chk2_app, H.
  apply (chk2_close ND NT [] []).
Qed.
End Spec.

Lemma scope_exit_order : forall fuel p n it b o t,
  scope_close (sexec_b fuel p n it b [] []) = Some (o, t) ->
  exists t0 D T, sexec_b fuel p n it b [] [] = Some (o, t0, D, T) /\
                 t = t0 ++ map EDefer (rev D) ++ map dtor_ev (rev T).
Proof.
  intros fuel p n it b o t E.
  destruct (sexec_b fuel p n it b [] []) as [[[[o1 t1] D1] T1]|]; simpl in E; [|discriminate].
  inversion E; subst. eauto.
Qed.

(* ---- transfer to the Mech model: every program without re-declared live names *)
Lemma mrun_complete : forall p, wf_prog p = true -> forall fuel n0 st, mrun fuel p n0 = Some (true, st) ->
  srun fuel p n0 = Some (true, tr st) /\ dfs st = [] /\ dts st = [[]] /\ vars st = [[]].
Proof.
  intros p W fuel n0 st E. pose proof (run_ref p W fuel n0) as R.
  destruct (srun fuel p n0) as [[[|] t]|].
  - rewrite R in E. inversion E; subst; simpl. auto.
  - destruct R as (st' & E' & _). rewrite E' in E. discriminate.
  - rewrite R in E. discriminate.
Qed.

Lemma mrun_brackets : forall p, wf_prog p = true -> forall fuel n0 st, mrun fuel p n0 = Some (true, st) ->
  chk2 [] [] (tr st) = Some ([], []) /\ Forall not_imb (tr st) /\ dfs st = [] /\ dts st = [[]] /\ vars st = [[]].
Proof.
  intros p W fuel n0 st E. destruct (mrun_complete p W fuel n0 st E) as (S & A & B & C).
  split; [eapply srun_brackets; eauto|]. split; [|auto].
  eapply run_balanced; eauto.
Qed.
