(* C06 - the structural Spec has the shape the property text demands: the transcript of a complete run
   is well bracketed for objects (ctor/dtor) and for defers (reg/defer) - every object destroyed exactly
   once, every reached defer run exactly once, both LIFO, enclosed scopes closed before enclosing ones -
   and it never contains a stack-imbalance line; by the refinement the same holds of the machine. *)
From Coq Require Import List Arith Bool Lia.
Import ListNotations.
From Cb Require Import C06.Model C06.Prims C06.Refine.

(* two-stack bracket checker: (pending defers, live objects), innermost first *)
Fixpoint chk2 (sd so : list nat) (t : list event) : option (list nat * list nat) :=
  match t with
  | [] => Some (sd, so)
  | ECtor k :: r => chk2 sd (k :: so) r
  | EDtor k :: r => match so with
                    | k' :: so' => if Nat.eqb k k' then chk2 sd so' r else None
                    | [] => None
                    end
  | EReg k :: r => chk2 (k :: sd) so r
  | EDefer k :: r => match sd with
                     | k' :: sd' => if Nat.eqb k k' then chk2 sd' so r else None
                     | [] => None
                     end
  | _ :: r => chk2 sd so r
  end.

Lemma chk2_app : forall a b sd so,
  chk2 sd so (a ++ b) = match chk2 sd so a with Some (sd', so') => chk2 sd' so' b | None => None end.
Proof.
  induction a as [|e a IH]; intros; simpl; auto.
  destruct e; auto.
  - destruct so as [|k' so']; auto. destruct (k =? k'); auto.
  - destruct sd as [|k' sd']; auto. destruct (k =? k'); auto.
Qed.

Lemma chk2_dtors : forall m sd so, chk2 sd (m ++ so) (map EDtor m) = Some (sd, so).
Proof. induction m; intros; simpl; auto. now rewrite Nat.eqb_refl. Qed.

Lemma chk2_defers : forall m sd so, chk2 (m ++ sd) so (map EDefer m) = Some (sd, so).
Proof. induction m; intros; simpl; auto. now rewrite Nat.eqb_refl. Qed.

Lemma chk2_close : forall ND NT sd so,
  chk2 (rev ND ++ sd) (rev NT ++ so) (map EDefer (rev ND) ++ map EDtor (rev NT)) = Some (sd, so).
Proof. intros. rewrite chk2_app, chk2_defers. apply chk2_dtors. Qed.

Section Spec.
Variable p : prog.

Definition Qs (fuel : nat) : Prop := forall it s D T o t D' T',
  sexec fuel p it s D T = Some (o, t, D', T') ->
  forall sd so, chk2 sd so t = Some (rev (regD s) ++ sd, rev (regT s) ++ so).

Definition Qb (fuel : nat) : Prop := forall it b D T o t D' T',
  sexec_b fuel p it b D T = Some (o, t, D', T') ->
  exists ND NT, D' = D ++ ND /\ T' = T ++ NT /\
                forall sd so, chk2 sd so t = Some (rev ND ++ sd, rev NT ++ so).

Definition Ql (fuel : nat) : Prop := forall n i b o t,
  sloop fuel p n i b = Some (o, t) -> forall sd so, chk2 sd so t = Some (sd, so).

Lemma scope_chk : forall f, Qb f -> forall it b o t,
  scope_close (sexec_b f p it b [] []) = Some (o, t) -> forall sd so, chk2 sd so t = Some (sd, so).
Proof.
  intros f HQ it b o t E sd so.
  destruct (sexec_b f p it b [] []) as [[[[o1 t1] D1] T1]|] eqn:EB; simpl in E; [|discriminate].
  inversion E; subst; clear E.
  destruct (HQ _ _ _ _ _ _ _ _ EB) as (ND & NT & -> & -> & H). simpl.
  rewrite chk2_app, H. apply chk2_close.
Qed.

Lemma spec_all : forall fuel, Qs fuel /\ Qb fuel /\ Ql fuel.
Proof.
  induction fuel as [|f (IHs & IHb & IHl)].
  - repeat split; red; intros; simpl in *; discriminate.
  - split; [|split].
    + red; intros it s D T o t D' T' E sd so.
      destruct s; simpl in E |- *.
      * inversion E; subst. reflexivity.
      * inversion E; subst. reflexivity.
      * inversion E; subst. reflexivity.
      * destruct (scope_close (sexec_b f p it b [] [])) as [[o1 t1]|] eqn:EC; simpl in E; [|discriminate].
        inversion E; subst. eapply scope_chk; eauto.
      * destruct (cond_true it c).
        -- destruct (scope_close (sexec_b f p it t0 [] [])) as [[o1 t1]|] eqn:EC; simpl in E; [|discriminate].
           inversion E; subst. eapply scope_chk; eauto.
        -- destruct e as [|s' r'].
           ++ inversion E; subst. reflexivity.
           ++ destruct (scope_close (sexec_b f p it (BCons s' r') [] [])) as [[o1 t1]|] eqn:EC; simpl in E; [|discriminate].
              inversion E; subst. eapply scope_chk; eauto.
      * destruct (sloop f p n 0 b) as [[o1 t1]|] eqn:EL; [|discriminate].
        assert (t = t1) by (destruct o1; inversion E; reflexivity). subst.
        eapply IHl; eauto.
      * destruct (scope_close (sexec_b f p None (body p f0) [] [])) as [[o1 t1]|] eqn:EC; [|discriminate].
        inversion E; subst. eapply scope_chk; eauto.
      * inversion E; subst. reflexivity.
      * inversion E; subst. reflexivity.
      * inversion E; subst. reflexivity.
    + red; intros it b D T o t D' T' E.
      destruct b as [|s r]; simpl in E.
      * inversion E; subst. exists [], []. rewrite !app_nil_r. auto.
      * destruct (sexec f p it s D T) as [[[[o1 t1] D1] T1]|] eqn:ES; [|discriminate].
        pose proof (IHs _ _ _ _ _ _ _ _ ES) as H1.
        apply sexec_DT in ES. destruct ES as [-> ->].
        destruct o1.
        -- destruct (sexec_b f p it r (D ++ regD s) (T ++ regT s)) as [[[[o2 t2] D2] T2]|] eqn:EB; [|discriminate].
           inversion E; subst; clear E.
           destruct (IHb _ _ _ _ _ _ _ _ EB) as (ND & NT & -> & -> & H2).
           exists (regD s ++ ND), (regT s ++ NT). rewrite !app_assoc. split; [reflexivity|]. split; [reflexivity|].
           intros sd so. rewrite chk2_app, H1, H2, !rev_app_distr, !app_assoc. reflexivity.
        -- inversion E; subst. exists (regD s), (regT s). auto.
        -- inversion E; subst. exists (regD s), (regT s). auto.
        -- inversion E; subst. exists (regD s), (regT s). auto.
    + red; intros n i b o t E sd so. simpl in E.
      destruct (n <=? i); [inversion E; subst; reflexivity|].
      destruct (scope_close (sexec_b f p (Some i) b [] [])) as [[o1 t1]|] eqn:EC; [|discriminate].
      pose proof (scope_chk f IHb _ _ _ _ EC) as H1.
      destruct o1.
      * destruct (sloop f p n (S i) b) as [[o2 t2]|] eqn:EL; [|discriminate].
        inversion E; subst. rewrite chk2_app, H1. eapply IHl; eauto.
      * inversion E; subst. apply H1.
      * inversion E; subst. apply H1.
      * destruct (sloop f p n (S i) b) as [[o2 t2]|] eqn:EL; [|discriminate].
        inversion E; subst. rewrite chk2_app, H1. eapply IHl; eauto.
Qed.

Lemma srun_brackets : forall fuel t, srun fuel p = Some (true, t) -> chk2 [] [] t = Some ([], []).
Proof.
  intros fuel t E. unfold srun in E.
  destruct (sexec_b fuel p None (body p 0) [] []) as [[[[o1 t1] D1] T1]|] eqn:EB; [|discriminate].
  destruct (spec_all fuel) as (_ & HQ & _).
  destruct (HQ _ _ _ _ _ _ _ _ EB) as (ND & NT & -> & -> & H). simpl in E.
  assert (t = t1 ++ map EDefer (rev ND) ++ map EDtor (rev NT)) by (destruct o1; inversion E; reflexivity).
  subst. rewrite chk2_app, H.
  apply (chk2_close ND NT [] []).
Qed.

(* ---- the Spec transcript never contains a hook line *)
Definition not_imb (e : event) : Prop := match e with EImb _ _ _ _ _ _ _ => False | _ => True end.

Lemma Forall_map_defer : forall l, Forall not_imb (map EDefer l).
Proof. induction l; simpl; constructor; simpl; auto. Qed.
Lemma Forall_map_dtor : forall l, Forall not_imb (map EDtor l).
Proof. induction l; simpl; constructor; simpl; auto. Qed.

Lemma scope_noimb : forall (r : option sres) o t,
  (forall o1 t1 D1 T1, r = Some (o1, t1, D1, T1) -> Forall not_imb t1) ->
  scope_close r = Some (o, t) -> Forall not_imb t.
Proof.
  intros [[[[o1 t1] D1] T1]|] o t H E; simpl in E; [|discriminate].
  inversion E; subst. repeat (apply Forall_app; split); eauto using Forall_map_defer, Forall_map_dtor.
Qed.

Lemma spec_noimb : forall fuel,
  (forall it s D T o t D' T', sexec fuel p it s D T = Some (o, t, D', T') -> Forall not_imb t) /\
  (forall it b D T o t D' T', sexec_b fuel p it b D T = Some (o, t, D', T') -> Forall not_imb t) /\
  (forall n i b o t, sloop fuel p n i b = Some (o, t) -> Forall not_imb t).
Proof.
  induction fuel as [|f (IHs & IHb & IHl)].
  - repeat split; intros; simpl in *; discriminate.
  - assert (SC : forall it b o t, scope_close (sexec_b f p it b [] []) = Some (o, t) -> Forall not_imb t).
    { intros it b o t E. eapply scope_noimb; [|exact E]. intros; eapply IHb; eauto. }
    split; [|split].
    + intros it s D T o t D' T' E. destruct s; simpl in E.
      * inversion E; subst. repeat constructor.
      * inversion E; subst. repeat constructor.
      * inversion E; subst. repeat constructor.
      * destruct (scope_close (sexec_b f p it b [] [])) as [[o1 t1]|] eqn:EC; simpl in E; [|discriminate].
        inversion E; subst. eauto.
      * destruct (cond_true it c).
        -- destruct (scope_close (sexec_b f p it t0 [] [])) as [[o1 t1]|] eqn:EC; simpl in E; [|discriminate].
           inversion E; subst. eauto.
        -- destruct e as [|s' r'].
           ++ inversion E; subst. constructor.
           ++ destruct (scope_close (sexec_b f p it (BCons s' r') [] [])) as [[o1 t1]|] eqn:EC; simpl in E; [|discriminate].
              inversion E; subst. eauto.
      * destruct (sloop f p n 0 b) as [[o1 t1]|] eqn:EL; [|discriminate].
        assert (t = t1) by (destruct o1; inversion E; reflexivity). subst. eauto.
      * destruct (scope_close (sexec_b f p None (body p f0) [] [])) as [[o1 t1]|] eqn:EC; [|discriminate].
        inversion E; subst. eauto.
      * inversion E; subst. constructor.
      * inversion E; subst. constructor.
      * inversion E; subst. constructor.
    + intros it b D T o t D' T' E. destruct b as [|s r]; simpl in E.
      * inversion E; subst. constructor.
      * destruct (sexec f p it s D T) as [[[[o1 t1] D1] T1]|] eqn:ES; [|discriminate].
        pose proof (IHs _ _ _ _ _ _ _ _ ES) as H1.
        destruct o1; try (inversion E; subst; assumption).
        destruct (sexec_b f p it r D1 T1) as [[[[o2 t2] D2] T2]|] eqn:EB; [|discriminate].
        inversion E; subst. apply Forall_app; split; eauto.
    + intros n i b o t E. simpl in E.
      destruct (n <=? i); [inversion E; subst; constructor|].
      destruct (scope_close (sexec_b f p (Some i) b [] [])) as [[o1 t1]|] eqn:EC; [|discriminate].
      pose proof (SC _ _ _ _ EC) as H1.
      destruct o1; try (inversion E; subst; assumption).
      * destruct (sloop f p n (S i) b) as [[o2 t2]|] eqn:EL; [|discriminate].
        inversion E; subst. apply Forall_app; split; eauto.
      * destruct (sloop f p n (S i) b) as [[o2 t2]|] eqn:EL; [|discriminate].
        inversion E; subst. apply Forall_app; split; eauto.
Qed.

Lemma srun_noimb : forall fuel ok t, srun fuel p = Some (ok, t) -> Forall not_imb t.
Proof.
  intros fuel ok t E. unfold srun in E.
  destruct (sexec_b fuel p None (body p 0) [] []) as [[[[o1 t1] D1] T1]|] eqn:EB; [|discriminate].
  destruct (spec_noimb fuel) as (_ & HB & _). pose proof (HB _ _ _ _ _ _ _ _ EB) as H1.
  destruct o1; inversion E; subst; auto;
    repeat (apply Forall_app; split); auto using Forall_map_defer, Forall_map_dtor.
Qed.
End Spec.

Lemma scope_exit_order : forall fuel p it b o t,
  scope_close (sexec_b fuel p it b [] []) = Some (o, t) ->
  exists t0 D T, sexec_b fuel p it b [] [] = Some (o, t0, D, T) /\
                 t = t0 ++ map EDefer (rev D) ++ map EDtor (rev T).
Proof.
  intros fuel p it b o t E.
  destruct (sexec_b fuel p it b [] []) as [[[[o1 t1] D1] T1]|]; simpl in E; [|discriminate].
  inversion E; subst. eauto.
Qed.

(* ---- transfer to the Mech model: every program *)
Lemma mrun_complete : forall p fuel st, mrun fuel p = Some (true, st) ->
  srun fuel p = Some (true, tr st) /\ dfs st = [] /\ dts st = [[]] /\ scd st = 1.
Proof.
  intros p fuel st E. pose proof (run_ref p fuel) as R.
  destruct (srun fuel p) as [[[|] t]|].
  - rewrite R in E. inversion E; subst; simpl. auto.
  - destruct R as (st' & E' & _). rewrite E' in E. discriminate.
  - rewrite R in E. discriminate.
Qed.

Lemma mrun_brackets : forall p fuel st, mrun fuel p = Some (true, st) ->
  chk2 [] [] (tr st) = Some ([], []) /\ Forall not_imb (tr st) /\ dfs st = [] /\ dts st = [[]] /\ scd st = 1.
Proof.
  intros p fuel st E. destruct (mrun_complete p fuel st E) as (S & A & B & C).
  split; [eapply srun_brackets; eauto|]. split; [eapply srun_noimb; eauto|]. auto.
Qed.
