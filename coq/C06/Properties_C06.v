(* C06 - property theorems only. Statements are about the Mech model of the interpreter's two cleanup
   stacks AND its name-keyed destructor bookkeeping (Model.v: mexec/mrun, transcribed from cleanup.cpp,
   statement_list_executor.cpp, control_flow_executor.cpp, return.cpp, call_impl.cpp, interpreter.cpp
   [call_destructor, register_destructor_call], variables/manager.cpp [find_variable],
   variables/declaration.cpp as of the fix commits 52ea7be, 605aa41, c388113) and the structural Spec on
   object identities (Model.v: sexec/srun). Proofs: Refine.v, Shape.v, Once.v, SpecLaws.v.
   Programs: functions with a depth parameter (recursion, any call graph), objects of three struct types
   (R, Q, W = struct with an R member) whose VARIABLE NAMES come from an arbitrary pool, defers, blocks,
   if/else, loops, break/continue/return.  `fuel` only bounds the recursion depth of the evaluators:
   every terminating run.
   Theorems without a hypothesis on the program hold for ALL programs, name collisions of every kind
   included; the `_partial` ones need wf_prog (no function body re-declares a name that an earlier
   declaration of the same or an enclosing block of that body uses; W objects are inside the class since
   the repair of finding C06-redeclared-member-flag-stale: a registration resets destructor_called) -
   outside of it the current code loses objects (`_refuted`, finding C06-shadowed-object-never-destroyed).
   The machine of the code before the three fixes and its witnesses are kept in Pinned.v (historical). *)
From Coq Require Import List Arith Bool.
Import ListNotations.
From Cb Require Import C06.Model C06.Prims C06.Refine C06.Shape C06.Once C06.SpecLaws C06.Pinned C06.Witness.

(* the machine's transcript IS the structural cleanup order of the property, and both stacks and the
   scope stack end at their initial depth (defer 0, destructor 1 = the global level, scopes 1) - although
   cleanup is keyed by variable name and the same names are live in caller and callee, in every level
   of a recursion, in sibling blocks and in successive loop iterations.  An escaping break/continue
   (run-time error, flag false) aborts both without cleanup. *)
Theorem cleanup_mech_refines_spec_partial : forall p, wf_prog p = true -> forall fuel n0,
  match srun fuel p n0 with
  | None => mrun fuel p n0 = None
  | Some (true, t) => mrun fuel p n0 = Some (true, mk [] [[]] [[]] t)
  | Some (false, t) => exists st, mrun fuel p n0 = Some (false, st) /\ tr st = t
  end.
Proof. exact run_ref. Qed.
Print Assumptions cleanup_mech_refines_spec_partial.

(* ALL programs: a statement started with the two stacks at (D :: Ds, Tm :: Ts) in the variable scope
   F :: Fs (every pending entry of its level naming a variable of F) ends - by whatever outcome - with
   everything below its own level and every variable scope but its own activation's untouched, all three
   depths restored *)
Theorem stacks_balanced : forall p fuel n it s D Tm Ds Ts F Fs t0 o st', dom_ok F Tm ->
  mexec fuel p n it s (mk (D :: Ds) (Tm :: Ts) (F :: Fs) t0) = Some (o, st') ->
  tl (dfs st') = Ds /\ tl (dts st') = Ts /\ tl (vars st') = Fs /\
  length (dfs st') = S (length Ds) /\ length (dts st') = S (length Ts) /\ length (vars st') = S (length Fs).
Proof. exact stmt_balanced. Qed.
Print Assumptions stacks_balanced.

(* ALL programs: leaving a callee never runs cleanup that belongs to its caller and never touches the
   caller's variables - after a call (of any function, recursion included, whatever names the callee
   declares) both stacks and all variable scopes, destructor_called flags included, are exactly what
   they were; the call only appends to the transcript and prints no imbalance line *)
Theorem callee_leaves_caller_alone : forall p fuel n it g D Tm Ds Ts F Fs t0 o st',
  mexec fuel p n it (SCall g) (mk (D :: Ds) (Tm :: Ts) (F :: Fs) t0) = Some (o, st') ->
  exists t, st' = mk (D :: Ds) (Tm :: Ts) (F :: Fs) (t0 ++ t) /\ Forall not_imb t.
Proof. exact call_isolated. Qed.
Print Assumptions callee_leaves_caller_alone.

(* ... and what the call prints is the callee's body closed as a Spec scope: a function of the callee
   and its depth argument alone *)
Theorem callee_cleanup_is_its_own_partial : forall p, wf_prog p = true -> forall fuel n it g D Tm Ds Ts F Fs t0 o st',
  mexec (S fuel) p n it (SCall g) (mk (D :: Ds) (Tm :: Ts) (F :: Fs) t0) = Some (o, st') ->
  exists o1 t, scope_close (sexec_b fuel p (pred n) None (body p g) [] []) = Some (o1, t) /\
               o = call_outcome o1 /\ st' = mk (D :: Ds) (Tm :: Ts) (F :: Fs) (t0 ++ t).
Proof. exact call_transcript. Qed.
Print Assumptions callee_cleanup_is_its_own_partial.

(* ALL programs: a complete run ends with both stacks and the scope stack at their initial depth and
   no call-imbalance line *)
Theorem run_ends_balanced : forall p fuel n0 st, mrun fuel p n0 = Some (true, st) ->
  dfs st = [] /\ dts st = [[]] /\ vars st = [[]] /\ Forall not_imb (tr st).
Proof. exact run_balanced. Qed.
Print Assumptions run_ends_balanced.

(* complete run: ctor/dtor (with their struct type) and reg/defer events are well bracketed (each object
   destroyed exactly once by the destructor of its own type, each reached defer run exactly once, LIFO,
   enclosed scopes before enclosing ones) *)
Theorem each_object_once_partial : forall p, wf_prog p = true -> forall fuel n0 st, mrun fuel p n0 = Some (true, st) ->
  chk2 [] [] (tr st) = Some ([], []) /\ Forall not_imb (tr st) /\ dfs st = [] /\ dts st = [[]] /\ vars st = [[]].
Proof. exact mrun_brackets. Qed.
Print Assumptions each_object_once_partial.

(* leaving a block by ANY outcome appends, after what the block itself printed, the block's reached
   defers in reverse registration order and THEN its objects' destructors in reverse construction order;
   the variables of the enclosing blocks (names N0) keep their slots *)
Theorem defer_before_dtor_partial : forall p, wf_prog p = true -> forall fuel n it b N0 Xs Ys F Fs t0 o st',
  wf_b [] N0 b = true ->
  mexec (S fuel) p n it (SBlock b) (mk Xs Ys (F :: Fs) t0) = Some (o, st') ->
  exists t D' T' F', sexec_b fuel p n it b [] [] = Some (o, t, D', T') /\
                     st' = mk Xs Ys (F' :: Fs) (t0 ++ t ++ map EDefer (rev D') ++ map dtor_ev (rev T')) /\
                     agree N0 F F'.
Proof. exact block_exit_order. Qed.
Print Assumptions defer_before_dtor_partial.

(* ALL programs, every prefix of the machine's transcript, also of aborted runs (independent of the
   Spec): no object identity is destroyed more often than constructed - under shadowing and
   re-declaration this is exactly what the destructor_called guard achieves - and no defer runs more
   often than it was registered *)
Theorem each_object_at_most_once : forall fuel p n0 ok st, mrun fuel p n0 = Some (ok, st) ->
  forall t1 t2 k, tr st = t1 ++ t2 -> count (ev_dtor k) t1 <= count (ev_ctor k) t1.
Proof. exact object_at_most_once. Qed.
Print Assumptions each_object_at_most_once.

Theorem each_defer_at_most_once : forall fuel p n0 ok st, mrun fuel p n0 = Some (ok, st) ->
  forall t1 t2 k, tr st = t1 ++ t2 -> count (ev_defer k) t1 <= count (ev_reg k) t1.
Proof. exact defer_at_most_once. Qed.
Print Assumptions each_defer_at_most_once.

(* ---- the Spec says what the property text says: *)
Theorem spec_cleanup_lifo_exactly_once : forall p fuel n0 t, srun fuel p n0 = Some (true, t) ->
  chk2 [] [] t = Some ([], []).
Proof. exact srun_brackets. Qed.
Print Assumptions spec_cleanup_lifo_exactly_once.

Theorem spec_defers_before_dtors : forall fuel p n it b o t,
  scope_close (sexec_b fuel p n it b [] []) = Some (o, t) ->
  exists t0 D T, sexec_b fuel p n it b [] [] = Some (o, t0, D, T) /\
                 t = t0 ++ map EDefer (rev D) ++ map dtor_ev (rev T).
Proof. exact scope_exit_order. Qed.
Print Assumptions spec_defers_before_dtors.

(* ---- outside wf_prog the CURRENT code violates the property (faithful model, confirmed on the binary):
   an object whose variable name is re-declared in an inner block of the same function while it is live
   is never destroyed ... *)
Theorem shadowed_object_never_destroyed_refuted :
  exists p st t, mrun 20 p 0 = Some (true, st) /\ srun 20 p 0 = Some (true, t) /\
                 count (ev_ctor 1) (tr st) = 1 /\ count (ev_dtor 1) (tr st) = 0 /\ count (ev_dtor 1) t = 1.
Proof.
  exists wshadow. destruct wshadow_run as [A B]. do 2 eexists. split; [exact A|]. split; [exact B|].
  repeat split; reflexivity.
Qed.
Print Assumptions shadowed_object_never_destroyed_refuted.

(* repaired (was redeclared_member_never_destroyed_refuted, finding C06-redeclared-member-flag-stale): a W
   object declared again under the same name in the same activation - next loop iteration, sibling block -
   is an ordinary member of the proved class: both programs are in wf_prog, the machine's transcript is
   the Spec's, the R member of EVERY W object is destroyed (right after its parent) *)
Theorem redeclared_member_destroyed :
  wf_prog wmember = true /\ wf_prog wmember_sib = true /\
  (exists st, mrun 20 wmember 0 = Some (true, st) /\ srun 20 wmember 0 = Some (true, tr st) /\
              count (ev_ctor 51) (tr st) = 2 /\ count (ev_dtor 51) (tr st) = 2) /\
  (exists st, mrun 20 wmember_sib 0 = Some (true, st) /\ srun 20 wmember_sib 0 = Some (true, tr st) /\
              count (ev_dtor 51) (tr st) = 1 /\ count (ev_dtor 52) (tr st) = 1).
Proof.
  destruct wmember_wf as (W1 & W2 & _). destruct wmember_run as [A B].
  destruct wmember_sib_run as (st & C & D & E).
  split; [exact W1|]. split; [exact W2|]. split.
  - eexists. split; [exact A|]. split; [exact B|]. split; reflexivity.
  - exists st. split; [exact C|]. split; [exact D|]. rewrite E. split; reflexivity.
Qed.
Print Assumptions redeclared_member_destroyed.

(* non-vacuity: a program with every construct and all three formerly defective shapes (a scope with
   objects and defers, return after an object, return from inside a loop) is wf and runs to completion *)
Example all_constructs_example : wf_prog wall = true /\ exists st, mrun 40 wall 0 = Some (true, st) /\
  tr st = [ECtor TR 1; EReg 2;
           EReg 3; ECtor TQ 4; EMark 5; ECtor TR 7; EReg 8; ECtor TR 9; EDefer 8; EDtor TR 9; EDtor TR 7; EDefer 3; EDtor TQ 4;
           EReg 3; ECtor TQ 4; EDefer 3; EDtor TQ 4;
           EReg 11; ECtor TR 12; EReg 13; EDefer 13; EDtor TR 12; EDefer 11;
           EMark 6; EDefer 2; EDtor TR 1].
Proof. split; [exact wall_wf|]. eexists; split; [exact wall_run|reflexivity]. Qed.

(* non-vacuity of wf_prog for the name collisions the theorems are about: ONE name live at once in main,
   its callee and every level of the callee's recursion (same type), in a function called from inside the
   recursion (other type), in sibling blocks and successive loop iterations *)
Example one_name_everywhere_example : wf_prog wnames = true /\
  exists st, mrun 60 wnames 2 = Some (true, st) /\ srun 60 wnames 2 = Some (true, tr st).
Proof.
  split; [exact wnames_wf|]. eexists; split; [exact wnames_run|]. vm_compute; reflexivity.
Qed.

(* the former witnesses of findings #11, #43, #44 now give the demanded transcripts *)
Example former_witnesses_conform :
  (exists st, mrun 20 w11 0 = Some (true, st) /\ srun 20 w11 0 = Some (true, tr st)) /\
  (exists st, mrun 20 w43 0 = Some (true, st) /\ srun 20 w43 0 = Some (true, tr st)) /\
  (exists st, mrun 30 w44 0 = Some (true, st) /\ srun 30 w44 0 = Some (true, tr st)) /\
  (exists st, mrun 20 wnever 0 = Some (true, st) /\ srun 20 wnever 0 = Some (true, tr st)).
Proof.
  repeat split; eexists; (split; [first [exact w11_now|exact w43_now|exact w44_now|exact wnever_now]|]);
    vm_compute; reflexivity.
Qed.
