(* C06 - property theorems only. Statements are about the Mech model of the interpreter's two cleanup
   stacks (Model.v: mexec/mrun, transcribed from cleanup.cpp, statement_list_executor.cpp,
   control_flow_executor.cpp, return.cpp, call_impl.cpp, interpreter.cpp as of the fix commits 52ea7be,
   605aa41, c388113) and the structural Spec (Model.v: sexec/srun). Proofs: Refine.v, Once.v, SpecLaws.v.
   Every theorem holds for ALL programs of the skeleton language, all states of the stated shape and
   every `fuel` (fuel only bounds the recursion depth of the evaluators: every terminating run).
   The machine of the code before the fixes and the witnesses that refuted these laws on it are kept in
   Pinned.v (historical, not part of the obligations). *)
From Coq Require Import List Arith Bool.
Import ListNotations.
From Cb Require Import C06.Model C06.Prims C06.Refine C06.Once C06.SpecLaws C06.Pinned C06.Witness.

(* the machine's transcript IS the structural cleanup order of the property, and both stacks end at
   their initial depth (defer 0, destructor 1 = the global level, scopes 1).  An escaping break/continue
   (run-time error, flag false) aborts both without cleanup. *)
Theorem cleanup_mech_refines_spec : forall p fuel,
  match srun fuel p with
  | None => mrun fuel p = None
  | Some (true, t) => mrun fuel p = Some (true, mk [] [[]] 1 t)
  | Some (false, t) => exists st, mrun fuel p = Some (false, st) /\ tr st = t
  end.
Proof. exact run_ref. Qed.
Print Assumptions cleanup_mech_refines_spec.

(* the invariant that carries the induction: a statement started with the two stacks at
   (D :: Ds, T :: Ts) ends - by whatever outcome (normal, return, break, continue) - with everything
   below its own level untouched, both depths and the variable-scope depth restored *)
Theorem stacks_balanced : forall p fuel it s D T Ds Ts sc t0 o st',
  mexec fuel p it s (mk (D :: Ds) (T :: Ts) sc t0) = Some (o, st') ->
  tl (dfs st') = Ds /\ tl (dts st') = Ts /\ scd st' = sc /\
  length (dfs st') = S (length Ds) /\ length (dts st') = S (length Ts).
Proof. exact stmt_balanced. Qed.
Print Assumptions stacks_balanced.

(* leaving a callee never runs cleanup that belongs to its caller: after a call both stacks are exactly
   what they were - the caller's own pending defers D and objects T included - and what the call printed
   is the callee's body closed as a scope, a function of the callee alone *)
Theorem callee_leaves_caller_alone : forall p fuel it g D T Ds Ts sc t0 o st',
  mexec (S fuel) p it (SCall g) (mk (D :: Ds) (T :: Ts) sc t0) = Some (o, st') ->
  exists o1 t, scope_close (sexec_b fuel p None (body p g) [] []) = Some (o1, t) /\
               o = call_outcome o1 /\ st' = mk (D :: Ds) (T :: Ts) sc (t0 ++ t).
Proof. exact call_balanced. Qed.
Print Assumptions callee_leaves_caller_alone.

(* complete run: ctor/dtor and reg/defer events are well bracketed (each object destroyed exactly once,
   each reached defer run exactly once, LIFO, enclosed scopes before enclosing ones), no call-imbalance
   line, final depths 0/1/1 *)
Theorem each_object_once : forall p fuel st, mrun fuel p = Some (true, st) ->
  chk2 [] [] (tr st) = Some ([], []) /\ Forall not_imb (tr st) /\ dfs st = [] /\ dts st = [[]] /\ scd st = 1.
Proof. exact mrun_brackets. Qed.
Print Assumptions each_object_once.

(* leaving a block by ANY outcome appends, after what the block itself printed, the block's reached
   defers in reverse registration order and THEN its objects' destructors in reverse construction order *)
Theorem defer_before_dtor : forall p fuel it b Xs Ys sc t0 o st',
  mexec (S fuel) p it (SBlock b) (mk Xs Ys sc t0) = Some (o, st') ->
  exists t D' T', sexec_b fuel p it b [] [] = Some (o, t, D', T') /\
                  st' = mk Xs Ys sc (t0 ++ t ++ map EDefer (rev D') ++ map EDtor (rev T')).
Proof. exact block_exit_order. Qed.
Print Assumptions defer_before_dtor.

(* every prefix of the machine's transcript, also of aborted runs (independent of the Spec): *)
Theorem each_object_at_most_once : forall fuel p ok st, mrun fuel p = Some (ok, st) ->
  forall t1 t2 k, tr st = t1 ++ t2 -> count (EDtor k) t1 <= count (ECtor k) t1.
Proof. exact object_at_most_once. Qed.
Print Assumptions each_object_at_most_once.

Theorem each_defer_at_most_once : forall fuel p ok st, mrun fuel p = Some (ok, st) ->
  forall t1 t2 k, tr st = t1 ++ t2 -> count (EDefer k) t1 <= count (EReg k) t1.
Proof. exact defer_at_most_once. Qed.
Print Assumptions each_defer_at_most_once.

(* ---- the Spec says what the property text says: *)
Theorem spec_cleanup_lifo_exactly_once : forall p fuel t, srun fuel p = Some (true, t) ->
  chk2 [] [] t = Some ([], []).
Proof. exact srun_brackets. Qed.
Print Assumptions spec_cleanup_lifo_exactly_once.

Theorem spec_defers_before_dtors : forall fuel p it b o t,
  scope_close (sexec_b fuel p it b [] []) = Some (o, t) ->
  exists t0 D T, sexec_b fuel p it b [] [] = Some (o, t0, D, T) /\
                 t = t0 ++ map EDefer (rev D) ++ map EDtor (rev T).
Proof. exact scope_exit_order. Qed.
Print Assumptions spec_defers_before_dtors.

(* non-vacuity: a program with every construct and all three formerly defective shapes (a scope with
   objects and defers, return after an object, return from inside a loop) runs to completion *)
Example all_constructs_example : exists st, mrun 40 wall = Some (true, st) /\
  tr st = [ECtor 1; EReg 2;
           EReg 3; ECtor 4; EMark 5; ECtor 7; EReg 8; ECtor 9; EDefer 8; EDtor 9; EDtor 7; EDefer 3; EDtor 4;
           EReg 3; ECtor 4; EDefer 3; EDtor 4;
           EReg 11; ECtor 12; EReg 13; EDefer 13; EDtor 12; EDefer 11;
           EMark 6; EDefer 2; EDtor 1].
Proof. eexists; split; [exact wall_run|reflexivity]. Qed.

(* the former witnesses of findings #11, #43, #44 now give the demanded transcripts *)
Example former_witnesses_conform :
  (exists st, mrun 20 w11 = Some (true, st) /\ srun 20 w11 = Some (true, tr st)) /\
  (exists st, mrun 20 w43 = Some (true, st) /\ srun 20 w43 = Some (true, tr st)) /\
  (exists st, mrun 30 w44 = Some (true, st) /\ srun 30 w44 = Some (true, tr st)) /\
  (exists st, mrun 20 wnever = Some (true, st) /\ srun 20 wnever = Some (true, tr st)).
Proof.
  repeat split; eexists; (split; [first [exact w11_now|exact w43_now|exact w44_now|exact wnever_now]|]);
    simpl; first [exact (proj2 w11_run)|exact (proj2 w43_run)|exact (proj2 w44_run)|exact (proj2 wnever_run)].
Qed.
