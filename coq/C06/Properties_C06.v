(* C06 - property theorems only. Statements are about the Mech model of the interpreter's two cleanup
   stacks (Model.v: mexec/mrun, transcribed from cleanup.cpp, statement_list_executor.cpp,
   control_flow_executor.cpp, return.cpp, call_impl.cpp, interpreter.cpp) and the structural Spec
   (Model.v: sexec/srun). Proofs: Refine.v, Once.v, SpecLaws.v, Witness.v.
   `fuel` only bounds the recursion depth of the evaluators: every theorem holds for every fuel, i.e. for
   every terminating run. *)
From Coq Require Import List Arith Bool.
Import ListNotations.
From Cb Require Import C06.Model C06.Prims C06.Refine C06.Once C06.SpecLaws C06.Witness C06.Fixed.

(* ---- refinement, for the fragment on which it holds (safe_prog = the avoidance predicate of the three
   known findings). Missing for the full statement: programs with a scope that registers both objects
   and defers (#43), a `return` after an object/defer of its own statement list (#11), a `return`
   inside a loop (#44) - see the _refuted theorems below.
   For every safe program and every fuel: the machine's transcript IS the structural cleanup order and
   both stacks end at their initial depth (defer 0, destructor 1 = the global level, scopes 1). *)
Theorem cleanup_mech_refines_spec_partial : forall p, safe_prog p = true -> forall fuel,
  match srun fuel p with
  | None => mrun fuel p = None
  | Some (true, t) => mrun fuel p = Some (true, mk [] [[]] 1 t)
  | Some (false, t) => exists st, mrun fuel p = Some (false, st) /\ tr st = t
  end.
Proof. exact run_ref. Qed.
Print Assumptions cleanup_mech_refines_spec_partial.

(* the invariant that carries the induction: a statement of a safe program, started with the two stacks
   at (D :: Ds, T :: Ts), ends - by whatever outcome (normal, return, break, continue) - with everything
   below its own level untouched and the variable-scope depth restored *)
Theorem stacks_balanced_partial : forall p, safe_prog p = true ->
  forall fuel it s inl D T Ds Ts sc t0 o st',
  safe_s inl s = true -> pre_s s D T ->
  mexec fuel p it s (mk (D :: Ds) (T :: Ts) sc t0) = Some (o, st') ->
  tl (dfs st') = Ds /\ tl (dts st') = Ts /\ scd st' = sc /\
  length (dfs st') = S (length Ds) /\ length (dts st') = S (length Ts).
Proof. exact stmt_balanced. Qed.
Print Assumptions stacks_balanced_partial.

(* leaving a callee never touches the caller's lists (safe programs): after a call both stacks are
   exactly what they were, including the caller's own pending defers D and objects T *)
Theorem callee_leaves_caller_alone_partial : forall p, safe_prog p = true ->
  forall fuel it g D T Ds Ts sc t0 o st',
  mexec fuel p it (SCall g) (mk (D :: Ds) (T :: Ts) sc t0) = Some (o, st') ->
  dfs st' = D :: Ds /\ dts st' = T :: Ts /\ scd st' = sc.
Proof. exact call_balanced. Qed.
Print Assumptions callee_leaves_caller_alone_partial.

(* complete run of a safe program on the machine: ctor/dtor and reg/defer events are well bracketed
   (each object destroyed exactly once, each reached defer run exactly once, LIFO, inner scopes first),
   no call-imbalance line, final depths 0/1/1 *)
Theorem each_object_once_partial : forall p fuel st, safe_prog p = true -> mrun fuel p = Some (true, st) ->
  chk2 [] [] (tr st) = Some ([], []) /\ Forall not_imb (tr st) /\ dfs st = [] /\ dts st = [[]] /\ scd st = 1.
Proof. exact mrun_safe_brackets. Qed.
Print Assumptions each_object_once_partial.

(* ---- for EVERY program, safe or not, every fuel, every prefix of the machine's transcript: *)
Theorem each_object_at_most_once : forall fuel p ok st, mrun fuel p = Some (ok, st) ->
  forall t1 t2 k, tr st = t1 ++ t2 -> count (EDtor k) t1 <= count (ECtor k) t1.
Proof. exact object_at_most_once. Qed.
Print Assumptions each_object_at_most_once.

Theorem each_defer_at_most_once : forall fuel p ok st, mrun fuel p = Some (ok, st) ->
  forall t1 t2 k, tr st = t1 ++ t2 -> count (EDefer k) t1 <= count (EReg k) t1.
Proof. exact defer_at_most_once. Qed.
Print Assumptions each_defer_at_most_once.

(* ---- the Spec says what the property text says, for every program: *)
Theorem spec_cleanup_lifo_exactly_once : forall p fuel t, srun fuel p = Some (true, t) ->
  chk2 [] [] t = Some ([], []).
Proof. exact srun_brackets. Qed.
Print Assumptions spec_cleanup_lifo_exactly_once.

(* a scope's exit (any outcome) appends its reached defers LIFO, then its objects' destructors LIFO *)
Theorem spec_defers_before_dtors : forall fuel p it b o t,
  scope_close (sexec_b fuel p it b [] []) = Some (o, t) ->
  exists t0 D T, sexec_b fuel p it b [] [] = Some (o, t0, D, T) /\
                 t = t0 ++ map EDefer (rev D) ++ map EDtor (rev T).
Proof. exact scope_exit_order. Qed.
Print Assumptions spec_defers_before_dtors.

(* ---- the pinned code does NOT satisfy the property: faithful-model witnesses (known findings) *)

(* #11 a callee that returns from a scope owning an object pops the CALLER's destructor level:
   the caller's object 100 is destroyed right after the call, before mark 2 *)
Theorem callee_leaves_caller_alone_refuted : exists p fuel st t,
  mrun fuel p = Some (true, st) /\ srun fuel p = Some (true, t) /\
  tr st = [ECtor 100; EMark 1; ECtor 1; EDtor 1; EDtor 100; EImb 1 1 1 2 1 2 2; EMark 2] /\
  t = [ECtor 100; EMark 1; ECtor 1; EDtor 1; EMark 2; EDtor 100].
Proof. exists w11, 20. destruct w11_run as [A B]. do 2 eexists. repeat split; eauto. Qed.
Print Assumptions callee_leaves_caller_alone_refuted.

(* #43 on fall-through the scope's destructors run BEFORE its defers *)
Theorem defer_before_dtor_refuted : exists p fuel st t,
  mrun fuel p = Some (true, st) /\ srun fuel p = Some (true, t) /\
  tr st = [ECtor 1; EReg 1; EReg 2; ECtor 3; EDtor 3; EDtor 1; EDefer 2; EDefer 1] /\
  t = [ECtor 1; EReg 1; EReg 2; ECtor 3; EDefer 2; EDefer 1; EDtor 3; EDtor 1].
Proof. exists w43, 20. destruct w43_run as [A B]. do 2 eexists. repeat split; eauto. Qed.
Print Assumptions defer_before_dtor_refuted.

(* #44 a return through a loop leaves a stale defer level: the caller's block defer 2 runs after mark 4
   (late) and main's defer 1 never runs - it is still on the stack at the end *)
Theorem return_through_loop_refuted : exists p fuel st t,
  mrun fuel p = Some (true, st) /\ srun fuel p = Some (true, t) /\
  tr st = [EReg 1; EReg 2; EImb 1 2 3 3 3 2 2; EMark 3; EMark 4; EDefer 2] /\ dfs st = [[1]] /\
  t = [EReg 1; EReg 2; EMark 3; EDefer 2; EMark 4; EDefer 1].
Proof. exists w44, 30. destruct w44_run as [A B]. do 2 eexists. repeat split; eauto. Qed.
Print Assumptions return_through_loop_refuted.

(* #11 twice empties the destructor stack: object 2 is constructed and never destroyed *)
Theorem each_object_once_refuted : exists p fuel st,
  mrun fuel p = Some (true, st) /\ count (ECtor 2) (tr st) = 1 /\ count (EDtor 2) (tr st) = 0.
Proof. exists wnever, 20. destruct wnever_run as [A B]. eexists. split; [exact A|]. split; vm_compute; reflexivity. Qed.
Print Assumptions each_object_once_refuted.

(* `return` in main after an object: transcript as demanded, but the destructor stack ends one level
   short (the global level was popped) *)
Theorem stacks_balanced_refuted : exists p fuel st t,
  mrun fuel p = Some (true, st) /\ srun fuel p = Some (true, t) /\ tr st = t /\ dts st = [].
Proof. exists wmain, 20. destruct wmain_run as [A B]. do 2 eexists. repeat split; eauto. Qed.
Print Assumptions stacks_balanced_refuted.

(* ---- the three repairs proposed in notes/C06.md are sufficient: the machine with (#43) defers popped
   before destructors in pop_scope/pop_destructor_scope, (#11) execute_pre_return_cleanup clearing the
   innermost lists instead of popping the levels, (#44) loops closing their defer level on a return -
   Fixed.v: fexec/frun - refines the Spec for ALL programs and every fuel.  (frun is a model of the
   REPAIRED code, not of the pinned code; the repaired C++ was compared with it in a scratch build.) *)
Theorem repaired_machine_refines_spec : forall p fuel,
  match srun fuel p with
  | None => frun fuel p = None
  | Some (true, t) => frun fuel p = Some (true, mk [] [[]] 1 t)
  | Some (false, t) => exists st, frun fuel p = Some (false, st) /\ tr st = t
  end.
Proof. exact fixed_run_ref. Qed.
Print Assumptions repaired_machine_refines_spec.

(* non-vacuity: a safe program using every construct runs to completion on the machine *)
Example safe_example : safe_prog wsafe = true /\ exists st, mrun 40 wsafe = Some (true, st) /\
  tr st = [ECtor 1; EReg 2; EMark 3; ECtor 5; EReg 6; EMark 7; EDefer 6; EDtor 5; EDefer 2;
           EReg 2; EDefer 2; EReg 8; EDefer 8; EMark 4; EDtor 1].
Proof. destruct wsafe_run as [A B]. split; [exact A|]. eexists; split; [exact B|reflexivity]. Qed.
