(* C06 - Mech refines Spec on the safe fragment; both stacks are restored by every statement and call *)
From Coq Require Import List Arith Bool Lia.
Import ListNotations.
From Cb Require Import C06.Model C06.Prims.

Ltac break_match H :=
  repeat match type of H with
         | context [match ?x with _ => _ end] => destruct x eqn:?
         end.

Definition regD (s : stmt) : list nat := match s with SDefer k => [k] | _ => [] end.
Definition regT (s : stmt) : list nat := match s with SObj k => [k] | _ => [] end.

(* Spec: a statement changes the lists of its own scope only by what it registers itself *)
Lemma sexec_DT : forall fuel p it s D T o t D' T',
  sexec fuel p it s D T = Some (o, t, D', T') -> D' = D ++ regD s /\ T' = T ++ regT s.
Proof.
  destruct fuel; simpl; [discriminate|].
  intros p it s D T o t D' T' H.
  destruct s; simpl in *; unfold lift_scope in H;
    break_match H; try discriminate; inversion H; subst; rewrite ?app_nil_r; auto.
Qed.

Lemma body_safe : forall p g, safe_prog p = true -> safe_b false false false (body p g) = true.
Proof.
  unfold safe_prog, body; intros p g H.
  destruct (lt_dec g (length p)).
  - rewrite forallb_forall in H. apply H. now apply nth_In.
  - rewrite nth_overflow by lia. reflexivity.
Qed.

Lemma nomix_of_flags : forall (D T : list nat) so sd,
  (T <> [] -> so = true) -> (D <> [] -> sd = true) -> so && sd = false -> D = [] \/ T = [].
Proof.
  intros [|d D] [|t T] so sd H1 H2 H3; auto.
  rewrite H1, H2 in H3 by discriminate. discriminate.
Qed.

Definition guard_s (s : stmt) (so sd : bool) : bool :=
  match s with
  | SObj _ => negb sd
  | SDefer _ => negb so
  | SRet => negb so && negb sd
  | _ => true
  end.

Lemma flags_step : forall s (D T : list nat) so sd,
  guard_s s so sd = true ->
  (T <> [] -> so = true) -> (D <> [] -> sd = true) -> so && sd = false ->
  (T ++ regT s <> [] -> so || is_obj s = true) /\
  (D ++ regD s <> [] -> sd || is_defer s = true) /\
  (so || is_obj s) && (sd || is_defer s) = false.
Proof.
  intros s D T so sd G H1 H2 H3.
  destruct s; simpl in *; rewrite ?app_nil_r, ?orb_false_r, ?orb_true_r; auto;
    destruct so, sd; simpl in *; try discriminate; auto.
Qed.

Section Ref.
Variable p : prog.
Hypothesis Hp : safe_prog p = true.

Definition pre_s (s : stmt) (D T : list nat) : Prop :=
  match s with SRet => D = [] /\ T = [] | _ => True end.

Definition Ps (fuel : nat) : Prop := forall it s inl D T Ds Ts sc t0,
  safe_s inl s = true -> pre_s s D T ->
  match sexec fuel p it s D T with
  | None => mexec fuel p it s (mk (D :: Ds) (T :: Ts) sc t0) = None
  | Some (o, t, D', T') =>
      mexec fuel p it s (mk (D :: Ds) (T :: Ts) sc t0) = Some (o, mk (D' :: Ds) (T' :: Ts) sc (t0 ++ t))
      /\ (inl = true -> o <> ORet)
  end.

Definition Pb (fuel : nat) : Prop := forall it b inl so sd D T Ds Ts sc t0,
  safe_b inl so sd b = true ->
  (T <> [] -> so = true) -> (D <> [] -> sd = true) -> so && sd = false ->
  match sexec_b fuel p it b D T with
  | None => mexec_b fuel p it b (mk (D :: Ds) (T :: Ts) sc t0) = None
  | Some (o, t, D', T') =>
      mexec_b fuel p it b (mk (D :: Ds) (T :: Ts) sc t0) = Some (o, mk (D' :: Ds) (T' :: Ts) sc (t0 ++ t))
      /\ (inl = true -> o <> ORet) /\ (D' = [] \/ T' = [])
  end.

Definition Pl (fuel : nat) : Prop := forall n i b Xs Ys sc t0,
  safe_b true false false b = true ->
  match sloop fuel p n i b with
  | None => mloop fuel p n i b (mk Xs Ys sc t0) = None
  | Some (o, t) =>
      mloop fuel p n i b (mk Xs Ys sc t0) = Some (o, mk Xs Ys sc (t0 ++ t)) /\ o <> ORet
  end.

Lemma close_order : forall (t0 t : list event) (D' T' : list nat),
  D' = [] \/ T' = [] ->
  (t0 ++ t) ++ map EDtor (rev T') ++ map EDefer (rev D') =
  t0 ++ t ++ map EDefer (rev D') ++ map EDtor (rev T').
Proof.
  intros t0 t D' T' [E|E]; subst; simpl; rewrite ?app_nil_r; now rewrite app_assoc.
Qed.

(* execute_compound_statement around a block = leaving a scope of the Spec; the stacks below are untouched *)
Lemma compound_ref : forall f, Pb f -> forall it b inl Xs Ys sc t0,
  safe_b inl false false b = true ->
  match scope_close (sexec_b f p it b [] []) with
  | None => compound_close (mexec_b f p it b (push_destructor_scope (mk Xs Ys sc t0))) = None
  | Some (o, t) =>
      compound_close (mexec_b f p it b (push_destructor_scope (mk Xs Ys sc t0))) = Some (o, mk Xs Ys sc (t0 ++ t))
      /\ (inl = true -> o <> ORet)
  end.
Proof.
  intros f HPb it b inl Xs Ys sc t0 Hs.
  unfold push_destructor_scope; simpl.
  specialize (HPb it b inl false false [] [] Xs Ys sc t0 Hs).
  assert (H1 : @nil nat <> [] -> false = true) by (intro c; now contradiction c).
  specialize (HPb H1 H1 eq_refl).
  destruct (sexec_b f p it b [] []) as [[[[o t] D'] T']|]; simpl.
  - destruct HPb as (E & Hr & Hm). rewrite E; simpl. rewrite pop_destructor_scope_cc.
    split; auto. now rewrite close_order.
  - now rewrite HPb.
Qed.

(* a user function call (call_impl.cpp) = the callee's body as a scope; caller levels untouched, no hook line *)
Lemma call_ref : forall f, Pb f -> forall g D Ds T Ts sc t0,
  match scope_close (sexec_b f p None (body p g) [] []) with
  | None => mexec_b f p None (body p g) (push_scope (mk (D :: Ds) (T :: Ts) sc t0)) = None
  | Some (o, t) => exists st',
      mexec_b f p None (body p g) (push_scope (mk (D :: Ds) (T :: Ts) sc t0)) = Some (o, st') /\
      guard_report g (mk (D :: Ds) (T :: Ts) sc t0) (pop_scope st') = mk (D :: Ds) (T :: Ts) sc (t0 ++ t)
  end.
Proof.
  intros f HPb g D Ds T Ts sc t0.
  unfold push_scope; simpl.
  specialize (HPb None (body p g) false false false [] [] (D :: Ds) (T :: Ts) (S sc) t0 (body_safe p g Hp)).
  assert (H1 : @nil nat <> [] -> false = true) by (intro c; now contradiction c).
  specialize (HPb H1 H1 eq_refl).
  destruct (sexec_b f p None (body p g) [] []) as [[[[o t] D'] T']|]; simpl.
  - destruct HPb as (E & Hr & Hm). eexists; split; [exact E|].
    rewrite pop_scope_cc; simpl. rewrite close_order by assumption. apply guard_report_same.
  - exact HPb.
Qed.

Lemma ref_all : forall fuel, Ps fuel /\ Pb fuel /\ Pl fuel.
Proof.
  induction fuel as [|f (IHs & IHb & IHl)].
  - repeat split; red; intros; simpl; auto.
  - split; [|split].
    + (* statements *)
      red; intros it s inl D T Ds Ts sc t0 Hs Hpre.
      destruct s; simpl in Hs |- *.
      * rewrite declare_obj_cc. split; [reflexivity|discriminate].
      * rewrite defer_stmt_cc. split; [reflexivity|discriminate].
      * split; [reflexivity|discriminate].
      * pose proof (compound_ref f IHb it b inl (D :: Ds) (T :: Ts) sc t0 Hs) as C.
        destruct (scope_close (sexec_b f p it b [] [])) as [[o t]|]; simpl; auto.
      * apply andb_prop in Hs; destruct Hs as [Ht He].
        destruct (cond_true it c).
        -- pose proof (compound_ref f IHb it t inl (D :: Ds) (T :: Ts) sc t0 Ht) as C.
           destruct (scope_close (sexec_b f p it t [] [])) as [[o t']|]; simpl; auto.
        -- destruct e as [|s' r'].
           ++ rewrite app_nil_r. split; [reflexivity|discriminate].
           ++ pose proof (compound_ref f IHb it (BCons s' r') inl (D :: Ds) (T :: Ts) sc t0 He) as C.
              destruct (scope_close (sexec_b f p it (BCons s' r') [] [])) as [[o t']|]; simpl; auto.
      * unfold push_defer_scope; simpl.
        pose proof (IHl n 0 b ([] :: D :: Ds) (T :: Ts) sc t0 Hs) as L.
        destruct (sloop f p n 0 b) as [[o t]|].
        -- destruct L as [E Hne]. rewrite E.
           destruct o; try congruence; rewrite pop_defer_scope_cons; simpl; rewrite app_nil_r;
             (split; [reflexivity|discriminate]).
        -- now rewrite L.
      * pose proof (call_ref f IHb f0 D Ds T Ts sc t0) as C.
        destruct (scope_close (sexec_b f p None (body p f0) [] [])) as [[o t]|].
        -- destruct C as (st' & E & G). rewrite E, G. split; [reflexivity|].
           intros _. destruct o; discriminate.
        -- now rewrite C.
      * destruct Hpre; subst. rewrite pre_return_cleanup_empty, app_nil_r.
        split; [reflexivity|]. intros ->. discriminate.
      * rewrite app_nil_r. split; [reflexivity|discriminate].
      * rewrite app_nil_r. split; [reflexivity|discriminate].
    + (* statement lists *)
      red; intros it b inl so sd D T Ds Ts sc t0 Hs H1 H2 H3.
      destruct b as [|s r]; simpl.
      * rewrite app_nil_r. split; [reflexivity|]. split; [discriminate|].
        eapply nomix_of_flags; eauto.
      * simpl in Hs. apply andb_prop in Hs; destruct Hs as [Hs Hr].
        apply andb_prop in Hs; destruct Hs as [Hg Hss].
        fold (guard_s s so sd) in Hg.
        assert (Hpre : pre_s s D T).
        { destruct s; simpl; auto. simpl in Hg. apply andb_prop in Hg; destruct Hg as [G1 G2].
          apply negb_true_iff in G1, G2; subst.
          split; [destruct D | destruct T]; auto.
          - specialize (H2 ltac:(discriminate)); discriminate.
          - specialize (H1 ltac:(discriminate)); discriminate. }
        pose proof (IHs it s inl D T Ds Ts sc t0 Hss Hpre) as HS.
        destruct (sexec f p it s D T) as [[[[o t] D1] T1]|] eqn:ES.
        -- destruct HS as (E & Hret). rewrite E.
           apply sexec_DT in ES; destruct ES as [-> ->].
           destruct (flags_step s D T so sd Hg H1 H2 H3) as (F1 & F2 & F3).
           destruct o;
             try (split; [reflexivity|]; split; [assumption|]; eapply nomix_of_flags; eauto).
           pose proof (IHb it r inl _ _ _ _ Ds Ts sc (t0 ++ t) Hr F1 F2 F3) as HB.
           destruct (sexec_b f p it r (D ++ regD s) (T ++ regT s)) as [[[[o2 t2] D2] T2]|].
           ++ destruct HB as (E2 & Hr2 & Hm2). rewrite E2, app_assoc. auto.
           ++ exact HB.
        -- now rewrite HS.
    + (* loop iterations *)
      red; intros n i b Xs Ys sc t0 Hs. simpl.
      destruct (n <=? i).
      * rewrite app_nil_r. split; [reflexivity|discriminate].
      * pose proof (compound_ref f IHb (Some i) b true Xs Ys sc t0 Hs) as C.
        destruct (scope_close (sexec_b f p (Some i) b [] [])) as [[o t]|].
        -- destruct C as [E Hr]. rewrite E.
           destruct o.
           ++ pose proof (IHl n (S i) b Xs Ys sc (t0 ++ t) Hs) as L.
              destruct (sloop f p n (S i) b) as [[o2 t2]|].
              ** destruct L as [E2 Hn2]. rewrite E2, app_assoc. auto.
              ** exact L.
           ++ exfalso. now apply Hr.
           ++ split; [reflexivity|discriminate].
           ++ pose proof (IHl n (S i) b Xs Ys sc (t0 ++ t) Hs) as L.
              destruct (sloop f p n (S i) b) as [[o2 t2]|].
              ** destruct L as [E2 Hn2]. rewrite E2, app_assoc. auto.
              ** exact L.
        -- now rewrite C.
Qed.

(* whole program *)
Lemma run_ref : forall fuel,
  match srun fuel p with
  | None => mrun fuel p = None
  | Some (true, t) => mrun fuel p = Some (true, mk [] [[]] 1 t)
  | Some (false, t) => exists st, mrun fuel p = Some (false, st) /\ tr st = t
  end.
Proof.
  intros fuel. unfold srun, mrun, init_state, push_scope; simpl.
  destruct (ref_all fuel) as (_ & HPb & _).
  specialize (HPb None (body p 0) false false false [] [] [] [[]] 2 [] (body_safe p 0 Hp)).
  assert (H1 : @nil nat <> [] -> false = true) by (intro c; now contradiction c).
  specialize (HPb H1 H1 eq_refl).
  destruct (sexec_b fuel p None (body p 0) [] []) as [[[[o t] D'] T']|].
  - destruct HPb as (E & _ & Hm). rewrite E.
    destruct o; simpl.
    + rewrite pop_scope_cc; simpl. f_equal. f_equal. f_equal.
      pose proof (close_order [] t D' T' Hm) as C. simpl in C. exact C.
    + rewrite pop_scope_cc; simpl. f_equal. f_equal. f_equal.
      pose proof (close_order [] t D' T' Hm) as C. simpl in C. exact C.
    + eexists; split; reflexivity.
    + eexists; split; reflexivity.
  - now rewrite HPb.
Qed.

End Ref.

(* statement-level corollary: in a safe program every statement (any outcome) restores both stacks
   below its own scope and the variable-scope depth *)
Lemma stmt_balanced : forall p, safe_prog p = true ->
  forall fuel it s inl D T Ds Ts sc t0 o st',
  safe_s inl s = true -> pre_s s D T ->
  mexec fuel p it s (mk (D :: Ds) (T :: Ts) sc t0) = Some (o, st') ->
  tl (dfs st') = Ds /\ tl (dts st') = Ts /\ scd st' = sc /\
  length (dfs st') = S (length Ds) /\ length (dts st') = S (length Ts).
Proof.
  intros p Hp fuel it s inl D T Ds Ts sc t0 o st' Hs Hpre E.
  destruct (ref_all p Hp fuel) as (HPs & _ & _).
  specialize (HPs it s inl D T Ds Ts sc t0 Hs Hpre).
  destruct (sexec fuel p it s D T) as [[[[o1 t] D'] T']|].
  - destruct HPs as [E1 _]. rewrite E1 in E. inversion E; subst; simpl. auto.
  - rewrite HPs in E. discriminate.
Qed.

Lemma call_balanced : forall p, safe_prog p = true ->
  forall fuel it g D T Ds Ts sc t0 o st',
  mexec fuel p it (SCall g) (mk (D :: Ds) (T :: Ts) sc t0) = Some (o, st') ->
  dfs st' = D :: Ds /\ dts st' = T :: Ts /\ scd st' = sc.
Proof.
  intros p Hp fuel it g D T Ds Ts sc t0 o st' E.
  destruct (ref_all p Hp fuel) as (HPs & _ & _).
  specialize (HPs it (SCall g) false D T Ds Ts sc t0 eq_refl I).
  destruct (sexec fuel p it (SCall g) D T) as [[[[o1 t] D'] T']|] eqn:ES.
  - destruct HPs as [E1 _]. rewrite E1 in E. inversion E; subst; simpl.
    apply sexec_DT in ES. simpl in ES. destruct ES as [-> ->]. now rewrite !app_nil_r.
  - rewrite HPs in E. discriminate.
Qed.
