(* C06 - Mech (the machine of the repaired code, Model.v) refines Spec for ALL programs; every statement
   and every call restores both stacks below its own level. *)
From Coq Require Import List Arith Bool Lia.
Import ListNotations.
From Cb Require Import C06.Model C06.Prims.

Ltac break_match H :=
  repeat match type of H with
         | context [match ?x with _ => _ end] => destruct x eqn:?
         end.

Definition regD (s : stmt) : list nat := match s with SDefer k => [k] | _ => [] end.
Definition regT (s : stmt) : list nat := match s with SObj k => [k] | _ => [] end.

(* Spec: a statement changes the lists of its own scope only by what it registers itself *)
Lemma sexec_DT : forall fuel p it s D T o t D' T',
  sexec fuel p it s D T = Some (o, t, D', T') -> D' = D ++ regD s /\ T' = T ++ regT s.
Proof.
  destruct fuel; simpl; [discriminate|].
  intros p it s D T o t D' T' H.
  destruct s; simpl in *; unfold lift_scope in H;
    break_match H; try discriminate; inversion H; subst; rewrite ?app_nil_r; auto.
Qed.

(* the machine state after a statement list, relative to the Spec result *)
Definition rel (o : outcome) (st' : state) (D' T' : list nat) Ds Ts sc (t1 : list event) : Prop :=
  st' = mk (D' :: Ds) (T' :: Ts) sc t1 \/
  (o = ORet /\ st' = mk ([] :: Ds) ([] :: Ts) sc (t1 ++ map EDefer (rev D') ++ map EDtor (rev T'))).

Lemma rel_close : forall o st' D' T' Ds Ts sc t1, rel o st' D' T' Ds Ts sc t1 ->
  pop_destructor_scope st' = mk Ds Ts sc (t1 ++ map EDefer (rev D') ++ map EDtor (rev T')).
Proof.
  intros o st' D' T' Ds Ts sc t1 [->|[_ ->]]; rewrite pop_destructor_scope_cc; auto.
  simpl. now rewrite app_nil_r.
Qed.

Lemma rel_close_scope : forall o st' D' T' Ds Ts sc t1, rel o st' D' T' Ds Ts sc t1 ->
  pop_scope st' = mk Ds Ts (pred sc) (t1 ++ map EDefer (rev D') ++ map EDtor (rev T')).
Proof. intros. unfold pop_scope. erewrite rel_close by eassumption. reflexivity. Qed.

Section Ref.
Variable p : prog.

Definition Ps (fuel : nat) : Prop := forall it s D T Ds Ts sc t0,
  match sexec fuel p it s D T with
  | None => mexec fuel p it s (mk (D :: Ds) (T :: Ts) sc t0) = None
  | Some (o, t, D', T') => exists st',
      mexec fuel p it s (mk (D :: Ds) (T :: Ts) sc t0) = Some (o, st') /\
      rel o st' D' T' Ds Ts sc (t0 ++ t) /\ (o <> ORet -> st' = mk (D' :: Ds) (T' :: Ts) sc (t0 ++ t))
  end.

Definition Pb (fuel : nat) : Prop := forall it b D T Ds Ts sc t0,
  match sexec_b fuel p it b D T with
  | None => mexec_b fuel p it b (mk (D :: Ds) (T :: Ts) sc t0) = None
  | Some (o, t, D', T') => exists st',
      mexec_b fuel p it b (mk (D :: Ds) (T :: Ts) sc t0) = Some (o, st') /\
      rel o st' D' T' Ds Ts sc (t0 ++ t) /\ (o <> ORet -> st' = mk (D' :: Ds) (T' :: Ts) sc (t0 ++ t))
  end.

Definition Pl (fuel : nat) : Prop := forall n i b Xs Ys sc t0,
  match sloop fuel p n i b with
  | None => mloop fuel p n i b (mk Xs Ys sc t0) = None
  | Some (o, t) => mloop fuel p n i b (mk Xs Ys sc t0) = Some (o, mk Xs Ys sc (t0 ++ t))
  end.

Lemma compound_ref : forall f, Pb f -> forall it b Xs Ys sc t0,
  match scope_close (sexec_b f p it b [] []) with
  | None => compound_close (mexec_b f p it b (push_destructor_scope (mk Xs Ys sc t0))) = None
  | Some (o, t) =>
      compound_close (mexec_b f p it b (push_destructor_scope (mk Xs Ys sc t0))) = Some (o, mk Xs Ys sc (t0 ++ t))
  end.
Proof.
  intros f HF it b Xs Ys sc t0. unfold push_destructor_scope; simpl.
  specialize (HF it b [] [] Xs Ys sc t0).
  destruct (sexec_b f p it b [] []) as [[[[o t] D'] T']|]; simpl.
  - destruct HF as (st' & E & R & _). rewrite E; simpl. erewrite rel_close by eassumption.
    now rewrite <- app_assoc.
  - now rewrite HF.
Qed.

Lemma ref_all : forall fuel, Ps fuel /\ Pb fuel /\ Pl fuel.
Proof.
  induction fuel as [|f (IHs & IHb & IHl)].
  - repeat split; red; intros; simpl; auto.
  - split; [|split].
    + red; intros it s D T Ds Ts sc t0.
      destruct s; simpl.
      * rewrite declare_obj_cc. eexists; split; [reflexivity|]. split; [left|]; auto.
      * rewrite defer_stmt_cc. eexists; split; [reflexivity|]. split; [left|]; auto.
      * eexists; split; [reflexivity|]. split; [left|]; auto.
      * pose proof (compound_ref f IHb it b (D :: Ds) (T :: Ts) sc t0) as C.
        destruct (scope_close (sexec_b f p it b [] [])) as [[o t]|]; simpl; auto.
        eexists; split; [exact C|]. split; [left|]; auto.
      * destruct (cond_true it c).
        -- pose proof (compound_ref f IHb it t (D :: Ds) (T :: Ts) sc t0) as C.
           destruct (scope_close (sexec_b f p it t [] [])) as [[o t']|]; simpl; auto.
           eexists; split; [exact C|]. split; [left|]; auto.
        -- destruct e as [|s' r'].
           ++ rewrite app_nil_r. eexists; split; [reflexivity|]. split; [left|]; auto.
           ++ pose proof (compound_ref f IHb it (BCons s' r') (D :: Ds) (T :: Ts) sc t0) as C.
              destruct (scope_close (sexec_b f p it (BCons s' r') [] [])) as [[o t']|]; simpl; auto.
              eexists; split; [exact C|]. split; [left|]; auto.
      * unfold push_defer_scope; simpl.
        pose proof (IHl n 0 b ([] :: D :: Ds) (T :: Ts) sc t0) as L.
        destruct (sloop f p n 0 b) as [[o t]|].
        -- rewrite L.
           destruct o; rewrite pop_defer_scope_cons; simpl; rewrite app_nil_r;
             (eexists; split; [reflexivity|]; split; [left|]; auto).
        -- now rewrite L.
      * unfold push_scope; simpl.
        pose proof (IHb None (body p f0) [] [] (D :: Ds) (T :: Ts) (S sc) t0) as B.
        destruct (sexec_b f p None (body p f0) [] []) as [[[[o t] D'] T']|]; simpl.
        -- destruct B as (st' & E & R & _). rewrite E.
           erewrite rel_close_scope by eassumption. simpl. rewrite guard_report_same.
           eexists; split; [reflexivity|]. rewrite <- app_assoc. split; [left|]; auto.
        -- now rewrite B.
      * rewrite pre_return_cleanup_cc.
        eexists; split; [reflexivity|]. rewrite app_nil_r. split; [right; auto|]. congruence.
      * rewrite app_nil_r. eexists; split; [reflexivity|]. split; [left|]; auto.
      * rewrite app_nil_r. eexists; split; [reflexivity|]. split; [left|]; auto.
    + red; intros it b D T Ds Ts sc t0.
      destruct b as [|s r]; simpl.
      * rewrite app_nil_r. eexists; split; [reflexivity|]. split; [left|]; auto.
      * pose proof (IHs it s D T Ds Ts sc t0) as HS.
        destruct (sexec f p it s D T) as [[[[o t] D1] T1]|].
        -- destruct HS as (st1 & E & R & N). rewrite E.
           destruct o; try (eexists; split; [reflexivity|]; split; auto).
           rewrite (N ltac:(discriminate)).
           pose proof (IHb it r D1 T1 Ds Ts sc (t0 ++ t)) as HB.
           destruct (sexec_b f p it r D1 T1) as [[[[o2 t2] D2] T2]|].
           ++ destruct HB as (st2 & E2 & R2 & N2). rewrite E2, app_assoc.
              eexists; split; [reflexivity|]. auto.
           ++ exact HB.
        -- now rewrite HS.
    + red; intros n i b Xs Ys sc t0. simpl.
      destruct (n <=? i).
      * now rewrite app_nil_r.
      * pose proof (compound_ref f IHb (Some i) b Xs Ys sc t0) as C.
        destruct (scope_close (sexec_b f p (Some i) b [] [])) as [[o t]|].
        -- rewrite C. destruct o; auto.
           ++ pose proof (IHl n (S i) b Xs Ys sc (t0 ++ t)) as L.
              destruct (sloop f p n (S i) b) as [[o2 t2]|]; [now rewrite L, app_assoc|exact L].
           ++ pose proof (IHl n (S i) b Xs Ys sc (t0 ++ t)) as L.
              destruct (sloop f p n (S i) b) as [[o2 t2]|]; [now rewrite L, app_assoc|exact L].
        -- now rewrite C.
Qed.

Lemma run_ref : forall fuel,
  match srun fuel p with
  | None => mrun fuel p = None
  | Some (true, t) => mrun fuel p = Some (true, mk [] [[]] 1 t)
  | Some (false, t) => exists st, mrun fuel p = Some (false, st) /\ tr st = t
  end.
Proof.
  intros fuel. unfold srun, mrun, init_state, push_scope; simpl.
  destruct (ref_all fuel) as (_ & HF & _).
  specialize (HF None (body p 0) [] [] [] [[]] 2 []).
  destruct (sexec_b fuel p None (body p 0) [] []) as [[[[o t] D'] T']|].
  - destruct HF as (st' & E & R & N). rewrite E.
    destruct o.
    + erewrite rel_close_scope by eassumption. reflexivity.
    + erewrite rel_close_scope by eassumption. reflexivity.
    + rewrite (N ltac:(discriminate)). eexists; split; reflexivity.
    + rewrite (N ltac:(discriminate)). eexists; split; reflexivity.
  - now rewrite HF.
Qed.
End Ref.

(* ---- corollaries, for every program *)

(* a statement (any outcome) leaves everything below its own level and the variable-scope depth as
   they were *)
Lemma stmt_balanced : forall p fuel it s D T Ds Ts sc t0 o st',
  mexec fuel p it s (mk (D :: Ds) (T :: Ts) sc t0) = Some (o, st') ->
  tl (dfs st') = Ds /\ tl (dts st') = Ts /\ scd st' = sc /\
  length (dfs st') = S (length Ds) /\ length (dts st') = S (length Ts).
Proof.
  intros p fuel it s D T Ds Ts sc t0 o st' E.
  destruct (ref_all p fuel) as (HPs & _ & _).
  specialize (HPs it s D T Ds Ts sc t0).
  destruct (sexec fuel p it s D T) as [[[[o1 t] D'] T']|].
  - destruct HPs as (st1 & E1 & R & _). rewrite E1 in E. inversion E; subst.
    destruct R as [->|[_ ->]]; simpl; auto.
  - rewrite HPs in E. discriminate.
Qed.

(* a call leaves both stacks exactly as they were - the caller's pending defers D and objects T included -
   and what it prints is the callee's body as a Spec scope: a function of the callee alone *)
Lemma call_balanced : forall p fuel it g D T Ds Ts sc t0 o st',
  mexec (S fuel) p it (SCall g) (mk (D :: Ds) (T :: Ts) sc t0) = Some (o, st') ->
  exists o1 t, scope_close (sexec_b fuel p None (body p g) [] []) = Some (o1, t) /\
               o = call_outcome o1 /\ st' = mk (D :: Ds) (T :: Ts) sc (t0 ++ t).
Proof.
  intros p fuel it g D T Ds Ts sc t0 o st' E.
  destruct (ref_all p (S fuel)) as (HPs & _ & _).
  specialize (HPs it (SCall g) D T Ds Ts sc t0). simpl in HPs, E.
  destruct (scope_close (sexec_b fuel p None (body p g) [] [])) as [[o1 t]|].
  - destruct HPs as (st1 & E1 & _ & N). rewrite E1 in E. inversion E; subst.
    exists o1, t. split; [reflexivity|]. split; [reflexivity|].
    rewrite N by (destruct o1; discriminate). now rewrite ?app_nil_r.
  - rewrite HPs in E. discriminate.
Qed.

(* leaving a block - by whatever outcome - appends the block's reached defers LIFO, THEN its objects'
   destructors LIFO, after everything the block itself printed *)
Lemma block_exit_order : forall p fuel it b Xs Ys sc t0 o st',
  mexec (S fuel) p it (SBlock b) (mk Xs Ys sc t0) = Some (o, st') ->
  exists t D' T', sexec_b fuel p it b [] [] = Some (o, t, D', T') /\
                  st' = mk Xs Ys sc (t0 ++ t ++ map EDefer (rev D') ++ map EDtor (rev T')).
Proof.
  intros p fuel it b Xs Ys sc t0 o st' E. simpl in E.
  destruct (ref_all p fuel) as (_ & HPb & _).
  pose proof (compound_ref p fuel HPb it b Xs Ys sc t0) as C.
  destruct (sexec_b fuel p it b [] []) as [[[[o1 t] D'] T']|]; simpl in C.
  - rewrite C in E. inversion E; subst. eauto.
  - rewrite C in E. discriminate.
Qed.
