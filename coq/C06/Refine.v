(* C06 - Mech (the machine of the repaired code with its name-keyed destructor bookkeeping, Model.v)
   refines Spec for ALL programs in which no function body re-declares a live name (wf_prog; objects with
   a destructible member included since a registration resets destructor_called); every
   statement and every call restores both stacks and the variable scopes below its own level. *)
From Coq Require Import List Arith Bool Lia.
Import ListNotations.
From Cb Require Import C06.Model C06.Prims.

Ltac break_match H :=
  repeat match type of H with
         | context [match ?x with _ => _ end] => destruct x eqn:?
         end.

Definition regD (n : nat) (s : stmt) : list nat := match s with SDefer k => [oid n k] | _ => [] end.
Definition regT (n : nat) (s : stmt) : list (ty * nat) :=
  match s with SObj _ t k => obj_parts t (oid n k) | _ => [] end.

(* Spec: a statement changes the lists of its own scope only by what it registers itself *)
Lemma sexec_DT : forall fuel p n it s D T o t D' T',
  sexec fuel p n it s D T = Some (o, t, D', T') -> D' = D ++ regD n s /\ T' = T ++ regT n s.
Proof.
  destruct fuel; simpl; [discriminate|].
  intros p n it s D T o t D' T' H.
  destruct s; simpl in *; unfold lift_scope in H;
    break_match H; try discriminate; inversion H; subst; rewrite ?app_nil_r; auto.
Qed.

(* the slots of the names in N are what they were *)
Definition agree (N : list name) (F F' : frame) : Prop := forall x, In x N -> lookup F' x = lookup F x.
Definition disj (A B : list name) : Prop := forall x, In x A -> ~ In x B.

Lemma agree_refl : forall N F, agree N F F.
Proof. red; auto. Qed.

Lemma agree_trans : forall N F1 F2 F3, agree N F1 F2 -> agree N F2 F3 -> agree N F1 F3.
Proof. unfold agree; intros. rewrite H0, H; auto. Qed.

Lemma agree_sub : forall N N' F F', agree N F F' -> incl N' N -> agree N' F F'.
Proof. unfold agree, incl; auto. Qed.

Lemma agree_flag_names : forall N F l, disj l N -> agree N F (flag_names F l).
Proof. intros N F l H x Hx. apply lookup_flag_names_other. intro E. exact (H x E Hx). Qed.

(* the machine state after a statement list, relative to the Spec result: the innermost level is
   either intact (pending entries Tm' standing for the Spec's T') or - after a `return` - cleared and
   already printed *)
Definition intact (N0 : list name) (F : frame) (st' : state) D' (T' : list (ty * nat)) Ds Ts Fs (t1 : list event) : Prop :=
  exists Tm' F', st' = mk (D' :: Ds) (Tm' :: Ts) (F' :: Fs) t1 /\
                 NoDup (names Tm') /\ disj (names Tm') N0 /\ lvl_ok F' Tm' T' /\ agree N0 F F'.

Definition cleared (N0 : list name) (F : frame) (st' : state) (D' : list nat) (T' : list (ty * nat)) Ds Ts Fs (t1 : list event) : Prop :=
  exists F', st' = mk ([] :: Ds) ([] :: Ts) (F' :: Fs) (t1 ++ map EDefer (rev D') ++ map dtor_ev (rev T')) /\
             agree N0 F F'.

Definition rel (o : outcome) N0 F st' D' T' Ds Ts Fs t1 : Prop :=
  intact N0 F st' D' T' Ds Ts Fs t1 \/ (o = ORet /\ cleared N0 F st' D' T' Ds Ts Fs t1).

(* closing the scope in either case gives the Spec's transcript; the enclosing levels' slots survive *)
Lemma rel_close : forall o N0 F st' D' T' Ds Ts Fs t1, rel o N0 F st' D' T' Ds Ts Fs t1 ->
  exists F', pop_destructor_scope st' = mk Ds Ts (F' :: Fs) (t1 ++ map EDefer (rev D') ++ map dtor_ev (rev T'))
             /\ agree N0 F F'.
Proof.
  intros o N0 F st' D' T' Ds Ts Fs t1 [(Tm' & F' & -> & ND & DJ & OK & AG)|[_ (F' & -> & AG)]].
  - erewrite pop_destructor_scope_cc by eassumption. eexists; split; [reflexivity|].
    eapply agree_trans; [exact AG|]. apply agree_flag_names.
    intros x Hx. apply DJ. now apply in_rev.
  - rewrite pop_destructor_scope_empty. simpl. rewrite app_nil_r. eauto.
Qed.

Lemma rel_close_scope : forall o N0 F st' D' T' Ds Ts Fs t1, rel o N0 F st' D' T' Ds Ts Fs t1 ->
  pop_scope st' = mk Ds Ts Fs (t1 ++ map EDefer (rev D') ++ map dtor_ev (rev T')).
Proof.
  intros. rewrite pop_scope_unfold. destruct (rel_close _ _ _ _ _ _ _ _ _ _ H) as (F' & -> & _). reflexivity.
Qed.

Lemma NoDup_app_cons_end : forall (l : list name) x, NoDup l -> ~ In x l -> NoDup (l ++ [x]).
Proof.
  induction l as [|y l IH]; intros x ND NI; simpl.
  - constructor; [intros []|constructor].
  - inversion ND; subst. constructor.
    + intro H. apply in_app_or in H. destruct H as [H|[H|[]]]; [contradiction|]. subst. apply NI. now left.
    + apply IH; auto. intro; apply NI; now right.
Qed.

Lemma NoDup_app_disj : forall (l l' : list name), NoDup l -> NoDup l' ->
  (forall y, In y l' -> ~ In y l) -> NoDup (l ++ l').
Proof.
  induction l as [|a l IH]; intros l' H H' D; simpl; auto.
  inversion H; subst. constructor.
  - intro I. apply in_app_or in I. destruct I as [I|I]; [contradiction|]. apply (D a I). now left.
  - apply IH; auto. intros y Hy I. apply (D y Hy). now right.
Qed.

(* what one declaration adds to the innermost level: its entries name the fresh slots, which hold the
   identities of the sub-objects; every other name keeps its slot *)
Lemma obj_level : forall x t id F,
  lvl_ok (obj_slots F x t id) (obj_entries x t) (obj_parts t id) /\
  NoDup (names (obj_entries x t)) /\
  (forall y, ~ In y (names (obj_entries x t)) -> lookup (obj_slots F x t id) y = lookup F y).
Proof.
  intros x t id F. split; [|split].
  - destruct t; simpl; repeat constructor; simpl; rewrite ?Nat.eqb_refl; reflexivity.
  - destruct t; simpl; repeat constructor; simpl; intuition discriminate.
  - intros y Hy. destruct t; simpl in Hy |- *;
      repeat (rewrite name_eqb_neq by (intro; subst; apply Hy; simpl; tauto)); reflexivity.
Qed.

Lemma wf_body : forall p g, wf_prog p = true -> wf_b [] [] (body p g) = true.
Proof.
  intros p g H. unfold body, wf_prog in *.
  destruct (nth_in_or_default g p BNil) as [I|E].
  - eapply forallb_forall in H; eauto.
  - rewrite E. reflexivity.
Qed.

Section Ref.
Variable p : prog.
Hypothesis WFP : wf_prog p = true.

Definition Ps (fuel : nat) : Prop := forall n it s N0 D Tm T Ds Ts F Fs t0,
  wf_s (names Tm ++ N0) s = true -> NoDup (names Tm) -> disj (names Tm) N0 -> lvl_ok F Tm T ->
  match sexec fuel p n it s D T with
  | None => mexec fuel p n it s (mk (D :: Ds) (Tm :: Ts) (F :: Fs) t0) = None
  | Some (o, t, D', T') => exists st',
      mexec fuel p n it s (mk (D :: Ds) (Tm :: Ts) (F :: Fs) t0) = Some (o, st') /\
      rel o N0 F st' D' T' Ds Ts Fs (t0 ++ t) /\
      (o <> ORet -> exists Tm' F', st' = mk (D' :: Ds) (Tm' :: Ts) (F' :: Fs) (t0 ++ t) /\
                                   names Tm' = names Tm ++ decl_s s /\
                                   NoDup (names Tm') /\ disj (names Tm') N0 /\ lvl_ok F' Tm' T' /\ agree N0 F F')
  end.

Definition Pb (fuel : nat) : Prop := forall n it b N0 D Tm T Ds Ts F Fs t0,
  wf_b (names Tm) N0 b = true -> NoDup (names Tm) -> disj (names Tm) N0 -> lvl_ok F Tm T ->
  match sexec_b fuel p n it b D T with
  | None => mexec_b fuel p n it b (mk (D :: Ds) (Tm :: Ts) (F :: Fs) t0) = None
  | Some (o, t, D', T') => exists st',
      mexec_b fuel p n it b (mk (D :: Ds) (Tm :: Ts) (F :: Fs) t0) = Some (o, st') /\
      rel o N0 F st' D' T' Ds Ts Fs (t0 ++ t) /\
      (o <> ORet -> intact N0 F st' D' T' Ds Ts Fs (t0 ++ t))
  end.

Definition Pl (fuel : nat) : Prop := forall n m i b N0 Xs Ys F Fs t0,
  wf_b [] N0 b = true ->
  match sloop fuel p n m i b with
  | None => mloop fuel p n m i b (mk Xs Ys (F :: Fs) t0) = None
  | Some (o, t) => exists F', mloop fuel p n m i b (mk Xs Ys (F :: Fs) t0) = Some (o, mk Xs Ys (F' :: Fs) (t0 ++ t))
                              /\ agree N0 F F'
  end.

Lemma compound_ref : forall f, Pb f -> forall n it b N0 Xs Ys F Fs t0, wf_b [] N0 b = true ->
  match scope_close (sexec_b f p n it b [] []) with
  | None => compound_close (mexec_b f p n it b (push_destructor_scope (mk Xs Ys (F :: Fs) t0))) = None
  | Some (o, t) => exists F',
      compound_close (mexec_b f p n it b (push_destructor_scope (mk Xs Ys (F :: Fs) t0))) =
      Some (o, mk Xs Ys (F' :: Fs) (t0 ++ t)) /\ agree N0 F F'
  end.
Proof.
  intros f HF n it b N0 Xs Ys F Fs t0 W. unfold push_destructor_scope; simpl.
  specialize (HF n it b N0 [] [] [] Xs Ys F Fs t0 W (NoDup_nil _) (fun x H => match H with end) (Forall2_nil _)).
  destruct (sexec_b f p n it b [] []) as [[[[o t] D'] T']|]; simpl.
  - destruct HF as (st' & E & R & _). rewrite E; simpl.
    destruct (rel_close _ _ _ _ _ _ _ _ _ _ R) as (F' & -> & AG).
    exists F'. now rewrite <- app_assoc.
  - now rewrite HF.
Qed.

(* a statement that leaves the current level alone *)
Lemma keep_level : forall N0 F F' Tm T,
  disj (names Tm) N0 -> lvl_ok F Tm T -> agree (names Tm ++ N0) F F' ->
  lvl_ok F' Tm T /\ agree N0 F F'.
Proof.
  intros. split.
  - eapply lvl_ok_change; eauto. intros x Hx. apply H1. apply in_or_app. now left.
  - eapply agree_sub; eauto. intros x Hx. apply in_or_app. now right.
Qed.

Lemma intact_of : forall N0 F st' D' T' Ds Ts Fs t1 Tm' F' (L : list name),
  st' = mk (D' :: Ds) (Tm' :: Ts) (F' :: Fs) t1 /\ names Tm' = L /\
  NoDup (names Tm') /\ disj (names Tm') N0 /\ lvl_ok F' Tm' T' /\ agree N0 F F' ->
  intact N0 F st' D' T' Ds Ts Fs t1.
Proof. intros. destruct H as (A & _ & B & C & D & E). exists Tm', F'. auto. Qed.

Lemma ref_all : forall fuel, Ps fuel /\ Pb fuel /\ Pl fuel.
Proof.
  induction fuel as [|f (IHs & IHb & IHl)].
  - repeat split; red; intros; simpl; auto.
  - split; [|split].
    + red; intros n it s N0 D Tm T Ds Ts F Fs t0 W ND DJ OK.
      (* statements that run a nested scope and leave the level as it is *)
      assert (KEEP : forall o t F' st', st' = mk (D :: Ds) (Tm :: Ts) (F' :: Fs) (t0 ++ t) ->
                agree (names Tm ++ N0) F F' -> decl_s s = [] ->
                rel o N0 F st' D T Ds Ts Fs (t0 ++ t) /\
                (o <> ORet -> exists Tm' F'', st' = mk (D :: Ds) (Tm' :: Ts) (F'' :: Fs) (t0 ++ t) /\
                     names Tm' = names Tm ++ decl_s s /\
                     NoDup (names Tm') /\ disj (names Tm') N0 /\ lvl_ok F'' Tm' T /\ agree N0 F F'')).
      { intros o t F' st' -> AG DS. rewrite DS.
        destruct (keep_level N0 F F' Tm T DJ OK AG) as (K1 & K2).
        split.
        - left. exists Tm, F'. repeat split; auto.
        - intros _. exists Tm, F'. rewrite app_nil_r. repeat split; auto. }
      destruct s; simpl.
      * (* SObj *)
        simpl in W. rewrite forallb_forall in W.
        assert (WN : forall y, In y (names (obj_entries x t)) -> ~ In y (names Tm ++ N0)).
        { intros y Hy. apply mem_name_false. apply negb_true_iff. now apply W. }
        rewrite declare_obj_cc.
        destruct (obj_level x t (oid n k) F) as (OE & NE & LE).
        set (Tm' := Tm ++ obj_entries x t). set (F' := obj_slots F x t (oid n k)).
        assert (K : names Tm' = names Tm ++ names (obj_entries x t) /\
                   NoDup (names Tm') /\ disj (names Tm') N0 /\
                   lvl_ok F' Tm' (T ++ obj_parts t (oid n k)) /\ agree N0 F F').
        { subst Tm' F'. rewrite names_app.
          split; [reflexivity|]. split; [|split; [|split]].
          - apply NoDup_app_disj; auto. intros y Hy I. apply (WN y Hy). apply in_or_app; now left.
          - intros y Hy. apply in_app_or in Hy. destruct Hy as [Hy|Hy]; auto.
            intro I. apply (WN y Hy). apply in_or_app; now right.
          - apply Forall2_app; [|exact OE].
            eapply lvl_ok_change; [exact OK|]. intros y Hy. apply LE.
            intro I. apply (WN y I). apply in_or_app; now left.
          - intros y Hy. apply LE. intro I. apply (WN y I). apply in_or_app; now right. }
        eexists; split; [reflexivity|]. split.
        -- left. exists Tm', F'. split; [reflexivity|]. tauto.
        -- intros _. exists Tm', F'. split; [reflexivity|]. exact K.
      * (* SDefer *)
        rewrite defer_stmt_cc.
        eexists; split; [reflexivity|]. simpl.
        split.
        -- left. exists Tm, F. repeat split; auto using agree_refl.
        -- intros _. exists Tm, F. rewrite app_nil_r. repeat split; auto using agree_refl.
      * (* SMark *)
        eexists; split; [reflexivity|]. apply (KEEP _ _ F); auto using agree_refl.
      * (* SBlock *)
        simpl in W.
        pose proof (compound_ref f IHb n it b (names Tm ++ N0) (D :: Ds) (Tm :: Ts) F Fs t0 W) as C.
        destruct (scope_close (sexec_b f p n it b [] [])) as [[o t]|]; simpl; auto.
        destruct C as (F' & C & AG). eexists; split; [exact C|]. apply (KEEP _ _ F'); auto.
      * (* SIf *)
        simpl in W. apply andb_true_iff in W. destruct W as [W1 W2].
        destruct (cond_true n it c).
        -- pose proof (compound_ref f IHb n it t (names Tm ++ N0) (D :: Ds) (Tm :: Ts) F Fs t0 W1) as C.
           destruct (scope_close (sexec_b f p n it t [] [])) as [[o t']|]; simpl; auto.
           destruct C as (F' & C & AG). eexists; split; [exact C|]. apply (KEEP _ _ F'); auto.
        -- destruct e as [|s' r'].
           ++ eexists; split; [reflexivity|]. apply (KEEP _ _ F); auto using agree_refl.
              now rewrite app_nil_r.
           ++ pose proof (compound_ref f IHb n it (BCons s' r') (names Tm ++ N0) (D :: Ds) (Tm :: Ts) F Fs t0 W2) as C.
              destruct (scope_close (sexec_b f p n it (BCons s' r') [] [])) as [[o t']|]; simpl; auto.
              destruct C as (F' & C & AG). eexists; split; [exact C|]. apply (KEEP _ _ F'); auto.
      * (* SLoop *)
        simpl in W. unfold push_defer_scope; simpl.
        pose proof (IHl n n0 0 b (names Tm ++ N0) ([] :: D :: Ds) (Tm :: Ts) F Fs t0 W) as L.
        destruct (sloop f p n n0 0 b) as [[o t]|].
        -- destruct L as (F' & L & AG). rewrite L.
           destruct o; rewrite pop_defer_scope_cons; simpl; rewrite app_nil_r;
             (eexists; split; [reflexivity|]; apply (KEEP _ _ F'); auto).
        -- now rewrite L.
      * (* SCall *)
        unfold push_scope; cbn [dfs dts vars tr].
        pose proof (IHb (pred n) None (body p f0) [] [] [] [] (D :: Ds) (Tm :: Ts) [] (F :: Fs) t0
                        (wf_body p f0 WFP) (NoDup_nil _) (fun x H => match H with end) (Forall2_nil _)) as B.
        destruct (sexec_b f p (pred n) None (body p f0) [] []) as [[[[o t] D'] T']|]; cbn [scope_close].
        -- destruct B as (st' & E & R & _).
           match goal with |- context [mexec_b ?a ?b ?c ?d ?e ?st] =>
             let X := fresh in assert (X : mexec_b a b c d e st = Some (o, st')) by exact E; rewrite X end.
           erewrite rel_close_scope by eassumption. simpl. rewrite guard_report_same by reflexivity.
           eexists; split; [reflexivity|]. rewrite <- app_assoc. apply (KEEP _ _ F); auto using agree_refl.
        -- match goal with |- context [mexec_b ?a ?b ?c ?d ?e ?st] =>
             let X := fresh in assert (X : mexec_b a b c d e st = None) by exact B; now rewrite X end.
      * (* SRet *)
        erewrite pre_return_cleanup_cc by eassumption.
        eexists; split; [reflexivity|]. rewrite app_nil_r. split; [|congruence].
        right. split; [reflexivity|]. eexists; split; [reflexivity|].
        apply agree_flag_names. intros y Hy. apply DJ. now apply in_rev.
      * eexists; split; [reflexivity|]. apply (KEEP _ _ F); auto using agree_refl. now rewrite app_nil_r.
      * eexists; split; [reflexivity|]. apply (KEEP _ _ F); auto using agree_refl. now rewrite app_nil_r.
    + red; intros n it b N0 D Tm T Ds Ts F Fs t0 W ND DJ OK.
      destruct b as [|s r]; simpl.
      * rewrite app_nil_r. eexists; split; [reflexivity|].
        assert (I : intact N0 F (mk (D :: Ds) (Tm :: Ts) (F :: Fs) t0) D T Ds Ts Fs t0)
          by (exists Tm, F; auto using agree_refl).
        split; [left|]; auto.
      * simpl in W. apply andb_true_iff in W. destruct W as [W1 W2].
        pose proof (IHs n it s N0 D Tm T Ds Ts F Fs t0 W1 ND DJ OK) as HS.
        destruct (sexec f p n it s D T) as [[[[o t] D1] T1]|].
        -- destruct HS as (st1 & E & R & N). rewrite E.
           destruct o; try (eexists; split; [reflexivity|]; split; [exact R|];
                            intros _; destruct (N ltac:(discriminate)) as (Tm' & F' & K); eapply intact_of; exact K).
           ++ destruct (N ltac:(discriminate)) as (Tm1 & F1 & -> & EN & ND1 & DJ1 & OK1 & AG1).
              rewrite <- EN in W2.
              pose proof (IHb n it r N0 D1 Tm1 T1 Ds Ts F1 Fs (t0 ++ t) W2 ND1 DJ1 OK1) as HB.
              destruct (sexec_b f p n it r D1 T1) as [[[[o2 t2] D2] T2]|].
              ** destruct HB as (st2 & E2 & R2 & N2). rewrite E2, app_assoc.
                 eexists; split; [reflexivity|].
                 assert (TR : forall st, intact N0 F1 st D2 T2 Ds Ts Fs ((t0 ++ t) ++ t2) ->
                                         intact N0 F st D2 T2 Ds Ts Fs ((t0 ++ t) ++ t2)).
                 { intros st (Tm2 & F2 & A & B & C & DD & AG2). exists Tm2, F2. repeat split; auto.
                   eapply agree_trans; eauto. }
                 split.
                 --- destruct R2 as [I|[EO (F2 & A & AG2)]]; [left; auto|].
                     right. split; [exact EO|]. exists F2. split; [exact A|]. eapply agree_trans; eauto.
                 --- intros H. auto.
              ** exact HB.
           ++ (* ORet: no intact claim needed *)
              eexists; split; [reflexivity|]. split; [exact R|]. congruence.
        -- now rewrite HS.
    + red; intros n m i b N0 Xs Ys F Fs t0 W. simpl.
      destruct (m <=? i).
      * rewrite app_nil_r. exists F. auto using agree_refl.
      * pose proof (compound_ref f IHb n (Some i) b N0 Xs Ys F Fs t0 W) as C.
        destruct (scope_close (sexec_b f p n (Some i) b [] [])) as [[o t]|].
        -- destruct C as (F1 & C & AG1). rewrite C. destruct o.
           ++ pose proof (IHl n m (S i) b N0 Xs Ys F1 Fs (t0 ++ t) W) as L.
              destruct (sloop f p n m (S i) b) as [[o2 t2]|]; [|exact L].
              destruct L as (F2 & L & AG2). exists F2. rewrite L, app_assoc. split; auto. eapply agree_trans; eauto.
           ++ exists F1. auto.
           ++ exists F1. auto.
           ++ pose proof (IHl n m (S i) b N0 Xs Ys F1 Fs (t0 ++ t) W) as L.
              destruct (sloop f p n m (S i) b) as [[o2 t2]|]; [|exact L].
              destruct L as (F2 & L & AG2). exists F2. rewrite L, app_assoc. split; auto. eapply agree_trans; eauto.
        -- now rewrite C.
Qed.

Lemma run_ref : forall fuel n0,
  match srun fuel p n0 with
  | None => mrun fuel p n0 = None
  | Some (true, t) => mrun fuel p n0 = Some (true, mk [] [[]] [[]] t)
  | Some (false, t) => exists st, mrun fuel p n0 = Some (false, st) /\ tr st = t
  end.
Proof.
  intros fuel n0. unfold srun, mrun, init_state, push_scope; simpl.
  destruct (ref_all fuel) as (_ & HF & _).
  specialize (HF n0 None (body p 0) [] [] [] [] [] [[]] [] [[]] []
                 (wf_body p 0 WFP) (NoDup_nil _) (fun x H => match H with end) (Forall2_nil _)).
  destruct (sexec_b fuel p n0 None (body p 0) [] []) as [[[[o t] D'] T']|].
  - destruct HF as (st' & E & R & N).
    match goal with |- context [mexec_b ?a ?b ?c ?d ?e ?st] =>
      let X := fresh in assert (X : mexec_b a b c d e st = Some (o, st')) by exact E; rewrite X end.
    destruct o.
    + erewrite rel_close_scope by eassumption. reflexivity.
    + erewrite rel_close_scope by eassumption. reflexivity.
    + destruct (N ltac:(discriminate)) as (Tm' & F' & -> & _). eexists; split; reflexivity.
    + destruct (N ltac:(discriminate)) as (Tm' & F' & -> & _). eexists; split; reflexivity.
  - match goal with |- context [mexec_b ?a ?b ?c ?d ?e ?st] =>
      let X := fresh in assert (X : mexec_b a b c d e st = None) by exact HF; now rewrite X end.
Qed.
End Ref.

(* ---- corollaries, for every program without re-declared live names *)

(* what a call prints is the callee's body closed as a Spec scope: a function of the callee (and the
   depth argument) alone - whatever the caller's pending objects are called - and the caller's state is
   handed back untouched *)
Lemma call_transcript : forall p, wf_prog p = true -> forall fuel n it g D Tm Ds Ts F Fs t0 o st',
  mexec (S fuel) p n it (SCall g) (mk (D :: Ds) (Tm :: Ts) (F :: Fs) t0) = Some (o, st') ->
  exists o1 t, scope_close (sexec_b fuel p (pred n) None (body p g) [] []) = Some (o1, t) /\
               o = call_outcome o1 /\ st' = mk (D :: Ds) (Tm :: Ts) (F :: Fs) (t0 ++ t).
Proof.
  intros p W fuel n it g D Tm Ds Ts F Fs t0 o st' E.
  destruct (ref_all p W fuel) as (_ & HPb & _).
  pose proof (HPb (pred n) None (body p g) [] [] [] [] (D :: Ds) (Tm :: Ts) [] (F :: Fs) t0
                  (wf_body p g W) (NoDup_nil _) (fun x H => match H with end) (Forall2_nil _)) as B.
  cbn [mexec] in E. unfold push_scope in E; cbn [dfs dts vars tr] in E.
  destruct (sexec_b fuel p (pred n) None (body p g) [] []) as [[[[o1 t] D'] T']|]; cbn [scope_close].
  - destruct B as (st1 & E1 & R & _).
    match type of E with context [mexec_b ?a ?b ?c ?d ?e ?st] =>
      let X := fresh in assert (X : mexec_b a b c d e st = Some (o1, st1)) by exact E1; rewrite X in E end.
    erewrite rel_close_scope in E by eassumption.
    rewrite guard_report_same in E by reflexivity.
    inversion E; subst. exists o1. eexists. split; [reflexivity|]. split; [reflexivity|].
    now rewrite <- app_assoc.
  - match type of E with context [mexec_b ?a ?b ?c ?d ?e ?st] =>
      let X := fresh in assert (X : mexec_b a b c d e st = None) by exact B; rewrite X in E end.
    discriminate.
Qed.

(* leaving a block - by whatever outcome - appends the block's reached defers LIFO, THEN its objects'
   destructors LIFO, after everything the block itself printed; the slots of the names N0 of the
   enclosing blocks are not touched *)
Lemma block_exit_order : forall p, wf_prog p = true -> forall fuel n it b N0 Xs Ys F Fs t0 o st',
  wf_b [] N0 b = true ->
  mexec (S fuel) p n it (SBlock b) (mk Xs Ys (F :: Fs) t0) = Some (o, st') ->
  exists t D' T' F', sexec_b fuel p n it b [] [] = Some (o, t, D', T') /\
                     st' = mk Xs Ys (F' :: Fs) (t0 ++ t ++ map EDefer (rev D') ++ map dtor_ev (rev T')) /\
                     agree N0 F F'.
Proof.
  intros p W fuel n it b N0 Xs Ys F Fs t0 o st' WB E. cbn [mexec] in E.
  destruct (ref_all p W fuel) as (_ & HPb & _).
  pose proof (compound_ref p fuel HPb n it b N0 Xs Ys F Fs t0 WB) as C.
  destruct (sexec_b fuel p n it b [] []) as [[[[o1 t] D'] T']|]; simpl in C.
  - destruct C as (F' & C & AG). rewrite C in E. inversion E; subst. exists t, D', T', F'. auto.
  - rewrite C in E. discriminate.
Qed.
