(* C06 - closed forms of the cleanup.cpp / interpreter.cpp primitives of Model.v *)
From Coq Require Import List Arith Bool Lia.
Import ListNotations.
From Cb Require Import C06.Model.

Lemma emit_nil : forall st, emit [] st = st.
Proof. destruct st; unfold emit; simpl. now rewrite app_nil_r. Qed.

Lemma emit_emit : forall a b st, emit a (emit b st) = emit (b ++ a) st.
Proof. destruct st; unfold emit; simpl. now rewrite app_assoc. Qed.

Lemma emit_mk : forall es a b c t, emit es (mk a b c t) = mk a b c (t ++ es).
Proof. reflexivity. Qed.

(* ------------------------------------------------------------------ names, frames *)
Lemma name_eqb_eq : forall a b, name_eqb a b = true <-> a = b.
Proof.
  destruct a, b; simpl; split; intro H; try discriminate; try congruence.
  - apply Nat.eqb_eq in H. now subst.
  - inversion H. apply Nat.eqb_refl.
  - apply Nat.eqb_eq in H. now subst.
  - inversion H. apply Nat.eqb_refl.
Qed.

Lemma name_eqb_refl : forall a, name_eqb a a = true.
Proof. intros. now apply name_eqb_eq. Qed.

Lemma name_eqb_neq : forall a b, a <> b -> name_eqb a b = false.
Proof. intros a b H. destruct (name_eqb a b) eqn:E; auto. apply name_eqb_eq in E. contradiction. Qed.

Lemma name_eq_dec : forall a b : name, {a = b} + {a <> b}.
Proof. decide equality; apply Nat.eq_dec. Defined.

Lemma mem_name_false : forall x l, mem_name x l = false <-> ~ In x l.
Proof.
  induction l as [|y l IH]; simpl; split; auto.
  - intros H [E|E].
    + subst. now rewrite name_eqb_refl in H.
    + apply orb_false_iff in H. destruct H as [_ H]. now apply IH in H.
  - intros H. apply orb_false_iff. split.
    + apply name_eqb_neq. intro E. apply H. left. now subst.
    + apply IH. intro E. apply H. now right.
Qed.

Lemma lookup_cons_other : forall F x y v, x <> y -> lookup ((y, v) :: F) x = lookup F x.
Proof. intros. simpl. now rewrite name_eqb_neq. Qed.

Lemma lookup_cons_same : forall F x v, lookup ((x, v) :: F) x = Some v.
Proof. intros. simpl. now rewrite name_eqb_refl. Qed.

Lemma lookup_set_flag_other : forall F x y, x <> y -> lookup (set_flag F x) y = lookup F y.
Proof.
  induction F as [|[z [k b]] F IH]; intros x y H; simpl; auto.
  destruct (name_eqb x z) eqn:E; simpl.
  - apply name_eqb_eq in E. subst z. now rewrite !name_eqb_neq by congruence.
  - destruct (name_eqb y z); auto.
Qed.

Lemma lookup_set_flag_same : forall F x k b, lookup F x = Some (k, b) -> lookup (set_flag F x) x = Some (k, true).
Proof.
  induction F as [|[z [k' b']] F IH]; intros x k b H; simpl in *; [discriminate|].
  destruct (name_eqb x z) eqn:E; simpl; rewrite E.
  - inversion H; subst. reflexivity.
  - eauto.
Qed.

(* domain of a frame is not changed by setting a flag *)
Lemma lookup_set_flag_none : forall F x y, lookup (set_flag F x) y = None <-> lookup F y = None.
Proof.
  induction F as [|[z [k b]] F IH]; intros x y; simpl; [tauto|].
  destruct (name_eqb x z) eqn:E; simpl.
  - destruct (name_eqb y z); [split; discriminate|tauto].
  - destruct (name_eqb y z); [split; discriminate|apply IH].
Qed.

Definition flag_names (F : frame) (l : list name) : frame := fold_left set_flag l F.

Lemma lookup_flag_names_other : forall l F y, ~ In y l -> lookup (flag_names F l) y = lookup F y.
Proof.
  induction l as [|x l IH]; intros F y H; simpl; auto.
  unfold flag_names in *; simpl. rewrite IH by (intro; apply H; now right).
  apply lookup_set_flag_other. intro; apply H; now left.
Qed.

Lemma lookup_flag_names_none : forall l F y, lookup (flag_names F l) y = None <-> lookup F y = None.
Proof.
  induction l as [|x l IH]; intros F y; simpl; [tauto|].
  unfold flag_names in *; simpl. rewrite IH. apply lookup_set_flag_none.
Qed.

Lemma find_var_top : forall F Fs x v, lookup F x = Some v -> find_var (F :: Fs) x = Some v.
Proof. intros. simpl. now rewrite H. Qed.

Lemma mark_var_top : forall F Fs x v, lookup F x = Some v -> mark_var (F :: Fs) x = set_flag F x :: Fs.
Proof. intros. simpl. now rewrite H. Qed.

(* ------------------------------------------------------------------ call_destructor *)
(* its own push_scope / pop_scope cancel; the guard decides *)
Lemma call_destructor_eq : forall x t st,
  call_destructor x t st =
  match find_var (vars st) x with
  | Some (k, false) => mk (dfs st) (dts st) (mark_var (vars st) x) (tr st ++ [EDtor t k])
  | _ => st
  end.
Proof.
  intros x t [a b c tr0]. unfold call_destructor; simpl.
  destruct (find_var c x) as [[k [|]]|]; auto.
  unfold pop_scope_in_destructor, pop_defer_scope, push_scope, emit; simpl.
  now rewrite app_nil_r.
Qed.

Lemma call_destructor_live : forall x t a b F Fs tr0 k,
  lookup F x = Some (k, false) ->
  call_destructor x t (mk a b (F :: Fs) tr0) = mk a b (set_flag F x :: Fs) (tr0 ++ [EDtor t k]).
Proof.
  intros. rewrite call_destructor_eq; simpl. rewrite H. reflexivity.
Qed.

(* a pending level and the objects it stands for: every entry names a live (not yet destroyed) slot
   of the frame *)
Definition names (Tm : list (name * ty)) : list name := map fst Tm.

Definition ent_ok (F : frame) (e : name * ty) (r : ty * nat) : Prop :=
  snd e = fst r /\ lookup F (fst e) = Some (snd r, false).

Definition lvl_ok (F : frame) (Tm : list (name * ty)) (T : list (ty * nat)) : Prop :=
  Forall2 (ent_ok F) Tm T.

Lemma Forall2_rev_ : forall A B (R : A -> B -> Prop) l l', Forall2 R l l' -> Forall2 R (rev l) (rev l').
Proof.
  induction 1; simpl; [constructor|].
  apply Forall2_app; auto.
Qed.

Lemma lvl_ok_change : forall F F' Tm T, lvl_ok F Tm T ->
  (forall x, In x (names Tm) -> lookup F' x = lookup F x) -> lvl_ok F' Tm T.
Proof.
  induction 1 as [|e r Tm T [H1 H2] H IH]; intros A; constructor.
  - split; auto. rewrite A; auto. now left.
  - apply IH. intros x Hx. apply A. now right.
Qed.

Lemma fold_call_destructor : forall m m' a b F Fs t,
  Forall2 (ent_ok F) m m' -> NoDup (names m) ->
  fold_left (fun s e => call_destructor (fst e) (snd e) s) m (mk a b (F :: Fs) t) =
  mk a b (flag_names F (names m) :: Fs) (t ++ map dtor_ev m').
Proof.
  induction m as [|e m IH]; intros m' a b F Fs t H ND; inversion H; subst; simpl.
  - now rewrite app_nil_r.
  - destruct H2 as [E1 E2]. inversion ND; subst.
    rewrite (call_destructor_live _ _ _ _ _ _ _ _ E2).
    rewrite (IH l').
    + unfold flag_names; simpl. f_equal. rewrite <- app_assoc. simpl. unfold dtor_ev at 2. now rewrite E1.
    + eapply lvl_ok_change; [exact H4|]. intros x Hx. apply lookup_set_flag_other. intro; subst; contradiction.
    + assumption.
Qed.

Lemma names_rev : forall Tm, names (rev Tm) = rev (names Tm).
Proof. intros; unfold names; apply map_rev. Qed.

Lemma names_app : forall a b, names (a ++ b) = names a ++ names b.
Proof. intros; unfold names; apply map_app. Qed.

Lemma run_destructors_ok : forall Tm T a b F Fs t, lvl_ok F Tm T -> NoDup (names Tm) ->
  run_destructors Tm (mk a b (F :: Fs) t) =
  mk a b (flag_names F (rev (names Tm)) :: Fs) (t ++ map dtor_ev (rev T)).
Proof.
  intros. unfold run_destructors. rewrite <- names_rev.
  apply fold_call_destructor.
  - now apply Forall2_rev_.
  - rewrite names_rev. now apply NoDup_rev.
Qed.

(* general forms, by the shape of the two stacks *)
Lemma pop_defer_scope_cons : forall l r b c t,
  pop_defer_scope (mk (l :: r) b c t) = mk r b c (t ++ map EDefer (rev l)).
Proof. reflexivity. Qed.

Lemma pop_defer_scope_nil : forall b c t, pop_defer_scope (mk [] b c t) = mk [] b c t.
Proof. reflexivity. Qed.

Lemma pop_destructor_scope_cc : forall D Ds Tm T Ts F Fs t, lvl_ok F Tm T -> NoDup (names Tm) ->
  pop_destructor_scope (mk (D :: Ds) (Tm :: Ts) (F :: Fs) t) =
  mk Ds Ts (flag_names F (rev (names Tm)) :: Fs) (t ++ map EDefer (rev D) ++ map dtor_ev (rev T)).
Proof.
  intros. unfold pop_destructor_scope. rewrite pop_defer_scope_cons; simpl.
  erewrite run_destructors_ok by eassumption. now rewrite app_assoc.
Qed.

Lemma pop_destructor_scope_empty : forall D Ds Ts c t,
  pop_destructor_scope (mk (D :: Ds) ([] :: Ts) c t) = mk Ds Ts c (t ++ map EDefer (rev D)).
Proof. reflexivity. Qed.

Lemma pop_scope_cc : forall D Ds Tm T Ts F Fs t, lvl_ok F Tm T -> NoDup (names Tm) ->
  pop_scope (mk (D :: Ds) (Tm :: Ts) (F :: Fs) t) =
  mk Ds Ts Fs (t ++ map EDefer (rev D) ++ map dtor_ev (rev T)).
Proof. intros. unfold pop_scope. erewrite pop_destructor_scope_cc by eassumption. reflexivity. Qed.

Lemma pop_scope_unfold : forall st,
  pop_scope st = let st1 := pop_destructor_scope st in mk (dfs st1) (dts st1) (tl (vars st1)) (tr st1).
Proof. reflexivity. Qed.

(* declaration of an object: the constructor's own scope cancels *)
Lemma declare_obj_eq : forall x t id st,
  declare_obj x t id st = emit (map ctor_ev (obj_parts t id)) (register_obj x t (bind_obj x t id st)).
Proof.
  intros x t id [a b c tr0]. unfold declare_obj, register_obj, bind_obj, register_destructor; simpl.
  destruct c as [|F Fs]; destruct b as [|l r]; destruct t; simpl;
    unfold pop_scope, pop_destructor_scope, pop_defer_scope, push_scope, emit; simpl;
    now rewrite ?app_nil_r.
Qed.

Lemma declare_obj_cc : forall x t id a Tm Ts F Fs tr0,
  declare_obj x t id (mk a (Tm :: Ts) (F :: Fs) tr0) =
  mk a ((Tm ++ obj_entries x t) :: Ts) (obj_slots F x t id :: Fs) (tr0 ++ map ctor_ev (obj_parts t id)).
Proof.
  intros. rewrite declare_obj_eq. unfold register_obj, bind_obj, register_destructor, emit; simpl.
  destruct t; simpl; rewrite <- ?app_assoc; reflexivity.
Qed.

Lemma defer_stmt_cc : forall k D Ds b c t,
  defer_stmt k (mk (D :: Ds) b c t) = mk ((D ++ [k]) :: Ds) b c (t ++ [EReg k]).
Proof. reflexivity. Qed.

(* execute_pre_return_cleanup: both innermost lists run (defers, then destructors) and left EMPTY in place *)
Lemma pre_return_cleanup_cc : forall D Ds Tm T Ts F Fs t, lvl_ok F Tm T -> NoDup (names Tm) ->
  pre_return_cleanup (mk (D :: Ds) (Tm :: Ts) (F :: Fs) t) =
  mk ([] :: Ds) ([] :: Ts) (flag_names F (rev (names Tm)) :: Fs) (t ++ map EDefer (rev D) ++ map dtor_ev (rev T)).
Proof.
  intros D Ds Tm T Ts F Fs t H ND. unfold pre_return_cleanup.
  assert (R : forall a tt, match Tm with
              | _ :: _ => run_destructors Tm (mk a ([] :: Ts) (F :: Fs) tt)
              | [] => mk a (Tm :: Ts) (F :: Fs) tt end =
              mk a ([] :: Ts) (flag_names F (rev (names Tm)) :: Fs) (tt ++ map dtor_ev (rev T))).
  { intros a tt. destruct Tm as [|e Tm'].
    - inversion H; subst. simpl. now rewrite app_nil_r.
    - now apply run_destructors_ok. }
  destruct D as [|d D']; simpl.
  - specialize (R ([] :: Ds) t). destruct Tm; simpl in *; rewrite R; reflexivity.
  - specialize (R ([] :: Ds) (t ++ map EDefer (rev D' ++ [d]))).
    unfold emit; simpl. destruct Tm; simpl in *; rewrite R; now rewrite <- app_assoc.
Qed.

Lemma guard_report_same : forall g a b c t a' b' c' t',
  length a = length a' -> length b = length b' -> length c = length c' ->
  guard_report g (mk a b c t) (mk a' b' c' t') = mk a' b' c' t'.
Proof.
  intros. unfold guard_report, depths_differ; simpl. rewrite H, H0, H1. now rewrite !Nat.eqb_refl.
Qed.
