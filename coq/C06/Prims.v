(* C06 - closed forms of the cleanup.cpp primitives of Model.v *)
From Coq Require Import List Arith Bool Lia.
Import ListNotations.
From Cb Require Import C06.Model.

Lemma emit_nil : forall st, emit [] st = st.
Proof. destruct st; unfold emit; simpl. now rewrite app_nil_r. Qed.

Lemma emit_emit : forall a b st, emit a (emit b st) = emit (b ++ a) st.
Proof. destruct st; unfold emit; simpl. now rewrite app_assoc. Qed.

Lemma emit_mk : forall es a b c t, emit es (mk a b c t) = mk a b c (t ++ es).
Proof. reflexivity. Qed.

(* call_destructor: its own push_scope / pop_scope cancel *)
Lemma call_destructor_eq : forall k st, call_destructor k st = emit [EDtor k] st.
Proof.
  destruct st; unfold call_destructor, pop_scope_in_destructor, pop_defer_scope, push_scope, emit; simpl.
  now rewrite app_nil_r.
Qed.

Lemma fold_call_destructor : forall m st,
  fold_left (fun s k => call_destructor k s) m st = emit (map EDtor m) st.
Proof.
  induction m; intros; simpl.
  - now rewrite emit_nil.
  - rewrite IHm, call_destructor_eq, emit_emit. reflexivity.
Qed.

Lemma run_destructors_eq : forall l st, run_destructors l st = emit (map EDtor (rev l)) st.
Proof. intros; unfold run_destructors; apply fold_call_destructor. Qed.

(* general forms, by the shape of the two stacks *)
Lemma pop_defer_scope_cons : forall l r b c t,
  pop_defer_scope (mk (l :: r) b c t) = mk r b c (t ++ map EDefer (rev l)).
Proof. reflexivity. Qed.

Lemma pop_defer_scope_nil : forall b c t, pop_defer_scope (mk [] b c t) = mk [] b c t.
Proof. reflexivity. Qed.

Lemma pop_destructor_scope_cc : forall D Ds T Ts c t,
  pop_destructor_scope (mk (D :: Ds) (T :: Ts) c t) =
  mk Ds Ts c (t ++ map EDefer (rev D) ++ map EDtor (rev T)).
Proof.
  intros. unfold pop_destructor_scope. rewrite pop_defer_scope_cons; simpl.
  rewrite run_destructors_eq; simpl. now rewrite app_assoc.
Qed.

Lemma pop_scope_cc : forall D Ds T Ts c t,
  pop_scope (mk (D :: Ds) (T :: Ts) c t) =
  mk Ds Ts (pred c) (t ++ map EDefer (rev D) ++ map EDtor (rev T)).
Proof. intros. unfold pop_scope. now rewrite pop_destructor_scope_cc. Qed.

Lemma pop_scope_unfold : forall st,
  pop_scope st = let st1 := pop_destructor_scope st in mk (dfs st1) (dts st1) (pred (scd st1)) (tr st1).
Proof. reflexivity. Qed.

(* declaration of an object: the constructor's own scope cancels *)
Lemma declare_obj_eq : forall k st, declare_obj k st = emit [ECtor k] (register_destructor k st).
Proof.
  intros k [a b c t]. unfold declare_obj, register_destructor; simpl.
  destruct b as [|l r]; unfold push_scope, emit; simpl; rewrite pop_scope_cc; simpl;
    now rewrite app_nil_r.
Qed.

Lemma declare_obj_cc : forall k a T Ts c t,
  declare_obj k (mk a (T :: Ts) c t) = mk a ((T ++ [k]) :: Ts) c (t ++ [ECtor k]).
Proof. intros. now rewrite declare_obj_eq. Qed.

Lemma defer_stmt_cc : forall k D Ds b c t,
  defer_stmt k (mk (D :: Ds) b c t) = mk ((D ++ [k]) :: Ds) b c (t ++ [EReg k]).
Proof. reflexivity. Qed.

(* execute_pre_return_cleanup: both innermost lists run (defers, then destructors) and left EMPTY in place *)
Lemma pre_return_cleanup_cc : forall D Ds T Ts c t,
  pre_return_cleanup (mk (D :: Ds) (T :: Ts) c t) =
  mk ([] :: Ds) ([] :: Ts) c (t ++ map EDefer (rev D) ++ map EDtor (rev T)).
Proof.
  intros. unfold pre_return_cleanup.
  destruct D as [|d D], T as [|x T]; simpl; rewrite ?run_destructors_eq; unfold emit; simpl;
    rewrite ?app_nil_r, <- ?app_assoc; reflexivity.
Qed.

Lemma guard_report_same : forall g a b c t t',
  guard_report g (mk a b c t) (mk a b c t') = mk a b c t'.
Proof.
  intros. unfold guard_report, depths_differ; simpl. now rewrite !Nat.eqb_refl.
Qed.
