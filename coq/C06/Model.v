(* C06 - cleanup stacks of the Cb interpreter: skeleton language, Mech model, Spec.

   Mech mirrors, function by function, what the C++ does (HEAD with the three `fix:` commits
   52ea7be [#43], 605aa41 [#11], c388113 [#44]; the machine of the code BEFORE those commits is kept in
   Pinned.v for the record) with its two parallel cleanup
   stacks (src/backend/interpreter/core/interpreter.h:756 defer_stacks_, :760 destructor_stacks_):

     cleanup.cpp            push_scope / pop_scope / push_destructor_scope / pop_destructor_scope /
                            push_defer_scope / pop_defer_scope / add_defer / execute_pre_return_cleanup
     interpreter.cpp        call_destructor, register_destructor_call, call_constructor, process (main)
     initialization.cpp:151 destructor_stacks_ starts with one (global) level, defer_stacks_ empty
     statement_list_executor.cpp  execute_statement_list, execute_compound_statement (4 catch arms)
     control_flow_executor.cpp    execute_if_statement, execute_for_statement / execute_while_statement
     handlers/control/return.cpp  execute_return_statement
     evaluator/functions/call_impl.cpp  user function call: push_scope ... pop_scope on every path,
                            CbvStackGuard (hook CB_VERIF_STACKS) reporting a call that leaves the stacks
                            at another depth
     managers/variables/declaration.cpp:2413  register_destructor_call before the constructor call

   Spec is the structural reading of the property text: leaving a scope by any path runs that scope's
   reached defers LIFO, then its objects' destructors LIFO; inner scopes before outer; a call's cleanup
   is a function of the callee alone.

   Everything is total and computable; evaluation is fuelled (the fuel bounds the recursion depth, it is
   decremented at every recursive call, Mech and Spec consume it identically). *)
From Coq Require Import List Arith Bool.
Import ListNotations.

(* ------------------------------------------------------------------ skeleton language *)
Inductive cond : Type :=
| CTrue | CFalse
| CIter (j : nat).          (* "counter of the innermost enclosing loop of this function == j" *)

Inductive stmt : Type :=
| SObj (k : nat)            (* R o<k>(<k>);   struct object with tracing constructor/destructor *)
| SDefer (k : nat)          (* println("reg", k); defer println("defer", k); *)
| SMark (k : nat)           (* println("mark", k); *)
| SBlock (b : block)        (* { ... } *)
| SIf (c : cond) (t e : block)   (* if (c) { t } else { e }   (no else part printed when e is empty) *)
| SLoop (n : nat) (b : block)    (* for (int i = 0; i < n; i++) { b }  /  while form *)
| SCall (f : nat)           (* f<f>(); *)
| SRet | SBrk | SCont
with block : Type :=
| BNil
| BCons (s : stmt) (r : block).

Definition prog := list block.     (* function bodies; function 0 is main *)

Inductive event : Type :=
| ECtor (k : nat) | EDtor (k : nat) | EReg (k : nat) | EDefer (k : nat) | EMark (k : nat)
| EImb (f d0 d1 t0 t1 s0 s1 : nat).   (* hook line "CBV call-imbalance fn=f defer=d0->d1 dtor=t0->t1 scopes=s0->s1" *)

Inductive outcome : Type := ONormal | ORet | OBrk | OCont.   (* normal / Return- / Break- / ContinueException *)

Definition cond_true (it : option nat) (c : cond) : bool :=
  match c with
  | CTrue => true
  | CFalse => false
  | CIter j => match it with Some i => Nat.eqb i j | None => false end
  end.

Definition body (p : prog) (f : nat) : block := nth f p BNil.

(* ------------------------------------------------------------------ Mech: state and cleanup.cpp *)
Record state : Type := mk {
  dfs : list (list nat);     (* defer_stacks_; head = back(); a level lists defer ids in push_back order *)
  dts : list (list nat);     (* destructor_stacks_; a level lists object ids in push_back order *)
  scd : nat;                 (* scope_stack.size() *)
  tr  : list event           (* stdout transcript (+ hook lines), oldest first *)
}.

Definition emit (es : list event) (st : state) : state :=
  mk (dfs st) (dts st) (scd st) (tr st ++ es).

(* cleanup.cpp: push_defer_scope *)
Definition push_defer_scope (st : state) : state :=
  mk ([] :: dfs st) (dts st) (scd st) (tr st).

(* cleanup.cpp: pop_defer_scope - empty stack: return; else copy back(), pop_back, run reversed *)
Definition pop_defer_scope (st : state) : state :=
  match dfs st with
  | [] => st
  | l :: r => emit (map EDefer (rev l)) (mk r (dts st) (scd st) (tr st))
  end.

(* cleanup.cpp: add_defer *)
Definition add_defer (k : nat) (st : state) : state :=
  match dfs st with
  | [] => st
  | l :: r => mk ((l ++ [k]) :: r) (dts st) (scd st) (tr st)
  end.

(* cleanup.cpp: push_scope (variable scope + defer level + destructor level) *)
Definition push_scope (st : state) : state :=
  mk ([] :: dfs st) ([] :: dts st) (S (scd st)) (tr st).

(* cleanup.cpp: push_destructor_scope (no variable scope) *)
Definition push_destructor_scope (st : state) : state :=
  mk ([] :: dfs st) ([] :: dts st) (scd st) (tr st).

(* cleanup.cpp: pop_scope while is_calling_destructor_ is set: the destructor level is popped without
   running anything, then pop_defer_scope, then the variable scope *)
Definition pop_scope_in_destructor (st : state) : state :=
  let st1 := pop_defer_scope (mk (dfs st) (tl (dts st)) (scd st) (tr st)) in
  mk (dfs st1) (dts st1) (pred (scd st1)) (tr st1).

(* interpreter.cpp: call_destructor - sets is_calling_destructor_, push_scope, runs the body
   (println("dtor", self.id)), pop_scope.  The destructor_called guard is never hit in this language
   (theorem each_object_at_most_once). *)
Definition call_destructor (k : nat) (st : state) : state :=
  pop_scope_in_destructor (emit [EDtor k] (push_scope st)).

Definition run_destructors (l : list nat) (st : state) : state :=
  fold_left (fun s k => call_destructor k s) (rev l) st.

(* cleanup.cpp: pop_destructor_scope - pop_defer_scope FIRST (fix 52ea7be), then the destructors of
   back() reversed *)
Definition pop_destructor_scope (st : state) : state :=
  let st1 := pop_defer_scope st in
  match dts st1 with
  | [] => st1
  | l :: r => run_destructors l (mk (dfs st1) r (scd st1) (tr st1))
  end.

(* cleanup.cpp: pop_scope - same, then variable_manager_->pop_scope() *)
Definition pop_scope (st : state) : state :=
  let st1 := pop_destructor_scope st in
  mk (dfs st1) (dts st1) (pred (scd st1)) (tr st1).

(* cleanup.cpp: execute_pre_return_cleanup (fix 605aa41) - innermost defers: copied, the level is
   CLEARED (not popped), run reversed; then innermost destructors: copied, level cleared, run reversed;
   each half only when its list is non-empty *)
Definition pre_return_cleanup (st : state) : state :=
  let st1 := match dfs st with
             | ((_ :: _) as l) :: r => emit (map EDefer (rev l)) (mk ([] :: r) (dts st) (scd st) (tr st))
             | _ => st
             end in
  match dts st1 with
  | ((_ :: _) as l) :: r => run_destructors l (mk (dfs st1) ([] :: r) (scd st1) (tr st1))
  | _ => st1
  end.

(* interpreter.cpp: register_destructor_call - nothing when the stack is empty *)
Definition register_destructor (k : nat) (st : state) : state :=
  match dts st with
  | [] => st
  | l :: r => mk (dfs st) ((l ++ [k]) :: r) (scd st) (tr st)
  end.

(* declaration.cpp:2413 + interpreter.cpp call_constructor: register, then push_scope, constructor
   body (println("ctor", k)), pop_scope *)
Definition declare_obj (k : nat) (st : state) : state :=
  pop_scope (emit [ECtor k] (push_scope (register_destructor k st))).

(* println("reg", k); defer println("defer", k); *)
Definition defer_stmt (k : nat) (st : state) : state :=
  add_defer k (emit [EReg k] st).

(* statement_list_executor.cpp: execute_compound_statement - every one of the four arms pops *)
Definition compound_close (r : option (outcome * state)) : option (outcome * state) :=
  match r with
  | None => None
  | Some (o, st) => Some (o, pop_destructor_scope st)
  end.

(* call_impl.cpp: CbvStackGuard *)
Definition depths_differ (a b : state) : bool :=
  negb (Nat.eqb (length (dfs a)) (length (dfs b)) &&
        Nat.eqb (length (dts a)) (length (dts b)) &&
        Nat.eqb (scd a) (scd b)).

Definition guard_report (f : nat) (before after : state) : state :=
  if depths_differ before after
  then emit [EImb f (length (dfs before)) (length (dfs after))
                    (length (dts before)) (length (dts after)) (scd before) (scd after)] after
  else after.

(* call_impl.cpp: normal end and ReturnException end the call; Break/Continue leave through
   catch (...) { pop_scope(); throw; } *)
Definition call_outcome (o : outcome) : outcome :=
  match o with ORet => ONormal | _ => o end.

Fixpoint mexec (fuel : nat) (p : prog) (it : option nat) (s : stmt) (st : state)
  : option (outcome * state) :=
  match fuel with
  | O => None
  | S f =>
    match s with
    | SObj k => Some (ONormal, declare_obj k st)
    | SDefer k => Some (ONormal, defer_stmt k st)
    | SMark k => Some (ONormal, emit [EMark k] st)
    | SBlock b => compound_close (mexec_b f p it b (push_destructor_scope st))
    | SIf c t e =>
        if cond_true it c then compound_close (mexec_b f p it t (push_destructor_scope st))
        else match e with
             | BNil => Some (ONormal, st)
             | _ => compound_close (mexec_b f p it e (push_destructor_scope st))
             end
    | SLoop n b =>
        (* control_flow_executor.cpp: push_defer_scope; iterations; pop_defer_scope - also in the
           ReturnException arm of both loop executors (fix c388113) *)
        match mloop f p n 0 b (push_defer_scope st) with
        | None => None
        | Some (ORet, st') => Some (ORet, pop_defer_scope st')
        | Some (_, st') => Some (ONormal, pop_defer_scope st')
        end
    | SCall g =>
        match mexec_b f p None (body p g) (push_scope st) with
        | None => None
        | Some (o, st') => Some (call_outcome o, guard_report g st (pop_scope st'))
        end
    | SRet => Some (ORet, pre_return_cleanup st)
    | SBrk => Some (OBrk, st)
    | SCont => Some (OCont, st)
    end
  end
with mexec_b (fuel : nat) (p : prog) (it : option nat) (b : block) (st : state)
  : option (outcome * state) :=
  match fuel with
  | O => None
  | S f =>
    match b with
    | BNil => Some (ONormal, st)
    | BCons s r =>
        match mexec f p it s st with
        | None => None
        | Some (ONormal, st') => mexec_b f p it r st'
        | Some (o, st') => Some (o, st')
        end
    end
  end
with mloop (fuel : nat) (p : prog) (n i : nat) (b : block) (st : state)
  : option (outcome * state) :=
  match fuel with
  | O => None
  | S f =>
    if n <=? i then Some (ONormal, st)
    else match compound_close (mexec_b f p (Some i) b (push_destructor_scope st)) with
         | None => None
         | Some (ONormal, st') => mloop f p n (S i) b st'
         | Some (OCont, st') => mloop f p n (S i) b st'
         | Some (OBrk, st') => Some (ONormal, st')
         | Some (ORet, st') => Some (ORet, st')
         end
  end.

(* initialization.cpp:151 *)
Definition init_state : state := mk [] [[]] 1 [].

(* interpreter.cpp Interpreter::process: push_scope; body; pop_scope (also in the ReturnException arm).
   A Break/Continue that escapes is not caught: the run aborts (flag false, nothing popped). *)
Definition mrun (fuel : nat) (p : prog) : option (bool * state) :=
  match mexec_b fuel p None (body p 0) (push_scope init_state) with
  | None => None
  | Some (ONormal, st) => Some (true, pop_scope st)
  | Some (ORet, st) => Some (true, pop_scope st)
  | Some (_, st) => Some (false, st)
  end.

(* ------------------------------------------------------------------ Spec: structural cleanup order *)
Definition sres := (outcome * list event * list nat * list nat)%type.

(* a scope is left (by whatever outcome): its reached defers LIFO, then its objects LIFO *)
Definition scope_close (r : option sres) : option (outcome * list event) :=
  match r with
  | None => None
  | Some (o, t, D, T) => Some (o, t ++ map EDefer (rev D) ++ map EDtor (rev T))
  end.

Definition lift_scope (r : option (outcome * list event)) (D T : list nat) : option sres :=
  match r with
  | None => None
  | Some (o, t) => Some (o, t, D, T)
  end.

(* D, T: the defers reached / objects constructed so far in the CURRENT scope *)
Fixpoint sexec (fuel : nat) (p : prog) (it : option nat) (s : stmt) (D T : list nat) : option sres :=
  match fuel with
  | O => None
  | S f =>
    match s with
    | SObj k => Some (ONormal, [ECtor k], D, T ++ [k])
    | SDefer k => Some (ONormal, [EReg k], D ++ [k], T)
    | SMark k => Some (ONormal, [EMark k], D, T)
    | SBlock b => lift_scope (scope_close (sexec_b f p it b [] [])) D T
    | SIf c t e =>
        if cond_true it c then lift_scope (scope_close (sexec_b f p it t [] [])) D T
        else match e with
             | BNil => Some (ONormal, [], D, T)
             | _ => lift_scope (scope_close (sexec_b f p it e [] [])) D T
             end
    | SLoop n b =>
        match sloop f p n 0 b with
        | None => None
        | Some (ORet, t) => Some (ORet, t, D, T)
        | Some (_, t) => Some (ONormal, t, D, T)
        end
    | SCall g =>
        match scope_close (sexec_b f p None (body p g) [] []) with
        | None => None
        | Some (o, t) => Some (call_outcome o, t, D, T)
        end
    | SRet => Some (ORet, [], D, T)
    | SBrk => Some (OBrk, [], D, T)
    | SCont => Some (OCont, [], D, T)
    end
  end
with sexec_b (fuel : nat) (p : prog) (it : option nat) (b : block) (D T : list nat) : option sres :=
  match fuel with
  | O => None
  | S f =>
    match b with
    | BNil => Some (ONormal, [], D, T)
    | BCons s r =>
        match sexec f p it s D T with
        | None => None
        | Some (ONormal, t, D', T') =>
            match sexec_b f p it r D' T' with
            | None => None
            | Some (o, t2, D2, T2) => Some (o, t ++ t2, D2, T2)
            end
        | Some (o, t, D', T') => Some (o, t, D', T')
        end
    end
  end
with sloop (fuel : nat) (p : prog) (n i : nat) (b : block) : option (outcome * list event) :=
  match fuel with
  | O => None
  | S f =>
    if n <=? i then Some (ONormal, [])
    else match scope_close (sexec_b f p (Some i) b [] []) with
         | None => None
         | Some (ONormal, t) =>
             match sloop f p n (S i) b with None => None | Some (o, t2) => Some (o, t ++ t2) end
         | Some (OCont, t) =>
             match sloop f p n (S i) b with None => None | Some (o, t2) => Some (o, t ++ t2) end
         | Some (OBrk, t) => Some (ONormal, t)
         | Some (ORet, t) => Some (ORet, t)
         end
  end.

(* whole program: main's body is a scope; an escaping Break/Continue is a run-time error (abort, no
   cleanup - not a scope exit in the sense of the property) *)
Definition srun (fuel : nat) (p : prog) : option (bool * list event) :=
  match sexec_b fuel p None (body p 0) [] [] with
  | None => None
  | Some (ONormal, t, D, T) => Some (true, t ++ map EDefer (rev D) ++ map EDtor (rev T))
  | Some (ORet, t, D, T) => Some (true, t ++ map EDefer (rev D) ++ map EDtor (rev T))
  | Some (_, t, D, T) => Some (false, t)
  end.

