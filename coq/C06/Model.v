(* C06 - cleanup stacks of the Cb interpreter: skeleton language, Mech model, Spec.

   Mech mirrors, function by function, what the C++ does (HEAD with the `fix:` commits
   52ea7be [#43], 605aa41 [#11], c388113 [#44] - the machine of the code BEFORE those three is kept in
   Pinned.v for the record - and the two later repairs of register_destructor_call [a registration resets
   destructor_called] and of the cleanup levels opened while a destructor runs) with its two parallel cleanup
   stacks (src/backend/interpreter/core/interpreter.h:756 defer_stacks_, :760 destructor_stacks_) AND the
   name-keyed part of the machinery: destructor_stacks_ holds (variable NAME, struct type) pairs, the
   object itself is found again at cleanup time by VariableManager::find_variable(name) through
   scope_stack, and double destruction is prevented by the flag Variable::destructor_called stored in
   that variable slot:

     cleanup.cpp            push_scope / pop_scope / push_destructor_scope / pop_destructor_scope /
                            push_defer_scope / pop_defer_scope / add_defer / execute_pre_return_cleanup
     interpreter.cpp        call_destructor (find_variable, destructor_called guard, own scope),
                            register_destructor_call (value members with a destructor first, then the
                            variable itself), call_constructor, process (main)
     managers/variables/manager.cpp   find_variable: scope_stack searched from the innermost scope to
                            the outermost one, ACROSS function activations
     initialization.cpp:151 destructor_stacks_ starts with one (global) level, defer_stacks_ empty
     statement_list_executor.cpp  execute_statement_list, execute_compound_statement (4 catch arms;
                            a block opens cleanup levels but NO variable scope)
     control_flow_executor.cpp    execute_if_statement, execute_for_statement / execute_while_statement
     handlers/control/return.cpp  execute_return_statement
     evaluator/functions/call_impl.cpp  user function call: push_scope ... pop_scope on every path,
                            CbvStackGuard (hook CB_VERIF_STACKS) reporting a call that leaves the stacks
                            at another depth
     managers/variables/declaration.cpp:2449  scope_vars.insert_or_assign(name) into the CURRENT variable
                            scope (= the function activation), :2465 register_destructor_call, then the
                            constructor call

   Spec is the structural reading of the property text on object IDENTITIES (variable names play no
   role): leaving a scope by any path runs that scope's reached defers LIFO, then its objects'
   destructors LIFO; inner scopes before outer; a call's cleanup is a function of the callee alone.

   Everything is total and computable; evaluation is fuelled (the fuel bounds the recursion depth, it is
   decremented at every recursive call, Mech and Spec consume it identically). *)
From Coq Require Import List Arith Bool.
Import ListNotations.

(* ------------------------------------------------------------------ skeleton language *)
(* struct types with a destructor: R and Q are plain; W has a value member `R r` (destroyed after W's
   own destructor body through the entry "<var>.r" that register_destructor_call pushes first) *)
Inductive ty : Type := TR | TQ | TW.

(* variable names as find_variable sees them: "x<i>" and the member path "x<i>.r" *)
Inductive name : Type := NVar (x : nat) | NMem (x : nat).

Definition ty_eqb (a b : ty) : bool :=
  match a, b with TR, TR | TQ, TQ | TW, TW => true | _, _ => false end.

Definition name_eqb (a b : name) : bool :=
  match a, b with
  | NVar x, NVar y => Nat.eqb x y
  | NMem x, NMem y => Nat.eqb x y
  | _, _ => false
  end.

Inductive cond : Type :=
| CTrue | CFalse
| CIter (j : nat)           (* "counter of the innermost enclosing loop of this function == j" *)
| CDepth.                   (* "n > 0": n is the depth parameter of the current function activation *)

Inductive stmt : Type :=
| SObj (x : nat) (t : ty) (k : nat)
                            (* T x<x>(k + 100 * n);  struct object with tracing constructor/destructor;
                               x is the VARIABLE NAME (small pool), k + 100 * n the object's identity *)
| SDefer (k : nat)          (* println("reg", k + 100 * n); defer println("defer", k + 100 * n); *)
| SMark (k : nat)           (* println("mark", k); *)
| SBlock (b : block)        (* { ... } *)
| SIf (c : cond) (t e : block)   (* if (c) { t } else { e }   (no else part printed when e is empty) *)
| SLoop (n : nat) (b : block)    (* for (int i = 0; i < n; i++) { b }  /  while form *)
| SCall (f : nat)           (* f<f>(n - 1);   any function, also the current one or main's callers *)
| SRet | SBrk | SCont
with block : Type :=
| BNil
| BCons (s : stmt) (r : block).

Definition prog := list block.     (* function bodies; function 0 is main *)

Inductive event : Type :=
| ECtor (t : ty) (k : nat) | EDtor (t : ty) (k : nat) | EReg (k : nat) | EDefer (k : nat) | EMark (k : nat)
| EImb (f d0 d1 t0 t1 s0 s1 : nat).   (* hook line "CBV call-imbalance fn=f defer=d0->d1 dtor=t0->t1 scopes=s0->s1" *)

Inductive outcome : Type := ONormal | ORet | OBrk | OCont.   (* normal / Return- / Break- / ContinueException *)

Definition cond_true (n : nat) (it : option nat) (c : cond) : bool :=
  match c with
  | CTrue => true
  | CFalse => false
  | CIter j => match it with Some i => Nat.eqb i j | None => false end
  | CDepth => negb (Nat.eqb n 0)
  end.

Definition body (p : prog) (f : nat) : block := nth f p BNil.

(* identity of the object / defer created by a statement with constant k in an activation with depth
   parameter n *)
Definition oid (n k : nat) : nat := k + 100 * n.

(* what one declaration creates: the sub-objects (type, identity) in construction order ... *)
Definition obj_parts (t : ty) (id : nat) : list (ty * nat) :=
  match t with
  | TW => [(TR, id + 50); (TW, id)]
  | _ => [(t, id)]
  end.
(* ... and the (variable name, type) entries register_destructor_call pushes, same order *)
Definition obj_entries (x : nat) (t : ty) : list (name * ty) :=
  match t with
  | TW => [(NMem x, TR); (NVar x, TW)]
  | _ => [(NVar x, t)]
  end.

Definition ctor_ev (r : ty * nat) : event := ECtor (fst r) (snd r).
Definition dtor_ev (r : ty * nat) : event := EDtor (fst r) (snd r).

(* ------------------------------------------------------------------ Mech: state and cleanup.cpp *)
(* a variable slot: (self.id, destructor_called) *)
Definition slot := (nat * bool)%type.
(* Scope::variables of one variable scope *)
Definition frame := list (name * slot).

Record state : Type := mk {
  dfs : list (list nat);     (* defer_stacks_; head = back(); a level lists defer ids in push_back order *)
  dts : list (list (name * ty));
                             (* destructor_stacks_; a level lists (variable name, struct type) in push_back order *)
  vars : list frame;         (* scope_stack; head = back() *)
  tr  : list event           (* stdout transcript (+ hook lines), oldest first *)
}.

Definition emit (es : list event) (st : state) : state :=
  mk (dfs st) (dts st) (vars st) (tr st ++ es).

Fixpoint lookup (F : frame) (x : name) : option slot :=
  match F with
  | [] => None
  | (y, v) :: r => if name_eqb x y then Some v else lookup r x
  end.

(* variables/manager.cpp: find_variable - innermost scope first, all scopes of all activations *)
Fixpoint find_var (Fs : list frame) (x : name) : option slot :=
  match Fs with
  | [] => None
  | F :: r => match lookup F x with Some v => Some v | None => find_var r x end
  end.

(* var->destructor_called = true on the variable find_variable returns *)
Fixpoint set_flag (F : frame) (x : name) : frame :=
  match F with
  | [] => []
  | (y, (k, b)) :: r => if name_eqb x y then (y, (k, true)) :: r else (y, (k, b)) :: set_flag r x
  end.

Fixpoint mark_var (Fs : list frame) (x : name) : list frame :=
  match Fs with
  | [] => []
  | F :: r => match lookup F x with Some _ => set_flag F x :: r | None => F :: mark_var r x end
  end.

(* cleanup.cpp: push_defer_scope *)
Definition push_defer_scope (st : state) : state :=
  mk ([] :: dfs st) (dts st) (vars st) (tr st).

(* cleanup.cpp: pop_defer_scope - empty stack: return; else copy back(), pop_back, run reversed *)
Definition pop_defer_scope (st : state) : state :=
  match dfs st with
  | [] => st
  | l :: r => emit (map EDefer (rev l)) (mk r (dts st) (vars st) (tr st))
  end.

(* cleanup.cpp: add_defer *)
Definition add_defer (k : nat) (st : state) : state :=
  match dfs st with
  | [] => st
  | l :: r => mk ((l ++ [k]) :: r) (dts st) (vars st) (tr st)
  end.

(* cleanup.cpp: push_scope (variable scope + defer level + destructor level) *)
Definition push_scope (st : state) : state :=
  mk ([] :: dfs st) ([] :: dts st) ([] :: vars st) (tr st).

(* cleanup.cpp: push_destructor_scope (no variable scope) *)
Definition push_destructor_scope (st : state) : state :=
  mk ([] :: dfs st) ([] :: dts st) (vars st) (tr st).

(* cleanup.cpp: pop_scope of the scope call_destructor pushed itself.  It is an ordinary pop_scope (since
   the repair of finding C06-destructor-context-no-cleanup nothing distinguishes a scope that is left while
   a destructor runs); the tracing destructors of the skeleton language declare no object and register no
   defer, so its destructor level is empty: the level is popped, pop_defer_scope, then the variable scope.
   (Destructor bodies that own objects / defers / blocks: fixed text programs of the harness.) *)
Definition pop_scope_in_destructor (st : state) : state :=
  let st1 := pop_defer_scope (mk (dfs st) (tl (dts st)) (vars st) (tr st)) in
  mk (dfs st1) (dts st1) (tl (vars st1)) (tr st1).

(* interpreter.cpp: call_destructor(var_name, struct_type_name) -
     var = find_variable(var_name); if (var && var->destructor_called) return;       [guard]
     push_scope; self = copy of *find_variable(var_name);
     body of struct_type_name's destructor (println("<t>dtor", self.id)); mark the variable
     destructor_called; pop_scope.
   The type of the ENTRY selects the destructor body, the SLOT supplies self.id.
   (find_variable == nullptr cannot happen on a run from init_state - every entry names a variable of
   the activation that registered it, see Shape.v; the model does nothing then.) *)
Definition call_destructor (x : name) (t : ty) (st : state) : state :=
  match find_var (vars st) x with
  | Some (k, false) =>
      let st1 := pop_scope_in_destructor (emit [EDtor t k] (push_scope st)) in
      mk (dfs st1) (dts st1) (mark_var (vars st1) x) (tr st1)
  | _ => st
  end.

Definition run_destructors (l : list (name * ty)) (st : state) : state :=
  fold_left (fun s e => call_destructor (fst e) (snd e) s) (rev l) st.

(* cleanup.cpp: pop_destructor_scope - pop_defer_scope FIRST (fix 52ea7be), then the destructors of
   back() reversed *)
Definition pop_destructor_scope (st : state) : state :=
  let st1 := pop_defer_scope st in
  match dts st1 with
  | [] => st1
  | l :: r => run_destructors l (mk (dfs st1) r (vars st1) (tr st1))
  end.

(* cleanup.cpp: pop_scope - same, then variable_manager_->pop_scope() *)
Definition pop_scope (st : state) : state :=
  let st1 := pop_destructor_scope st in
  mk (dfs st1) (dts st1) (tl (vars st1)) (tr st1).

(* cleanup.cpp: execute_pre_return_cleanup (fix 605aa41) - innermost defers: copied, the level is
   CLEARED (not popped), run reversed; then innermost destructors: copied, level cleared, run reversed;
   each half only when its list is non-empty *)
Definition pre_return_cleanup (st : state) : state :=
  let st1 := match dfs st with
             | ((_ :: _) as l) :: r => emit (map EDefer (rev l)) (mk ([] :: r) (dts st) (vars st) (tr st))
             | _ => st
             end in
  match dts st1 with
  | ((_ :: _) as l) :: r => run_destructors l (mk (dfs st1) ([] :: r) (vars st1) (tr st1))
  | _ => st1
  end.

(* interpreter.cpp: register_destructor_call - nothing when the stack is empty, else push_back on back()
   (the reset of destructor_called it performs first is part of obj_slots, see there) *)
Definition register_destructor (e : name * ty) (st : state) : state :=
  match dts st with
  | [] => st
  | l :: r => mk (dfs st) ((l ++ [e]) :: r) (vars st) (tr st)
  end.

(* ... value members with a destructor first (recursion of register_destructor_call), then the variable *)
Definition register_obj (x : nat) (t : ty) (st : state) : state :=
  fold_left (fun s e => register_destructor e s) (obj_entries x t) st.

(* declaration.cpp:2449 insert_or_assign(name, fresh Variable) into current_scope().variables: a fresh
   slot (destructor_called = false) that REPLACES whatever this activation bound to the name before - blocks
   open no variable scope.  For W the member variable "x.r" of the same scope is (re)written too; the
   Variable object of an earlier "x.r" is re-used, but register_destructor_call - which runs right after,
   see declare_obj - resets destructor_called on the variable find_variable(name) returns for every entry
   it pushes (repair of finding C06-redeclared-member-flag-stale; before it the flag of "x.r" survived a
   re-declaration in the same activation and the second member object was never destroyed).  Both
   variables are in the CURRENT scope at that moment, so find_variable returns exactly the slots written
   here: the model folds the reset into the binding. *)
Definition obj_slots (F : frame) (x : nat) (t : ty) (id : nat) : frame :=
  match t with
  | TW => (NVar x, (id, false)) :: (NMem x, (id + 50, false)) :: F
  | _ => (NVar x, (id, false)) :: F
  end.

Definition bind_obj (x : nat) (t : ty) (id : nat) (st : state) : state :=
  match vars st with
  | [] => st
  | F :: r => mk (dfs st) (dts st) (obj_slots F x t id :: r) (tr st)
  end.

(* declaration.cpp:2449-2501 + interpreter.cpp call_constructor: bind, register, then push_scope,
   constructor body (prints one "ctor" line per sub-object), pop_scope *)
Definition declare_obj (x : nat) (t : ty) (id : nat) (st : state) : state :=
  pop_scope (emit (map ctor_ev (obj_parts t id)) (push_scope (register_obj x t (bind_obj x t id st)))).

(* println("reg", k); defer println("defer", k); *)
Definition defer_stmt (k : nat) (st : state) : state :=
  add_defer k (emit [EReg k] st).

(* statement_list_executor.cpp: execute_compound_statement - every one of the four arms pops *)
Definition compound_close (r : option (outcome * state)) : option (outcome * state) :=
  match r with
  | None => None
  | Some (o, st) => Some (o, pop_destructor_scope st)
  end.

(* call_impl.cpp: CbvStackGuard *)
Definition depths_differ (a b : state) : bool :=
  negb (Nat.eqb (length (dfs a)) (length (dfs b)) &&
        Nat.eqb (length (dts a)) (length (dts b)) &&
        Nat.eqb (length (vars a)) (length (vars b))).

Definition guard_report (f : nat) (before after : state) : state :=
  if depths_differ before after
  then emit [EImb f (length (dfs before)) (length (dfs after))
                    (length (dts before)) (length (dts after))
                    (length (vars before)) (length (vars after))] after
  else after.

(* call_impl.cpp: normal end and ReturnException end the call; Break/Continue leave through
   catch (...) { pop_scope(); throw; } *)
Definition call_outcome (o : outcome) : outcome :=
  match o with ORet => ONormal | _ => o end.

(* n: the depth parameter of the current activation (f<g>(n - 1) passes pred n; only `n > 0` and
   k + 100 * n observe it) *)
Fixpoint mexec (fuel : nat) (p : prog) (n : nat) (it : option nat) (s : stmt) (st : state)
  : option (outcome * state) :=
  match fuel with
  | O => None
  | S f =>
    match s with
    | SObj x t k => Some (ONormal, declare_obj x t (oid n k) st)
    | SDefer k => Some (ONormal, defer_stmt (oid n k) st)
    | SMark k => Some (ONormal, emit [EMark k] st)
    | SBlock b => compound_close (mexec_b f p n it b (push_destructor_scope st))
    | SIf c t e =>
        if cond_true n it c then compound_close (mexec_b f p n it t (push_destructor_scope st))
        else match e with
             | BNil => Some (ONormal, st)
             | _ => compound_close (mexec_b f p n it e (push_destructor_scope st))
             end
    | SLoop m b =>
        (* control_flow_executor.cpp: push_defer_scope; iterations; pop_defer_scope - also in the
           ReturnException arm of both loop executors (fix c388113) *)
        match mloop f p n m 0 b (push_defer_scope st) with
        | None => None
        | Some (ORet, st') => Some (ORet, pop_defer_scope st')
        | Some (_, st') => Some (ONormal, pop_defer_scope st')
        end
    | SCall g =>
        match mexec_b f p (pred n) None (body p g) (push_scope st) with
        | None => None
        | Some (o, st') => Some (call_outcome o, guard_report g st (pop_scope st'))
        end
    | SRet => Some (ORet, pre_return_cleanup st)
    | SBrk => Some (OBrk, st)
    | SCont => Some (OCont, st)
    end
  end
with mexec_b (fuel : nat) (p : prog) (n : nat) (it : option nat) (b : block) (st : state)
  : option (outcome * state) :=
  match fuel with
  | O => None
  | S f =>
    match b with
    | BNil => Some (ONormal, st)
    | BCons s r =>
        match mexec f p n it s st with
        | None => None
        | Some (ONormal, st') => mexec_b f p n it r st'
        | Some (o, st') => Some (o, st')
        end
    end
  end
with mloop (fuel : nat) (p : prog) (n : nat) (m i : nat) (b : block) (st : state)
  : option (outcome * state) :=
  match fuel with
  | O => None
  | S f =>
    if m <=? i then Some (ONormal, st)
    else match compound_close (mexec_b f p n (Some i) b (push_destructor_scope st)) with
         | None => None
         | Some (ONormal, st') => mloop f p n m (S i) b st'
         | Some (OCont, st') => mloop f p n m (S i) b st'
         | Some (OBrk, st') => Some (ONormal, st')
         | Some (ORet, st') => Some (ORet, st')
         end
  end.

(* initialization.cpp:151; scope_stack starts with one scope *)
Definition init_state : state := mk [] [[]] [[]] [].

(* interpreter.cpp Interpreter::process: push_scope; body; pop_scope (also in the ReturnException arm).
   A Break/Continue that escapes is not caught: the run aborts (flag false, nothing popped).
   n0: main's `int n = n0;` *)
Definition mrun (fuel : nat) (p : prog) (n0 : nat) : option (bool * state) :=
  match mexec_b fuel p n0 None (body p 0) (push_scope init_state) with
  | None => None
  | Some (ONormal, st) => Some (true, pop_scope st)
  | Some (ORet, st) => Some (true, pop_scope st)
  | Some (_, st) => Some (false, st)
  end.

(* ------------------------------------------------------------------ Spec: structural cleanup order *)
Definition sres := (outcome * list event * list nat * list (ty * nat))%type.

(* a scope is left (by whatever outcome): its reached defers LIFO, then its objects LIFO *)
Definition scope_close (r : option sres) : option (outcome * list event) :=
  match r with
  | None => None
  | Some (o, t, D, T) => Some (o, t ++ map EDefer (rev D) ++ map dtor_ev (rev T))
  end.

Definition lift_scope (r : option (outcome * list event)) (D : list nat) (T : list (ty * nat)) : option sres :=
  match r with
  | None => None
  | Some (o, t) => Some (o, t, D, T)
  end.

(* D, T: the defers reached / objects constructed so far in the CURRENT scope.  The variable name of
   an object plays no role. *)
Fixpoint sexec (fuel : nat) (p : prog) (n : nat) (it : option nat) (s : stmt) (D : list nat) (T : list (ty * nat))
  : option sres :=
  match fuel with
  | O => None
  | S f =>
    match s with
    | SObj _ t k => Some (ONormal, map ctor_ev (obj_parts t (oid n k)), D, T ++ obj_parts t (oid n k))
    | SDefer k => Some (ONormal, [EReg (oid n k)], D ++ [oid n k], T)
    | SMark k => Some (ONormal, [EMark k], D, T)
    | SBlock b => lift_scope (scope_close (sexec_b f p n it b [] [])) D T
    | SIf c t e =>
        if cond_true n it c then lift_scope (scope_close (sexec_b f p n it t [] [])) D T
        else match e with
             | BNil => Some (ONormal, [], D, T)
             | _ => lift_scope (scope_close (sexec_b f p n it e [] [])) D T
             end
    | SLoop m b =>
        match sloop f p n m 0 b with
        | None => None
        | Some (ORet, t) => Some (ORet, t, D, T)
        | Some (_, t) => Some (ONormal, t, D, T)
        end
    | SCall g =>
        match scope_close (sexec_b f p (pred n) None (body p g) [] []) with
        | None => None
        | Some (o, t) => Some (call_outcome o, t, D, T)
        end
    | SRet => Some (ORet, [], D, T)
    | SBrk => Some (OBrk, [], D, T)
    | SCont => Some (OCont, [], D, T)
    end
  end
with sexec_b (fuel : nat) (p : prog) (n : nat) (it : option nat) (b : block) (D : list nat) (T : list (ty * nat))
  : option sres :=
  match fuel with
  | O => None
  | S f =>
    match b with
    | BNil => Some (ONormal, [], D, T)
    | BCons s r =>
        match sexec f p n it s D T with
        | None => None
        | Some (ONormal, t, D', T') =>
            match sexec_b f p n it r D' T' with
            | None => None
            | Some (o, t2, D2, T2) => Some (o, t ++ t2, D2, T2)
            end
        | Some (o, t, D', T') => Some (o, t, D', T')
        end
    end
  end
with sloop (fuel : nat) (p : prog) (n : nat) (m i : nat) (b : block) : option (outcome * list event) :=
  match fuel with
  | O => None
  | S f =>
    if m <=? i then Some (ONormal, [])
    else match scope_close (sexec_b f p n (Some i) b [] []) with
         | None => None
         | Some (ONormal, t) =>
             match sloop f p n m (S i) b with None => None | Some (o, t2) => Some (o, t ++ t2) end
         | Some (OCont, t) =>
             match sloop f p n m (S i) b with None => None | Some (o, t2) => Some (o, t ++ t2) end
         | Some (OBrk, t) => Some (ONormal, t)
         | Some (ORet, t) => Some (ORet, t)
         end
  end.

(* whole program: main's body is a scope; an escaping Break/Continue is a run-time error (abort, no
   cleanup - not a scope exit in the sense of the property) *)
Definition srun (fuel : nat) (p : prog) (n0 : nat) : option (bool * list event) :=
  match sexec_b fuel p n0 None (body p 0) [] [] with
  | None => None
  | Some (ONormal, t, D, T) => Some (true, t ++ map EDefer (rev D) ++ map dtor_ev (rev T))
  | Some (ORet, t, D, T) => Some (true, t ++ map EDefer (rev D) ++ map dtor_ev (rev T))
  | Some (_, t, D, T) => Some (false, t)
  end.

(* ------------------------------------------------------------------ the programs on which the
   name-keyed machinery is transparent (static, decidable): inside one function body no object
   declaration re-uses a variable name that an earlier declaration of the same block or of an enclosing
   block uses (sibling blocks, successive loop iterations, other functions, other activations of the
   same function may re-use names freely).  A W declaration creates two names (the variable and the
   member path of its R member), both must be new.
   L: names declared so far in the current block, N0: names declared in the enclosing blocks. *)
Fixpoint mem_name (x : name) (l : list name) : bool :=
  match l with
  | [] => false
  | y :: r => name_eqb x y || mem_name x r
  end.

Definition decl_s (s : stmt) : list name :=
  match s with
  | SObj x t _ => map fst (obj_entries x t)
  | _ => []
  end.

Fixpoint wf_s (N : list name) (s : stmt) : bool :=
  match s with
  | SObj x t _ => forallb (fun y => negb (mem_name y N)) (map fst (obj_entries x t))
  | SBlock b => wf_b [] N b
  | SIf _ t e => wf_b [] N t && wf_b [] N e
  | SLoop _ b => wf_b [] N b
  | _ => true
  end
with wf_b (L N0 : list name) (b : block) : bool :=
  match b with
  | BNil => true
  | BCons s r => wf_s (L ++ N0) s && wf_b (L ++ decl_s s) N0 r
  end.

Definition wf_prog (p : prog) : bool := forallb (wf_b [] []) p.
