(* Extraction of the C06 model to OCaml (ExtrOcamlBasic + ExtrOcamlString only; nat stays unary).
   mrun = machine of the current code, srun = Spec, wf_prog = the static class of programs the refinement
   theorem covers; prun (machine of the code before the fix commits) and shapes are used for diagnosis /
   input histograms only. *)
From Coq Require Import Extraction ExtrOcamlBasic ExtrOcamlString.
From Cb Require Import C06.Model C06.Pinned.
Extraction Language OCaml.
Extraction "C06/c06_model.ml" mrun srun wf_prog prun shapes.
