(* Extraction of the C06 model to OCaml (ExtrOcamlBasic + ExtrOcamlString only; nat stays unary). *)
From Coq Require Import Extraction ExtrOcamlBasic ExtrOcamlString.
From Cb Require Import C06.Model C06.Fixed.
Extraction Language OCaml.
Extraction "C06/c06_model.ml" mrun srun safe_prog shapes frun.
