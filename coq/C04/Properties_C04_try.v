(* C04 - property theorems about REJECTED stores (proofs in C04/TryLaws.v and C04/EffectLaws.v).
   "... stops the program with a range error instead of keeping or wrapping it": since `try e` / `checked e` turn the range error
   into an Err(..) value, the program can go on after the rejected store, and what the store left in its target is observable.
   Spec = Lang.Sem under the try layer C04/Try.v; Mech = the order of conversion, check and write on every store path of /repo
   (C04/Model.v [store_steps]). *)
From Coq Require Import List ZArith Bool Arith.
From Cb Require Import Lang.Syntax Lang.Sem Lang.Respect Lang.Print
  C04.Gen_RangeTable C04.Model C04.Invariant C04.MechLaws C04.EffectLaws C04.Try C04.TryLaws.
Import ListNotations.
Local Open Scope Z_scope.

(* ---------------------------------------------------------------- Spec: the reference semantics *)
(* every primitive store of Ref that fails - whatever the error - leaves the state exactly as it was: assignment / compound
   assignment / ++,-- (m_write), declaration / parameter binding / array literal (m_declare), and the conversion of an argument or
   of a result does not touch the state at all *)
Theorem rejected_store_changes_nothing :
  (forall x idx v s e s', m_write x idx v s = (Fail e, s') -> s' = s) /\
  (forall sta cst t x dims vs s e s', m_declare sta cst t x dims vs s = (Fail e, s') -> s' = s) /\
  (forall t v s, snd (lift (coerce t v) s) = s) /\
  (forall t old v e, fst (spec_effect t old v) = Fail e -> snd (spec_effect t old v) = old /\ e = ERange).
Proof. split; [exact write_rejected_l|split; [exact declare_rejected_l|split; [reflexivity|exact spec_rejected_l]]]. Qed.
Print Assumptions rejected_store_changes_nothing.

(* `try x++` / `try ++x` / `try x--` / `try --x` on a variable, an array element or a struct member: if the action fails, the state
   is the one in which its target had been located - for a plain variable or member: the state before the action *)
Theorem try_incdec_rejected_changes_nothing : forall funcs n pre inc,
  (forall lv s e s', try_act funcs n (AIncDec pre inc lv) s = (Fail e, s') -> s' = snd (lval_target (eval funcs n) lv s)) /\
  (forall x s e s', try_act funcs n (AIncDec pre inc (LVar x)) s = (Fail e, s') -> s' = s).
Proof. intros funcs n pre inc. split; [apply try_incdec_failed_l|apply try_incdec_var_failed_l]. Qed.
Print Assumptions try_incdec_rejected_changes_nothing.

(* whatever the action of a try item does and however it ends - a caught range error inside a callee included - the caller's
   frames and the blocks of every frame are as deep afterwards as they were: the program continues in the scope of the try *)
Theorem caught_error_leaves_frames_and_blocks : forall funcs n a s, shape (snd (try_act funcs n a s)) = shape s.
Proof. exact try_act_shape_l. Qed.
Print Assumptions caught_error_leaves_frames_and_blocks.

(* the store invariant survives caught errors: every try-program, every fuel - either a global initialiser is rejected and nothing
   runs, or the run starts and ends (normally, by an uncaught error, out of fuel; after any number of caught range errors) in a
   state in which every typed cell holds a value of its declared type *)
Theorem store_inv_try_run : forall fuel p,
  match init_state (globals_program p) with
  | None => final_state_try fuel p = None /\ run_try fuel p = ([], Failed ERange)
  | Some s0 => wf_state s0 /\ exists s, final_state_try fuel p = Some s /\ wf_state s /\ fst (run_try fuel p) = rev (sout s)
  end.
Proof. exact try_run_inv_l. Qed.
Print Assumptions store_inv_try_run.

Theorem store_inv_try_items : forall funcs n its s, wf_state s -> wf_state (snd (run_items funcs n its s)).
Proof. intros funcs n its s. apply run_items_wf. Qed.
Print Assumptions store_inv_try_items.

(* the try layer adds nothing to programs without try items *)
Theorem try_layer_is_conservative : forall fuel gs fs ss,
  run_try fuel {| tglobals := gs; tfuncs := fs; tmain := map TStmt ss |} = run fuel {| pglobals := gs; pfuncs := fs; pmain := ss |}.
Proof. exact try_layer_conservative_l. Qed.
Print Assumptions try_layer_is_conservative.

(* a cell that holds a value of its type holds one after any sequence of stores, accepted or rejected *)
Theorem stores_keep_cell_in_range : forall t ops cell, in_range t cell = true ->
  Forall (fun r => in_range t (snd r) = true) (spec_effects t cell ops).
Proof. exact spec_effects_in_range_l. Qed.
Print Assumptions stores_keep_cell_in_range.

(* ---------------------------------------------------------------- Mech: the order of check and write in /repo *)
(* on EVERY store path of the model of /repo - the paths with recorded defects included - the range check comes before the write:
   a store that is rejected leaves its target as it was (what seeded change C04-4 broke for ++/-- on variables) *)
Theorem mech_rejected_store_changes_nothing : forall p t old v e,
  fst (mech_effect p t old v) = Fail e -> snd (mech_effect p t old v) = old.
Proof. exact rejected_store_changes_nothing_l. Qed.
Print Assumptions mech_rejected_store_changes_nothing.

Theorem mech_checks_before_it_writes : forall p t, checks_first false (store_steps p t) = true.
Proof. exact steps_check_first_l. Qed.
Print Assumptions mech_checks_before_it_writes.

(* and however often a rejected store is repeated *)
Theorem repeated_rejected_stores_change_nothing : forall p t ops cell,
  Forall (fun r => fst r = false) (mech_effects p t cell ops) -> Forall (fun r => snd r = cell) (mech_effects p t cell ops).
Proof. exact repeated_rejected_l. Qed.
Print Assumptions repeated_rejected_stores_change_nothing.

(* the sequence "write in place, clamp in place, check afterwards" (the shape seeded change C04-4 gave incdec.cpp) is refuted by
   tiny 127, ++: the error is reported and the cell holds 128 *)
Theorem write_before_check_refuted :
  checks_first false write_first_steps = false /\
  run_steps tiny 128 write_first_steps 128 127 = (Fail ERange, 128) /\
  spec_effect tiny 127 128 = (Fail ERange, 127) /\ mech_effect PIncDecVar tiny 127 128 = (Fail ERange, 127).
Proof. exact write_first_refuted_l. Qed.
Print Assumptions write_before_check_refuted.

(* the two readings of a store path agree: outcome of [mech_effect] = outcome of [mech_store]; after an accepted store a read of
   the cell yields what [mech_store] predicts *)
Theorem effect_agrees_with_store : forall p t old v,
  match mech_effect p t old v with
  | (Val _, c) => mech_store p t v = Val (read_of p t c)
  | (Fail e, c) => mech_store p t v = Fail e
  | _ => False
  end.
Proof. exact effect_agrees_with_store_l. Qed.
Print Assumptions effect_agrees_with_store.

(* Mech = Spec, rejected stores included: on the checked paths, on the 1-D element paths (the cell itself; the narrowing READ is
   the recorded finding) and on the callers of assign_variable with a non-bool, non-pointer hint the cell afterwards holds the
   converted value, or - when the store is rejected - what it held before *)
Theorem checked_paths_effect_refines_spec :
  (forall p, In p checked_paths \/ In p element_paths -> forall t old v, mech_effect p t old v = spec_effect t old v) /\
  (forall h p, In p (hinted_paths h ++ unhinted_paths) -> h <> HPointer ->
     forall t old v, resolved_type h t <> TBool -> base t <> TBool -> mech_effect p t old v = spec_effect t old v).
Proof.
  split; [intros p [H|H]; [exact (checked_paths_effect_l p H)|exact (element_paths_effect_l p H)]|exact hinted_paths_effect_l].
Qed.
Print Assumptions checked_paths_effect_refines_spec.

(* ---------------------------------------------------------------- non-vacuity *)
(* tiny g = 127; long f1(long a) { g = a; return 7; }  main: tiny t = 127; try t++; println(t); try f1(300); println(g); try f1(5); println(g); *)
Example sample_try :
  let tiny_t := {| base := TTiny; uns := false |} in
  let long_t := {| base := TLong; uns := false |} in
  let p := {| tglobals := [ {| gcst := false; gty := tiny_t; gname := 9%nat; gdims := []; ginit := [127] |} ];
              tfuncs := [ {| fname := 1%nat; fret := Some long_t; fparams := [ {| pty := long_t; pname := 7%nat; pdef := None |} ];
                             fbody := [ SAssign (LVar 9%nat) None (EVar 7%nat); SReturn (Some (ENum 7)) ] |} ];
              tmain := [ TStmt (SDecl false false tiny_t 1%nat (Some (ENum 127)));
                         TTry false (AIncDec false true (LVar 1%nat));
                         TStmt (SPrint true [EVar 1%nat]);
                         TTry false (ACall 1%nat [ENum 300]);
                         TStmt (SPrint true [EVar 9%nat]);
                         TTry true (ACall 1%nat [ENum 5]);
                         TStmt (SPrint true [EVar 9%nat]) ] |} in
  run_try 100 p = ([OInt 0; ONl; OInt 127; ONl; OInt 0; ONl; OInt 127; ONl; OInt 1; OSp; OInt 7; ONl; OInt 5; ONl], Finished).
Proof. vm_compute. reflexivity. Qed.
