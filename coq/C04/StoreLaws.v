(* C04 - what one store does: exact read-back of in-range values, clamping of negatives stored to
   unsigned targets, rejection (state unchanged) of everything else; reads and results of a
   well-formed state are in range. *)
From Coq Require Import List ZArith Bool Arith Lia.
From Cb Require Import Lang.Syntax Lang.Sem Lang.Respect Lang.Theorems Lang.Print C04.Gen_RangeTable C04.Model C04.Invariant.
Import ListNotations.
Local Open Scope Z_scope.

(* ------------------------------------------------------------------ list cells *)
Lemma nth_set_nth_same k v l d : (k < List.length l)%nat -> nth k (set_nth k v l) d = v.
Proof. revert k; induction l as [|x r IH]; intros k H; cbn in H; [lia|]. destruct k; cbn [set_nth nth]; [reflexivity|apply IH; lia]. Qed.
Lemma nth_set_nth_other k j v l d : k <> j -> nth j (set_nth k v l) d = nth j l d.
Proof.
  revert k j; induction l as [|x r IH]; intros k j H; destruct k; cbn [set_nth]; try reflexivity.
  - destruct j; [congruence|reflexivity].
  - destruct j; cbn [nth]; [reflexivity|apply IH; congruence].
Qed.

(* ------------------------------------------------------------------ association lists *)
Section Assoc.
Context {A : Type}.
Lemma assoc_set_same x (a : A) l b : assoc x l = Some b -> assoc x (assoc_set x a l) = Some a.
Proof.
  induction l as [|[y c] r IH]; cbn [assoc assoc_set]; [discriminate|].
  destruct (Nat.eqb x y) eqn:E; cbn [assoc]; rewrite E; [reflexivity|exact IH].
Qed.
Lemma assoc_set_other x y (a : A) l : x <> y -> assoc y (assoc_set x a l) = assoc y l.
Proof.
  intros H. induction l as [|[z c] r IH]; cbn [assoc assoc_set]; [reflexivity|].
  destruct (Nat.eqb x z) eqn:E; cbn [assoc].
  - apply Nat.eqb_eq in E; subst z. destruct (Nat.eqb y x) eqn:E2; [apply Nat.eqb_eq in E2; congruence|reflexivity].
  - rewrite IH. reflexivity.
Qed.
End Assoc.

Lemma scopes_get_set_same x e ss b : scopes_get x ss = Some b -> scopes_get x (scopes_set x e ss) = Some e.
Proof.
  induction ss as [|sc r IH]; cbn [scopes_get scopes_set]; [discriminate|].
  destruct (assoc x sc) eqn:E; cbn [scopes_get].
  - intros _. rewrite (assoc_set_same _ _ _ _ E). reflexivity.
  - rewrite E. exact IH.
Qed.
Lemma scopes_get_set_other x y e ss : x <> y -> scopes_get y (scopes_set x e ss) = scopes_get y ss.
Proof.
  intros H. induction ss as [|sc r IH]; cbn [scopes_get scopes_set]; [reflexivity|].
  destruct (assoc x sc); cbn [scopes_get].
  - rewrite (assoc_set_other _ _ _ _ H). reflexivity.
  - rewrite IH. reflexivity.
Qed.

Lemma assoc_set_stat_same f sc l : assoc f (set_stat f sc l) = Some sc.
Proof.
  unfold set_stat. destruct (assoc f l) eqn:E; [eapply assoc_set_same; exact E|]. cbn [assoc]. rewrite Nat.eqb_refl. reflexivity.
Qed.

(* looking up what was just put *)
Lemma get_put_same x e s b : get_entry x s = Some b -> get_entry x (put_entry x e s) = Some e.
Proof.
  unfold get_entry, put_entry. destruct (sframes s) as [|f fr] eqn:Ef.
  - intros H. cbn. try rewrite Ef. eapply assoc_set_same; exact H.
  - destruct (scopes_get x (fscopes f)) eqn:E1.
    + intros _. cbn. rewrite (scopes_get_set_same _ _ _ _ E1). reflexivity.
    + destruct (assoc x (statics_of (ffn f) s)) eqn:E2.
      * intros _. cbn. try rewrite Ef. rewrite E1. unfold statics_of at 1. cbn. rewrite assoc_set_stat_same.
        rewrite (assoc_set_same _ _ _ _ E2). reflexivity.
      * intros H. cbn. try rewrite Ef. rewrite E1. unfold statics_of in *. cbn. rewrite E2. eapply assoc_set_same; exact H.
Qed.

(* other names are untouched *)
Lemma get_put_other x y e s : x <> y -> get_entry y (put_entry x e s) = get_entry y s.
Proof.
  intros H. unfold get_entry, put_entry. destruct (sframes s) as [|f fr] eqn:Ef.
  - cbn. try rewrite Ef. apply assoc_set_other; exact H.
  - destruct (scopes_get x (fscopes f)) eqn:E1.
    + cbn. rewrite (scopes_get_set_other _ _ _ _ H). reflexivity.
    + destruct (assoc x (statics_of (ffn f) s)) eqn:E2; cbn; try rewrite Ef.
      * unfold statics_of at 1 2. cbn. rewrite assoc_set_stat_same.
        rewrite (assoc_set_other _ _ _ _ H). reflexivity.
      * unfold statics_of. cbn. rewrite (assoc_set_other _ _ _ _ H). reflexivity.
Qed.

(* ------------------------------------------------------------------ flat indices are cells *)
Lemma flat_index_bound dims idx acc k :
  flat_index dims idx acc = Some k -> 0 <= acc ->
  0 <= k /\ k < (acc + 1) * Z.of_nat (size_of dims) /\ acc * Z.of_nat (size_of dims) <= k.
Proof.
  unfold size_of. assert (G : forall ds a, fold_left Nat.mul ds a = (a * fold_left Nat.mul ds 1)%nat).
  { induction ds as [|d ds IH]; intros a; cbn [fold_left]; [lia|]. rewrite IH, (IH (1 * d)%nat). lia. }
  revert idx acc k. induction dims as [|d ds IH]; intros idx acc k; destruct idx as [|i is_]; cbn [flat_index fold_left]; try discriminate.
  - intros [= <-] H. lia.
  - destruct ((0 <=? i) && (i <? Z.of_nat d)) eqn:E; [|discriminate]. intros Hf Hacc.
    apply andb_true_iff in E as [E1 E2]. apply Z.leb_le in E1. apply Z.ltb_lt in E2.
    apply IH in Hf; [|nia]. rewrite (G ds (1 * d)%nat). rewrite Nat2Z.inj_mul, Nat.mul_1_l.
    destruct Hf as (H1 & H2 & H3). set (S := Z.of_nat (fold_left Nat.mul ds 1%nat)) in *.
    assert (0 <= S) by (unfold S; lia). repeat split; nia.
Qed.

Lemma flat_index_cell e idx k : wf_entry e -> flat_index (edims e) idx 0 = Some k ->
  (Z.to_nat k < List.length (evals e))%nat.
Proof.
  intros [_ Hl] Hf. apply flat_index_bound in Hf; [|lia]. rewrite Hl. lia.
Qed.

(* ------------------------------------------------------------------ store then read *)
(* a store of a value the target's type admits (both limits included) succeeds, and a read of the
   same cell afterwards yields exactly that value *)
Lemma store_exact_l x idx v s e :
  wf_state s -> get_entry x s = Some e -> econst e = false -> in_range (ety e) v = true ->
  (uns (ety e) = true -> 0 <= v) ->
  (exists k, flat_index (edims e) idx 0 = Some k) ->
  exists s', m_write x idx v s = (Val tt, s') /\ m_read x idx s' = (Val v, s') /\ wf_state s'.
Proof.
  intros Hw Hg Hc Hr Hu [k Hk]. unfold m_write. rewrite Hg, Hc, Hk, (coerce_id _ _ Hr Hu).
  eexists. split; [reflexivity|]. split.
  - unfold m_read. rewrite (get_put_same _ _ _ _ Hg). cbn [edims evals]. rewrite Hk.
    rewrite nth_set_nth_same; [reflexivity|]. eapply flat_index_cell; [eapply get_entry_wf; eassumption|exact Hk].
  - pose proof (write_wf x idx v s Hw) as H. unfold m_write in H. rewrite Hg, Hc, Hk, (coerce_id _ _ Hr Hu) in H. exact H.
Qed.

(* ... and leaves every other variable and every other cell of the same array as it was *)
Lemma store_touches_only_target_l x idx v s s' y j :
  m_write x idx v s = (Val tt, s') ->
  (x <> y -> m_read y j s' = (fst (m_read y j s), s')) /\
  (forall e k k', get_entry x s = Some e -> flat_index (edims e) idx 0 = Some k -> flat_index (edims e) j 0 = Some k' ->
     Z.to_nat k <> Z.to_nat k' -> fst (m_read x j s') = fst (m_read x j s)).
Proof.
  unfold m_write. destruct (get_entry x s) as [e|] eqn:Hg; [|discriminate].
  destruct (econst e); [discriminate|]. destruct (flat_index (edims e) idx 0) as [k|] eqn:Hk; [|discriminate].
  destruct (coerce (ety e) v) as [w| | | |]; try discriminate. intros [= <-]. split.
  - intros H. unfold m_read. rewrite (get_put_other _ _ _ _ H). destruct (get_entry y s) as [e'|]; [|reflexivity].
    destruct (flat_index (edims e') j 0); reflexivity.
  - intros e0 k0 k' [= <-] Hk0 Hk' Hne. rewrite Hk in Hk0. injection Hk0 as <-. unfold m_read. rewrite (get_put_same _ _ _ _ Hg), Hg. cbn [edims evals].
    rewrite Hk'. cbn [fst]. f_equal. apply nth_set_nth_other. exact Hne.
Qed.

(* a negative value stored to an unsigned target becomes 0 *)
Lemma unsigned_negative_clamps_l t v : uns t = true -> v < 0 -> coerce t v = Val 0.
Proof. intros Hu Hv. unfold coerce. rewrite Hu. apply Z.ltb_lt in Hv. rewrite Hv. reflexivity. Qed.

Lemma unsigned_negative_store_l x idx v s e :
  wf_state s -> get_entry x s = Some e -> econst e = false -> uns (ety e) = true -> v < 0 ->
  (exists k, flat_index (edims e) idx 0 = Some k) ->
  exists s', m_write x idx v s = (Val tt, s') /\ m_read x idx s' = (Val 0, s').
Proof.
  intros Hw Hg Hc Hu Hv [k Hk]. unfold m_write. rewrite Hg, Hc, Hk, (unsigned_negative_clamps_l _ _ Hu Hv).
  eexists. split; [reflexivity|]. unfold m_read. rewrite (get_put_same _ _ _ _ Hg). cbn [edims evals]. rewrite Hk.
  rewrite nth_set_nth_same; [reflexivity|]. eapply flat_index_cell; [eapply get_entry_wf; eassumption|exact Hk].
Qed.

(* everything else that is out of range is a range error *)
Lemma out_of_range_coerce_l t v : in_range t v = false -> (uns t = false \/ 0 <= v) -> coerce t v = Fail ERange.
Proof.
  intros Hr Hu. unfold coerce. destruct (uns t) eqn:Eu; cbn [andb].
  - destruct Hu as [Hu|Hu]; [discriminate|]. destruct (v <? 0) eqn:E; [apply Z.ltb_lt in E; lia|]. rewrite Hr. reflexivity.
  - rewrite Hr. reflexivity.
Qed.

(* ... on every store path of the reference semantics, and the state stays as it was *)
Lemma out_of_range_is_error_l t v : in_range t v = false -> (uns t = false \/ 0 <= v) ->
  (forall x idx s e k, get_entry x s = Some e -> ety e = t -> econst e = false -> flat_index (edims e) idx 0 = Some k ->
      m_write x idx v s = (Fail ERange, s)) /\
  (forall sta cst x s, m_declare sta cst t x [] [v] s = (Fail ERange, s)) /\
  (forall sta cst x dims vs s, In v vs -> m_declare sta cst t x dims vs s = (Fail ERange, s)) /\
  call_result (Some t) (Ret (Some v)) = Fail ERange /\
  (forall p s, pty p = t -> lift (coerce (pty p) v) s = (@Fail Z ERange, s)).
Proof.
  intros Hr Hu. pose proof (out_of_range_coerce_l _ _ Hr Hu) as Hc. repeat split.
  - intros x idx s e k Hg <- Hcst Hk. unfold m_write. rewrite Hg, Hcst, Hk, Hc. reflexivity.
  - intros. unfold m_declare. cbn [coerce_all]. rewrite Hc. reflexivity.
  - intros sta cst x dims vs s Hin. unfold m_declare. rewrite (coerce_all_rejects _ _ _ Hin Hc). reflexivity.
  - cbn [call_result]. exact Hc.
  - intros p s <-. unfold lift. rewrite Hc. reflexivity.
Qed.

(* ------------------------------------------------------------------ what a well-formed state yields *)
Lemma read_in_range_l x idx s v s' : wf_state s -> m_read x idx s = (Val v, s') ->
  exists e, get_entry x s = Some e /\ in_range (ety e) v = true.
Proof.
  intros Hw. unfold m_read. destruct (get_entry x s) as [e|] eqn:Hg; [|discriminate].
  destruct (flat_index _ _ _) as [k|]; [|discriminate]. intros [= <- _]. exists e. split; [reflexivity|].
  destruct (get_entry_wf _ _ _ Hw Hg) as [Hv _].
  destruct (Nat.lt_ge_cases (Z.to_nat k) (List.length (evals e))) as [H|H].
  - rewrite Forall_forall in Hv. apply Hv. apply nth_In. exact H.
  - rewrite nth_overflow by exact H. apply zero_in_range.
Qed.

Lemma result_in_range_l t c v : call_result (Some t) c = Val v -> in_range t v = true.
Proof.
  destruct c as [u| | |[w|]|e]; cbn [call_result]; try (intros [= <-]; apply zero_in_range); try discriminate.
  apply coerce_in_range.
Qed.

Lemma argument_in_range_l t v w : coerce t v = Val w -> in_range t w = true /\ (w = v \/ (uns t = true /\ v < 0 /\ w = 0)).
Proof.
  intros H. split; [eapply coerce_in_range; exact H|]. unfold coerce in H.
  destruct (uns t) eqn:Eu; cbn [andb] in H.
  - destruct (v <? 0) eqn:E; [apply Z.ltb_lt in E; injection H as <-; right; auto|].
    destruct (in_range t v); [injection H as <-; left; reflexivity|discriminate].
  - destruct (in_range t v); [injection H as <-; left; reflexivity|discriminate].
Qed.
