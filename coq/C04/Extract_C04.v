(* Extraction of the C04 models: checked-start Ref run, printer, Mech store paths, Spec conversion. *)
From Coq Require Import Extraction ExtrOcamlBasic ExtrOcamlString ZArith.
From Cb Require Import Lang.Syntax Lang.Sem Lang.Print C04.Gen_RangeTable C04.Model.
Extraction "C04/c04_model.ml" run_c04 run print_program render dec_Z mech_store mech_elem1_update coerce narrow_read looks_like_pointer range gen_range Z.add Z.mul Z.opp Z.of_nat Z.of_N N.of_nat.
