(* Extraction of the C04 Mech model (store paths of /repo), of the Spec conversion and of the try layer (C04/Try.v: programs whose
   main function catches range errors with try / checked). Try-free whole programs are run by the shared bin/lang_model. *)
From Coq Require Import Extraction ExtrOcamlBasic ExtrOcamlString ZArith.
From Cb Require Import Lang.Syntax Lang.Sem Lang.Print C04.Gen_RangeTable C04.Model C04.Try.
Extraction "C04/c04_model.ml" dec_Z mech_store mech_elem1_update coerce narrow_read looks_like_pointer range gen_range Z.add Z.mul Z.opp Z.of_nat
  mech_effects spec_effects read_of run_try print_tprogram render.
