(* C04 - the try layer over the shared reference interpreter (definitions only).
   `try e` / `checked e` (evaluator/operators/error_handling.cpp evaluate_try_like_expression) evaluate e and turn an error into
   the value Err(..) of a Result - the program goes on.  That makes the state a REJECTED store leaves behind observable.  CbCore
   (coq/Lang) has no such construct, so the main function of a try-program is a list of items: ordinary CbCore statements and
     Result<int, RuntimeError> r<k> = try <action> ;
     match ( r<k> ) { Ok( w ) => { println( 1 , w ) ; } Err( e ) => { println( 0 , e ) ; } }
   where the action is `x++` / `++x` / `x--` / `--x` on a variable, an array element or a struct member, or a call (whose body
   performs stores on globals, statics, elements of global arrays; whose arguments and result are converted).  Ref evaluates the
   action with Lang.Sem; a range error is caught (report `0`), every other error ends the program; the state after the caught
   error is the one Lang.Sem returns - frames and blocks are already left ([finally]), and every store that was rejected has left
   the state as it was (TryLaws.v). *)
From Coq Require Import List ZArith Bool Arith Ascii String.
From Cb Require Import Lang.Syntax Lang.Sem Lang.Print.
Import ListNotations.

Inductive tact :=
| AIncDec (pre inc : bool) (lv : lval)      (* try x ++   try ++ a[ i ]   try v2.m1 -- *)
| ACall (f : ident) (args : list expr).     (* try f( e , .. ) *)
Inductive titem :=
| TStmt (st : stmt)
| TTry (chk : bool) (a : tact).             (* chk: `checked` instead of `try` (same evaluation, other label in the message) *)
Record tprogram := { tglobals : list gdecl; tfuncs : list func; tmain : list titem }.

Section TrySem.
Local Open Scope Z_scope.
Variable funcs : list func.
Variable n : nat.

(* the value of the action: the old value for x++, the value now stored for ++x, the result of the call *)
Definition try_act (a : tact) : M Z :=
  match a with
  | ACall f args => eval funcs n (ECall f args)
  | AIncDec pre inc lv =>
      tg <- lval_target (eval funcs n) lv ;; old <- m_read (fst tg) (snd tg) ;;
      r <- lift (arith (if inc then Add else Sub) old 1) ;; m_write (fst tg) (snd tg) r ;;;
      new <- m_read (fst tg) (snd tg) ;; ret (if pre then new else old)
  end.

Definition report_ok (v : Z) : M unit := m_out (OInt 1) ;;; m_out OSp ;;; m_out (OInt v) ;;; m_out ONl.
Definition report_err : M unit := m_out (OInt 0) ;;; m_out ONl.

Definition run_item (it : titem) : M unit :=
  match it with
  | TStmt st => exec funcs n st
  | TTry _ a => fun s =>
      match try_act a s with
      | (Val v, s') => report_ok v s'
      | (Fail ERange, s') => report_err s'         (* caught: the program goes on from the state the action left *)
      | (Fail e, s') => (Fail e, s')
      | (_, s') => (Fail EUndef, s')
      end
  end.

Fixpoint run_items (its : list titem) : M unit :=
  match its with
  | [] => ret tt
  | it :: r => run_item it ;;; run_items r
  end.
End TrySem.

Definition globals_program (p : tprogram) : program := {| pglobals := tglobals p; pfuncs := tfuncs p; pmain := [] |}.

Definition run_try (fuel : nat) (p : tprogram) : list oitem * outcome :=
  match init_state (globals_program p) with
  | None => ([], Failed ERange)
  | Some s0 =>
      let '(c, s) := run_items (tfuncs p) fuel (tmain p) s0 in
      (rev (sout s), match c with Fail e => Failed e | _ => Finished end)
  end.

Definition final_state_try (fuel : nat) (p : tprogram) : option state :=
  match init_state (globals_program p) with
  | Some s0 => Some (snd (run_items (tfuncs p) fuel (tmain p) s0))
  | None => None
  end.

(* ------------------------------------------------------------------ printer *)
Local Open Scope string_scope.

Definition pact (a : tact) : string :=
  match a with
  | AIncDec pre inc lv => if pre then (if inc then "++ " else "-- ") ++ plv lv else plv lv ++ (if inc then " ++" else " --")
  | ACall f args => pe (ECall f args)
  end.

Definition pitem (k : nat) (it : titem) : string :=
  match it with
  | TStmt st => "  " ++ ps 40 st ++ nl
  | TTry chk a =>
      "  Result<int, RuntimeError> r" ++ dec_nat k ++ " = " ++ (if chk then "checked " else "try ") ++ pact a ++ " ;" ++ nl ++
      "  match ( r" ++ dec_nat k ++ " ) { Ok( w ) => { println( 1 , w ) ; } Err( e ) => { println( 0 , e ) ; } }" ++ nl
  end.
Fixpoint pitems (k : nat) (its : list titem) : string :=
  match its with [] => "" | it :: r => pitem k it ++ pitems (S k) r end.

Definition tstmts (p : tprogram) : list stmt :=
  flat_map (fun it => match it with TStmt st => [st] | TTry _ _ => [] end) (tmain p).

Definition print_tprogram (p : tprogram) : string :=
  concat "" (map pstruct (program_sdefs {| pglobals := tglobals p; pfuncs := tfuncs p; pmain := tstmts p |})) ++
  concat "" (map pglobal (tglobals p)) ++ concat "" (map pfunc (tfuncs p)) ++
  "void main() {" ++ nl ++ pitems 0 (tmain p) ++ "}" ++ nl.
