(* TypeManager::check_type_range (manager.cpp), GENERATED into C04/Gen_CheckTypeRange.v by translators/cxx_pure.py (target
   check_type_range) from clang's AST on every ./check C04: the closure the function hands to evaluate_safe - a switch over the
   type code that sets min_allowed / max_allowed, followed by the range test.  Lemmas for property C04:
   [check_type_range_is_spec] the C++ text as clang reads it accepts exactly the closed interval of the reference semantics
                              [Lang.Sem.in_range] for every C04 type and every int64 value and throws on every other one - proved
                              from the generated term alone (nothing translators/ranges.py produces is used), so an edited bound
                              or comparison operator breaks THIS obligation whatever the regex translator makes of the text;
   [check_type_range_table]   the generated function rejects exactly the values outside the table [C04.Gen_RangeTable.gen_range]
                              (which translators/ranges.py extracts from the same text with regular expressions), with the
                              rejection test [gen_reject]: the two independent readings of the C++ text agree;
   [check_type_range_default], [type_codes_are_the_labels]  every other type code has no range. *)
From Coq Require Import ZArith Bool String List Lia ZifyBool.
From Cb Require Import Cxx.Cxx Cxx.CxxLemmas C04.Gen_CheckTypeRange.
From Cb Require Lang.Syntax Lang.Sem C04.Gen_RangeTable.
Import ListNotations.
Local Open Scope string_scope.
Local Open Scope Z_scope.
Ltac Zify.zify_post_hook ::= Z.to_euclidean_division_equations.

Module S := Cb.Lang.Syntax.
Module T := Cb.C04.Gen_RangeTable.

Definition ctr_args (code : Z) (u : bool) (v : Z) : list (string * value) :=
  [("is_unsigned", (TBool, b2z u)); ("type", (TInt, code)); ("value", (TLong, v))].

(* the closure returns (by `return;` when the type has no range, or by reaching its end) or throws *)
Inductive verdict := Accepted | Rejected (m : string) | Other (r : result).
Definition verdict_of (r : result) : verdict :=
  match r with RVoid | RFallOff => Accepted | RThrow m => Rejected m | r => Other r end.

(* the type codes are clang's values of the enumerators used as case labels *)
Fixpoint label (name : string) (l : list (string * Z)) : option Z :=
  match l with [] => None | (n, v) :: r => if String.eqb name n then Some v else label name r end.
Definition type_code (b : S.ity) : option Z :=
  label (match b with S.TTiny => "TYPE_TINY" | S.TShort => "TYPE_SHORT" | S.TInt => "TYPE_INT" | S.TLong => "TYPE_LONG"
                    | S.TChar => "TYPE_CHAR" | S.TBool => "TYPE_BOOL" end) check_type_range_labels.

Lemma sconv32_id a : (-2147483648 <=? a) = true -> (a <=? 2147483647) = true ->
  (a - -2147483648) mod 4294967296 + -2147483648 = a.
Proof. intros H1 H2. rewrite Z.mod_small; lia. Qed.
Lemma sconv64_id a : (-9223372036854775808 <=? a) = true -> (a <=? 9223372036854775807) = true ->
  (a - -9223372036854775808) mod 18446744073709551616 + -9223372036854775808 = a.
Proof. intros H1 H2. rewrite Z.mod_small; lia. Qed.

(* for every integer type of the property and every int64 value: exactly the closed interval of the reference semantics *)
Lemma check_type_range_is_spec t code v : type_code (S.base t) = Some code -> in_range TLong v = true ->
  verdict_of (run fn_check_type_range "" (ctr_args code (S.uns t) v)) =
  if Cb.Lang.Sem.in_range t v then Accepted else Rejected "Value out of range for type".
Proof.
  destruct t as [b u]. cbn [S.base S.uns]. intros Hc Hv. unfold in_range in Hv. cbn [tmin tmax] in Hv. apply andb_true_iff in Hv as [Hv1 Hv2].
  destruct b; vm_compute in Hc; try discriminate; injection Hc as <-; destruct u; unfold ctr_args; cbn [b2z];
    cxx_tree; rewrite Hv1, Hv2; cbv beta iota; fold_consts; rewrite ?(sconv64_id _ Hv1 Hv2);
    unfold Cb.Lang.Sem.in_range; cbn [Cb.Lang.Sem.range S.base S.uns]; unfold Cb.Lang.Sem.int64_min, Cb.Lang.Sem.int64_max;
    cxx_cases; cbn [verdict_of]; try reflexivity; try (exfalso; lia).
Qed.

(* for every type code (an int) and every int64 value: exactly the table *)
Lemma check_type_range_table b u code v : type_code b = Some code -> in_range TLong v = true ->
  verdict_of (run fn_check_type_range "" (ctr_args code u v)) =
  match T.gen_range b u with
  | None => Accepted
  | Some (lo, hi) => if T.gen_reject v lo hi then Rejected "Value out of range for type" else Accepted
  end.
Proof.
  intros Hc Hv. unfold in_range in Hv. cbn [tmin tmax] in Hv. apply andb_true_iff in Hv as [Hv1 Hv2].
  destruct b; vm_compute in Hc; try discriminate; injection Hc as <-; destruct u; unfold ctr_args; cbn [b2z];
    cxx_tree; rewrite Hv1, Hv2; cbv beta iota; fold_consts; rewrite ?(sconv64_id _ Hv1 Hv2);
    cbn [T.gen_range]; unfold T.gen_reject; rewrite ?Z.gtb_ltb; cxx_cases; cbn [verdict_of]; try reflexivity; try (exfalso; lia).
Qed.

(* every other type code (bool, float, double, string, struct, ...: the `default:` label) has no range: nothing is rejected *)
Lemma check_type_range_default code u v : in_range TInt code = true -> in_range TLong v = true ->
  ~ In code (map snd check_type_range_labels) ->
  verdict_of (run fn_check_type_range "" (ctr_args code u v)) = Accepted.
Proof.
  intros Hc Hv Hn. unfold in_range in Hv, Hc. cbn [tmin tmax] in Hv, Hc.
  apply andb_true_iff in Hv as [Hv1 Hv2]. apply andb_true_iff in Hc as [Hc1 Hc2].
  cbn [check_type_range_labels map snd In] in Hn.
  destruct u; unfold ctr_args; cbn [b2z]; cxx_tree; rewrite Hv1, Hv2, Hc1, Hc2; cbv beta iota; fold_consts;
    rewrite ?(sconv64_id _ Hv1 Hv2), ?(sconv32_id _ Hc1 Hc2); cxx_cases; cbn [verdict_of]; try reflexivity; exfalso; lia.
Qed.

(* the table's codes are exactly the labels of the switch (so the two lemmas cover every int) *)
Lemma type_codes_are_the_labels :
  map snd check_type_range_labels = [1; 2; 3; 5; 4] /\
  type_code S.TTiny = Some 1 /\ type_code S.TShort = Some 2 /\ type_code S.TInt = Some 3 /\ type_code S.TLong = Some 4 /\
  type_code S.TChar = Some 5 /\ type_code S.TBool = None.
Proof. vm_compute. repeat split; reflexivity. Qed.

Example rejects_128_for_tiny : verdict_of (run fn_check_type_range "" (ctr_args 1 false 128)) = Rejected "Value out of range for type".
Proof. vm_compute. reflexivity. Qed.
Example accepts_minus_128_for_tiny : verdict_of (run fn_check_type_range "" (ctr_args 1 false (-128))) = Accepted.
Proof. vm_compute. reflexivity. Qed.
Example unsigned_long_stops_at_int64_max : verdict_of (run fn_check_type_range "" (ctr_args 4 true (-1))) = Rejected "Value out of range for type".
Proof. vm_compute. reflexivity. Qed.
Example accepts_the_limits_of_unsigned_int :
  verdict_of (run fn_check_type_range "" (ctr_args 3 true 4294967295)) = Accepted /\
  verdict_of (run fn_check_type_range "" (ctr_args 3 true 4294967296)) = Rejected "Value out of range for type".
Proof. vm_compute. split; reflexivity. Qed.
Print Assumptions check_type_range_table.
Print Assumptions check_type_range_is_spec.
Print Assumptions check_type_range_default.
