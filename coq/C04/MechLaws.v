(* C04 - the model of today's store paths (Mech) against the property's reading (Spec = Lang.Sem.coerce):
   the generated range table and tests are the documented ones (with the recorded exceptions), the
   checked paths refine Spec for every type and value, the other paths do not (witnesses). *)
From Coq Require Import List ZArith Bool Arith Lia.
From Cb Require Import Lang.Syntax Lang.Sem C04.Gen_RangeTable C04.Model C04.Invariant.
Import ListNotations.
Local Open Scope Z_scope.

Definition mk (b : ity) (u : bool) : ty := {| base := b; uns := u |}.

(* ------------------------------------------------------------------ the generated table *)
Lemma gen_range_is_ref_l b u : gen_range b u = range (mk b u).
Proof. destruct b, u; reflexivity. Qed.

Lemma gen_range_documented_l b u :
  b <> TChar -> (b, u) <> (TLong, true) -> gen_range b u = documented_range b u.
Proof. intros Hc Hl. destruct b, u; try reflexivity; congruence. Qed.

Lemma ulong_upper_documented_refuted_l :
  gen_range TLong true = Some (0, 2 ^ 63 - 1) /\ documented_range TLong true = Some (0, 2 ^ 64 - 1) /\
  gen_range TLong true <> documented_range TLong true.
Proof. repeat split; try reflexivity. discriminate. Qed.

Lemma char_range_documented_refuted_l :
  gen_range TChar false = Some (-128, 127) /\ documented_range TChar false = Some (0, 255) /\
  gen_range TChar false <> documented_range TChar false.
Proof. repeat split; try reflexivity. discriminate. Qed.

(* the accept/reject decision of check_type_range is the documented closed interval *)
Lemma mech_check_is_spec_l t v : mech_check t v = if in_range t v then Val v else Fail ERange.
Proof.
  unfold mech_check, in_range. destruct t as [b u]. cbn [base uns]. rewrite gen_range_is_ref_l. unfold mk.
  destruct (range {| base := b; uns := u |}) as [[lo hi]|]; [|reflexivity].
  unfold gen_reject. rewrite Z.ltb_antisym, Z.gtb_ltb, (Z.ltb_antisym v hi), <- negb_andb.
  destruct ((lo <=? v) && (v <=? hi)); reflexivity.
Qed.

Lemma mech_clamp_is_spec_l u v : mech_clamp u v = if u && (v <? 0) then 0 else v.
Proof.
  unfold mech_clamp, gen_clamp_keeps, gen_clamp_to. rewrite Z.geb_leb, Z.ltb_antisym.
  destruct u; cbn [negb orb andb]; [|reflexivity]. destruct (0 <=? v); reflexivity.
Qed.

Lemma clamp_check_is_coerce_l t v : clamp_check t v = coerce t v.
Proof.
  unfold clamp_check, coerce. rewrite mech_clamp_is_spec_l, mech_check_is_spec_l.
  destruct (uns t && (v <? 0)); [rewrite zero_in_range|]; reflexivity.
Qed.

(* ------------------------------------------------------------------ checked paths refine Spec *)
Lemma checked_paths_refine_l p : In p checked_paths -> forall t v, mech_store p t v = coerce t v.
Proof.
  intros H t v. cbn in H. repeat (destruct H as [<-|H]; [cbn [mech_store]; apply clamp_check_is_coerce_l|]). destruct H.
Qed.

Lemma sext_id bits v : 0 < bits -> - 2 ^ (bits - 1) <= v < 2 ^ (bits - 1) -> sext bits v = v.
Proof.
  intros Hb Hv. unfold sext. replace (2 ^ bits) with (2 * 2 ^ (bits - 1)).
  - rewrite Z.mod_small; lia.
  - rewrite <- Z.pow_succ_r by lia. f_equal. lia.
Qed.

Lemma narrow_read_signed_id_l t v : uns t = false -> in_range t v = true -> narrow_read t v = v.
Proof.
  destruct t as [b u]; cbn [uns]; intros ->. unfold in_range, narrow_read; cbn [base].
  destruct b; cbn [range base uns]; intros H; try reflexivity; apply andb_true_iff in H as [H1 H2];
    apply Z.leb_le in H1; apply Z.leb_le in H2; apply sext_id; cbn; lia.
Qed.

(* a 1-D element store of a signed type - by assignment, compound assignment, ++/--, array literal -
   is as the property demands, reads included *)
Lemma elem1_signed_refines_l p t v : In p element_paths -> uns t = false -> mech_store p t v = coerce t v.
Proof.
  intros Hp Hu. assert (H : mech_store p t v = match clamp_check t v with Val w => Val (narrow_read t w) | other => other end).
  { cbn in Hp. repeat (destruct Hp as [<-|Hp]; [reflexivity|]). destruct Hp. }
  rewrite H, clamp_check_is_coerce_l.
  destruct (coerce t v) as [w| | | |] eqn:E; try reflexivity.
  rewrite (narrow_read_signed_id_l _ _ Hu (coerce_in_range _ _ _ E)). reflexivity.
Qed.

(* an unsigned 1-D element below half of its range also reads back exactly *)
Lemma elem1_unsigned_low_half_l b v bits : bits_of b = Some bits -> b <> TChar ->
  0 <= v < 2 ^ (bits - 1) -> mech_store PElem1 (mk b true) v = Val v.
Proof.
  intros Hb Hc Hv. cbn [mech_store]. rewrite clamp_check_is_coerce_l.
  destruct b; cbn in Hb; try discriminate; try congruence; injection Hb as <-; cbn in Hv;
    unfold coerce; cbn [uns mk andb];
    (destruct (v <? 0) eqn:E; [apply Z.ltb_lt in E; lia|]);
    unfold in_range; cbn [range base uns mk];
    (destruct ((0 <=? v) && _) eqn:E2; [|apply andb_false_iff in E2 as [E2|E2]; [apply Z.leb_gt in E2|apply Z.leb_gt in E2]; unfold int64_max in *; lia]);
    unfold narrow_read; cbn [base mk]; try reflexivity; f_equal; apply sext_id; cbn; lia.
Qed.

(* ------------------------------------------------------------------ the other paths do not *)
Definition tiny := mk TTiny false.
Definition utiny := mk TTiny true.
Definition tint := mk TInt false.

(* a witness per path: a 64-bit value on which today's behaviour differs from the demanded one *)
Definition witness (p : path) : ty * Z :=
  match p with
  | PStatic => (utiny, -1)
  | PElem1 | PElem1Compound | PIncDecElem1 | PLit1 => (utiny, 254)
  | PGlobalArr => (tiny, 128)
  | PAssignFromElemN | PReturnElemN => (tint, 4294967296)
  | PAssignHint _ | PDeclMulti _ => (tiny, -1)
  | PDeclTypedefTernary | PArrCopy | PArrLitAssign1 | PArrLitAssignN | PMemberLit | PIndirect => (tiny, 128)
  | PStaticAssign | PElem1Global => (utiny, -1)
  | _ => (tiny, 0)
  end.

Lemma unchecked_paths_refuted_l p : In p unchecked_paths ->
  let '(t, v) := witness p in in64 v = true /\ mech_store p t v <> coerce t v.
Proof.
  intros H. cbn in H. repeat (destruct H as [<-|H]; [vm_compute; split; [reflexivity|discriminate]|]). destruct H.
Qed.

(* the repaired paths, by name (fixes 892a98c, 1b2d709, d7775cd, a6c628c, 11769f3) *)
Lemma incdec_is_checked_l t v : mech_store PIncDecVar t v = coerce t v.
Proof. apply clamp_check_is_coerce_l. Qed.
Lemma return_is_checked_l t v : mech_store PReturn t v = coerce t v.
Proof. apply clamp_check_is_coerce_l. Qed.
Lemma multidim_store_is_checked_l t v : mech_store PElemN t v = coerce t v /\ mech_store PLitN t v = coerce t v.
Proof. split; apply clamp_check_is_coerce_l. Qed.
(* a[i]++ / a[i]--: the stored element plus or minus one is converted like any store; never a silent wrap *)
Lemma incdec_element_is_checked_l t old delta :
  (uns t = false -> mech_elem1_update PIncDecElem1 t old delta = coerce t (old + delta)) /\
  (coerce t (old + delta) = Fail ERange -> mech_elem1_update PIncDecElem1 t old delta = Fail ERange).
Proof.
  split.
  - intros Hu. cbn [mech_elem1_update]. apply elem1_signed_refines_l; [cbn; auto|exact Hu].
  - intros H. cbn [mech_elem1_update mech_store]. rewrite clamp_check_is_coerce_l, H. reflexivity.
Qed.
(* local array literals: every element is converted; out of range is an error for every element type *)
Lemma array_literal_is_checked_l t v :
  (uns t = false -> mech_store PLit1 t v = coerce t v) /\
  (coerce t v = Fail ERange -> mech_store PLit1 t v = Fail ERange).
Proof.
  split.
  - intros Hu. apply elem1_signed_refines_l; [cbn; auto|exact Hu].
  - intros H. cbn [mech_store]. rewrite clamp_check_is_coerce_l, H. reflexivity.
Qed.

(* the concrete shapes of the remaining failures *)
Lemma global_array_literal_is_checked_refuted_l :
  mech_store PGlobalArr tiny 128 = Val (-128) /\ mech_store PGlobalArr tint 2147483648 = Val (-2147483648) /\
  mech_store PGlobalArr utiny (-1) = Val (-1) /\
  coerce tiny 128 = Fail ERange /\ coerce tint 2147483648 = Fail ERange /\ coerce utiny (-1) = Val 0.
Proof. vm_compute. auto 10. Qed.
Lemma unsigned_element_reads_back_refuted_l :
  in_range utiny 254 = true /\ coerce utiny 254 = Val 254 /\ mech_store PElem1 utiny 254 = Val (-2) /\
  in_range utiny (-2) = false /\ mech_elem1_update PElem1Compound utiny 244 10 = Val 0 /\
  mech_store PLit1 utiny 254 = Val (-2) /\ mech_elem1_update PIncDecElem1 utiny 253 1 = Val (-2).
Proof. vm_compute. auto 10. Qed.
Lemma static_unsigned_clamps_refuted_l :
  mech_store PStatic utiny (-1) = Val (-1) /\ coerce utiny (-1) = Val 0.
Proof. vm_compute. auto. Qed.
Lemma bare_multidim_value_is_checked_refuted_l :
  mech_store PAssignFromElemN tint 4294967296 = Val 4294967296 /\ mech_store PReturnElemN tint 4294967296 = Val 4294967296 /\
  coerce tint 4294967296 = Fail ERange /\
  mech_store PAssignFromElemN tiny (-129) = Fail ERange /\ mech_store PAssignFromElemN tiny 128 = Fail ERange.
Proof. vm_compute. auto 10. Qed.

(* ------------------------------------------------------------------ the typed store entry point *)
(* VariableManager::assign_variable checks the range of the TARGET's declared type whatever type hint the caller passes
   (execute_ternary_assignment passes the inferred type of the selected branch, the multiple-declaration executor the declared
   type, plain assignments TYPE_UNKNOWN): with any hint whose resolved type is not bool the store is the demanded conversion *)
Lemma assign_variable_refines_l h t v :
  h <> HPointer -> resolved_type h t <> TBool -> mech_assign_variable h t v = coerce t v.
Proof.
  intros Hp Hb. unfold mech_assign_variable.
  assert (E : match resolved_type h t with TBool => bool_norm v | _ => v end = v) by (destruct (resolved_type h t); congruence).
  rewrite E. fold (clamp_check t v). rewrite <- clamp_check_is_coerce_l. destruct h; try reflexivity. congruence.
Qed.

Lemma ternary_assignment_is_checked_l b t v : b <> TBool -> mech_store (PAssignHint (HTy b)) t v = coerce t v.
Proof. intros Hb. cbn [mech_store]. apply assign_variable_refines_l; [discriminate|exact Hb]. Qed.

Lemma hinted_paths_refine_l h p : In p (hinted_paths h) -> h <> HPointer ->
  forall t v, resolved_type h t <> TBool -> mech_store p t v = coerce t v.
Proof.
  intros H Hp t v Hb. cbn in H. repeat (destruct H as [<-|H]; [cbn [mech_store]; apply assign_variable_refines_l; assumption|]). destruct H.
Qed.

Lemma unhinted_paths_refine_l p : In p unhinted_paths -> forall t v, base t <> TBool -> mech_store p t v = coerce t v.
Proof.
  intros H t v Hb. cbn in H. repeat (destruct H as [<-|H]; [cbn [mech_store]; apply assign_variable_refines_l; [discriminate|exact Hb]|]). destruct H.
Qed.

(* a bool-inferred branch (finding C04-ternary-assign-bool-branch): every value other than 0 and 1 that the target's type admits
   is NOT stored exactly - it is normalised to 1 first *)
Lemma bool_norm_not_id v : v <> 0 -> v <> 1 -> bool_norm v = 1.
Proof. intros H0 _. unfold bool_norm. destruct (v =? 0) eqn:E; [apply Z.eqb_eq in E; contradiction|reflexivity]. Qed.

Lemma assign_variable_bool_hint_refuted_l t v :
  v <> 0 -> v <> 1 -> in_range t v = true -> (uns t = true -> 0 <= v) ->
  coerce t v = Val v /\ mech_assign_variable (HTy TBool) t v <> Val v.
Proof.
  intros H0 H1 Hr Hu. split.
  - unfold coerce. destruct (uns t) eqn:U; cbn [andb].
    + destruct (v <? 0) eqn:E; [apply Z.ltb_lt in E; specialize (Hu eq_refl); lia|]. rewrite Hr. reflexivity.
    + rewrite Hr. reflexivity.
  - unfold mech_assign_variable. cbn [resolved_type]. rewrite (bool_norm_not_id v H0 H1).
    rewrite mech_clamp_is_spec_l. replace (1 <? 0) with false by reflexivity. rewrite andb_false_r.
    rewrite mech_check_is_spec_l. destruct (in_range t 1); intros E; inversion E; congruence.
Qed.

Lemma ternary_assign_bool_branch_refuted_l :
  mech_store (PAssignHint (HTy TBool)) (mk TLong false) (-1) = Val 1 /\ coerce (mk TLong false) (-1) = Val (-1) /\
  mech_store (PAssignHint (HTy TBool)) utiny (-2) = Val 1 /\ coerce utiny (-2) = Val 0 /\
  mech_store (PAssignHint (HTy TBool)) tiny 2 = Val 1 /\ mech_store (PDeclMulti (HTy TBool)) tiny (-1) = Val 1.
Proof. vm_compute. auto 10. Qed.

(* the remaining new shapes *)
Lemma typedef_ternary_init_is_checked_refuted_l :
  mech_store PDeclTypedefTernary tiny 128 = Val 128 /\ coerce tiny 128 = Fail ERange /\
  mech_store PDeclTypedefTernary tiny (-129) = Val (-129) /\ (forall t v, mech_store PDeclTypedef t v = coerce t v).
Proof. repeat split; try (vm_compute; reflexivity). intros t v. apply clamp_check_is_coerce_l. Qed.

Lemma static_assignment_keeps_unsigned_refuted_l :
  mech_store PStaticAssign utiny 200 = Fail ERange /\ coerce utiny 200 = Val 200 /\
  mech_store PStaticAssign utiny (-1) = Val (-1) /\ coerce utiny (-1) = Val 0 /\
  (forall t v, uns t = false -> mech_store PStaticAssign t v = coerce t v).
Proof.
  repeat split; try (vm_compute; reflexivity). intros [b u] v Hu. cbn in Hu. subst u.
  cbn [mech_store signed_of base uns]. rewrite mech_check_is_spec_l. unfold coerce. cbn [uns andb]. reflexivity.
Qed.

Lemma whole_array_store_is_checked_refuted_l :
  mech_store PArrLitAssign1 tiny 300 = Val 44 /\ mech_store PArrLitAssignN tiny 300 = Val 300 /\ mech_store PArrCopy tiny 300 = Val 300 /\
  coerce tiny 300 = Fail ERange /\ mech_store PArrLitAssign1 utiny (-5) = Val 0 /\ mech_store PElem1Global utiny (-1) = Val (-1) /\
  mech_store PElem1Global utiny 200 = Fail ERange.
Proof. vm_compute. auto 10. Qed.

(* struct members (outside CbCore).  A direct member store - s.m = e, s.m op= e, s.m++, s.a[i] = e, a member of an instantiated
   generic struct - is the demanded conversion for every type and value since fix a3f0b3d *)
Lemma member_store_is_checked_l t v : mech_store PMember t v = coerce t v.
Proof. apply clamp_check_is_coerce_l. Qed.

(* what the fix does not cover: struct literals (unsigned clamp only) and nested members / members reached through a pointer, a
   reference, self or an element of a struct array / pointer and reference stores (nothing).  What is stored is the value itself -
   clamped for an unsigned member initialised by a literal - so a value the type admits is stored exactly and an out-of-range one is
   kept instead of being an error *)
Lemma member_store_l t v :
  (in_range t v = true -> (uns t = true -> 0 <= v) -> mech_store PMemberLit t v = coerce t v /\ mech_store PIndirect t v = coerce t v) /\
  (uns t = true -> v < 0 -> mech_store PMemberLit t v = coerce t v /\ mech_store PIndirect t v = Val v /\ coerce t v = Val 0) /\
  (in_range t v = false -> (uns t = false \/ 0 <= v) -> mech_store PMemberLit t v = Val v /\ mech_store PIndirect t v = Val v /\ coerce t v = Fail ERange).
Proof.
  cbn [mech_store]. rewrite mech_clamp_is_spec_l. unfold coerce. split; [|split].
  - intros H H0. assert (E : uns t && (v <? 0) = false).
    { destruct (uns t) eqn:U; [|reflexivity]. cbn [andb]. apply Z.ltb_ge. apply H0. reflexivity. }
    rewrite E, H. split; reflexivity.
  - intros U Hv. rewrite U. apply Z.ltb_lt in Hv. rewrite Hv. repeat split; reflexivity.
  - intros H Hu. assert (E : uns t && (v <? 0) = false).
    { destruct Hu as [U|Hv]; [rewrite U; reflexivity|]. apply Z.ltb_ge in Hv. rewrite Hv. apply andb_false_r. }
    rewrite E, H. repeat split; reflexivity.
Qed.

Definition tshort := mk TShort false.
Definition ushort := mk TShort true.
Lemma struct_literal_is_checked_refuted_l :
  mech_store PMemberLit tiny 200 = Val 200 /\ coerce tiny 200 = Fail ERange /\
  mech_store PMemberLit utiny 256 = Val 256 /\ coerce utiny 256 = Fail ERange /\
  mech_store PMemberLit utiny (-5) = Val 0 /\ coerce utiny (-5) = Val 0 /\
  mech_store PMember tiny 200 = Fail ERange /\ mech_store PMember utiny 256 = Fail ERange.
Proof. vm_compute. auto 10. Qed.
Lemma indirect_member_store_is_checked_refuted_l :
  mech_store PIndirect tshort 40000 = Val 40000 /\ coerce tshort 40000 = Fail ERange /\
  mech_store PIndirect tiny 200 = Val 200 /\ coerce tiny 200 = Fail ERange /\
  mech_store PIndirect ushort (-2) = Val (-2) /\ coerce ushort (-2) = Val 0.
Proof. vm_compute. auto 10. Qed.
