(* C04 - property theorems only (proofs in C04/Invariant.v, C04/StoreLaws.v, C04/MechLaws.v).
   Spec = the shared reference interpreter (Lang.Sem: every store, global initialisers included, goes through [coerce]);
   Mech = today's store paths of /repo (C04/Model.v, table re-extracted into C04/Gen_RangeTable.v). *)
From Coq Require Import List ZArith Bool Arith.
From Cb Require Import Lang.Syntax Lang.Sem Lang.Respect Lang.Theorems Lang.Print
  C04.Gen_RangeTable C04.Model C04.Invariant C04.StoreLaws C04.MechLaws.
Import ListNotations.
Local Open Scope Z_scope.

(* ---------------------------------------------------------------- the generated table *)
(* The min/max table re-extracted from the `switch` of TypeManager::check_type_range is the table of
   the reference semantics for all 12 (type, signedness) pairs, and it is the documented n-bit
   two's-complement / unsigned range except for the two recorded rows below. *)
Theorem range_table_is_documented : forall b u,
  gen_range b u = range {| base := b; uns := u |} /\
  (b <> TChar -> (b, u) <> (TLong, true) -> gen_range b u = documented_range b u).
Proof. intros b u. split; [exact (gen_range_is_ref_l b u)|exact (gen_range_documented_l b u)]. Qed.
Print Assumptions range_table_is_documented.

(* finding #33: unsigned long stops at 2^63-1, documented 2^64-1 *)
Theorem ulong_upper_bound_is_documented_refuted :
  gen_range TLong true = Some (0, 2 ^ 63 - 1) /\ documented_range TLong true = Some (0, 2 ^ 64 - 1) /\
  gen_range TLong true <> documented_range TLong true.
Proof. exact ulong_upper_documented_refuted_l. Qed.
Print Assumptions ulong_upper_bound_is_documented_refuted.

(* docs/spec.md gives char the range 0-255; the code (and Ref) use -128..127 *)
Theorem char_range_is_documented_refuted :
  gen_range TChar false = Some (-128, 127) /\ documented_range TChar false = Some (0, 255) /\
  gen_range TChar false <> documented_range TChar false.
Proof. exact char_range_documented_refuted_l. Qed.
Print Assumptions char_range_is_documented_refuted.

(* check_type_range with the generated table and the generated comparison operators accepts exactly
   the closed interval; clamp_unsigned_value followed by it is the conversion the property demands *)
Theorem range_check_is_closed_interval : forall t v,
  mech_check t v = (if in_range t v then Val v else Fail ERange) /\ clamp_check t v = coerce t v.
Proof. intros t v. split; [exact (mech_check_is_spec_l t v)|exact (clamp_check_is_coerce_l t v)]. Qed.
Print Assumptions range_check_is_closed_interval.

(* ---------------------------------------------------------------- the invariant *)
(* For every function table, fuel, expression / statement and start state: if every typed cell of
   the start state (globals, every scope of every frame, statics) holds a value of its declared
   type, so does every cell of the state after the evaluation - whatever its outcome. *)
Theorem store_inv_step : forall funcs n,
  (forall e, respects wf_pres (eval funcs n e)) /\ (forall st, respects wf_pres (exec funcs n st)).
Proof. exact store_inv_step_l. Qed.
Print Assumptions store_inv_step.

(* every program, every fuel: either a global initialiser is rejected (they are converted like every
   other store) and nothing runs, or the run starts in a well-formed state and ends - normally, by an
   error or out of fuel - in a well-formed state, whose output is what [run] reports *)
Theorem store_inv_run : forall fuel p,
  match init_state p with
  | None => final_state fuel p = None /\ run fuel p = ([], Failed ERange)
  | Some s0 => wf_state s0 /\ exists s, final_state fuel p = Some s /\ wf_state s /\ fst (run fuel p) = rev (sout s)
  end.
Proof. exact store_inv_run_l. Qed.
Print Assumptions store_inv_run.

Theorem global_initialiser_out_of_range_is_error : forall fuel p g v,
  In g (pglobals p) -> In v (ginit g) -> coerce (gty g) v = Fail ERange -> run fuel p = ([], Failed ERange).
Proof. exact run_rejects_l. Qed.
Print Assumptions global_initialiser_out_of_range_is_error.

(* in a well-formed state every read yields a value of the declared type of what is read; every
   value a call yields is a value of the declared result type; every argument that reaches a
   parameter is a value of the parameter's type (the value itself, or 0 for a clamped negative) *)
Theorem values_yielded_are_in_range :
  (forall x idx s v s', wf_state s -> m_read x idx s = (Val v, s') ->
     exists e, get_entry x s = Some e /\ in_range (ety e) v = true) /\
  (forall t c v, call_result (Some t) c = Val v -> in_range t v = true) /\
  (forall t v w, coerce t v = Val w -> in_range t w = true /\ (w = v \/ (uns t = true /\ v < 0 /\ w = 0))).
Proof. split; [exact read_in_range_l|split; [exact result_in_range_l|exact argument_in_range_l]]. Qed.
Print Assumptions values_yielded_are_in_range.

(* ---------------------------------------------------------------- one store *)
(* a value the target's type admits - both limits included - is stored, a read of the same cell
   yields exactly it, and the state stays well-formed *)
Theorem store_exact : forall x idx v s e,
  wf_state s -> get_entry x s = Some e -> econst e = false -> in_range (ety e) v = true ->
  (uns (ety e) = true -> 0 <= v) ->
  (exists k, flat_index (edims e) idx 0 = Some k) ->
  exists s', m_write x idx v s = (Val tt, s') /\ m_read x idx s' = (Val v, s') /\ wf_state s'.
Proof. exact store_exact_l. Qed.
Print Assumptions store_exact.

(* both limits of every type are such values *)
Theorem boundary_values_admitted : forall t lo hi, range t = Some (lo, hi) ->
  in_range t lo = true /\ in_range t hi = true /\ in_range t (lo - 1) = false /\ in_range t (hi + 1) = false /\
  (uns t = true -> lo = 0).
Proof. exact boundary_values_admitted_l. Qed.
Print Assumptions boundary_values_admitted.

(* the store changes no other variable and no other cell of the same array *)
Theorem store_touches_only_target : forall x idx v s s' y j,
  m_write x idx v s = (Val tt, s') ->
  (x <> y -> m_read y j s' = (fst (m_read y j s), s')) /\
  (forall e k k', get_entry x s = Some e -> flat_index (edims e) idx 0 = Some k -> flat_index (edims e) j 0 = Some k' ->
     Z.to_nat k <> Z.to_nat k' -> fst (m_read x j s') = fst (m_read x j s)).
Proof. exact store_touches_only_target_l. Qed.
Print Assumptions store_touches_only_target.

Theorem unsigned_negative_clamps :
  (forall t v, uns t = true -> v < 0 -> coerce t v = Val 0) /\
  (forall x idx v s e, wf_state s -> get_entry x s = Some e -> econst e = false -> uns (ety e) = true -> v < 0 ->
     (exists k, flat_index (edims e) idx 0 = Some k) ->
     exists s', m_write x idx v s = (Val tt, s') /\ m_read x idx s' = (Val 0, s')).
Proof. split; [exact unsigned_negative_clamps_l|exact unsigned_negative_store_l]. Qed.
Print Assumptions unsigned_negative_clamps.

(* any other out-of-range value is a range error on every store path of Ref - assignment and
   compound assignment and ++/-- (m_write), declaration / parameter binding / array literal
   (m_declare), return (call_result), argument conversion - and the state is left as it was *)
Theorem out_of_range_is_error : forall t v, in_range t v = false -> (uns t = false \/ 0 <= v) ->
  (forall x idx s e k, get_entry x s = Some e -> ety e = t -> econst e = false -> flat_index (edims e) idx 0 = Some k ->
      m_write x idx v s = (Fail ERange, s)) /\
  (forall sta cst x s, m_declare sta cst t x [] [v] s = (Fail ERange, s)) /\
  (forall sta cst x dims vs s, In v vs -> m_declare sta cst t x dims vs s = (Fail ERange, s)) /\
  call_result (Some t) (Ret (Some v)) = Fail ERange /\
  (forall p s, pty p = t -> lift (coerce (pty p) v) s = (@Fail Z ERange, s)).
Proof. exact out_of_range_is_error_l. Qed.
Print Assumptions out_of_range_is_error.

(* ---------------------------------------------------------------- Mech against Spec *)
(* declaration (also with a call as initialiser and through a typedef alias), assignment, compound assignment, argument passing,
   global scalar initialisers, ++/-- on variables, function results, multi-dimensional element stores, nested literals and (since
   fix a3f0b3d) direct stores into struct members of /repo behave as the property demands, for every type and every value *)
Theorem checked_paths_refine_spec : forall p, In p checked_paths -> forall t v, mech_store p t v = coerce t v.
Proof. exact checked_paths_refine_l. Qed.
Print Assumptions checked_paths_refine_spec.

(* so do ++/-- on variables (fix 892a98c), function results (d7775cd), multi-dimensional element stores
   (a6c628c) and nested array literals (11769f3) - named instances of the theorem above *)
Theorem incdec_is_checked : forall t v, mech_store PIncDecVar t v = coerce t v.
Proof. exact incdec_is_checked_l. Qed.
Print Assumptions incdec_is_checked.

Theorem return_is_checked : forall t v, mech_store PReturn t v = coerce t v.
Proof. exact return_is_checked_l. Qed.
Print Assumptions return_is_checked.

Theorem multidim_store_is_checked : forall t v,
  mech_store PElemN t v = coerce t v /\ mech_store PLitN t v = coerce t v.
Proof. exact multidim_store_is_checked_l. Qed.
Print Assumptions multidim_store_is_checked.

(* 1-D element storage - assignment, compound assignment, ++/-- (fix 1b2d709), local array literal
   (fix 11769f3): as demanded for signed element types (reads included) and for the lower half of the
   unsigned ones; the upper half is the narrowing-read finding below *)
Theorem element_store_refines_spec_partial :
  (forall p t v, In p element_paths -> uns t = false -> mech_store p t v = coerce t v) /\
  (forall b v bits, bits_of b = Some bits -> b <> TChar -> 0 <= v < 2 ^ (bits - 1) ->
     mech_store PElem1 {| base := b; uns := true |} v = Val v).
Proof. split; [exact elem1_signed_refines_l|exact elem1_unsigned_low_half_l]. Qed.
Print Assumptions element_store_refines_spec_partial.

(* a[i]++ / a[i]--: the stored element +-1 is converted like any store and an out-of-range result is an
   error for every element type - never a silent wrap *)
Theorem incdec_element_is_checked : forall t old delta,
  (uns t = false -> mech_elem1_update PIncDecElem1 t old delta = coerce t (old + delta)) /\
  (coerce t (old + delta) = Fail ERange -> mech_elem1_update PIncDecElem1 t old delta = Fail ERange).
Proof. exact incdec_element_is_checked_l. Qed.
Print Assumptions incdec_element_is_checked.

Theorem array_literal_is_checked : forall t v,
  (uns t = false -> mech_store PLit1 t v = coerce t v) /\
  (coerce t v = Fail ERange -> mech_store PLit1 t v = Fail ERange).
Proof. exact array_literal_is_checked_l. Qed.
Print Assumptions array_literal_is_checked.

(* every remaining path has a 64-bit value on which today's behaviour is not the demanded one *)
Theorem unchecked_paths_refuted : forall p, In p unchecked_paths ->
  let '(t, v) := witness p in in64 v = true /\ mech_store p t v <> coerce t v.
Proof. exact unchecked_paths_refuted_l. Qed.
Print Assumptions unchecked_paths_refuted.

Theorem global_array_literal_is_checked_refuted : (* global tiny[3] g = [128,0,0]; reads -128; unsigned: no clamp *)
  mech_store PGlobalArr tiny 128 = Val (-128) /\ mech_store PGlobalArr tint 2147483648 = Val (-2147483648) /\
  mech_store PGlobalArr utiny (-1) = Val (-1) /\
  coerce tiny 128 = Fail ERange /\ coerce tint 2147483648 = Fail ERange /\ coerce utiny (-1) = Val 0.
Proof. exact global_array_literal_is_checked_refuted_l. Qed.
Print Assumptions global_array_literal_is_checked_refuted.

Theorem unsigned_element_reads_back_refuted : (* unsigned tiny[2] a; a[0] = 254;  reads -2 *)
  in_range utiny 254 = true /\ coerce utiny 254 = Val 254 /\ mech_store PElem1 utiny 254 = Val (-2) /\
  in_range utiny (-2) = false /\ mech_elem1_update PElem1Compound utiny 244 10 = Val 0 /\
  mech_store PLit1 utiny 254 = Val (-2) /\ mech_elem1_update PIncDecElem1 utiny 253 1 = Val (-2).
Proof. exact unsigned_element_reads_back_refuted_l. Qed.
Print Assumptions unsigned_element_reads_back_refuted.

Theorem static_unsigned_clamps_refuted :     (* static unsigned tiny s = -1;  keeps -1 *)
  mech_store PStatic utiny (-1) = Val (-1) /\ coerce utiny (-1) = Val 0.
Proof. exact static_unsigned_clamps_refuted_l. Qed.
Print Assumptions static_unsigned_clamps_refuted.

Theorem bare_multidim_value_is_checked_refuted : (* int q = 0; q = m[1][1];  /  int f() { return m[1][1]; }  with m[1][1] = 4294967296 *)
  mech_store PAssignFromElemN tint 4294967296 = Val 4294967296 /\ mech_store PReturnElemN tint 4294967296 = Val 4294967296 /\
  coerce tint 4294967296 = Fail ERange /\
  mech_store PAssignFromElemN tiny (-129) = Fail ERange /\ mech_store PAssignFromElemN tiny 128 = Fail ERange.
Proof. exact bare_multidim_value_is_checked_refuted_l. Qed.
Print Assumptions bare_multidim_value_is_checked_refuted.

(* ---------------------------------------------------------------- the typed store entry point *)
(* VariableManager::assign_variable range-checks against the declared type of the TARGET whatever type hint its caller
   passes - `x = c ? a : b;` passes the inferred type of the selected branch, a multiple declaration the declared type, plain
   assignments none: for every hint (other than TYPE_POINTER) whose resolved type is not bool, every target type and every value
   the store is the demanded conversion. (The seeded change C04-1 made the check follow the hint.) *)
Theorem assign_variable_checks_target_type : forall h t v,
  h <> HPointer -> resolved_type h t <> TBool -> mech_assign_variable h t v = coerce t v.
Proof. exact assign_variable_refines_l. Qed.
Print Assumptions assign_variable_checks_target_type.

Theorem ternary_assignment_is_checked : forall b t v, b <> TBool -> mech_store (PAssignHint (HTy b)) t v = coerce t v.
Proof. exact ternary_assignment_is_checked_l. Qed.
Print Assumptions ternary_assignment_is_checked.

(* `x = c ? a : b;` and `T a = .., x = c ? a : b;` with any non-bool hint; `x = f(..);` and `const T g = c;` (no hint) *)
Theorem hinted_paths_refine_spec :
  (forall h p, In p (hinted_paths h) -> h <> HPointer -> forall t v, resolved_type h t <> TBool -> mech_store p t v = coerce t v) /\
  (forall p, In p unhinted_paths -> forall t v, base t <> TBool -> mech_store p t v = coerce t v).
Proof. split; [exact hinted_paths_refine_l|exact unhinted_paths_refine_l]. Qed.
Print Assumptions hinted_paths_refine_spec.

(* finding C04-ternary-assign-bool-branch: with a bool-inferred branch every admitted value other than 0 and 1 is not stored
   exactly (it is normalised to 1 before the store) *)
Theorem assign_variable_bool_hint_refuted : forall t v,
  v <> 0 -> v <> 1 -> in_range t v = true -> (uns t = true -> 0 <= v) ->
  coerce t v = Val v /\ mech_assign_variable (HTy TBool) t v <> Val v.
Proof. exact assign_variable_bool_hint_refuted_l. Qed.
Print Assumptions assign_variable_bool_hint_refuted.

Theorem ternary_assign_bool_branch_refuted :   (* long u; u = c ? ~(5 == 3) : 0;  stores 1 *)
  mech_store (PAssignHint (HTy TBool)) {| base := TLong; uns := false |} (-1) = Val 1 /\ coerce {| base := TLong; uns := false |} (-1) = Val (-1) /\
  mech_store (PAssignHint (HTy TBool)) utiny (-2) = Val 1 /\ coerce utiny (-2) = Val 0 /\
  mech_store (PAssignHint (HTy TBool)) tiny 2 = Val 1 /\ mech_store (PDeclMulti (HTy TBool)) tiny (-1) = Val 1.
Proof. exact ternary_assign_bool_branch_refuted_l. Qed.
Print Assumptions ternary_assign_bool_branch_refuted.

Theorem typedef_ternary_init_is_checked_refuted :   (* typedef tiny T8; T8 t = c ? 128 : 0;  keeps 128; every other typedef initialiser is checked *)
  mech_store PDeclTypedefTernary tiny 128 = Val 128 /\ coerce tiny 128 = Fail ERange /\
  mech_store PDeclTypedefTernary tiny (-129) = Val (-129) /\ (forall t v, mech_store PDeclTypedef t v = coerce t v).
Proof. exact typedef_ternary_init_is_checked_refuted_l. Qed.
Print Assumptions typedef_ternary_init_is_checked_refuted.

Theorem static_assignment_keeps_unsigned_refuted :  (* static unsigned tiny s; s = 200 is an error, s = -1 keeps -1; signed statics are as demanded *)
  mech_store PStaticAssign utiny 200 = Fail ERange /\ coerce utiny 200 = Val 200 /\
  mech_store PStaticAssign utiny (-1) = Val (-1) /\ coerce utiny (-1) = Val 0 /\
  (forall t v, uns t = false -> mech_store PStaticAssign t v = coerce t v).
Proof. exact static_assignment_keeps_unsigned_refuted_l. Qed.
Print Assumptions static_assignment_keeps_unsigned_refuted.

Theorem whole_array_store_is_checked_refuted :  (* tiny[3] a; a = [1,300,3] reads 44; 2-D keeps 300; a = b (long[3] b) keeps 300 *)
  mech_store PArrLitAssign1 tiny 300 = Val 44 /\ mech_store PArrLitAssignN tiny 300 = Val 300 /\ mech_store PArrCopy tiny 300 = Val 300 /\
  coerce tiny 300 = Fail ERange /\ mech_store PArrLitAssign1 utiny (-5) = Val 0 /\ mech_store PElem1Global utiny (-1) = Val (-1) /\
  mech_store PElem1Global utiny 200 = Fail ERange.
Proof. exact whole_array_store_is_checked_refuted_l. Qed.
Print Assumptions whole_array_store_is_checked_refuted.

(* struct members.  A direct member store - `s.m = e;`, `s.m op= e;`, `s.m++` / `--s.m`, `s.a[i] = e;` (element of a member array),
   `Box<tiny> b; b.v = e;` (member of an instantiated generic struct) - is the demanded conversion for every type and every value
   since fix a3f0b3d (named instance of checked_paths_refine_spec; findings C04-struct-member-unchecked and C04-generic-struct-member
   are closed) *)
Theorem member_store_is_checked : forall t v, mech_store PMember t v = coerce t v.
Proof. exact member_store_is_checked_l. Qed.
Print Assumptions member_store_is_checked.

(* what the fix does not cover.  Struct literals (`S s = {m: e};`, positional, nested, generic: unsigned clamp only) and indirect
   member stores (`o.in.m = e`, `p->m = e`, `ps[i].m = e`, `r.m = e` through a reference, `self.m = e`; also `*p = e`, `T& q = t; q = e`:
   nothing): a value the type admits is stored exactly; a negative to an unsigned member becomes 0 in a literal and is KEPT on the
   indirect paths; any other out-of-range value is KEPT where the property demands an error (findings C04-struct-literal-unchecked,
   C04-nested-member-store-unchecked, C04-member-through-pointer-unchecked, C04-member-through-reference-unchecked,
   C04-struct-array-member-unchecked, C04-pointer-store-unchecked, C04-reference-store-unchecked) *)
Theorem member_store_partial : forall t v,
  (in_range t v = true -> (uns t = true -> 0 <= v) -> mech_store PMemberLit t v = coerce t v /\ mech_store PIndirect t v = coerce t v) /\
  (uns t = true -> v < 0 -> mech_store PMemberLit t v = coerce t v /\ mech_store PIndirect t v = Val v /\ coerce t v = Val 0) /\
  (in_range t v = false -> (uns t = false \/ 0 <= v) -> mech_store PMemberLit t v = Val v /\ mech_store PIndirect t v = Val v /\ coerce t v = Fail ERange).
Proof. exact member_store_l. Qed.
Print Assumptions member_store_partial.

Theorem struct_literal_is_checked_refuted :   (* struct S { tiny t; }; S s = {t: 200}; keeps 200 - while s.t = 200 is a range error now *)
  mech_store PMemberLit tiny 200 = Val 200 /\ coerce tiny 200 = Fail ERange /\
  mech_store PMemberLit utiny 256 = Val 256 /\ coerce utiny 256 = Fail ERange /\
  mech_store PMemberLit utiny (-5) = Val 0 /\ coerce utiny (-5) = Val 0 /\
  mech_store PMember tiny 200 = Fail ERange /\ mech_store PMember utiny 256 = Fail ERange.
Proof. exact struct_literal_is_checked_refuted_l. Qed.
Print Assumptions struct_literal_is_checked_refuted.

Theorem indirect_member_store_is_checked_refuted :   (* o.inner.w = 40000 (short w) keeps 40000; p->t = 200 keeps 200; an unsigned short member keeps -2 *)
  mech_store PIndirect tshort 40000 = Val 40000 /\ coerce tshort 40000 = Fail ERange /\
  mech_store PIndirect tiny 200 = Val 200 /\ coerce tiny 200 = Fail ERange /\
  mech_store PIndirect ushort (-2) = Val (-2) /\ coerce ushort (-2) = Val 0.
Proof. exact indirect_member_store_is_checked_refuted_l. Qed.
Print Assumptions indirect_member_store_is_checked_refuted.

(* ---------------------------------------------------------------- non-vacuity *)
Example sample_store :
  let p := {| pglobals := [ {| gcst := false; gty := {| base := TShort; uns := true |}; gname := 9%nat; gdims := []; ginit := [-4] |} ];
              pfuncs := [];
              pmain := [ SDecl false false tiny 1%nat (Some (ENum 127));
                         SPrint true [EVar 1%nat; EVar 9%nat];
                         SAssign (LVar 1%nat) None (ENum (-128));
                         SPrint true [EVar 1%nat];
                         SIncDec false false (LVar 1%nat);
                         SPrint true [EVar 1%nat] ] |} in
  run 100 p = ([OInt 127; OSp; OInt 0; ONl; OInt (-128); ONl], Failed ERange).
Proof. vm_compute. reflexivity. Qed.

Example sample_wf : exists s, final_state 50 {| pglobals := []; pfuncs := [];
   pmain := [ SArr false utiny 1%nat [2%nat; 2%nat] [ENum 255; ENum (-3)]; SAssign (LIdx 1%nat [ENum 1; ENum 1]) None (ENum 256) ] |} = Some s
   /\ wf_state s.
Proof. eexists. split; [reflexivity|]. apply store_inv_list. repeat split; cbn; repeat constructor. Qed.
