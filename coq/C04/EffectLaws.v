(* C04 - what a REJECTED store leaves behind (observable through `try` / `checked`): the order of conversion, check and write
   on every store path of the Mech model ([store_steps]), against the property's reading ([spec_effect]: a rejected store changes
   nothing). *)
From Coq Require Import List ZArith Bool Arith Lia.
From Cb Require Import Lang.Syntax Lang.Sem C04.Gen_RangeTable C04.Model C04.Invariant C04.MechLaws.
Import ListNotations.
Local Open Scope Z_scope.

Lemma mech_check_rejects_l t v : mech_check t v = if mech_rejects t v then Fail ERange else Val v.
Proof.
  unfold mech_check, mech_rejects. destruct (gen_range (base t) (uns t)) as [[lo hi]|]; [|reflexivity].
  destruct (gen_reject v lo hi); reflexivity.
Qed.

Lemma mech_rejects_is_spec_l t v : mech_rejects t v = negb (in_range t v).
Proof.
  pose proof (mech_check_is_spec_l t v) as H. rewrite mech_check_rejects_l in H.
  destruct (mech_rejects t v), (in_range t v); try reflexivity; discriminate.
Qed.

(* ------------------------------------------------------------------ no path writes before it has checked *)
(* once a write has happened no check may follow *)
Fixpoint checks_first (written : bool) (ks : list sstep) : bool :=
  match ks with
  | [] => true
  | KWrite :: r => checks_first true r
  | (KCheck | KCheckSigned | KCheckCopy | KCheckUnlessPtr) :: r => negb written && checks_first written r
  | _ :: r => checks_first written r
  end.

(* after the write no check is left, so the run cannot fail any more *)
Lemma run_steps_after_write_l t v0 ks : checks_first true ks = true ->
  forall cur cell, exists c, run_steps t v0 ks cur cell = (Val tt, c).
Proof.
  induction ks as [|k r IH]; intros Hc cur cell; cbn [run_steps]; [eexists; reflexivity|].
  destruct k; cbn [checks_first negb andb] in Hc; try discriminate; apply IH; exact Hc.
Qed.

Lemma run_steps_rejected_l t v0 ks : checks_first false ks = true ->
  forall cur cell e, fst (run_steps t v0 ks cur cell) = Fail e -> snd (run_steps t v0 ks cur cell) = cell.
Proof.
  induction ks as [|k r IH]; intros Hc cur cell e; cbn [run_steps].
  - discriminate.
  - destruct k; cbn [checks_first negb andb] in Hc.
    + apply IH; exact Hc.
    + apply IH; exact Hc.
    + destruct (mech_rejects t cur); [reflexivity|apply IH; exact Hc].
    + destruct (mech_rejects (signed_of t) cur); [reflexivity|apply IH; exact Hc].
    + destruct (mech_rejects t (mech_clamp (uns t) cur)); [reflexivity|apply IH; exact Hc].
    + destruct (looks_like_pointer v0); [apply IH; exact Hc|]. destruct (mech_rejects t cur); [reflexivity|apply IH; exact Hc].
    + destruct (run_steps_after_write_l t v0 r Hc cur cur) as [c E]. rewrite E. discriminate.
Qed.

Lemma assign_variable_steps_check_first_l h t : checks_first false (assign_variable_steps h t) = true.
Proof.
  unfold assign_variable_steps. destruct h as [|b|]; cbn [resolved_type];
    [destruct (base t)|destruct b|destruct (base t)]; reflexivity.
Qed.

Lemma steps_check_first_l p t : checks_first false (store_steps p t) = true.
Proof. destruct p; cbn [store_steps]; try apply assign_variable_steps_check_first_l; reflexivity. Qed.

(* on EVERY store path of the model - the recorded defects included - a store that is rejected leaves the target as it was *)
Lemma rejected_store_changes_nothing_l p t old v e :
  fst (mech_effect p t old v) = Fail e -> snd (mech_effect p t old v) = old.
Proof. unfold mech_effect. apply run_steps_rejected_l. apply steps_check_first_l. Qed.

(* the shape of seeded change C04-4 (value written in place, checked afterwards) is not of that kind: tiny 127, ++ *)
Lemma write_first_refuted_l :
  checks_first false write_first_steps = false /\
  run_steps tiny 128 write_first_steps 128 127 = (Fail ERange, 128) /\
  spec_effect tiny 127 128 = (Fail ERange, 127) /\ mech_effect PIncDecVar tiny 127 128 = (Fail ERange, 127).
Proof. vm_compute. auto. Qed.

(* ------------------------------------------------------------------ the two Mech readings agree *)
(* the outcome of [mech_effect] is the outcome of [mech_store], and after an accepted store a read of the cell yields the value
   [mech_store] predicts *)
Lemma effect_agrees_with_store_l p t old v :
  match mech_effect p t old v with
  | (Val _, c) => mech_store p t v = Val (read_of p t c)
  | (Fail e, c) => mech_store p t v = Fail e
  | _ => False
  end.
Proof.
  unfold mech_effect.
  assert (A : forall h, match run_steps t v (assign_variable_steps h t) v old with
                        | (Val _, c) => mech_assign_variable h t v = Val c
                        | (Fail e, c) => mech_assign_variable h t v = Fail e
                        | _ => False end).
  { intros h. unfold assign_variable_steps, mech_assign_variable.
    destruct h as [|b|]; cbn [resolved_type];
      [destruct (base t)|destruct b|destruct (base t)]; cbn [app run_steps];
      rewrite ?mech_check_rejects_l; try (destruct (mech_rejects t _)); reflexivity. }
  destruct p; cbn [store_steps run_steps mech_store read_of]; try apply A;
    unfold clamp_check; rewrite ?mech_check_rejects_l;
    try (destruct (looks_like_pointer v));
    try (destruct (mech_rejects _ _)); reflexivity.
Qed.

(* ------------------------------------------------------------------ the checked paths against the property's reading *)
Lemma steps_clamp_check_write_l t old v : run_steps t v [KClamp; KCheck; KWrite] v old = spec_effect t old v.
Proof.
  cbn [run_steps]. unfold spec_effect. rewrite <- clamp_check_is_coerce_l. unfold clamp_check.
  rewrite mech_check_rejects_l. destruct (mech_rejects t _); reflexivity.
Qed.

Lemma checked_paths_effect_l p : In p checked_paths -> forall t old v, mech_effect p t old v = spec_effect t old v.
Proof.
  intros H t old v. cbn in H. repeat (destruct H as [<-|H]; [apply steps_clamp_check_write_l|]). destruct H.
Qed.

(* 1-D elements: the cell itself is as demanded (what differs for unsigned element types is the READ, finding
   C04-unsigned-element-read-narrowed) *)
Lemma element_paths_effect_l p : In p element_paths -> forall t old v, mech_effect p t old v = spec_effect t old v.
Proof.
  intros H t old v. cbn in H. repeat (destruct H as [<-|H]; [apply steps_clamp_check_write_l|]). destruct H.
Qed.

(* the callers of assign_variable with a hint whose resolved type is not bool *)
Lemma assign_variable_effect_l h t old v : h <> HPointer -> resolved_type h t <> TBool ->
  run_steps t v (assign_variable_steps h t) v old = spec_effect t old v.
Proof.
  intros Hp Hb. unfold assign_variable_steps.
  assert (E : (match resolved_type h t with TBool => [KBoolNorm] | _ => [] end) = []) by (destruct (resolved_type h t); congruence).
  rewrite E. destruct h; try congruence; apply steps_clamp_check_write_l.
Qed.

Lemma hinted_paths_effect_l h p : In p (hinted_paths h ++ unhinted_paths) -> h <> HPointer ->
  forall t old v, resolved_type h t <> TBool -> base t <> TBool -> mech_effect p t old v = spec_effect t old v.
Proof.
  intros H Hp t old v Hb Hb'. cbn in H. unfold mech_effect.
  repeat (destruct H as [<-|H]; [cbn [store_steps]; apply assign_variable_effect_l; solve [assumption|discriminate]|]). destruct H.
Qed.

(* ------------------------------------------------------------------ the property's reading itself *)
Lemma spec_rejected_l t old v e : fst (spec_effect t old v) = Fail e -> snd (spec_effect t old v) = old /\ e = ERange.
Proof.
  unfold spec_effect. destruct (coerce_shape t v) as [[w E]|E]; rewrite E; cbn [fst snd]; [discriminate|].
  intros [= <-]. split; reflexivity.
Qed.

Lemma spec_accepted_l t old v : fst (spec_effect t old v) = Val tt ->
  coerce t v = Val (snd (spec_effect t old v)) /\ in_range t (snd (spec_effect t old v)) = true.
Proof.
  unfold spec_effect. destruct (coerce t v) as [w| | | |] eqn:E; cbn [fst snd]; try discriminate.
  intros _. split; [reflexivity|eapply coerce_in_range; exact E].
Qed.

(* a cell that holds a value of its type holds one after any sequence of stores, accepted or rejected *)
Lemma spec_effects_in_range_l t ops : forall cell, in_range t cell = true ->
  Forall (fun r => in_range t (snd r) = true) (spec_effects t cell ops).
Proof.
  unfold spec_effects. induction ops as [|o r IH]; intros cell Hc; cbn [effects]; [constructor|].
  destruct (spec_effect t cell (op_value (fun z => z) cell o)) as [c cell'] eqn:E.
  assert (Hc' : in_range t cell' = true).
  { unfold spec_effect in E. destruct (coerce t _) as [w| | | |] eqn:Ec; inversion E; subst; try exact Hc.
    eapply coerce_in_range; exact Ec. }
  constructor; [exact Hc'|apply IH; exact Hc'].
Qed.

(* rejected stores, however often repeated, leave the cell where it was - on every path of the model *)
Lemma repeated_rejected_l p t ops : forall cell,
  Forall (fun r => fst r = false) (mech_effects p t cell ops) -> Forall (fun r => snd r = cell) (mech_effects p t cell ops).
Proof.
  unfold mech_effects. induction ops as [|o r IH]; intros cell H; cbn [effects] in *; [constructor|].
  destruct (mech_effect p t cell (op_value (read_of p t) cell o)) as [c cell'] eqn:E.
  inversion H as [|x l Hx Hl]; subst. cbn [fst] in Hx.
  assert (cell' = cell).
  { pose proof (rejected_store_changes_nothing_l p t cell (op_value (read_of p t) cell o)) as R. rewrite E in R. cbn [fst snd] in R.
    pose proof (effect_agrees_with_store_l p t cell (op_value (read_of p t) cell o)) as G. rewrite E in G.
    destruct c as [u| | |w|e]; try discriminate; try contradiction. apply (R e). reflexivity. }
  subst cell'. constructor; [reflexivity|apply IH; exact Hl].
Qed.
