(* C04 - definitions only.
   Spec side: the store invariant [wf_state] over the states of the shared reference interpreter
   (Lang.Sem) and the state in which a whole run ends.
   Mech side: what /repo does today on each store path, written from the C++ text:
     TypeManager::check_type_range            (managers/types/manager.cpp:137, table = Gen_RangeTable.v)
     VariableManager::clamp_unsigned_value    (managers/variables/initialization.cpp:46)
     and the call sites named at each constructor of [path] below. *)
From Coq Require Import List ZArith Bool Arith.
From Cb Require Import Lang.Syntax Lang.Sem Lang.Print C04.Gen_RangeTable.
Import ListNotations.
Local Open Scope Z_scope.

(* ------------------------------------------------------------------ Spec: the store invariant *)
(* every cell of an entry holds a value of the entry's declared type, and the entry has exactly
   as many cells as its dimensions say *)
Definition wf_entry (e : entry) : Prop :=
  Forall (fun v => in_range (ety e) v = true) (evals e) /\ List.length (evals e) = size_of (edims e).
Definition wf_scope (sc : scope) : Prop := Forall (fun p => wf_entry (snd p)) sc.
Definition wf_frame (f : frame) : Prop := Forall wf_scope (fscopes f).
Definition wf_state (s : state) : Prop :=
  wf_scope (sglob s) /\ Forall wf_frame (sframes s) /\ Forall (fun p => wf_scope (snd p)) (sstat s).

(* the relation handed to Lang.Respect.eval_exec_respect *)
Definition wf_pres (s s' : state) : Prop := wf_state s -> wf_state s'.

(* ------------------------------------------------------------------ Spec: a whole run *)
(* Lang.Print.init_globals converts the global initialisers like any other store ([coerce_all]);
   [None] = an initialiser was rejected and nothing runs. The state in which a run ends: *)
Definition final_state (fuel : nat) (p : program) : option state :=
  match init_state p with
  | Some s0 => Some (snd (exec_list (exec (pfuncs p) fuel) (pmain p) s0))
  | None => None
  end.

(* ------------------------------------------------------------------ Mech: the two leaf functions *)
(* VariableManager::clamp_unsigned_value (and its copies: the `clamp_unsigned` lambda of
   VariableManager::assign_variable, CommonOperations::assign_array_element_safe,
   ArrayManager::setMultidimensionalArrayElement, CommonOperations::assign_array_literal) *)
Definition mech_clamp (u : bool) (v : Z) : Z := if gen_clamp_keeps u v then v else gen_clamp_to.
(* TypeManager::check_type_range *)
Definition mech_check (t : ty) (v : Z) : ctl Z :=
  match gen_range (base t) (uns t) with
  | None => Val v
  | Some (lo, hi) => if gen_reject v lo hi then Fail ERange else Val v
  end.
Definition clamp_check (t : ty) (v : Z) : ctl Z := mech_check t (mech_clamp (uns t) v).

(* evaluator/core/evaluator.cpp, AST_ARRAY_REF with one index: the element of a tiny/short/int
   array is re-interpreted as int8_t/int16_t/int32_t on every read, whatever [is_unsigned] says *)
Definition sext (bits : Z) (v : Z) : Z := (v + 2 ^ (bits - 1)) mod 2 ^ bits - 2 ^ (bits - 1).
Definition narrow_read (t : ty) (v : Z) : Z :=
  match base t with TTiny => sext 8 v | TShort => sext 16 v | TInt => sext 32 v | _ => v end.

(* evaluator/access/member_helpers.cpp consume_numeric_typed_value (after fix 7c216d9): a number in the
   user-space address range 0x1_0000_0000 .. 0x7fff_ffff_ffff becomes a TYPE_POINTER value, and
   VariableManager::assign_variable stores pointer values without the range check *)
Definition looks_like_pointer (v : Z) : bool :=
  let u := v mod 2 ^ 64 in (4294967296 <=? u) && (u <=? 140737488355327).

(* ------------------------------------------------------------------ Mech: the typed store entry point *)
(* the type the caller hands to VariableManager::assign_variable as [type_hint]: TYPE_UNKNOWN, a primitive type
   (for `x = c ? a : b;` the type core/type_inference.cpp infers for the selected branch: int for a literal, the declared
   type for a variable, the result type for a call, bool for a comparison / ! / an arithmetic operator on two such), TYPE_POINTER *)
Inductive hint := HNone | HTy (b : ity) | HPointer.

Definition bool_norm (v : Z) : Z := if v =? 0 then 0 else 1.

(* VariableManager::assign_variable(name, typed_value, type_hint, is_const), managers/variables/manager.cpp:961,
   apply_assignment on an existing variable declared [t], numeric value:
     resolved_type := type_hint, or target.type when the hint is TYPE_UNKNOWN          (manager.cpp:1307)
     resolved_type == TYPE_BOOL : the value is normalised to 0 / 1                     (manager.cpp:1392)
     clamp_unsigned: a negative becomes 0 when target.is_unsigned                      (manager.cpp:1395)
     range_check_type := target.type - NOT resolved_type - when the target has a primitive type (manager.cpp:1401)
     a TYPE_POINTER hint or value is stored without the check                          (manager.cpp:1410) *)
Definition resolved_type (h : hint) (t : ty) : ity := match h with HTy b => b | _ => base t end.
Definition mech_assign_variable (h : hint) (t : ty) (v : Z) : ctl Z :=
  let v1 := match resolved_type h t with TBool => bool_norm v | _ => v end in
  let v2 := mech_clamp (uns t) v1 in
  match h with HPointer => Val v2 | _ => mech_check t v2 end.

Definition signed_of (t : ty) : ty := {| base := base t; uns := false |}.

(* ------------------------------------------------------------------ Mech: the store paths *)
Inductive path :=
| PDecl            (* T x = e;            declaration.cpp process_variable_declaration: clamp, check_type_range *)
| PAssign          (* x = e;              simple_assignment.cpp -> VariableManager::assign_variable: clamp, check *)
| PCompound        (* x op= e;            same store as PAssign *)
| PArg             (* f(e) / default      VariableManager::assign_function_parameter -> assign_variable *)
| PGlobalScalar    (* T g = c;            declare_global_variable / interpreter.cpp:493: clamp, check *)
| PStatic          (* static T x = e;     declaration checks a clamped copy, StaticVariableManager::create_static_variable stores evaluate(init) raw *)
| PIncDecVar       (* x++ ++x x-- --x     incdec.cpp evaluate_incdec (fix 892a98c): clamp, check_type_range, then store *)
| PIncDecElem1     (* a[i]++ ...          incdec.cpp (fix 1b2d709): clamp, check on the raw stored element; read narrows *)
| PReturn          (* return e;           call_impl.cpp return site (fix d7775cd): unsigned clamp, check against func->return_types[0] *)
| PReturnElemN     (* return m[i][j];     same site, but a value the pointer heuristic takes for an address (ret.type = TYPE_POINTER) skips the check *)
| PElem1           (* a[i] = e;           CommonOperations::assign_array_element_safe: clamp, check; read narrows *)
| PElem1Compound   (* a[i] op= e;         same store as PElem1 (old value read through the narrowing read) *)
| PElemN           (* m[i][j] = e;        ArrayManager::setMultidimensionalArrayElement (fix a6c628c): clamp, check *)
| PLit1            (* T[n] a = [..];      ArrayManager (arrays/manager.cpp), 1-D literal loop of the array declaration (fix 11769f3): clamp, check; read narrows *)
| PLitN            (* T[n][m] a = [[..]]; ArrayManager::processArrayLiteralRecursive (fix 11769f3): clamp, check *)
| PGlobalArr       (* global T[n] a=[..]; CommonOperations::assign_array_literal_to_variable, and a global array has lost is_unsigned: no clamp, no check *)
| PAssignFromElemN (* x = m[i][j];        the value passes consume_numeric_typed_value: pointer-looking values skip the check *)
(* --- the store paths added when the ternary-assignment blind spot was closed (every caller of assign_variable with a
       type hint and the other store entry points of managers/variables/*.cpp, executors/declarations, executors/assignments) *)
| PAssignHint (h : hint) (* x = c ? a : b;  statement_executor.cpp execute_ternary_assignment: assign_variable(name, value of the selected
                            branch, typed_value.type.type_info) - the hint is the INFERRED type of the branch, not the type of x *)
| PAssignCall      (* x = f(..);          simple_assignment.cpp:1166 (own branch for AST_FUNC_CALL): assign_variable, hint TYPE_UNKNOWN *)
| PDeclCall        (* T x = f(..);        declaration.cpp:1852 (own branch for AST_FUNC_CALL): clamp_unsigned_value, then the check at 2077 *)
| PDeclTypedef     (* typedef T A; A x=e; declaration.cpp:716-743 (typedef branch): clamp_unsigned_value, check_type_range *)
| PDeclTypedefTernary (* A x = c ? a : b; declaration.cpp:513 (typedef branch, ternary): var.value = ternary_result.value - no clamp, no check *)
| PDeclMulti (h : hint) (* T a = e, b = e;   variable_declaration.cpp execute_variable_declaration (only reached from execute_multiple_var_decl):
                            assign_variable(name, typed value, node->type_info); a ?: initialiser goes through
                            execute_ternary_variable_initialization: assign_variable(name, value, inferred type of the branch) *)
| PConstGlobal     (* const T g = c;      interpreter.cpp:507 after declare_global_variable: assign_variable, hint TYPE_UNKNOWN *)
| PStaticAssign    (* s = e; s op= e; s++ on a static: the static copy has lost is_unsigned (static.cpp create_static_variable) - no clamp,
                      range of the SIGNED type *)
| PElem1Global     (* g[i] = e; global array: is_unsigned lost - no clamp, range of the signed type; read narrows *)
| PArrLitAssign1   (* a = [..];  1-D      CommonOperations::assign_array_literal_to_variable (operations.cpp:68): clamp only; read narrows.
                      Also `typedef T A; A[n] a = [..];` (initialization.cpp handle_array_literal_initialization -> the same function) *)
| PArrLitAssignN   (* m = [[..]..];       same function, nested literal: clamp only *)
| PArrCopy         (* a = b; T[n] a = f(); array parameter: the Variable is replaced wholesale (element type included): nothing *)
| PMember          (* s.m = e; s.m op= e; s.m++ / --s.m; s.a[i] = e; s.a[i][j] = e; Box<T> b; b.v = e;  managers/structs/assignment.cpp
                      StructAssignmentManager::assign_struct_member (both overloads), assign_struct_member_array_element and the member
                      branch of incdec.cpp evaluate_incdec (fix a3f0b3d): unsigned clamp, then check_type_range with the member's declared type *)
| PMemberLit       (* S s = {e,..}; S s = {m: e}; s = {m: e}; nested and generic literals;  managers/structs/assignment.cpp
                      process_named_initialization / process_positional_initialization: the `clamp_unsigned_member` lambda only, no range
                      check (finding C04-struct-literal-unchecked - fix a3f0b3d does not cover literals) *)
| PIndirect        (* o.in.m = e; p->m = e; ( *p ).m = e; ps[i].m = e; S& r = s; r.m = e; self.m = e; *p = e; T& q = t; q = e;  nested members,
                      members reached through a pointer / a reference / self / an element of a struct array, pointer and reference stores
                      write Variable::value directly: no clamp, no check (findings C04-nested-member-store-unchecked,
                      C04-member-through-pointer-unchecked, C04-member-through-reference-unchecked, C04-struct-array-member-unchecked,
                      C04-pointer-store-unchecked, C04-reference-store-unchecked) *).

(* the value a later read of the cell yields (what the property speaks about), or the error *)
Definition mech_store (p : path) (t : ty) (v : Z) : ctl Z :=
  match p with
  | PDecl | PAssign | PCompound | PArg | PGlobalScalar | PIncDecVar | PReturn | PElemN | PLitN => clamp_check t v
  | PStatic => match clamp_check t v with Val _ => Val v | other => other end
  | PElem1 | PElem1Compound | PIncDecElem1 | PLit1 =>
      match clamp_check t v with Val w => Val (narrow_read t w) | other => other end
  | PGlobalArr => Val (narrow_read t v)
  | PAssignFromElemN | PReturnElemN => if looks_like_pointer v then Val (mech_clamp (uns t) v) else clamp_check t v
  | PAssignHint h | PDeclMulti h => mech_assign_variable h t v
  | PAssignCall | PConstGlobal => mech_assign_variable HNone t v
  | PDeclCall | PDeclTypedef | PMember => clamp_check t v
  | PDeclTypedefTernary | PArrCopy | PIndirect => Val v
  | PMemberLit => Val (mech_clamp (uns t) v)
  | PStaticAssign => mech_check (signed_of t) v
  | PElem1Global => match mech_check (signed_of t) v with Val w => Val (narrow_read t w) | other => other end
  | PArrLitAssign1 => Val (narrow_read t (mech_clamp (uns t) v))
  | PArrLitAssignN => Val (mech_clamp (uns t) v)
  end.

(* a[i] op= d computes from the narrowed old value (the element is read as an expression);
   a[i]++ / a[i]-- compute from the stored element itself *)
Definition mech_elem1_update (p : path) (t : ty) (old delta : Z) : ctl Z :=
  match p with
  | PIncDecElem1 => mech_store p t (old + delta)
  | _ => mech_store p t (narrow_read t old + delta)
  end.

Definition checked_paths : list path := [PDecl; PAssign; PCompound; PArg; PGlobalScalar; PIncDecVar; PReturn; PElemN; PLitN;
                                         PDeclCall; PDeclTypedef; PMember].
(* the callers of assign_variable: as demanded whenever the resolved type is not bool and the hint is not TYPE_POINTER *)
Definition hinted_paths (h : hint) : list path := [PAssignHint h; PDeclMulti h].
Definition unhinted_paths : list path := [PAssignCall; PConstGlobal].
(* 1-D element storage: as demanded up to the narrowing read *)
Definition element_paths : list path := [PElem1; PElem1Compound; PIncDecElem1; PLit1].
Definition unchecked_paths : list path :=
  [PStatic; PElem1; PElem1Compound; PIncDecElem1; PLit1; PGlobalArr; PAssignFromElemN; PReturnElemN;
   PAssignHint (HTy TBool); PDeclMulti (HTy TBool); PDeclTypedefTernary; PStaticAssign; PElem1Global; PArrLitAssign1; PArrLitAssignN; PArrCopy;
   PMemberLit; PIndirect].

(* ------------------------------------------------------------------ Mech: the ORDER of conversion, check and write *)
(* What a store leaves in the cell when it is REJECTED is observable: `try e` / `checked e` (evaluator/operators/error_handling.cpp
   evaluate_try_like_expression) turn the exception thrown by check_type_range into an Err(..) value and the program goes on.  The
   property demands that the cell then still holds its old value.  [store_steps] is, per store path, the order in which the C++ of
   that path converts, checks and writes (read off the functions named at [path]); [run_steps] executes such a sequence on a cell. *)
Inductive sstep :=
| KBoolNorm          (* numeric_value = (numeric_value != 0) ? 1 : 0;                        manager.cpp:1392 *)
| KClamp             (* a negative value becomes 0 when the target is unsigned               clamp_unsigned_value and its copies *)
| KCheck             (* check_type_range(declared type, value, name, is_unsigned) - throws   *)
| KCheckSigned       (* the same call on a target that has lost is_unsigned (statics, global arrays) *)
| KCheckCopy         (* the check of a clamped COPY of the value, the value itself goes on unclamped (static initialiser) *)
| KCheckUnlessPtr    (* the check is skipped when the value AS EVALUATED looks like an address (consume_numeric_typed_value) *)
| KWrite.            (* Variable::value / array_values[i] / struct member := the value as converted so far *)

Definition mech_rejects (t : ty) (v : Z) : bool :=
  match gen_range (base t) (uns t) with None => false | Some (lo, hi) => gen_reject v lo hi end.

(* v0: the value as evaluated; cur: the value as converted so far; cell: what the target holds *)
Fixpoint run_steps (t : ty) (v0 : Z) (ks : list sstep) (cur cell : Z) : ctl unit * Z :=
  match ks with
  | [] => (Val tt, cell)
  | k :: r =>
      match k with
      | KBoolNorm => run_steps t v0 r (bool_norm cur) cell
      | KClamp => run_steps t v0 r (mech_clamp (uns t) cur) cell
      | KCheck => if mech_rejects t cur then (Fail ERange, cell) else run_steps t v0 r cur cell
      | KCheckSigned => if mech_rejects (signed_of t) cur then (Fail ERange, cell) else run_steps t v0 r cur cell
      | KCheckCopy => if mech_rejects t (mech_clamp (uns t) cur) then (Fail ERange, cell) else run_steps t v0 r cur cell
      | KCheckUnlessPtr => if looks_like_pointer v0 then run_steps t v0 r cur cell
                           else if mech_rejects t cur then (Fail ERange, cell) else run_steps t v0 r cur cell
      | KWrite => run_steps t v0 r cur cur
      end
  end.

Definition assign_variable_steps (h : hint) (t : ty) : list sstep :=
  (match resolved_type h t with TBool => [KBoolNorm] | _ => [] end) ++ [KClamp] ++
  (match h with HPointer => [] | _ => [KCheck] end) ++ [KWrite].

Definition store_steps (p : path) (t : ty) : list sstep :=
  match p with
  (* new_value computed / clamp / check_type_range / only then `var->value = new_value` (incdec.cpp:316-337, :423-441, :512-533;
     manager.cpp:1395-1428 check then setNumericFields; operations.cpp:314-357; arrays/manager.cpp:1519-1527; structs/assignment.cpp
     :113-130, :339-350, :659-672; call_impl.cpp:6868-6880; declaration.cpp:2060-2085: the Variable is inserted into the scope last) *)
  | PDecl | PAssign | PCompound | PArg | PGlobalScalar | PIncDecVar | PReturn | PElemN | PLitN
  | PDeclCall | PDeclTypedef | PMember
  | PElem1 | PElem1Compound | PIncDecElem1 | PLit1 => [KClamp; KCheck; KWrite]
  | PStatic => [KCheckCopy; KWrite]
  | PGlobalArr | PDeclTypedefTernary | PArrCopy | PIndirect => [KWrite]
  | PAssignFromElemN | PReturnElemN => [KClamp; KCheckUnlessPtr; KWrite]
  | PAssignHint h | PDeclMulti h => assign_variable_steps h t
  | PAssignCall | PConstGlobal => assign_variable_steps HNone t
  | PMemberLit | PArrLitAssign1 | PArrLitAssignN => [KClamp; KWrite]
  | PStaticAssign | PElem1Global => [KCheckSigned; KWrite]
  end.

(* what a read of the cell yields: 1-D elements of plain arrays are re-read through the narrowing read *)
Definition read_of (p : path) (t : ty) (raw : Z) : Z :=
  match p with
  | PElem1 | PElem1Compound | PIncDecElem1 | PLit1 | PGlobalArr | PElem1Global | PArrLitAssign1 => narrow_read t raw
  | _ => raw
  end.

(* the store of [v] along [p] into a [t] cell that holds [old]: (outcome, what the cell holds afterwards) *)
Definition mech_effect (p : path) (t : ty) (old v : Z) : ctl unit * Z := run_steps t v (store_steps p t) v old.
(* what the property demands: the converted value is written, a rejected store changes nothing *)
Definition spec_effect (t : ty) (old v : Z) : ctl unit * Z :=
  match coerce t v with Val w => (Val tt, w) | Fail e => (Fail e, old) | _ => (Fail EUndef, old) end.

(* a sequence of stores into the same cell (the try / checked cells of the matrix): `= v`, `x++` / `x op= d` computed from the
   stored value, `a[i] op= d` computed from the value as read *)
Inductive sop := OSet (v : Z) | OAddRaw (d : Z) | OAddRead (d : Z).
Definition op_value (rd : Z -> Z) (cell : Z) (o : sop) : Z :=
  match o with OSet v => v | OAddRaw d => cell + d | OAddRead d => rd cell + d end.
Fixpoint effects (eff : Z -> Z -> ctl unit * Z) (rd : Z -> Z) (cell : Z) (ops : list sop) : list (bool * Z) :=
  match ops with
  | [] => []
  | o :: r => let '(c, cell') := eff cell (op_value rd cell o) in
              ((match c with Val _ => true | _ => false end), cell') :: effects eff rd cell' r
  end.
Definition mech_effects (p : path) (t : ty) := effects (mech_effect p t) (read_of p t).
Definition spec_effects (t : ty) := effects (spec_effect t) (fun z => z).

(* the shape seeded change C04-4 gave incdec.cpp: `var->value` updated in place, clamped in place, checked afterwards *)
Definition write_first_steps : list sstep := [KWrite; KClamp; KWrite; KCheck].

(* the documented ranges (docs/spec.md "基本型"): n-bit two's complement / n-bit unsigned *)
Definition bits_of (b : ity) : option Z :=
  match b with TTiny => Some 8 | TShort => Some 16 | TInt => Some 32 | TLong => Some 64 | TChar => Some 8 | TBool => None end.
Definition documented_range (b : ity) (u : bool) : option (Z * Z) :=
  match b, bits_of b with
  | TChar, _ => Some (0, 255)                     (* "char c = 'A'; // ASCII (0-255)" *)
  | _, Some n => if u then Some (0, 2 ^ n - 1) else Some (- 2 ^ (n - 1), 2 ^ (n - 1) - 1)
  | _, None => None
  end.
