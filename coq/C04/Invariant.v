(* C04 - the store invariant is preserved by every primitive, hence (Lang.Respect) by every
   evaluation of every expression and statement, for every fuel. *)
From Coq Require Import List ZArith Bool Arith Lia.
From Cb Require Import Lang.Syntax Lang.Sem Lang.Respect Lang.Theorems Lang.Print C04.Gen_RangeTable C04.Model.
Import ListNotations.
Local Open Scope Z_scope.

(* ------------------------------------------------------------------ ranges *)
Lemma zero_in_range t : in_range t 0 = true.
Proof. destruct t as [b u]; destruct b, u; reflexivity. Qed.

Lemma coerce_in_range t v w : coerce t v = Val w -> in_range t w = true.
Proof.
  unfold coerce. destruct (uns t && (v <? 0)).
  - intros [= <-]. apply zero_in_range.
  - destruct (in_range t v) eqn:E; [|discriminate]. intros [= <-]. exact E.
Qed.

Lemma coerce_all_in_range t vs ws : coerce_all t vs = Val ws -> Forall (fun v => in_range t v = true) ws.
Proof.
  revert ws; induction vs as [|v r IH]; intros ws; cbn [coerce_all].
  - intros [= <-]. constructor.
  - destruct (coerce t v) as [w| | | |] eqn:E; try discriminate.
    destruct (coerce_all t r) as [r'| | | |]; try discriminate.
    intros [= <-]. constructor; [eapply coerce_in_range; exact E|apply IH; reflexivity].
Qed.

Lemma pad_length n l : List.length (pad n l) = n.
Proof. revert l; induction n as [|k IH]; intros l; cbn [pad]; [reflexivity|]. destruct l; cbn [List.length]; rewrite IH; reflexivity. Qed.
Lemma pad_forall (P : Z -> Prop) n l : P 0 -> Forall P l -> Forall P (pad n l).
Proof.
  intros H0. revert l; induction n as [|k IH]; intros l Hl; cbn [pad]; [constructor|].
  destruct l as [|x r]; constructor; try assumption.
  - apply IH. constructor.
  - inversion Hl; assumption.
  - apply IH. inversion Hl; assumption.
Qed.
Lemma set_nth_length n v l : List.length (set_nth n v l) = List.length l.
Proof. revert n; induction l as [|x r IH]; intros n; destruct n; cbn [set_nth List.length]; try reflexivity. rewrite IH; reflexivity. Qed.
Lemma set_nth_forall (P : Z -> Prop) n v l : P v -> Forall P l -> Forall P (set_nth n v l).
Proof.
  intros Hv. revert n; induction l as [|x r IH]; intros n Hl; destruct n; cbn [set_nth]; try constructor;
    inversion Hl; subst; auto.
Qed.

(* ------------------------------------------------------------------ association lists *)
Section Assoc.
Context {A : Type} (P : A -> Prop).
Lemma assoc_forall x l a : Forall (fun p => P (snd p)) l -> assoc x l = Some a -> P a.
Proof.
  induction l as [|[y b] r IH]; cbn [assoc]; [discriminate|]. intros Hl.
  inversion Hl; subst. destruct (Nat.eqb x y); [intros [= <-]; assumption|apply IH; assumption].
Qed.
Lemma assoc_set_forall x a l : Forall (fun p => P (snd p)) l -> P a -> Forall (fun p => P (snd p)) (assoc_set x a l).
Proof.
  intros Hl Ha. induction l as [|[y b] r IH]; cbn [assoc_set]; [constructor|].
  inversion Hl; subst. destruct (Nat.eqb x y); constructor; auto.
Qed.
End Assoc.

Lemma scopes_get_wf x ss e : Forall wf_scope ss -> scopes_get x ss = Some e -> wf_entry e.
Proof.
  induction ss as [|sc r IH]; cbn [scopes_get]; [discriminate|]. intros Hs. inversion Hs; subst.
  destruct (assoc x sc) eqn:E.
  - intros [= <-]. eapply (assoc_forall wf_entry); eassumption.
  - apply IH; assumption.
Qed.
Lemma scopes_set_wf x e ss : Forall wf_scope ss -> wf_entry e -> Forall wf_scope (scopes_set x e ss).
Proof.
  intros Hs He. induction ss as [|sc r IH]; cbn [scopes_set]; [constructor|]. inversion Hs; subst.
  destruct (assoc x sc); constructor; auto. apply (assoc_set_forall wf_entry); assumption.
Qed.
Lemma statics_of_wf f s : Forall (fun p => wf_scope (snd p)) (sstat s) -> wf_scope (statics_of f s).
Proof.
  intros H. unfold statics_of. destruct (assoc f (sstat s)) eqn:E; [|constructor].
  eapply (assoc_forall wf_scope); eassumption.
Qed.
Lemma set_stat_wf f sc l : Forall (fun p => wf_scope (snd p)) l -> wf_scope sc ->
  Forall (fun p => wf_scope (snd p)) (set_stat f sc l).
Proof.
  intros Hl Hs. unfold set_stat. destruct (assoc f l).
  - apply (assoc_set_forall wf_scope); assumption.
  - constructor; assumption.
Qed.

(* ------------------------------------------------------------------ lookup / update *)
Lemma get_entry_wf x s e : wf_state s -> get_entry x s = Some e -> wf_entry e.
Proof.
  intros (Hg & Hf & Hs). unfold get_entry. destruct (sframes s) as [|f fr] eqn:Ef.
  - apply (assoc_forall wf_entry); assumption.
  - inversion Hf; subst. destruct (scopes_get x (fscopes f)) eqn:E1.
    + intros [= <-]. eapply scopes_get_wf; eassumption.
    + destruct (assoc x (statics_of (ffn f) s)) eqn:E2.
      * intros [= <-]. eapply (assoc_forall wf_entry); [apply statics_of_wf; exact Hs|exact E2].
      * apply (assoc_forall wf_entry); assumption.
Qed.

Lemma put_entry_wf x e s : wf_state s -> wf_entry e -> wf_state (put_entry x e s).
Proof.
  intros (Hg & Hf & Hs) He. unfold put_entry. destruct (sframes s) as [|f fr] eqn:Ef.
  - repeat split; cbn; try rewrite Ef; auto. apply (assoc_set_forall wf_entry); assumption.
  - inversion Hf; subst. destruct (scopes_get x (fscopes f)).
    + repeat split; cbn; auto. constructor; [|assumption]. unfold wf_frame; cbn. apply scopes_set_wf; assumption.
    + destruct (assoc x (statics_of (ffn f) s)).
      * repeat split; cbn; try rewrite Ef; auto. apply set_stat_wf; [assumption|].
        apply (assoc_set_forall wf_entry); [apply statics_of_wf; assumption|assumption].
      * repeat split; cbn; try rewrite Ef; auto. apply (assoc_set_forall wf_entry); assumption.
Qed.

(* ------------------------------------------------------------------ the primitives *)
Lemma wf_pres_refl s : wf_pres s s. Proof. intros H; exact H. Qed.
Lemma wf_pres_trans a b c : wf_pres a b -> wf_pres b c -> wf_pres a c.
Proof. unfold wf_pres; auto. Qed.

Lemma write_wf x i v : respects wf_pres (m_write x i v).
Proof.
  intros s Hw. unfold m_write. destruct (get_entry x s) as [e|] eqn:Eg; [|exact Hw].
  destruct (econst e); [exact Hw|]. destruct (flat_index _ _ _) as [k|]; [|exact Hw].
  destruct (coerce (ety e) v) as [w| | | |] eqn:Ec; try exact Hw. cbn [snd].
  apply put_entry_wf; [exact Hw|]. destruct (get_entry_wf _ _ _ Hw Eg) as [Hv Hl].
  split; cbn.
  - apply set_nth_forall; [eapply coerce_in_range; exact Ec|exact Hv].
  - rewrite set_nth_length. exact Hl.
Qed.

Lemma declare_wf sta cst t x d vs : respects wf_pres (m_declare sta cst t x d vs).
Proof.
  intros s Hw. unfold m_declare. destruct (coerce_all t vs) as [ws| | | |] eqn:Ec; try exact Hw.
  assert (He : wf_entry {| ety := t; econst := cst; edims := d; evals := pad (size_of d) ws |}).
  { split; cbn; [|apply pad_length]. apply pad_forall; [apply zero_in_range|]. eapply coerce_all_in_range; exact Ec. }
  destruct Hw as (Hg & Hf & Hs). destruct (sframes s) as [|f fr] eqn:Ef.
  - cbn [snd]. repeat split; cbn; auto. constructor; assumption.
  - destruct sta.
    + cbn [snd]. repeat split; cbn; try rewrite Ef; auto. apply set_stat_wf; [assumption|].
      constructor; [exact He|]. apply statics_of_wf. assumption.
    + destruct (fscopes f) as [|sc scs] eqn:Es; cbn [snd].
      * repeat split; try rewrite Ef; assumption.
      * inversion Hf; subst. repeat split; cbn; auto. constructor; [|assumption].
        unfold wf_frame in *; cbn. rewrite Es in *. inversion H1; subst. constructor; [|assumption].
        constructor; assumption.
Qed.

Lemma out_wf o : respects wf_pres (m_out o).
Proof. intros s (Hg & Hf & Hs). repeat split; assumption. Qed.

Lemma push_scope_wf : respects wf_pres m_push_scope.
Proof.
  intros s Hw. unfold m_push_scope. destruct (sframes s) as [|f fr] eqn:Ef; [exact Hw|].
  destruct Hw as (Hg & Hf & Hs). rewrite Ef in Hf. inversion Hf; subst. cbn [snd].
  repeat split; cbn; auto. constructor; [|assumption]. unfold wf_frame; cbn. constructor; [constructor|assumption].
Qed.
Lemma pop_scope_wf s : wf_pres s (pop_scope_st s).
Proof.
  intros Hw. unfold pop_scope_st. destruct (sframes s) as [|f fr] eqn:Ef; [exact Hw|].
  destruct Hw as (Hg & Hf & Hs). rewrite Ef in Hf. inversion Hf; subst.
  repeat split; cbn; auto. constructor; [|assumption]. unfold wf_frame in *; cbn.
  destruct (fscopes f); [constructor|]. inversion H1; assumption.
Qed.
Lemma push_frame_wf f : respects wf_pres (m_push_frame f).
Proof.
  intros s (Hg & Hf & Hs). cbn. repeat split; cbn; auto. constructor; [|assumption].
  unfold wf_frame; cbn. constructor; constructor.
Qed.
Lemma pop_frame_wf s : wf_pres s (pop_frame_st s).
Proof.
  intros (Hg & Hf & Hs). repeat split; cbn; auto. destruct (sframes s); [constructor|]. inversion Hf; assumption.
Qed.

(* ------------------------------------------------------------------ every evaluation, every fuel *)
Lemma store_inv_step_l funcs n :
  (forall e, respects wf_pres (eval funcs n e)) /\ (forall st, respects wf_pres (exec funcs n st)).
Proof.
  apply eval_exec_respect.
  - exact wf_pres_refl.
  - exact wf_pres_trans.
  - exact write_wf.
  - exact declare_wf.
  - exact out_wf.
  - apply block_of_prims; [exact wf_pres_trans|exact push_scope_wf|exact pop_scope_wf].
  - apply frame_of_prims; [exact wf_pres_trans|exact push_frame_wf|exact pop_frame_wf].
Qed.

Lemma store_inv_list funcs n ss s : wf_state s -> wf_state (snd (exec_list (exec funcs n) ss s)).
Proof. intros H. exact (exec_list_respect wf_pres wf_pres_refl wf_pres_trans write_wf declare_wf out_wf
  (block_of_prims wf_pres wf_pres_trans push_scope_wf pop_scope_wf)
  (frame_of_prims wf_pres wf_pres_trans push_frame_wf pop_frame_wf) funcs n ss s H). Qed.

(* ------------------------------------------------------------------ the initial state *)
Lemma init_globals_wf gs :
  Forall (fun g => Forall (fun v => in_range (gty g) v = true) (ginit g)) gs -> wf_scope (init_globals gs).
Proof.
  intros H. unfold init_globals, wf_scope. apply Forall_rev. induction H as [|g r Hg Hr IH]; cbn [map]; constructor; [|exact IH].
  cbn. split; cbn; [|apply pad_length]. apply pad_forall; [apply zero_in_range|exact Hg].
Qed.

Lemma init_state_wf p : globals_in_range p -> wf_state (init_state p).
Proof.
  intros H. repeat split; cbn.
  - apply init_globals_wf. exact H.
  - constructor; [|constructor]. unfold wf_frame; cbn. constructor; constructor.
  - constructor.
Qed.

Lemma store_inv_run_l fuel p : globals_in_range p -> wf_state (final_state fuel p).
Proof. intros H. unfold final_state. apply store_inv_list. apply init_state_wf. exact H. Qed.

(* checked start-up: whatever the initialisers are, a run that starts at all starts well-formed *)
Lemma check_globals_in_range gs gs' : check_globals gs = Val gs' ->
  Forall (fun g => Forall (fun v => in_range (gty g) v = true) (ginit g)) gs'.
Proof.
  revert gs'; induction gs as [|g r IH]; intros gs'; cbn [check_globals].
  - intros [= <-]. constructor.
  - unfold check_global. destruct (coerce_all (gty g) (ginit g)) as [vs| | | |] eqn:E; try discriminate.
    destruct (check_globals r) as [r'| | | |]; try discriminate. intros [= <-].
    constructor; [cbn; eapply coerce_all_in_range; exact E|apply IH; reflexivity].
Qed.

Lemma store_inv_run_checked_l fuel p gs : check_globals (pglobals p) = Val gs ->
  wf_state (final_state fuel (with_globals p gs)) /\
  run_c04 fuel p = run fuel (with_globals p gs).
Proof.
  intros H. split.
  - apply store_inv_run_l. unfold globals_in_range; cbn. eapply check_globals_in_range; exact H.
  - unfold run_c04. rewrite H. reflexivity.
Qed.

(* [run] is [final_state] seen from outside *)
Lemma run_final fuel p : fst (run fuel p) = rev (sout (final_state fuel p)).
Proof.
  unfold run, final_state. destruct (exec_list _ _ _) as [c s]. reflexivity.
Qed.

(* in-range non-negative-for-unsigned initialisers: the checked start is the plain one *)
Lemma coerce_id t v : in_range t v = true -> (uns t = true -> 0 <= v) -> coerce t v = Val v.
Proof.
  intros Hr Hu. unfold coerce. destruct (uns t) eqn:Eu; cbn [andb].
  - destruct (v <? 0) eqn:E; [apply Z.ltb_lt in E; specialize (Hu eq_refl); lia|]. rewrite Hr. reflexivity.
  - rewrite Hr. reflexivity.
Qed.
Lemma in_range_unsigned_nonneg t v : in_range t v = true -> uns t = true -> base t <> TBool -> 0 <= v.
Proof.
  destruct t as [b u]; cbn. intros H -> Hb. destruct b; try congruence; unfold in_range in H; cbn in H;
    apply andb_true_iff in H as [H _]; apply Z.leb_le in H; exact H.
Qed.
Lemma coerce_all_id t vs : Forall (fun v => in_range t v = true /\ (uns t = true -> 0 <= v)) vs -> coerce_all t vs = Val vs.
Proof.
  induction 1 as [|v r [Hr Hu] _ IH]; cbn [coerce_all]; [reflexivity|]. rewrite (coerce_id _ _ Hr Hu), IH. reflexivity.
Qed.
Lemma check_globals_id gs :
  Forall (fun g => Forall (fun v => in_range (gty g) v = true /\ (uns (gty g) = true -> 0 <= v)) (ginit g)) gs ->
  check_globals gs = Val gs.
Proof.
  induction 1 as [|g r Hg _ IH]; cbn [check_globals]; [reflexivity|].
  unfold check_global. rewrite (coerce_all_id _ _ Hg), IH. destruct g; reflexivity.
Qed.
Lemma run_c04_agrees_l fuel p :
  Forall (fun g => Forall (fun v => in_range (gty g) v = true /\ (uns (gty g) = true -> 0 <= v)) (ginit g)) (pglobals p) ->
  run_c04 fuel p = run fuel p.
Proof.
  intros H. unfold run_c04. rewrite (check_globals_id _ H). destruct p; reflexivity.
Qed.

(* a rejected global initialiser ends the program before anything runs *)
Lemma coerce_shape t v : (exists w, coerce t v = Val w) \/ coerce t v = Fail ERange.
Proof. unfold coerce. destruct (uns t && (v <? 0)); [left; eauto|]. destruct (in_range t v); [left; eauto|right; reflexivity]. Qed.
Lemma coerce_all_shape t vs : (exists ws, coerce_all t vs = Val ws) \/ coerce_all t vs = Fail ERange.
Proof.
  induction vs as [|v r IH]; cbn [coerce_all]; [left; eauto|].
  destruct (coerce_shape t v) as [[w ->]| ->]; [|right; reflexivity].
  destruct IH as [[ws ->]| ->]; [left; eauto|right; reflexivity].
Qed.
Lemma coerce_all_rejects t vs v : In v vs -> coerce t v = Fail ERange -> coerce_all t vs = Fail ERange.
Proof.
  induction vs as [|w r IH]; [intros []|]. intros [->|Hin] Hf; cbn [coerce_all].
  - rewrite Hf. reflexivity.
  - destruct (coerce_shape t w) as [[w' ->]| ->]; [|reflexivity]. rewrite (IH Hin Hf). reflexivity.
Qed.
Lemma check_globals_rejects gs g v :
  In g gs -> In v (ginit g) -> coerce (gty g) v = Fail ERange -> check_globals gs = Fail ERange.
Proof.
  induction gs as [|h r IH]; [intros []|]. intros [->|Hin] Hv Hc; cbn [check_globals]; unfold check_global.
  - rewrite (coerce_all_rejects _ _ _ Hv Hc). reflexivity.
  - destruct (coerce_all_shape (gty h) (ginit h)) as [[ws ->]| ->]; [|reflexivity].
    rewrite (IH Hin Hv Hc). reflexivity.
Qed.
Lemma run_c04_rejects_l fuel p g v :
  In g (pglobals p) -> In v (ginit g) -> coerce (gty g) v = Fail ERange ->
  run_c04 fuel p = ([], Failed ERange).
Proof. intros Hg Hv Hc. unfold run_c04. rewrite (check_globals_rejects _ _ _ Hg Hv Hc). reflexivity. Qed.

Lemma check_globals_shape gs : (exists gs', check_globals gs = Val gs') \/ check_globals gs = Fail ERange.
Proof.
  induction gs as [|g r IH]; cbn [check_globals]; [left; eauto|]. unfold check_global.
  destruct (coerce_all_shape (gty g) (ginit g)) as [[ws ->]| ->]; [|right; reflexivity].
  destruct IH as [[r' ->]| ->]; [left; eauto|right; reflexivity].
Qed.

Lemma store_inv_run_checked_full_l fuel p :
  (exists e, check_globals (pglobals p) = Fail e /\ run_c04 fuel p = ([], Failed e)) \/
  (exists gs, check_globals (pglobals p) = Val gs /\ wf_state (final_state fuel (with_globals p gs)) /\
              run_c04 fuel p = run fuel (with_globals p gs)).
Proof.
  destruct (check_globals_shape (pglobals p)) as [[gs E]|E].
  - right. exists gs. split; [exact E|]. exact (store_inv_run_checked_l fuel p gs E).
  - left. exists ERange. split; [exact E|]. unfold run_c04. rewrite E. reflexivity.
Qed.

Lemma boundary_values_admitted_l t lo hi : range t = Some (lo, hi) ->
  in_range t lo = true /\ in_range t hi = true /\ in_range t (lo - 1) = false /\ in_range t (hi + 1) = false /\
  (uns t = true -> lo = 0).
Proof.
  destruct t as [b u]. intros H. destruct b, u; cbn in H; try discriminate; injection H as <- <-; vm_compute; repeat split; intros; try reflexivity; try discriminate.
Qed.
