(* C04 - the store invariant is preserved by every primitive, hence (Lang.Respect) by every
   evaluation of every expression and statement, for every fuel. *)
From Coq Require Import List ZArith Bool Arith Lia.
From Cb Require Import Lang.Syntax Lang.Sem Lang.Respect Lang.Theorems Lang.Print C04.Gen_RangeTable C04.Model.
Import ListNotations.
Local Open Scope Z_scope.

(* ------------------------------------------------------------------ ranges *)
Lemma zero_in_range t : in_range t 0 = true.
Proof. destruct t as [b u]; destruct b, u; reflexivity. Qed.

Lemma coerce_in_range t v w : coerce t v = Val w -> in_range t w = true.
Proof.
  unfold coerce. destruct (uns t && (v <? 0)).
  - intros [= <-]. apply zero_in_range.
  - destruct (in_range t v) eqn:E; [|discriminate]. intros [= <-]. exact E.
Qed.

Lemma coerce_all_in_range t vs ws : coerce_all t vs = Val ws -> Forall (fun v => in_range t v = true) ws.
Proof.
  revert ws; induction vs as [|v r IH]; intros ws; cbn [coerce_all].
  - intros [= <-]. constructor.
  - destruct (coerce t v) as [w| | | |] eqn:E; try discriminate.
    destruct (coerce_all t r) as [r'| | | |]; try discriminate.
    intros [= <-]. constructor; [eapply coerce_in_range; exact E|apply IH; reflexivity].
Qed.

Lemma pad_length n l : List.length (pad n l) = n.
Proof. revert l; induction n as [|k IH]; intros l; cbn [pad]; [reflexivity|]. destruct l; cbn [List.length]; rewrite IH; reflexivity. Qed.
Lemma pad_forall (P : Z -> Prop) n l : P 0 -> Forall P l -> Forall P (pad n l).
Proof.
  intros H0. revert l; induction n as [|k IH]; intros l Hl; cbn [pad]; [constructor|].
  destruct l as [|x r]; constructor; try assumption.
  - apply IH. constructor.
  - inversion Hl; assumption.
  - apply IH. inversion Hl; assumption.
Qed.
Lemma set_nth_length n v l : List.length (set_nth n v l) = List.length l.
Proof. revert n; induction l as [|x r IH]; intros n; destruct n; cbn [set_nth List.length]; try reflexivity. rewrite IH; reflexivity. Qed.
Lemma set_nth_forall (P : Z -> Prop) n v l : P v -> Forall P l -> Forall P (set_nth n v l).
Proof.
  intros Hv. revert n; induction l as [|x r IH]; intros n Hl; destruct n; cbn [set_nth]; try constructor;
    inversion Hl; subst; auto.
Qed.

(* ------------------------------------------------------------------ association lists *)
Section Assoc.
Context {A : Type} (P : A -> Prop).
Lemma assoc_forall x l a : Forall (fun p => P (snd p)) l -> assoc x l = Some a -> P a.
Proof.
  induction l as [|[y b] r IH]; cbn [assoc]; [discriminate|]. intros Hl.
  inversion Hl; subst. destruct (Nat.eqb x y); [intros [= <-]; assumption|apply IH; assumption].
Qed.
Lemma assoc_set_forall x a l : Forall (fun p => P (snd p)) l -> P a -> Forall (fun p => P (snd p)) (assoc_set x a l).
Proof.
  intros Hl Ha. induction l as [|[y b] r IH]; cbn [assoc_set]; [constructor|].
  inversion Hl; subst. destruct (Nat.eqb x y); constructor; auto.
Qed.
End Assoc.

Lemma scopes_get_wf x ss e : Forall wf_scope ss -> scopes_get x ss = Some e -> wf_entry e.
Proof.
  induction ss as [|sc r IH]; cbn [scopes_get]; [discriminate|]. intros Hs. inversion Hs; subst.
  destruct (assoc x sc) eqn:E.
  - intros [= <-]. eapply (assoc_forall wf_entry); eassumption.
  - apply IH; assumption.
Qed.
Lemma scopes_set_wf x e ss : Forall wf_scope ss -> wf_entry e -> Forall wf_scope (scopes_set x e ss).
Proof.
  intros Hs He. induction ss as [|sc r IH]; cbn [scopes_set]; [constructor|]. inversion Hs; subst.
  destruct (assoc x sc); constructor; auto. apply (assoc_set_forall wf_entry); assumption.
Qed.
Lemma statics_of_wf f s : Forall (fun p => wf_scope (snd p)) (sstat s) -> wf_scope (statics_of f s).
Proof.
  intros H. unfold statics_of. destruct (assoc f (sstat s)) eqn:E; [|constructor].
  eapply (assoc_forall wf_scope); eassumption.
Qed.
Lemma set_stat_wf f sc l : Forall (fun p => wf_scope (snd p)) l -> wf_scope sc ->
  Forall (fun p => wf_scope (snd p)) (set_stat f sc l).
Proof.
  intros Hl Hs. unfold set_stat. destruct (assoc f l).
  - apply (assoc_set_forall wf_scope); assumption.
  - constructor; assumption.
Qed.

(* ------------------------------------------------------------------ lookup / update *)
Lemma get_entry_wf x s e : wf_state s -> get_entry x s = Some e -> wf_entry e.
Proof.
  intros (Hg & Hf & Hs). unfold get_entry. destruct (sframes s) as [|f fr] eqn:Ef.
  - apply (assoc_forall wf_entry); assumption.
  - inversion Hf; subst. destruct (scopes_get x (fscopes f)) eqn:E1.
    + intros [= <-]. eapply scopes_get_wf; eassumption.
    + destruct (assoc x (statics_of (ffn f) s)) eqn:E2.
      * intros [= <-]. eapply (assoc_forall wf_entry); [apply statics_of_wf; exact Hs|exact E2].
      * apply (assoc_forall wf_entry); assumption.
Qed.

Lemma put_entry_wf x e s : wf_state s -> wf_entry e -> wf_state (put_entry x e s).
Proof.
  intros (Hg & Hf & Hs) He. unfold put_entry. destruct (sframes s) as [|f fr] eqn:Ef.
  - repeat split; cbn; try rewrite Ef; auto. apply (assoc_set_forall wf_entry); assumption.
  - inversion Hf; subst. destruct (scopes_get x (fscopes f)).
    + repeat split; cbn; auto. constructor; [|assumption]. unfold wf_frame; cbn. apply scopes_set_wf; assumption.
    + destruct (assoc x (statics_of (ffn f) s)).
      * repeat split; cbn; try rewrite Ef; auto. apply set_stat_wf; [assumption|].
        apply (assoc_set_forall wf_entry); [apply statics_of_wf; assumption|assumption].
      * repeat split; cbn; try rewrite Ef; auto. apply (assoc_set_forall wf_entry); assumption.
Qed.

(* ------------------------------------------------------------------ the primitives *)
Lemma wf_pres_refl s : wf_pres s s. Proof. intros H; exact H. Qed.
Lemma wf_pres_trans a b c : wf_pres a b -> wf_pres b c -> wf_pres a c.
Proof. unfold wf_pres; auto. Qed.

Lemma write_wf x i v : respects wf_pres (m_write x i v).
Proof.
  intros s Hw. unfold m_write. destruct (get_entry x s) as [e|] eqn:Eg; [|exact Hw].
  destruct (econst e); [exact Hw|]. destruct (flat_index _ _ _) as [k|]; [|exact Hw].
  destruct (coerce (ety e) v) as [w| | | |] eqn:Ec; try exact Hw. cbn [snd].
  apply put_entry_wf; [exact Hw|]. destruct (get_entry_wf _ _ _ Hw Eg) as [Hv Hl].
  split; cbn.
  - apply set_nth_forall; [eapply coerce_in_range; exact Ec|exact Hv].
  - rewrite set_nth_length. exact Hl.
Qed.

Lemma declare_wf sta cst t x d vs : respects wf_pres (m_declare sta cst t x d vs).
Proof.
  intros s Hw. unfold m_declare. destruct (coerce_all t vs) as [ws| | | |] eqn:Ec; try exact Hw.
  assert (He : wf_entry {| ety := t; econst := cst; edims := d; evals := pad (size_of d) ws |}).
  { split; cbn; [|apply pad_length]. apply pad_forall; [apply zero_in_range|]. eapply coerce_all_in_range; exact Ec. }
  destruct Hw as (Hg & Hf & Hs). destruct (sframes s) as [|f fr] eqn:Ef.
  - cbn [snd]. repeat split; cbn; auto. constructor; assumption.
  - destruct sta.
    + cbn [snd]. repeat split; cbn; try rewrite Ef; auto. apply set_stat_wf; [assumption|].
      constructor; [exact He|]. apply statics_of_wf. assumption.
    + destruct (fscopes f) as [|sc scs] eqn:Es; cbn [snd].
      * repeat split; try rewrite Ef; assumption.
      * inversion Hf; subst. repeat split; cbn; auto. constructor; [|assumption].
        unfold wf_frame in *; cbn. rewrite Es in *. inversion H1; subst. constructor; [|assumption].
        constructor; assumption.
Qed.

Lemma out_wf o : respects wf_pres (m_out o).
Proof. intros s (Hg & Hf & Hs). repeat split; assumption. Qed.

Lemma push_scope_wf : respects wf_pres m_push_scope.
Proof.
  intros s Hw. unfold m_push_scope. destruct (sframes s) as [|f fr] eqn:Ef; [exact Hw|].
  destruct Hw as (Hg & Hf & Hs). rewrite Ef in Hf. inversion Hf; subst. cbn [snd].
  repeat split; cbn; auto. constructor; [|assumption]. unfold wf_frame; cbn. constructor; [constructor|assumption].
Qed.
Lemma pop_scope_wf s : wf_pres s (pop_scope_st s).
Proof.
  intros Hw. unfold pop_scope_st. destruct (sframes s) as [|f fr] eqn:Ef; [exact Hw|].
  destruct Hw as (Hg & Hf & Hs). rewrite Ef in Hf. inversion Hf; subst.
  repeat split; cbn; auto. constructor; [|assumption]. unfold wf_frame in *; cbn.
  destruct (fscopes f); [constructor|]. inversion H1; assumption.
Qed.
Lemma push_frame_wf f : respects wf_pres (m_push_frame f).
Proof.
  intros s (Hg & Hf & Hs). cbn. repeat split; cbn; auto. constructor; [|assumption].
  unfold wf_frame; cbn. constructor; constructor.
Qed.
Lemma pop_frame_wf s : wf_pres s (pop_frame_st s).
Proof.
  intros (Hg & Hf & Hs). repeat split; cbn; auto. destruct (sframes s); [constructor|]. inversion Hf; assumption.
Qed.

(* ------------------------------------------------------------------ every evaluation, every fuel *)
Lemma store_inv_step_l funcs n :
  (forall e, respects wf_pres (eval funcs n e)) /\ (forall st, respects wf_pres (exec funcs n st)).
Proof.
  apply eval_exec_respect.
  - exact wf_pres_refl.
  - exact wf_pres_trans.
  - exact write_wf.
  - exact declare_wf.
  - exact out_wf.
  - apply block_of_prims; [exact wf_pres_trans|exact push_scope_wf|exact pop_scope_wf].
  - apply frame_of_prims; [exact wf_pres_trans|exact push_frame_wf|exact pop_frame_wf].
Qed.

Lemma store_inv_list funcs n ss s : wf_state s -> wf_state (snd (exec_list (exec funcs n) ss s)).
Proof. intros H. exact (exec_list_respect wf_pres wf_pres_refl wf_pres_trans write_wf declare_wf out_wf
  (block_of_prims wf_pres wf_pres_trans push_scope_wf pop_scope_wf)
  (frame_of_prims wf_pres wf_pres_trans push_frame_wf pop_frame_wf) funcs n ss s H). Qed.

(* ------------------------------------------------------------------ the initial state *)
Lemma init_globals_wf gs acc sc : wf_scope acc -> init_globals gs acc = Some sc -> wf_scope sc.
Proof.
  revert acc; induction gs as [|g r IH]; intros acc Ha; cbn [init_globals].
  - intros [= <-]. exact Ha.
  - destruct (coerce_all (gty g) (ginit g)) as [vs| | | |] eqn:E; try discriminate.
    apply IH. constructor; [|exact Ha]. cbn. split; cbn; [|apply pad_length].
    apply pad_forall; [apply zero_in_range|]. eapply coerce_all_in_range; exact E.
Qed.

Lemma init_state_wf p s0 : init_state p = Some s0 -> wf_state s0.
Proof.
  unfold init_state. destruct (init_globals (pglobals p) []) as [g|] eqn:E; [|discriminate]. intros [= <-].
  repeat split; cbn.
  - eapply init_globals_wf; [constructor|exact E].
  - constructor; [|constructor]. unfold wf_frame; cbn. constructor; constructor.
  - constructor.
Qed.

(* every program, every fuel: either an initialiser is rejected and nothing runs, or the run starts
   and ends in well-formed states *)
Lemma store_inv_run_l fuel p :
  match init_state p with
  | None => final_state fuel p = None /\ run fuel p = ([], Failed ERange)
  | Some s0 => wf_state s0 /\ exists s, final_state fuel p = Some s /\ wf_state s /\ fst (run fuel p) = rev (sout s)
  end.
Proof.
  unfold final_state, run. destruct (init_state p) as [s0|] eqn:E; [|split; reflexivity].
  pose proof (init_state_wf _ _ E) as H0. split; [exact H0|]. eexists. split; [reflexivity|]. split.
  - apply store_inv_list. exact H0.
  - destruct (exec_list _ _ _) as [c s]. reflexivity.
Qed.

Lemma coerce_shape t v : (exists w, coerce t v = Val w) \/ coerce t v = Fail ERange.
Proof. unfold coerce. destruct (uns t && (v <? 0)); [left; eauto|]. destruct (in_range t v); [left; eauto|right; reflexivity]. Qed.
Lemma coerce_all_shape t vs : (exists ws, coerce_all t vs = Val ws) \/ coerce_all t vs = Fail ERange.
Proof.
  induction vs as [|v r IH]; cbn [coerce_all]; [left; eauto|].
  destruct (coerce_shape t v) as [[w ->]| ->]; [|right; reflexivity].
  destruct IH as [[ws ->]| ->]; [left; eauto|right; reflexivity].
Qed.
Lemma coerce_all_rejects t vs v : In v vs -> coerce t v = Fail ERange -> coerce_all t vs = Fail ERange.
Proof.
  induction vs as [|w r IH]; [intros []|]. intros [->|Hin] Hf; cbn [coerce_all].
  - rewrite Hf. reflexivity.
  - destruct (coerce_shape t w) as [[w' ->]| ->]; [|reflexivity]. rewrite (IH Hin Hf). reflexivity.
Qed.

(* a rejected global initialiser ends the program before anything runs *)
Lemma init_globals_rejects gs acc g v :
  In g gs -> In v (ginit g) -> coerce (gty g) v = Fail ERange -> init_globals gs acc = None.
Proof.
  revert acc; induction gs as [|h r IH]; intros acc; [intros []|]. intros [->|Hin] Hv Hc; cbn [init_globals].
  - rewrite (coerce_all_rejects _ _ _ Hv Hc). reflexivity.
  - destruct (coerce_all (gty h) (ginit h)); try reflexivity. apply IH; assumption.
Qed.
Lemma run_rejects_l fuel p g v :
  In g (pglobals p) -> In v (ginit g) -> coerce (gty g) v = Fail ERange -> run fuel p = ([], Failed ERange).
Proof.
  intros Hg Hv Hc. unfold run, init_state. rewrite (init_globals_rejects _ [] _ _ Hg Hv Hc). reflexivity.
Qed.

(* in-range initialisers (non-negative for unsigned types) are stored as they are *)
Lemma coerce_id t v : in_range t v = true -> (uns t = true -> 0 <= v) -> coerce t v = Val v.
Proof.
  intros Hr Hu. unfold coerce. destruct (uns t) eqn:Eu; cbn [andb].
  - destruct (v <? 0) eqn:E; [apply Z.ltb_lt in E; specialize (Hu eq_refl); lia|]. rewrite Hr. reflexivity.
  - rewrite Hr. reflexivity.
Qed.

Lemma boundary_values_admitted_l t lo hi : range t = Some (lo, hi) ->
  in_range t lo = true /\ in_range t hi = true /\ in_range t (lo - 1) = false /\ in_range t (hi + 1) = false /\
  (uns t = true -> lo = 0).
Proof.
  destruct t as [b u]. intros H. destruct b, u; cbn in H; try discriminate; injection H as <- <-; vm_compute; repeat split; intros; try reflexivity; try discriminate.
Qed.
