(* C04 - laws of the try layer (C04/Try.v) and of the reference semantics under it:
   a rejected store leaves the state exactly as it was; a caught error leaves the caller's frames and blocks as they were; the
   store invariant survives caught errors; a program without try items runs as Lang.Print.run says. *)
From Coq Require Import List ZArith Bool Arith Lia.
From Cb Require Import Lang.Syntax Lang.Sem Lang.Respect Lang.Theorems Lang.Print
  C04.Gen_RangeTable C04.Model C04.Invariant C04.StoreLaws C04.Try.
Import ListNotations.
Local Open Scope Z_scope.

(* ------------------------------------------------------------------ a rejected store changes nothing (Ref) *)
Lemma write_rejected_l x idx v s e s' : m_write x idx v s = (Fail e, s') -> s' = s.
Proof.
  unfold m_write. destruct (get_entry x s) as [en|]; [|intros [= _ <-]; reflexivity].
  destruct (econst en); [intros [= _ <-]; reflexivity|].
  destruct (flat_index _ _ _); [|intros [= _ <-]; reflexivity].
  destruct (coerce (ety en) v); intros H; inversion H; reflexivity.
Qed.

Lemma declare_rejected_l sta cst t x dims vs s e s' : m_declare sta cst t x dims vs s = (Fail e, s') -> s' = s.
Proof.
  unfold m_declare. destruct (coerce_all t vs); try (intros H; inversion H; reflexivity).
  destruct (sframes s) as [|f fr]; [discriminate|]. destruct sta; [discriminate|].
  destruct (fscopes f); [intros H; inversion H; reflexivity|discriminate].
Qed.

Lemma read_state_l x i s : snd (m_read x i s) = s.
Proof. unfold m_read. destruct (get_entry x s) as [e|]; [|reflexivity]. destruct (flat_index _ _ _); reflexivity. Qed.

(* a read of the cell that has just been written cannot fail *)
Lemma read_after_write_l x idx v s s1 : m_write x idx v s = (Val tt, s1) -> exists w, m_read x idx s1 = (Val w, s1).
Proof.
  unfold m_write, m_read. destruct (get_entry x s) as [en|] eqn:Eg; [|discriminate].
  destruct (econst en); [discriminate|]. destruct (flat_index (edims en) idx 0) as [k|] eqn:Ef; [|discriminate].
  destruct (coerce (ety en) v) as [w| | | |]; try discriminate. intros [= <-].
  rewrite (get_put_same _ _ _ _ Eg). cbn [edims]. rewrite Ef. eexists. reflexivity.
Qed.

Section Laws.
Variable funcs : list func.
Variable n : nat.

(* `try x++` (any of the four forms, on a variable, an element, a member): when the action fails - the range error of the store,
   or any other error after the target has been located - the state is the one in which the target was located: for a plain
   variable or a member, the state before the action *)
Lemma try_incdec_failed_l pre inc lv s e s' :
  try_act funcs n (AIncDec pre inc lv) s = (Fail e, s') -> s' = snd (lval_target (eval funcs n) lv s).
Proof.
  unfold try_act, bind. destruct (lval_target (eval funcs n) lv s) as [c s1]. cbn [snd].
  destruct c as [tg| | | |e1]; try (intros [= <-]; reflexivity); [|intros [= _ <-]; reflexivity].
  pose proof (read_state_l (fst tg) (snd tg) s1) as Hr. destruct (m_read (fst tg) (snd tg) s1) as [c2 s2]. cbn [snd] in Hr. subst s2.
  destruct c2 as [old| | | |e2]; try (intros [= <-]; reflexivity); [|intros [= _ <-]; reflexivity].
  unfold lift. destruct (arith (if inc then Add else Sub) old 1) as [r| | | |e3]; try (intros [= <-]; reflexivity); [|intros [= _ <-]; reflexivity].
  destruct (m_write (fst tg) (snd tg) r s1) as [c4 s4] eqn:Ew.
  destruct c4 as [u| | | |e4]; try (intros [= <-]; reflexivity).
  - destruct u. destruct (read_after_write_l _ _ _ _ _ Ew) as [w Hw]. rewrite Hw. unfold ret. discriminate.
  - intros [= _ <-]. eapply write_rejected_l. exact Ew.
Qed.

Lemma try_incdec_var_failed_l pre inc x s e s' : try_act funcs n (AIncDec pre inc (LVar x)) s = (Fail e, s') -> s' = s.
Proof. intros H. apply try_incdec_failed_l in H. exact H. Qed.

(* ------------------------------------------------------------------ the store invariant survives caught errors *)
Lemma try_act_wf a : respects wf_pres (try_act funcs n a).
Proof.
  pose proof (store_inv_step_l funcs n) as [He Hx].
  pose proof (@r_bind wf_pres wf_pres_trans) as B.
  destruct a as [pre inc lv|f args]; cbn [try_act]; [|apply He].
  apply B; [apply (r_lval_target wf_pres wf_pres_refl wf_pres_trans); exact He|]. intros tg.
  apply B; [apply (r_read wf_pres wf_pres_refl)|]. intros old.
  apply B; [apply (r_lift wf_pres wf_pres_refl)|]. intros r.
  apply B; [apply write_wf|]. intros _.
  apply B; [apply (r_read wf_pres wf_pres_refl)|]. intros new. apply (r_ret wf_pres wf_pres_refl).
Qed.

Lemma run_item_wf it : respects wf_pres (run_item funcs n it).
Proof.
  destruct it as [st|chk a]; cbn [run_item]; [apply (proj2 (store_inv_step_l funcs n))|].
  intros s Hw. pose proof (try_act_wf a s Hw) as H1. destruct (try_act funcs n a s) as [c s1]. cbn [snd] in H1.
  (* the reports only extend the output, which the invariant does not mention *)
  destruct c as [v| | |w|e]; cbn [snd]; try exact H1. destruct e; exact H1.
Qed.

Lemma run_items_wf its : respects wf_pres (run_items funcs n its).
Proof.
  induction its as [|it r IH]; cbn [run_items]; [apply (r_ret wf_pres wf_pres_refl)|].
  apply (@r_bind wf_pres wf_pres_trans); [apply run_item_wf|]. intros _. exact IH.
Qed.

(* ------------------------------------------------------------------ without try items: Lang.Sem *)
Lemma run_items_stmts_l ss s : run_items funcs n (map TStmt ss) s = exec_list (exec funcs n) ss s.
Proof.
  revert s; induction ss as [|st r IH]; intros s; cbn [map run_items exec_list run_item]; [reflexivity|].
  unfold bind. destruct (exec funcs n st s) as [c s1]. destruct c; try reflexivity. apply IH.
Qed.
End Laws.

(* every try-program, every fuel: an out-of-range global initialiser ends it before anything runs; otherwise it starts and ends -
   normally, by an uncaught error, out of fuel, after any number of caught range errors - in a state in which every cell holds a
   value of its declared type *)
Lemma try_run_inv_l fuel p :
  match init_state (globals_program p) with
  | None => final_state_try fuel p = None /\ run_try fuel p = ([], Failed ERange)
  | Some s0 => wf_state s0 /\ exists s, final_state_try fuel p = Some s /\ wf_state s /\ fst (run_try fuel p) = rev (sout s)
  end.
Proof.
  unfold final_state_try, run_try. destruct (init_state (globals_program p)) as [s0|] eqn:E; [|split; reflexivity].
  pose proof (init_state_wf _ _ E) as H0. split; [exact H0|]. eexists. split; [reflexivity|]. split.
  - apply run_items_wf. exact H0.
  - destruct (run_items _ _ _ _) as [c s]. reflexivity.
Qed.

Lemma try_layer_conservative_l fuel gs fs ss :
  run_try fuel {| tglobals := gs; tfuncs := fs; tmain := map TStmt ss |} = run fuel {| pglobals := gs; pfuncs := fs; pmain := ss |}.
Proof.
  unfold run_try, run, init_state, globals_program. cbn [pglobals tglobals tfuncs tmain pfuncs pmain].
  destruct (init_globals gs []); [|reflexivity]. rewrite run_items_stmts_l. reflexivity.
Qed.

(* ------------------------------------------------------------------ a caught error leaves the frames and blocks as they were *)
Definition shape (s : state) : list (ident * nat) := map (fun f => (ffn f, List.length (fscopes f))) (sframes s).
Definition same_shape (s s' : state) : Prop := shape s = shape s'.

Lemma same_shape_refl s : same_shape s s. Proof. reflexivity. Qed.
Lemma same_shape_trans a b c : same_shape a b -> same_shape b c -> same_shape a c.
Proof. unfold same_shape. intros -> ->. reflexivity. Qed.

Lemma scopes_set_length x e ss : List.length (scopes_set x e ss) = List.length ss.
Proof. induction ss as [|sc r IH]; cbn [scopes_set]; [reflexivity|]. destruct (assoc x sc); cbn [List.length]; [reflexivity|rewrite IH; reflexivity]. Qed.

Lemma put_entry_shape x e s : shape (put_entry x e s) = shape s.
Proof.
  unfold put_entry, shape. destruct (sframes s) as [|f fr] eqn:Ef; cbn [sframes]; [reflexivity|].
  destruct (scopes_get x (fscopes f)).
  - cbn [sframes map ffn fscopes]. rewrite scopes_set_length. reflexivity.
  - destruct (assoc x (statics_of (ffn f) s)); cbn [sframes]; try rewrite Ef; reflexivity.
Qed.

Lemma write_shape x i v : respects same_shape (m_write x i v).
Proof.
  intros s. unfold m_write. destruct (get_entry x s) as [e|]; [|reflexivity]. destruct (econst e); [reflexivity|].
  destruct (flat_index _ _ _); [|reflexivity]. destruct (coerce _ _); try reflexivity. cbn [snd]. unfold same_shape.
  rewrite put_entry_shape. reflexivity.
Qed.

Lemma declare_shape sta cst t x d vs : respects same_shape (m_declare sta cst t x d vs).
Proof.
  intros s. unfold m_declare. destruct (coerce_all t vs); try reflexivity.
  destruct (sframes s) as [|f fr] eqn:Ef; cbn [snd]; unfold same_shape, shape; cbn [sframes]; [rewrite Ef; reflexivity|].
  destruct sta; cbn [snd sframes]; [rewrite Ef; reflexivity|].
  destruct (fscopes f) as [|sc scs] eqn:Es; cbn [snd sframes]; rewrite Ef; cbn [map ffn fscopes]; [reflexivity|].
  rewrite Es. reflexivity.
Qed.

Lemma block_shape A (m : M A) : respects same_shape m -> respects same_shape (m_push_scope ;;; finally m pop_scope_st).
Proof.
  intros Hm s. unfold bind, m_push_scope. destruct (sframes s) as [|f fr] eqn:Ef; [reflexivity|].
  set (s1 := {| sglob := sglob s; sframes := {| ffn := ffn f; fscopes := [] :: fscopes f |} :: fr; sstat := sstat s; sout := sout s |}).
  unfold finally. specialize (Hm s1). destruct (m s1) as [c s2]. cbn [snd] in *.
  unfold same_shape, shape in *. cbn [sframes map ffn fscopes List.length] in Hm. rewrite Ef. cbn [map].
  unfold pop_scope_st. destruct (sframes s2) as [|f2 fr2]; [discriminate|]. cbn [map sframes ffn fscopes] in *.
  injection Hm as H1 H2 H3. rewrite H1, H3. f_equal. f_equal. destruct (fscopes f2); [discriminate|]. cbn [tl List.length] in *. lia.
Qed.

Lemma frame_shape A f (m : M A) : respects same_shape m -> respects same_shape (m_push_frame f ;;; finally m pop_frame_st).
Proof.
  intros Hm s. unfold bind, m_push_frame.
  set (s1 := {| sglob := sglob s; sframes := {| ffn := f; fscopes := [[]] |} :: sframes s; sstat := sstat s; sout := sout s |}).
  unfold finally. specialize (Hm s1). destruct (m s1) as [c s2]. cbn [snd] in *.
  unfold same_shape, shape in *. cbn [sframes map] in Hm. unfold pop_frame_st. cbn [sframes].
  destruct (sframes s2) as [|f2 fr2]; [discriminate|]. cbn [map tl] in *. injection Hm as _ _ H3. exact H3.
Qed.

Lemma shape_step_l funcs n :
  (forall e, respects same_shape (eval funcs n e)) /\ (forall st, respects same_shape (exec funcs n st)).
Proof.
  apply eval_exec_respect.
  - exact same_shape_refl.
  - exact same_shape_trans.
  - exact write_shape.
  - exact declare_shape.
  - intros o s. reflexivity.
  - exact block_shape.
  - exact frame_shape.
Qed.

(* the action of a try item - whatever its outcome, a caught range error included - ends with the frames of the caller and the
   blocks of every frame exactly as deep as they were: the callee's frame and the blocks it had entered are gone *)
Lemma try_act_shape_l funcs n a s : shape (snd (try_act funcs n a s)) = shape s.
Proof.
  symmetry. revert s. change (respects same_shape (try_act funcs n a)).
  pose proof (shape_step_l funcs n) as [He Hx].
  pose proof (@r_bind same_shape same_shape_trans) as B.
  destruct a as [pre inc lv|f args]; cbn [try_act]; [|apply He].
  apply B; [apply (r_lval_target same_shape same_shape_refl same_shape_trans); exact He|]. intros tg.
  apply B; [apply (r_read same_shape same_shape_refl)|]. intros old.
  apply B; [apply (r_lift same_shape same_shape_refl)|]. intros r.
  apply B; [apply write_shape|]. intros _.
  apply B; [apply (r_read same_shape same_shape_refl)|]. intros new. apply (r_ret same_shape same_shape_refl).
Qed.
