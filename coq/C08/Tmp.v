From Coq Require Import List ZArith Bool Arith.
From Cb Require Import Lang.Syntax Lang.Sem Lang.Print C08.Frames.
Import ListNotations.
Local Open Scope Z_scope.
Definition tl_ := {| base := TLong; uns := false |}.
Definition P (t : ty) (x : ident) := {| pty := t; pname := x; pdef := None |}.
(* long f1(long v1, long v2) { if (v1 <= 0) { return v2; } return f1(v1 - 1, v2 + v1); }  main: println(f1(3,0)) *)
Definition p_acc : program := {| pglobals := [];
  pfuncs := [ {| fname := 1%nat; fret := Some tl_; fparams := [P tl_ 1%nat; P tl_ 2%nat];
                fbody := [ SIf (EBin Le (EVar 1%nat) (ENum 0)) [SReturn (Some (EVar 2%nat))] [];
                           SReturn (Some (ECall 1%nat [EBin Sub (EVar 1%nat) (ENum 1); EBin Add (EVar 2%nat) (EVar 1%nat)])) ] |} ];
  pmain := [ SPrint true [ECall 1%nat [ENum 3; ENum 0]] ] |}.
Compute (run 50 p_acc, mech_run false 50 p_acc, mech_run true 50 p_acc).
(* long v1 = 5; long f1() { return v1; }  main: long v1 = 99; println(f1()); *)
Definition p_glob : program := {| pglobals := [ {| gcst := false; gty := tl_; gname := 1%nat; gdims := []; ginit := [5] |} ];
  pfuncs := [ {| fname := 1%nat; fret := Some tl_; fparams := []; fbody := [ SReturn (Some (EVar 1%nat)) ] |} ];
  pmain := [ SDecl false false tl_ 1%nat (Some (ENum 99)); SPrint true [ECall 1%nat []] ] |}.
Compute (run 50 p_glob, mech_run false 50 p_glob).
(* long v1 = 7; long f1() { static long v1 = 0; v1 = v1 + 1; return v1; } main: println(f1()); println(f1()); println(v1); *)
Definition p_stat : program := {| pglobals := [ {| gcst := false; gty := tl_; gname := 1%nat; gdims := []; ginit := [7] |} ];
  pfuncs := [ {| fname := 1%nat; fret := Some tl_; fparams := [];
                 fbody := [ SDecl false true tl_ 1%nat (Some (ENum 0)); SAssign (LVar 1%nat) None (EBin Add (EVar 1%nat) (ENum 1)); SReturn (Some (EVar 1%nat)) ] |} ];
  pmain := [ SPrint true [ECall 1%nat []]; SPrint true [ECall 1%nat []]; SPrint true [EVar 1%nat] ] |}.
Compute (run 50 p_stat, mech_run false 50 p_stat).
