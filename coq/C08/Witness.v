(* C08 - concrete programs on which the implementation model Mech (C08/Frames.v) and the reference
   semantics disagree: each violates exactly one clause of the side condition of C08/Refine.v. Every
   one was run on the real binary (known_findings/C08.json): main prints what Mech prints.
   Generated from the S-expressions in known_findings/C08.json (the Cb text is in the comments). *)
From Coq Require Import List ZArith Bool Arith Lia.
From Cb Require Import Lang.Syntax Lang.Sem Lang.Print C08.Frames C08.Model.
Import ListNotations.
Local Open Scope Z_scope.

Definition tl_ : ty := {| base := TLong; uns := false |}.

(*
long v50 = 5 ;
long f1(  ) {
  return v50 ;
}
void main() {
  long v50 = 99 ;
  long v1 = f1(  ) ;
  println( v1 ) ;
  println( v50 ) ;
}
*)
Definition w_free_name : program :=
  {| pglobals := [{| gcst := false; gty := tl_; gname := 50%nat; gdims := []; ginit := [5] |}];
     pfuncs := [{| fname := 1%nat; fret := Some tl_; fparams := [];
       fbody := [SReturn (Some (EVar 50%nat))] |}];
     pmain := [SDecl false false tl_ 50%nat (Some (ENum 99)); SDecl false false tl_ 1%nat (Some (ECall 1%nat [])); SPrint true [(EVar 1%nat)]; SPrint true [(EVar 50%nat)]] |}.

Lemma w_free_name_runs :
  run 60 w_free_name = ([OInt 5; ONl; OInt 99; ONl], Finished) /\
  mech_run false 60 w_free_name = ([OInt 99; ONl; OInt 99; ONl], Finished) /\
  mech_run true 60 w_free_name = mech_run false 60 w_free_name.
Proof. vm_compute. repeat split; reflexivity. Qed.

(*
long v50 = 7 ;
long f1(  ) {
  static long v50 = 0 ;
  v50 += 1 ;
  return v50 ;
}
void main() {
  long v1 = f1(  ) ;
  println( v1 ) ;
  long v2 = f1(  ) ;
  println( v2 ) ;
  println( v50 ) ;
}
*)
Definition w_static_global : program :=
  {| pglobals := [{| gcst := false; gty := tl_; gname := 50%nat; gdims := []; ginit := [7] |}];
     pfuncs := [{| fname := 1%nat; fret := Some tl_; fparams := [];
       fbody := [SDecl false true tl_ 50%nat (Some (ENum 0)); SAssign (LVar 50%nat) (Some Add) (ENum 1); SReturn (Some (EVar 50%nat))] |}];
     pmain := [SDecl false false tl_ 1%nat (Some (ECall 1%nat [])); SPrint true [(EVar 1%nat)]; SDecl false false tl_ 2%nat (Some (ECall 1%nat [])); SPrint true [(EVar 2%nat)]; SPrint true [(EVar 50%nat)]] |}.

Lemma w_static_global_runs :
  run 60 w_static_global = ([OInt 1; ONl; OInt 2; ONl; OInt 7; ONl], Finished) /\
  mech_run false 60 w_static_global = ([OInt 8; ONl; OInt 9; ONl; OInt 9; ONl], Finished) /\
  mech_run true 60 w_static_global = mech_run false 60 w_static_global.
Proof. vm_compute. repeat split; reflexivity. Qed.

(*
long f1( long v1 , long v2 ) {
  if ( ( v1 <= 0 ) ) { return v2 ; }
  return f1( ( v1 - 1 ) , ( v2 + v1 ) ) ;
}
void main() {
  long v3 = f1( 3 , 0 ) ;
  println( v3 ) ;
}
*)
Definition w_args_scope : program :=
  {| pglobals := [];
     pfuncs := [{| fname := 1%nat; fret := Some tl_; fparams := [{| pty := tl_; pname := 1%nat; pdef := None |}; {| pty := tl_; pname := 2%nat; pdef := None |}];
       fbody := [SIf (EBin Le (EVar 1%nat) (ENum 0)) [SReturn (Some (EVar 2%nat))] []; SReturn (Some (ECall 1%nat [(EBin Sub (EVar 1%nat) (ENum 1)); (EBin Add (EVar 2%nat) (EVar 1%nat))]))] |}];
     pmain := [SDecl false false tl_ 3%nat (Some (ECall 1%nat [(ENum 3); (ENum 0)])); SPrint true [(EVar 3%nat)]] |}.

Lemma w_args_scope_runs :
  run 60 w_args_scope = ([OInt 6; ONl], Finished) /\
  mech_run false 60 w_args_scope = ([OInt 3; ONl], Finished) /\
  mech_run true 60 w_args_scope = mech_run false 60 w_args_scope.
Proof. vm_compute. repeat split; reflexivity. Qed.

(*
long f1( long v1 , long v2 , long v3 ) {
  return ( ( ( v1 * 100 ) + ( v2 * 10 ) ) + v3 ) ;
}
void main() {
  long v1 = 7 ;
  long v2 = 8 ;
  long v4 = f1( v2 , v1 , v1 ) ;
  println( v4 ) ;
}
*)
Definition w_positional : program :=
  {| pglobals := [];
     pfuncs := [{| fname := 1%nat; fret := Some tl_; fparams := [{| pty := tl_; pname := 1%nat; pdef := None |}; {| pty := tl_; pname := 2%nat; pdef := None |}; {| pty := tl_; pname := 3%nat; pdef := None |}];
       fbody := [SReturn (Some (EBin Add (EBin Add (EBin Mul (EVar 1%nat) (ENum 100)) (EBin Mul (EVar 2%nat) (ENum 10))) (EVar 3%nat)))] |}];
     pmain := [SDecl false false tl_ 1%nat (Some (ENum 7)); SDecl false false tl_ 2%nat (Some (ENum 8)); SDecl false false tl_ 4%nat (Some (ECall 1%nat [(EVar 2%nat); (EVar 1%nat); (EVar 1%nat)])); SPrint true [(EVar 4%nat)]] |}.

Lemma w_positional_runs :
  run 60 w_positional = ([OInt 877; ONl], Finished) /\
  mech_run false 60 w_positional = ([OInt 888; ONl], Finished) /\
  mech_run true 60 w_positional = mech_run false 60 w_positional.
Proof. vm_compute. repeat split; reflexivity. Qed.

(*
long v50 = 1 ;
long f1( long v1 ) {
  v50 = ( v50 + v1 ) ;
  return v50 ;
}
void main() {
  long v50 = 10 ;
  long v2 = f1( 5 ) ;
  println( v2 ) ;
  println( v50 ) ;
}
*)
Definition w_caller_write : program :=
  {| pglobals := [{| gcst := false; gty := tl_; gname := 50%nat; gdims := []; ginit := [1] |}];
     pfuncs := [{| fname := 1%nat; fret := Some tl_; fparams := [{| pty := tl_; pname := 1%nat; pdef := None |}];
       fbody := [SAssign (LVar 50%nat) None (EBin Add (EVar 50%nat) (EVar 1%nat)); SReturn (Some (EVar 50%nat))] |}];
     pmain := [SDecl false false tl_ 50%nat (Some (ENum 10)); SDecl false false tl_ 2%nat (Some (ECall 1%nat [(ENum 5)])); SPrint true [(EVar 2%nat)]; SPrint true [(EVar 50%nat)]] |}.

Lemma w_caller_write_runs :
  run 60 w_caller_write = ([OInt 6; ONl; OInt 10; ONl], Finished) /\
  mech_run false 60 w_caller_write = ([OInt 15; ONl; OInt 15; ONl], Finished) /\
  mech_run true 60 w_caller_write = mech_run false 60 w_caller_write.
Proof. vm_compute. repeat split; reflexivity. Qed.

(*
long f2( long v1 ) {
  println( ( 100 + v1 ) ) ;
  return v1 ;
}
long f1(  ) {
  static long v70 = f2( 7 ) ;
  v70 += 1 ;
  return v70 ;
}
void main() {
  long v1 = f1(  ) ;
  println( v1 ) ;
  long v2 = f1(  ) ;
  println( v2 ) ;
}
*)
Definition w_static_init : program :=
  {| pglobals := [];
     pfuncs := [{| fname := 2%nat; fret := Some tl_; fparams := [{| pty := tl_; pname := 1%nat; pdef := None |}];
       fbody := [SPrint true [(EBin Add (ENum 100) (EVar 1%nat))]; SReturn (Some (EVar 1%nat))] |}; {| fname := 1%nat; fret := Some tl_; fparams := [];
       fbody := [SDecl false true tl_ 70%nat (Some (ECall 2%nat [(ENum 7)])); SAssign (LVar 70%nat) (Some Add) (ENum 1); SReturn (Some (EVar 70%nat))] |}];
     pmain := [SDecl false false tl_ 1%nat (Some (ECall 1%nat [])); SPrint true [(EVar 1%nat)]; SDecl false false tl_ 2%nat (Some (ECall 1%nat [])); SPrint true [(EVar 2%nat)]] |}.

Lemma w_static_init_runs :
  run 60 w_static_init = ([OInt 107; ONl; OInt 8; ONl; OInt 9; ONl], Finished) /\
  mech_run false 60 w_static_init = ([OInt 107; ONl; OInt 107; ONl; OInt 8; ONl; OInt 107; ONl; OInt 9; ONl], Finished) /\
  mech_run true 60 w_static_init = mech_run false 60 w_static_init.
Proof. vm_compute. repeat split; reflexivity. Qed.

(*
long f2( long v1 ) {
  return ( v1 + 1 ) ;
}
long f1(  ) {
  static long v70 = 5 ;
  v70 += 1 ;
  return f2( v70 ) ;
}
void main() {
  long v1 = f1(  ) ;
  println( v1 ) ;
  long v2 = f1(  ) ;
  println( v2 ) ;
}
*)
Definition w_static_arg : program :=
  {| pglobals := [];
     pfuncs := [{| fname := 2%nat; fret := Some tl_; fparams := [{| pty := tl_; pname := 1%nat; pdef := None |}];
       fbody := [SReturn (Some (EBin Add (EVar 1%nat) (ENum 1)))] |}; {| fname := 1%nat; fret := Some tl_; fparams := [];
       fbody := [SDecl false true tl_ 70%nat (Some (ENum 5)); SAssign (LVar 70%nat) (Some Add) (ENum 1); SReturn (Some (ECall 2%nat [(EVar 70%nat)]))] |}];
     pmain := [SDecl false false tl_ 1%nat (Some (ECall 1%nat [])); SPrint true [(EVar 1%nat)]; SDecl false false tl_ 2%nat (Some (ECall 1%nat [])); SPrint true [(EVar 2%nat)]] |}.

Lemma w_static_arg_runs :
  run 60 w_static_arg = ([OInt 7; ONl; OInt 8; ONl], Finished) /\
  mech_run false 60 w_static_arg = ([], Failed EUnbound) /\
  mech_run true 60 w_static_arg = mech_run false 60 w_static_arg.
Proof. vm_compute. repeat split; reflexivity. Qed.

(*
long v50 = 3 ;
long f1( long v1 , long v2 = v50 ) {
  return ( ( v1 * 10 ) + v2 ) ;
}
void main() {
  long v50 = 8 ;
  long v3 = f1( 2 ) ;
  println( v3 ) ;
}
*)
Definition w_default_free : program :=
  {| pglobals := [{| gcst := false; gty := tl_; gname := 50%nat; gdims := []; ginit := [3] |}];
     pfuncs := [{| fname := 1%nat; fret := Some tl_; fparams := [{| pty := tl_; pname := 1%nat; pdef := None |}; {| pty := tl_; pname := 2%nat; pdef := (Some (EVar 50%nat)) |}];
       fbody := [SReturn (Some (EBin Add (EBin Mul (EVar 1%nat) (ENum 10)) (EVar 2%nat)))] |}];
     pmain := [SDecl false false tl_ 50%nat (Some (ENum 8)); SDecl false false tl_ 3%nat (Some (ECall 1%nat [(ENum 2)])); SPrint true [(EVar 3%nat)]] |}.

Lemma w_default_free_runs :
  run 60 w_default_free = ([OInt 23; ONl], Finished) /\
  mech_run false 60 w_default_free = ([OInt 28; ONl], Finished) /\
  mech_run true 60 w_default_free = mech_run false 60 w_default_free.
Proof. vm_compute. repeat split; reflexivity. Qed.

(*
long f1(  ) {
  v9 = 5 ;
  return v9 ;
}
void main() {
  long v1 = f1(  ) ;
  println( v1 ) ;
}
*)
Definition w_implicit_decl : program :=
  {| pglobals := [];
     pfuncs := [{| fname := 1%nat; fret := Some tl_; fparams := [];
       fbody := [SAssign (LVar 9%nat) None (ENum 5); SReturn (Some (EVar 9%nat))] |}];
     pmain := [SDecl false false tl_ 1%nat (Some (ECall 1%nat [])); SPrint true [(EVar 1%nat)]] |}.

Lemma w_implicit_decl_runs :
  run 60 w_implicit_decl = ([], Failed EUnbound) /\
  mech_run false 60 w_implicit_decl = ([OInt 5; ONl], Finished) /\
  mech_run true 60 w_implicit_decl = mech_run false 60 w_implicit_decl.
Proof. vm_compute. repeat split; reflexivity. Qed.

(*
long v50 = 5 ;
long f1( long v1 , long v2 = 2 ) {
  static long v70 = 0 ;
  v70 += 1 ;
  long v3 = ( v2 + v50 ) ;
  if ( ( v1 <= 0 ) ) { return v3 ; }
  return ( f1( ( v1 - 1 ) , v3 ) + v70 ) ;
}
void main() {
  long v3 = f1( 3 ) ;
  println( v3 ) ;
  long v2 = f1( 2 , 1 ) ;
  println( v2 , v3 , v50 ) ;
}
*)
Definition w_ok : program :=
  {| pglobals := [{| gcst := false; gty := tl_; gname := 50%nat; gdims := []; ginit := [5] |}];
     pfuncs := [{| fname := 1%nat; fret := Some tl_; fparams := [{| pty := tl_; pname := 1%nat; pdef := None |}; {| pty := tl_; pname := 2%nat; pdef := (Some (ENum 2)) |}];
       fbody := [SDecl false true tl_ 70%nat (Some (ENum 0)); SAssign (LVar 70%nat) (Some Add) (ENum 1); SDecl false false tl_ 3%nat (Some (EBin Add (EVar 2%nat) (EVar 50%nat))); SIf (EBin Le (EVar 1%nat) (ENum 0)) [SReturn (Some (EVar 3%nat))] []; SReturn (Some (EBin Add (ECall 1%nat [(EBin Sub (EVar 1%nat) (ENum 1)); (EVar 3%nat)]) (EVar 70%nat)))] |}];
     pmain := [SDecl false false tl_ 3%nat (Some (ECall 1%nat [(ENum 3)])); SPrint true [(EVar 3%nat)]; SDecl false false tl_ 2%nat (Some (ECall 1%nat [(ENum 2); (ENum 1)])); SPrint true [(EVar 2%nat); (EVar 3%nat); (EVar 50%nat)]] |}.

Lemma w_ok_runs :
  run 60 w_ok = ([OInt 34; ONl; OInt 30; OSp; OInt 34; OSp; OInt 5; ONl], Finished) /\
  mech_run false 60 w_ok = ([OInt 34; ONl; OInt 30; OSp; OInt 34; OSp; OInt 5; ONl], Finished) /\
  mech_run true 60 w_ok = mech_run false 60 w_ok.
Proof. vm_compute. repeat split; reflexivity. Qed.

(* ---------- the side condition is satisfiable: w_ok reuses v1..v3 in every activation, owns a static,
   reads a global, fills a default - and meets every clause ---------- *)
Ltac in_solve := cbn in *; intuition (subst; cbn in *; try lia; try congruence; try discriminate).

Lemma w_ok_program_ok : program_ok [1; 2; 3]%nat [70%nat] w_ok.
Proof.
  split.
  - constructor.
    + intros x H1 H2. in_solve.
    + intros x H1 H2. in_solve.
    + intros x H1 H2. in_solve.
    + intros fd [<-|[]]. unfold wf_func. cbn. repeat split; try (intros x Hx; in_solve); try reflexivity; in_solve.
  - cbn. repeat split; try (intros x Hx; in_solve); try reflexivity; in_solve.
Qed.

(* ---------- and each refuted witness breaks a clause, whatever L and S are chosen ---------- *)
Lemma w_free_name_not_ok L S : ~ program_ok L S w_free_name.          (* a local named like a global *)
Proof. intros [[HLG _ _ _] Hm]. cbn in Hm. apply (HLG 50%nat); [tauto|left; reflexivity]. Qed.
Lemma w_caller_write_not_ok L S : ~ program_ok L S w_caller_write.
Proof. intros [[HLG _ _ _] Hm]. cbn in Hm. apply (HLG 50%nat); [tauto|left; reflexivity]. Qed.
Lemma w_default_free_not_ok L S : ~ program_ok L S w_default_free.
Proof. intros [[HLG _ _ _] Hm]. cbn in Hm. apply (HLG 50%nat); [tauto|left; reflexivity]. Qed.
Lemma w_static_global_not_ok L S : ~ program_ok L S w_static_global.  (* a static named like a global *)
Proof.
  intros [[_ _ HSG Hf] Hm]. specialize (Hf _ (or_introl eq_refl)). destruct Hf as [_ Hb]. cbn in Hb.
  apply (HSG 50%nat); [tauto|left; reflexivity].
Qed.
Ltac spec_all v := repeat match goal with Hx : forall x : ident, _ |- _ => specialize (Hx v) end.
Lemma w_args_scope_not_ok L S : ~ program_ok L S w_args_scope.        (* argument 2 mentions parameter 1 *)
Proof.
  intros [[_ _ _ Hf] Hm]. specialize (Hf _ (or_introl eq_refl)). destruct Hf as [_ Hb]. clear Hm. cbn in Hb.
  repeat match goal with Hx : _ /\ _ |- _ => destruct Hx end. spec_all 1%nat. intuition congruence.
Qed.
Lemma w_positional_not_ok L S : ~ program_ok L S w_positional.
Proof.
  intros [_ Hm]. cbn in Hm.
  repeat match goal with Hx : _ /\ _ |- _ => destruct Hx end. spec_all 1%nat. intuition congruence.
Qed.
Lemma w_static_arg_not_ok L S : ~ program_ok L S w_static_arg.         (* a static as an argument *)
Proof.
  intros [[_ _ _ Hf] Hm]. specialize (Hf _ (or_intror (or_introl eq_refl))). destruct Hf as [_ Hb]. clear Hm. cbn in Hb.
  repeat match goal with Hx : _ /\ _ |- _ => destruct Hx end. spec_all 70%nat. intuition congruence.
Qed.
Lemma w_static_init_not_ok L S : ~ program_ok L S w_static_init.       (* a static initialiser with an effect *)
Proof.
  intros [[_ _ _ Hf] Hm]. specialize (Hf _ (or_intror (or_introl eq_refl))). destruct Hf as [_ Hb]. cbn in Hb. tauto.
Qed.
