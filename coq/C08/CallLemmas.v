(* C08 - lemmas about calls in the shared reference interpreter Ref (coq/Lang/Sem.v):
   frames are private and restored exactly, arguments are positional, defaults fill the trailing
   parameters, a wrong argument count is rejected before anything is evaluated, the returned value
   reaches the caller unchanged, statics are initialised once, persist, and are per function. *)
From Coq Require Import List ZArith Bool Arith Lia.
From Cb Require Import Lang.Syntax Lang.Sem Lang.Respect Lang.Theorems.
Import ListNotations.
Local Open Scope Z_scope.

(* ------------------------------------------------------------------ frame shapes *)
(* what a running activation may change of the frame stack: nothing below its own frame, and neither
   the identity nor the block depth of its own frame *)
Definition top_shape (s : state) : list (ident * nat) :=
  map (fun f => (ffn f, List.length (fscopes f))) (firstn 1 (sframes s)).
Definition below_kept (s s' : state) : Prop :=
  tl (sframes s') = tl (sframes s) /\ top_shape s' = top_shape s.
Definition frames_same (s s' : state) : Prop := sframes s' = sframes s.

Lemma below_kept_refl s : below_kept s s. Proof. split; reflexivity. Qed.
Lemma below_kept_trans a b c : below_kept a b -> below_kept b c -> below_kept a c.
Proof. intros [H1 H2] [H3 H4]. split; congruence. Qed.
Lemma frames_same_refl s : frames_same s s. Proof. reflexivity. Qed.
Lemma frames_same_trans a b c : frames_same a b -> frames_same b c -> frames_same a c.
Proof. unfold frames_same. congruence. Qed.
Lemma frames_same_below s s' : frames_same s s' -> below_kept s s'.
Proof. unfold frames_same, below_kept, top_shape. intros ->. split; reflexivity. Qed.

Lemma scopes_set_length x e ss : List.length (scopes_set x e ss) = List.length ss.
Proof. induction ss as [|sc r IH]; cbn; [reflexivity|]. destruct (assoc x sc); cbn; congruence. Qed.

Lemma put_entry_below x e s : below_kept s (put_entry x e s).
Proof.
  destruct s as [g fs st o]. unfold put_entry, below_kept, top_shape. cbn [sframes sglob sstat sout].
  destruct fs as [|f fr]; cbn; [split; reflexivity|].
  destruct (scopes_get x (fscopes f)); cbn.
  - rewrite scopes_set_length. split; reflexivity.
  - destruct (assoc x _); cbn; split; reflexivity.
Qed.

Lemma write_below x i v : respects below_kept (m_write x i v).
Proof.
  intros s. unfold m_write. destruct (get_entry x s) as [e|]; [|apply below_kept_refl].
  destruct (econst e); [apply below_kept_refl|].
  destruct (flat_index _ _ _); [|apply below_kept_refl].
  destruct (coerce _ _); try apply below_kept_refl. cbn [snd]. apply put_entry_below.
Qed.
Lemma declare_below sta cst t x d vs : respects below_kept (m_declare sta cst t x d vs).
Proof.
  intros s. destruct s as [g fs st o]. unfold m_declare. cbn [sframes sglob sstat sout].
  destruct (coerce_all t vs); try apply below_kept_refl.
  destruct fs as [|f fr]; [cbn; split; reflexivity|].
  destruct sta; [cbn; split; reflexivity|].
  destruct f as [fn scs]. destruct scs as [|sc scs]; cbn; split; reflexivity.
Qed.
Lemma out_below o : respects below_kept (m_out o).
Proof. intros s. cbn. split; reflexivity. Qed.

(* a block leaves the frame stack as it found it, up to what its inside does to the frames below
   (nothing) and to the shape of the top frame (nothing) *)
Lemma block_below A (m : M A) : respects below_kept m -> respects below_kept (m_push_scope ;;; finally m pop_scope_st).
Proof.
  intros Hm s. destruct s as [g fs st o]. unfold bind, m_push_scope. cbn [sframes sglob sstat sout].
  destruct fs as [|f fr]; [apply below_kept_refl|].
  unfold finally.
  match goal with |- context [m ?s1] => specialize (Hm s1); destruct (m s1) as [c s2] end.
  cbn [snd] in *. destruct Hm as [H1 H2]. destruct s2 as [g2 fs2 st2 o2]. unfold top_shape in *. cbn in H1, H2.
  unfold pop_scope_st. cbn [sframes sglob sstat sout]. destruct fs2 as [|f2 fr2]; [discriminate|].
  cbn in H1, H2. injection H2 as Hf Hl. subst fr2.
  unfold below_kept, top_shape. cbn. split; [reflexivity|].
  rewrite Hf. destruct (fscopes f2); cbn in *; [discriminate|]. injection Hl as ->. reflexivity.
Qed.

(* a call bracket restores the frame stack exactly *)
Lemma frame_exact A f (m : M A) : respects below_kept m -> respects frames_same (m_push_frame f ;;; finally m pop_frame_st).
Proof.
  intros Hm s. unfold bind, m_push_frame, finally.
  match goal with |- context [m ?s1] => specialize (Hm s1); destruct (m s1) as [c s2] end.
  cbn [snd] in *. destruct Hm as [H1 _]. cbn in H1. unfold frames_same, pop_frame_st. cbn. exact H1.
Qed.
Lemma frame_below A f (m : M A) : respects below_kept m -> respects below_kept (m_push_frame f ;;; finally m pop_frame_st).
Proof. intros Hm s. apply frames_same_below. apply frame_exact. exact Hm. Qed.

Lemma below_kept_all funcs n :
  (forall e, respects below_kept (eval funcs n e)) /\ (forall st, respects below_kept (exec funcs n st)).
Proof.
  apply eval_exec_respect.
  - exact below_kept_refl.
  - exact below_kept_trans.
  - exact write_below.
  - exact declare_below.
  - exact out_below.
  - exact block_below.
  - exact frame_below.
Qed.

(* every expression - in particular every call, whatever the callee and its callees do, however
   deep the recursion, whether it returns, fails or runs out of fuel - leaves the whole frame stack
   exactly as it was: same frames, same variables, same values *)
Lemma eval_frames_exact funcs n : forall e, respects frames_same (eval funcs n e).
Proof.
  induction n as [|k IH]; intros e; [apply (r_fail frames_same frames_same_refl)|].
  pose proof (r_eval_list frames_same frames_same_refl frames_same_trans _ IH) as Hel.
  destruct e; cbn [eval].
  - apply (r_ret _ frames_same_refl).
  - apply (r_read _ frames_same_refl).
  - apply (r_bind _ frames_same_trans); [apply IH|]. intros. apply (r_lift _ frames_same_refl).
  - apply (r_bind _ frames_same_trans); [apply IH|]. intros.
    apply (r_bind _ frames_same_trans); [apply IH|]. intros. apply (r_lift _ frames_same_refl).
  - apply (r_bind _ frames_same_trans); [apply IH|]. intros x. destruct (x =? 0); [apply (r_ret _ frames_same_refl)|].
    apply (r_bind _ frames_same_trans); [apply IH|]. intros. apply (r_ret _ frames_same_refl).
  - apply (r_bind _ frames_same_trans); [apply IH|]. intros x. destruct (x =? 0); [|apply (r_ret _ frames_same_refl)].
    apply (r_bind _ frames_same_trans); [apply IH|]. intros. apply (r_ret _ frames_same_refl).
  - apply (r_bind _ frames_same_trans); [apply IH|]. intros x. destruct (x =? 0); apply IH.
  - destruct (find_func f funcs) as [fd|]; [|apply (r_fail _ frames_same_refl)].
    match goal with |- respects _ (if ?c then _ else _) => destruct c end; [apply (r_fail _ frames_same_refl)|].
    apply (r_bind _ frames_same_trans).
    + apply (r_eval_args frames_same frames_same_refl frames_same_trans _ IH).
    + intros vs. apply frame_exact.
      apply (r_map_ctl below_kept).
      apply (r_bind _ below_kept_trans).
      * apply (r_bind_params below_kept below_kept_refl below_kept_trans declare_below).
        apply (proj1 (below_kept_all funcs k)).
      * intros _. apply (r_exec_list below_kept below_kept_refl below_kept_trans).
        apply (proj2 (below_kept_all funcs k)).
  - apply (r_bind _ frames_same_trans); [apply Hel|]. intros. apply (r_read _ frames_same_refl).
Qed.

(* ------------------------------------------------------------------ lookup is lexical *)
(* what a body can read is decided by its own frame, its own statics and the globals; the frames of
   its callers and the statics of other functions are never consulted *)
Lemma get_entry_local x s1 s2 :
  hd_error (sframes s1) = hd_error (sframes s2) -> sglob s1 = sglob s2 ->
  statics_of (cur_fn s1) s1 = statics_of (cur_fn s2) s2 ->
  get_entry x s1 = get_entry x s2.
Proof.
  unfold get_entry, cur_fn. destruct (sframes s1) as [|f1 r1], (sframes s2) as [|f2 r2]; cbn; intros H G S; try discriminate.
  - rewrite G. reflexivity.
  - injection H as ->. rewrite S, G. reflexivity.
Qed.

(* a store changes the top frame, or the statics of the running function, or the globals - never a
   caller's frame and never another function's statics *)
Lemma statics_of_set_other f g sc l : f <> g -> assoc g (set_stat f sc l) = assoc g l.
Proof.
  intros Hn. unfold set_stat. destruct (assoc f l) eqn:E.
  - clear E. induction l as [|[y b] r IH]; cbn; [reflexivity|].
    destruct (Nat.eqb f y) eqn:E1; cbn.
    + apply Nat.eqb_eq in E1. subst y. destruct (Nat.eqb g f) eqn:E2; [apply Nat.eqb_eq in E2; congruence|reflexivity].
    + destruct (Nat.eqb g y); [reflexivity|exact IH].
  - cbn. destruct (Nat.eqb g f) eqn:E2; [apply Nat.eqb_eq in E2; congruence|reflexivity].
Qed.
Lemma statics_of_set_same f sc l : assoc f (set_stat f sc l) = Some sc.
Proof.
  unfold set_stat. destruct (assoc f l) eqn:E.
  - induction l as [|[y b] r IH]; cbn in *; [discriminate|].
    destruct (Nat.eqb f y) eqn:E1; cbn; rewrite E1; [reflexivity|]. apply IH. exact E.
  - cbn. rewrite Nat.eqb_refl. reflexivity.
Qed.

Lemma put_entry_other_statics x e s g : g <> cur_fn s -> statics_of g (put_entry x e s) = statics_of g s.
Proof.
  destruct s as [gl fs st o]. unfold put_entry, cur_fn, statics_of. cbn [sframes sglob sstat sout].
  destruct fs as [|f fr]; cbn; [reflexivity|]. intros Hn.
  destruct (scopes_get x (fscopes f)); cbn; [reflexivity|].
  destruct (assoc x _); cbn; [|reflexivity].
  rewrite statics_of_set_other; [reflexivity|congruence].
Qed.
Lemma write_other_statics x i v s g : g <> cur_fn s -> statics_of g (snd (m_write x i v s)) = statics_of g s.
Proof.
  intros Hn. unfold m_write. destruct (get_entry x s) as [e|]; [|reflexivity].
  destruct (econst e); [reflexivity|]. destruct (flat_index _ _ _); [|reflexivity].
  destruct (coerce _ _); try reflexivity. cbn [snd]. apply put_entry_other_statics. exact Hn.
Qed.
Lemma declare_other_statics sta cst t x d vs s g : g <> cur_fn s -> statics_of g (snd (m_declare sta cst t x d vs s)) = statics_of g s.
Proof.
  intros Hn. destruct s as [gl fs st o]. unfold m_declare, cur_fn in *. cbn [sframes sglob sstat sout] in *.
  destruct (coerce_all t vs); try reflexivity.
  destruct fs as [|f fr]; [reflexivity|]. destruct sta; cbn.
  - unfold statics_of. cbn. rewrite statics_of_set_other; [reflexivity|congruence].
  - destruct (fscopes f); reflexivity.
Qed.

(* ------------------------------------------------------------------ statics: known for ever *)
Definition static_known (g x : ident) (s : state) : Prop := assoc x (statics_of g s) <> None.
Definition statics_grow (s s' : state) : Prop := forall g x, static_known g x s -> static_known g x s'.
Lemma statics_grow_refl s : statics_grow s s. Proof. intros g x H. exact H. Qed.
Lemma statics_grow_trans a b c : statics_grow a b -> statics_grow b c -> statics_grow a c.
Proof. intros H1 H2 g x H. apply H2, H1, H. Qed.

Lemma assoc_set_known {A} x y (a : A) l : assoc x (assoc_set y a l) <> None <-> assoc x l <> None.
Proof.
  induction l as [|[z b] r IH]; cbn; [tauto|].
  destruct (Nat.eqb y z) eqn:E; cbn.
  - destruct (Nat.eqb x z); [split; congruence|tauto].
  - destruct (Nat.eqb x z); [split; congruence|exact IH].
Qed.

Lemma put_entry_statics_grow x e s : statics_grow s (put_entry x e s).
Proof.
  intros g y. destruct s as [gl fs st o]. unfold static_known, put_entry, statics_of. cbn [sframes sglob sstat sout].
  destruct fs as [|f fr]; cbn; [tauto|].
  destruct (scopes_get x (fscopes f)); cbn; [tauto|].
  destruct (assoc x _) eqn:E; cbn; [|tauto].
  destruct (Nat.eq_dec g (ffn f)) as [->|Hn].
  - rewrite statics_of_set_same. intros H. apply assoc_set_known. exact H.
  - rewrite statics_of_set_other by congruence. tauto.
Qed.
Lemma write_statics_grow x i v : respects statics_grow (m_write x i v).
Proof.
  intros s. unfold m_write. destruct (get_entry x s) as [e|]; [|apply statics_grow_refl].
  destruct (econst e); [apply statics_grow_refl|]. destruct (flat_index _ _ _); [|apply statics_grow_refl].
  destruct (coerce _ _); try apply statics_grow_refl. cbn [snd]. apply put_entry_statics_grow.
Qed.
Lemma declare_statics_grow sta cst t x d vs : respects statics_grow (m_declare sta cst t x d vs).
Proof.
  intros s. destruct s as [gl fs st o]. unfold m_declare. cbn [sframes sglob sstat sout].
  destruct (coerce_all t vs); try apply statics_grow_refl.
  destruct fs as [|f fr]; [intros g y H; exact H|]. destruct sta; cbn.
  - intros g y. unfold static_known, statics_of. cbn.
    destruct (Nat.eq_dec g (ffn f)) as [->|Hn].
    + rewrite statics_of_set_same. cbn. destruct (Nat.eqb y x); [congruence|tauto].
    + rewrite statics_of_set_other by congruence. tauto.
  - destruct (fscopes f); intros g y H; exact H.
Qed.

Lemma statics_grow_all funcs n :
  (forall e, respects statics_grow (eval funcs n e)) /\ (forall st, respects statics_grow (exec funcs n st)).
Proof.
  apply eval_exec_respect.
  - exact statics_grow_refl.
  - exact statics_grow_trans.
  - exact write_statics_grow.
  - exact declare_statics_grow.
  - intros o s g x H. exact H.
  - apply block_of_prims; [exact statics_grow_trans| |].
    + intros s. unfold m_push_scope. destruct (sframes s); intros g x H; exact H.
    + intros s. unfold pop_scope_st. destruct (sframes s); intros g x H; exact H.
  - apply frame_of_prims; [exact statics_grow_trans| |].
    + intros f s g x H. exact H.
    + intros s g x H. exact H.
Qed.

Lemma exec_static_decl_eq funcs k cst t x init : exec funcs (S k) (SDecl cst true t x init) =
  (known <- m_static_known x ;;
   if known then ret tt
   else v <- (match init with Some e => eval funcs k e | None => ret 0 end) ;; m_declare true cst t x [] [v]).
Proof. reflexivity. Qed.

(* a `static` declaration that finds its variable known does nothing: the initialiser is not
   evaluated, the state is unchanged *)
Lemma static_decl_known funcs k cst t x init s :
  static_known (cur_fn s) x s -> exec funcs (S k) (SDecl cst true t x init) s = (Val tt, s).
Proof.
  intros H. rewrite exec_static_decl_eq. unfold bind, m_static_known. unfold static_known in H.
  destruct (assoc x (statics_of (cur_fn s) s)); [reflexivity|congruence].
Qed.
(* ... and the first one makes it known, with the initial value stored through the range check *)
Lemma static_decl_first funcs k cst t x e s v s1 v' :
  ~ static_known (cur_fn s) x s -> sframes s <> [] ->
  eval funcs k e s = (Val v, s1) -> sframes s1 = sframes s -> coerce t v = Val v' ->
  exists s2, exec funcs (S k) (SDecl cst true t x (Some e)) s = (Val tt, s2) /\
             assoc x (statics_of (cur_fn s) s2) = Some {| ety := t; econst := cst; edims := []; evals := [v'] |} /\
             sframes s2 = sframes s /\ sglob s2 = sglob s1 /\ sout s2 = sout s1.
Proof.
  intros Hk Hf He Hfr Hc. rewrite exec_static_decl_eq. unfold bind at 1. unfold m_static_known. unfold static_known in Hk.
  destruct (assoc x (statics_of (cur_fn s) s)); [exfalso; apply Hk; discriminate|].
  unfold bind. rewrite He. unfold m_declare. cbn [coerce_all]. rewrite Hc.
  unfold cur_fn. rewrite <- Hfr in *. destruct s1 as [g1 fs1 st1 o1]. cbn [sframes sglob sstat sout] in *.
  destruct fs1 as [|f fr]; [congruence|].
  eexists. split; [reflexivity|]. cbn. unfold statics_of at 1. cbn. rewrite statics_of_set_same. cbn.
  rewrite Nat.eqb_refl. repeat split; reflexivity.
Qed.

(* pushing and popping frames, and output, never touch the statics table *)
Lemma frame_ops_keep_statics f s :
  sstat (snd (m_push_frame f s)) = sstat s /\ sstat (pop_frame_st s) = sstat s /\
  sstat (pop_scope_st s) = sstat s /\ sstat (snd (m_push_scope s)) = sstat s.
Proof.
  repeat split; cbn; try reflexivity.
  - unfold pop_scope_st. destruct (sframes s); reflexivity.
  - unfold m_push_scope. destruct (sframes s); reflexivity.
Qed.

(* ------------------------------------------------------------------ arity *)
Lemma eval_call_eq funcs k f args : eval funcs (S k) (ECall f args) =
  match find_func f funcs with
  | None => fail EUnbound
  | Some fd =>
      if (Nat.ltb (List.length args) (required (fparams fd))) || (Nat.ltb (List.length (fparams fd)) (List.length args))
      then fail EArity
      else
        vs <- eval_args (eval funcs k) (fparams fd) args ;;
        m_push_frame f ;;;
        finally (map_ctl (call_result (fret fd))
                   (bind_params (eval funcs k) (fparams fd) vs ;;; exec_list (exec funcs k) (fbody fd))) pop_frame_st
  end.
Proof. reflexivity. Qed.

Lemma arity_rejected_l funcs k f fd args s :
  find_func f funcs = Some fd ->
  (List.length args < required (fparams fd) \/ List.length (fparams fd) < List.length args)%nat ->
  eval funcs (S k) (ECall f args) s = (Fail EArity, s).
Proof.
  intros Hf Hn. rewrite eval_call_eq, Hf.
  assert (E : (List.length args <? required (fparams fd))%nat || (List.length (fparams fd) <? List.length args)%nat = true).
  { apply orb_true_iff. destruct Hn; [left|right]; apply Nat.ltb_lt; assumption. }
  rewrite E. reflexivity.
Qed.

Lemma call_unfold funcs k f fd args :
  find_func f funcs = Some fd ->
  (required (fparams fd) <= List.length args <= List.length (fparams fd))%nat ->
  eval funcs (S k) (ECall f args) =
  (vs <- eval_args (eval funcs k) (fparams fd) args ;;
   m_push_frame f ;;;
   finally (map_ctl (call_result (fret fd))
              (bind_params (eval funcs k) (fparams fd) vs ;;; exec_list (exec funcs k) (fbody fd))) pop_frame_st).
Proof.
  intros Hf [H1 H2]. rewrite eval_call_eq, Hf.
  assert (E : (List.length args <? required (fparams fd))%nat || (List.length (fparams fd) <? List.length args)%nat = false).
  { apply orb_false_iff. split; apply Nat.ltb_ge; assumption. }
  rewrite E. reflexivity.
Qed.

(* ------------------------------------------------------------------ arguments are positional *)
(* the values handed to the callee: argument i evaluated in the caller, in order, each converted to
   the type of parameter i *)
Inductive args_eval (ev : expr -> M Z) : list param -> list expr -> state -> list Z -> state -> Prop :=
| ae_nil ps s : args_eval ev ps [] s [] s
| ae_cons p pr e r s w s1 v vs s2 :
    ev e s = (Val w, s1) -> coerce (pty p) w = Val v -> args_eval ev pr r s1 vs s2 ->
    args_eval ev (p :: pr) (e :: r) s (v :: vs) s2.

Lemma eval_args_spec ev ps es s vs s' :
  (List.length es <= List.length ps)%nat ->
  eval_args ev ps es s = (Val vs, s') <-> args_eval ev ps es s vs s'.
Proof.
  revert ps s vs. induction es as [|e r IH]; intros ps s vs Hl.
  - cbn. split.
    + intros [= <- <-]. constructor.
    + intros H. inversion H; subst. reflexivity.
  - destruct ps as [|p pr]; [cbn in Hl; lia|]. cbn in Hl. cbn [eval_args]. unfold bind, lift, ret. split.
    + destruct (ev e s) as [c s1] eqn:E1. destruct c; try discriminate.
      destruct (coerce (pty p) a) eqn:E2; try discriminate.
      destruct (eval_args ev pr r s1) as [c2 s2] eqn:E3. destruct c2; try discriminate.
      intros [= <- <-]. econstructor; eauto. apply IH; [lia|exact E3].
    + intros H. inversion H; subst.
      repeat match goal with Hx : ev e s = _ |- _ => rewrite Hx; clear Hx | Hx : coerce _ _ = _ |- _ => rewrite Hx; clear Hx end.
      match goal with Hx : args_eval _ _ _ _ _ _ |- _ => apply IH in Hx; [rewrite Hx; reflexivity|lia] end.
Qed.
Lemma args_eval_length ev ps es s vs s' : args_eval ev ps es s vs s' -> List.length vs = List.length es.
Proof. induction 1; cbn; congruence. Qed.

(* binding: parameter i receives value i *)
Definition scalar_entry (t : ty) (v : Z) : entry := {| ety := t; econst := false; edims := []; evals := [v] |}.
Definition fresh_frame (f : ident) (s : state) : state := snd (m_push_frame f s).

Fixpoint bound_scope (ps : list param) (vs : list Z) (acc : scope) : scope :=
  match ps, vs with
  | p :: pr, v :: vr => bound_scope pr vr ((pname p, scalar_entry (pty p) v) :: acc)
  | _, _ => acc
  end.

Definition with_top_scope (s : state) (f : ident) (sc : scope) (fr : list frame) : state :=
  {| sglob := sglob s; sframes := {| ffn := f; fscopes := [sc] |} :: fr; sstat := sstat s; sout := sout s |}.

Lemma coerce_idem t v v' : coerce t v = Val v' -> coerce t v' = Val v'.
Proof.
  unfold coerce. destruct (uns t && (v <? 0)) eqn:E.
  - intros [= <-]. apply andb_true_iff in E as [E _]. rewrite E. cbn.
    unfold in_range, range. rewrite E. destruct (base t); reflexivity.
  - destruct (in_range t v) eqn:E2; [|discriminate]. intros [= <-]. rewrite E, E2. reflexivity.
Qed.

Lemma bind_params_supplied ev ps vs s f acc fr :
  List.length vs = List.length ps ->
  Forall2 (fun p v => coerce (pty p) v = Val v) ps vs ->
  bind_params ev ps vs (with_top_scope s f acc fr) = (Val tt, with_top_scope s f (bound_scope ps vs acc) fr).
Proof.
  revert vs acc. induction ps as [|p pr IH]; intros vs acc Hl HF.
  - destruct vs; [reflexivity|discriminate].
  - destruct vs as [|v vr]; [discriminate|]. inversion HF; subst.
    cbn [bind_params bound_scope]. unfold bind at 1. unfold m_declare. cbn [coerce_all]. rewrite H2. cbn.
    apply IH; [cbn in Hl; lia|assumption].
Qed.

Lemma bound_scope_lookup ps vs acc x :
  List.length vs = List.length ps -> NoDup (map pname ps) ->
  assoc x (bound_scope ps vs acc) =
  match assoc x (combine (map pname ps) (combine (map pty ps) vs)) with
  | Some (t, v) => Some (scalar_entry t v)
  | None => assoc x acc
  end.
Proof.
  revert vs acc. induction ps as [|p pr IH]; intros vs acc Hl Hn.
  - destruct vs; reflexivity.
  - destruct vs as [|v vr]; [discriminate|]. cbn [bound_scope map combine assoc].
    inversion Hn; subst. rewrite IH; [|cbn in Hl; lia|assumption].
    destruct (Nat.eqb x (pname p)) eqn:E.
    + apply Nat.eqb_eq in E. subst x.
      assert (Hnone : assoc (pname p) (combine (map pname pr) (combine (map pty pr) vr)) = None).
      { clear -H1. revert vr. induction pr as [|q qr IHq]; intros vr; [reflexivity|].
        destruct vr as [|w wr]; [reflexivity|]. cbn. cbn in H1.
        destruct (Nat.eqb (pname p) (pname q)) eqn:E; [apply Nat.eqb_eq in E; exfalso; apply H1; left; congruence|].
        apply IHq. intros H. apply H1. right. exact H. }
      rewrite Hnone. cbn. rewrite Nat.eqb_refl. reflexivity.
    + destruct (assoc x (combine (map pname pr) (combine (map pty pr) vr))) as [[t w]|]; [reflexivity|].
      cbn. rewrite E. reflexivity.
Qed.

Lemma args_eval_coerced ev ps es s vs s' :
  args_eval ev ps es s vs s' -> Forall2 (fun p v => coerce (pty p) v = Val v) (firstn (List.length vs) ps) vs.
Proof.
  induction 1; cbn; [constructor|]. constructor; [|assumption]. eapply coerce_idem; eassumption.
Qed.

(* ------------------------------------------------------------------ defaults fill the trailing parameters *)
Lemma bind_params_default_eq ev p pr :
  bind_params ev (p :: pr) [] =
  match pdef p with
  | Some d => v <- ev d ;; m_declare false false (pty p) (pname p) [] [v] ;;; bind_params ev pr []
  | None => fail EArity
  end.
Proof. reflexivity. Qed.

Lemma bind_params_app ev ps1 ps2 vs ws s :
  List.length vs = List.length ps1 ->
  bind_params ev (ps1 ++ ps2) (vs ++ ws) s = (bind_params ev ps1 vs ;;; bind_params ev ps2 ws) s.
Proof.
  revert vs s. induction ps1 as [|p pr IH]; intros vs s Hl.
  - destruct vs; [|discriminate]. reflexivity.
  - destruct vs as [|v vr]; [discriminate|]. cbn [app bind_params]. unfold bind.
    destruct (m_declare false false (pty p) (pname p) [] [v] s) as [c s1]. destruct c; try reflexivity.
    rewrite IH by (cbn in Hl; lia). reflexivity.
Qed.

Definition has_default (p : param) : bool := match pdef p with Some _ => true | None => false end.
(* the declaration rule of the parser: once a parameter has a default, all later ones have one *)
Fixpoint defaults_trailing (ps : list param) : bool :=
  match ps with
  | [] => true
  | p :: r => if has_default p then forallb has_default r else defaults_trailing r
  end.

Lemma required_all_default ps : forallb has_default ps = true -> required ps = 0%nat.
Proof.
  unfold required. induction ps as [|p r IH]; [reflexivity|]. cbn. unfold has_default at 1.
  destruct (pdef p); [|discriminate]. intros H. apply IH. exact H.
Qed.
Lemma required_le ps : (required ps <= List.length ps)%nat.
Proof. unfold required. induction ps as [|p r IH]; cbn; [lia|]. destruct (pdef p); cbn; lia. Qed.

(* with that rule, every parameter beyond the first [n >= required] ones has a default, so binding
   never runs into a missing value *)
Lemma defaults_present ps n :
  defaults_trailing ps = true -> (required ps <= n)%nat -> forallb has_default (skipn n ps) = true.
Proof.
  revert n. induction ps as [|p r IH]; intros n Ht Hr; [destruct n; reflexivity|].
  cbn in Ht. destruct (has_default p) eqn:E.
  - destruct n; cbn; [rewrite E, Ht; reflexivity|].
    clear -Ht. revert n. induction r as [|q r IHr]; intros n; [destruct n; reflexivity|].
    cbn in Ht. apply andb_true_iff in Ht as [H1 H2]. destruct n; cbn; [rewrite H1, H2; reflexivity|apply IHr; exact H2].
  - unfold required in Hr. cbn in Hr. unfold has_default in E. destruct (pdef p); [discriminate|]. cbn in Hr.
    destruct n; [lia|]. cbn. apply IH; [exact Ht|]. unfold required. lia.
Qed.

Lemma bind_params_no_missing ev ps s c s' :
  forallb has_default ps = true -> (forall d s0, fst (ev d s0) <> Fail EArity) ->
  bind_params ev ps [] s = (c, s') -> c <> Fail EArity.
Proof.
  intros Hd Hev. revert s. induction ps as [|p r IH]; intros s; [cbn; intros [= <- <-]; discriminate|].
  cbn in Hd. apply andb_true_iff in Hd as [H1 H2]. rewrite bind_params_default_eq.
  unfold has_default in H1. destruct (pdef p) as [d|]; [|discriminate].
  unfold bind. specialize (Hev d s). destruct (ev d s) as [c1 s1]. cbn in Hev.
  destruct c1; try (intros [= <- <-]; congruence).
  unfold m_declare. cbn [coerce_all]. destruct (coerce (pty p) a) eqn:Ec; try (intros [= <- <-]; discriminate).
  - destruct (sframes s1) as [|f fr]; [apply IH; exact H2|]. destruct (fscopes f); [intros [= <- <-]; discriminate|apply IH; exact H2].
  - intros [= <- <-]. unfold coerce in Ec. destruct (_ && _); [discriminate|]. destruct (in_range _ _); [discriminate|]. injection Ec as <-. discriminate.
Qed.

(* omitting trailing arguments means passing the declared defaults: for literal defaults that fit
   their parameter type, the call with the arguments left out is the call with them written out *)
Lemma eval_args_lits ev ps1 ps2 args zs s :
  (forall z, ev (ENum z) = ret z) ->
  List.length args = List.length ps1 ->
  Forall2 (fun p z => coerce (pty p) z = Val z) ps2 zs ->
  eval_args ev (ps1 ++ ps2) (args ++ map ENum zs) s =
  match eval_args ev (ps1 ++ ps2) args s with
  | (Val vs, s') => (Val (vs ++ zs), s')
  | other => other
  end.
Proof.
  intros Hn. revert ps1 s. induction args as [|e r IH]; intros ps1 s Hl HF.
  - destruct ps1; [|discriminate]. cbn [app]. cbn [eval_args]. unfold ret.
    revert s. induction HF as [|p z pr zr Hc HF IHF]; intros s; [reflexivity|].
    cbn [map eval_args]. rewrite Hn. unfold bind, ret, lift. rewrite Hc. rewrite IHF. reflexivity.
  - destruct ps1 as [|p pr]; [discriminate|]. cbn [app eval_args]. unfold bind.
    destruct (ev e s) as [c s1]. destruct c; try reflexivity.
    unfold lift. destruct (coerce (pty p) a); try reflexivity.
    rewrite IH by (cbn in Hl; lia || assumption).
    destruct (eval_args ev (pr ++ ps2) r s1) as [c2 s2]. destruct c2; reflexivity.
Qed.

Lemma eval_args_length ev ps es s vs s' : eval_args ev ps es s = (Val vs, s') -> List.length vs = List.length es.
Proof.
  revert ps s vs. induction es as [|e r IH]; intros ps s vs; cbn [eval_args].
  - intros [= <- <-]. reflexivity.
  - unfold bind, lift, ret. destruct (ev e s) as [c s1]. destruct c; try discriminate.
    destruct ps as [|p pr].
    + destruct (eval_args ev [] r s1) as [c2 s2] eqn:E. destruct c2; try discriminate. intros [= <- <-]. cbn. f_equal. eapply IH; exact E.
    + destruct (coerce (pty p) a); try discriminate.
      destruct (eval_args ev pr r s1) as [c2 s2] eqn:E. destruct c2; try discriminate. intros [= <- <-]. cbn. f_equal. eapply IH; exact E.
Qed.

Lemma bind_params_lits ev ps zs s :
  (forall z, ev (ENum z) = ret z) ->
  Forall2 (fun p z => pdef p = Some (ENum z)) ps zs ->
  bind_params ev ps zs s = bind_params ev ps [] s.
Proof.
  intros Hn HF. revert s. induction HF as [|p z pr zr Hd HF IH]; intros s; [reflexivity|].
  rewrite bind_params_default_eq, Hd, Hn. cbn [bind_params]. unfold bind, ret.
  destruct (m_declare false false (pty p) (pname p) [] [z] s) as [c s1]. destruct c; try reflexivity. apply IH.
Qed.

Lemma Forall2_len {A B} (P : A -> B -> Prop) l1 l2 : Forall2 P l1 l2 -> List.length l1 = List.length l2.
Proof. induction 1; cbn; congruence. Qed.

Lemma Forall2_weaken {A B} (P Q : A -> B -> Prop) l1 l2 : (forall a b, P a b -> Q a b) -> Forall2 P l1 l2 -> Forall2 Q l1 l2.
Proof. intros H. induction 1; constructor; auto. Qed.

Lemma defaults_fill_trailing_l funcs k f fd ps1 ps2 args zs s :
  find_func f funcs = Some fd -> fparams fd = ps1 ++ ps2 ->
  List.length args = List.length ps1 -> (required (fparams fd) <= List.length args)%nat ->
  Forall2 (fun p z => pdef p = Some (ENum z) /\ coerce (pty p) z = Val z) ps2 zs ->
  eval funcs (S (S k)) (ECall f args) s = eval funcs (S (S k)) (ECall f (args ++ map ENum zs)) s.
Proof.
  intros Hf Hp Hl Hr HF.
  assert (Hlz : List.length zs = List.length ps2) by (symmetry; eapply Forall2_len; exact HF).
  assert (A1 : (required (fparams fd) <= List.length args <= List.length (fparams fd))%nat).
  { split; [exact Hr|]. rewrite Hp, app_length. lia. }
  assert (A2 : (required (fparams fd) <= List.length (args ++ map ENum zs) <= List.length (fparams fd))%nat).
  { rewrite !app_length, map_length. split; [lia|]. rewrite Hp, app_length. lia. }
  rewrite (call_unfold _ _ _ fd _ Hf A1), (call_unfold _ _ _ fd _ Hf A2).
  assert (Hn : forall z, eval funcs (S k) (ENum z) = ret z) by reflexivity.
  unfold bind at 1 4. rewrite Hp.
  rewrite (eval_args_lits _ ps1 ps2 args zs s Hn Hl).
  2: { eapply Forall2_weaken; [|exact HF]. cbn. tauto. }
  destruct (eval_args (eval funcs (S k)) (ps1 ++ ps2) args s) as [c s1] eqn:E. destruct c; try reflexivity.
  assert (Hla : List.length a = List.length ps1) by (rewrite <- Hl; eapply eval_args_length; exact E).
  unfold bind, m_push_frame, finally, map_ctl. cbn beta iota.
  match goal with |- context [bind_params ?ev (ps1 ++ ps2) a ?st] =>
    replace (bind_params ev (ps1 ++ ps2) a st) with (bind_params ev (ps1 ++ ps2) (a ++ zs) st) end; [reflexivity|].
  rewrite <- (app_nil_r a) at 2. rewrite !bind_params_app by assumption.
  unfold bind. destruct (bind_params _ ps1 a _) as [c1 s2]. destruct c1; try reflexivity.
  apply bind_params_lits; [exact Hn|]. eapply Forall2_weaken; [|exact HF]. cbn. tauto.
Qed.

(* ------------------------------------------------------------------ the returned value *)
(* a value that fits the declared result type (every int64 value for `long`) reaches the caller as
   the value of the call, unchanged *)
Lemma call_result_unchanged rt v : (match rt with Some t => coerce t v = Val v | None => True end) ->
  call_result rt (Ret (Some v)) = Val v.
Proof. destruct rt; cbn; intros H; [exact H|reflexivity]. Qed.

Lemma coerce_long v : in64 v = true -> coerce {| base := TLong; uns := false |} v = Val v.
Proof. intros H. unfold coerce, in_range, range. cbn. unfold in64 in H. rewrite H. reflexivity. Qed.

Lemma return_value_unchanged_l funcs k f fd args s vs s1 s2 v :
  find_func f funcs = Some fd ->
  (required (fparams fd) <= List.length args <= List.length (fparams fd))%nat ->
  eval_args (eval funcs k) (fparams fd) args s = (Val vs, s1) ->
  (bind_params (eval funcs k) (fparams fd) vs ;;; exec_list (exec funcs k) (fbody fd)) (fresh_frame f s1) = (Ret (Some v), s2) ->
  (match fret fd with Some t => coerce t v = Val v | None => True end) ->
  eval funcs (S k) (ECall f args) s = (Val v, pop_frame_st s2).
Proof.
  intros Hf Ha He Hb Hr. rewrite (call_unfold _ _ _ fd _ Hf Ha). unfold bind at 1. rewrite He.
  unfold bind at 1. unfold m_push_frame at 1. unfold finally, map_ctl. unfold fresh_frame, m_push_frame in Hb. cbn [snd] in Hb.
  rewrite Hb. rewrite call_result_unchanged by exact Hr. reflexivity.
Qed.

(* the whole call, positional: with as many arguments as parameters, distinct parameter names, the
   body starts in a fresh frame whose only variables are the parameters, parameter i holding the
   (converted) value of argument i *)
Lemma call_binds_positionally ev ps es s vs s1 f :
  List.length es = List.length ps -> NoDup (map pname ps) ->
  eval_args ev ps es s = (Val vs, s1) ->
  exists s2, bind_params ev ps vs (fresh_frame f s1) = (Val tt, s2) /\
    sframes s2 = {| ffn := f; fscopes := [bound_scope ps vs []] |} :: sframes s1 /\
    sglob s2 = sglob s1 /\ sstat s2 = sstat s1 /\ sout s2 = sout s1 /\
    args_eval ev ps es s vs s1 /\
    (forall x, scopes_get x [bound_scope ps vs []] =
               match assoc x (combine (map pname ps) (combine (map pty ps) vs)) with
               | Some (t, v) => Some (scalar_entry t v)
               | None => None
               end).
Proof.
  intros Hl Hn He.
  assert (Ha : args_eval ev ps es s vs s1) by (apply eval_args_spec; [lia|exact He]).
  assert (Hlv : List.length vs = List.length ps) by (rewrite <- Hl; eapply args_eval_length; exact Ha).
  pose proof (args_eval_coerced _ _ _ _ _ _ Ha) as HF. rewrite Hlv, firstn_all in HF.
  exists (with_top_scope s1 f (bound_scope ps vs []) (sframes s1)).
  split; [|repeat split; try reflexivity; try assumption].
  - unfold fresh_frame, m_push_frame. cbn [snd].
    change {| sglob := sglob s1; sframes := {| ffn := f; fscopes := [[]] |} :: sframes s1; sstat := sstat s1; sout := sout s1 |}
      with (with_top_scope s1 f [] (sframes s1)).
    apply bind_params_supplied; assumption.
  - intros x. cbn [scopes_get]. rewrite bound_scope_lookup by assumption.
    destruct (assoc x (combine _ _)) as [[t v]|]; reflexivity.
Qed.

(* the inside of a call bracket never changes a frame below the new one *)
Lemma call_inside_below funcs k ps vs body :
  respects below_kept (bind_params (eval funcs k) ps vs ;;; exec_list (exec funcs k) body).
Proof.
  apply (r_bind _ below_kept_trans).
  - apply (r_bind_params below_kept below_kept_refl below_kept_trans declare_below). apply (proj1 (below_kept_all funcs k)).
  - intros _. apply (r_exec_list below_kept below_kept_refl below_kept_trans). apply (proj2 (below_kept_all funcs k)).
Qed.
Lemma eval_args_frames funcs k ps es : respects frames_same (eval_args (eval funcs k) ps es).
Proof. apply (r_eval_args frames_same frames_same_refl frames_same_trans). apply eval_frames_exact. Qed.

(* expressions yield a value or fail: break / continue / return never escape an expression *)
Definition val_or_fail {A} (c : ctl A) : Prop := match c with Val _ | Fail _ => True | _ => False end.
Definition vf {A} (m : M A) : Prop := forall s, val_or_fail (fst (m s)).
Lemma vf_bind {A B} (m : M A) (f : A -> M B) : vf m -> (forall a, vf (f a)) -> vf (bind m f).
Proof.
  intros Hm Hf s. unfold bind. specialize (Hm s). destruct (m s) as [c s1]. cbn in Hm. destruct c; try contradiction; cbn; [apply Hf|exact I].
Qed.
Lemma vf_ret {A} (a : A) : vf (ret a). Proof. intros s. exact I. Qed.
Lemma vf_fail {A} e : vf (@fail A e). Proof. intros s. exact I. Qed.
Lemma chk_vf z : val_or_fail (chk z). Proof. unfold chk. destruct (in64 z); exact I. Qed.
Lemma arith_vf o a b : val_or_fail (arith o a b).
Proof.
  destruct o; cbn; try apply chk_vf; try exact I.
  - destruct (b =? 0); [exact I|apply chk_vf].
  - destruct (b =? 0); [exact I|]. destruct (_ && _); exact I.
  - destruct (_ && _); [apply chk_vf|exact I].
  - destruct (_ && _); exact I.
Qed.
Lemma unarith_vf o a : val_or_fail (unarith o a).
Proof. destruct o; cbn; try apply chk_vf; exact I. Qed.
Lemma coerce_vf t v : val_or_fail (coerce t v).
Proof. unfold coerce. destruct (_ && _); [exact I|]. destruct (in_range t v); exact I. Qed.
Lemma vf_lift {A} (c : ctl A) : val_or_fail c -> vf (lift c). Proof. intros H s. exact H. Qed.
Lemma vf_read x i : vf (m_read x i).
Proof. intros s. unfold m_read. destruct (get_entry x s); [|exact I]. destruct (flat_index _ _ _); exact I. Qed.
Lemma vf_eval_list ev es : (forall e, vf (ev e)) -> vf (eval_list ev es).
Proof.
  intros H. induction es as [|e r IH]; cbn [eval_list]; [apply vf_ret|].
  apply vf_bind; [apply H|]. intros v. apply vf_bind; [exact IH|]. intros vs. apply vf_ret.
Qed.
Lemma vf_eval_args ev ps es : (forall e, vf (ev e)) -> vf (eval_args ev ps es).
Proof.
  intros H. revert ps. induction es as [|e r IH]; intros ps; cbn [eval_args]; [apply vf_ret|].
  apply vf_bind; [apply H|]. intros v. destruct ps as [|p pr].
  - apply vf_bind; [apply IH|]. intros. apply vf_ret.
  - apply vf_bind; [apply vf_lift, coerce_vf|]. intros. apply vf_bind; [apply IH|]. intros. apply vf_ret.
Qed.
Lemma call_result_vf rt c : val_or_fail (call_result rt c).
Proof. destruct c as [u| | |[v|]|e]; cbn; try exact I. destruct rt; [apply coerce_vf|exact I]. Qed.

Lemma vf_call_bracket f rt (m : M unit) : vf (m_push_frame f ;;; finally (map_ctl (call_result rt) m) pop_frame_st).
Proof.
  intros s. unfold bind, m_push_frame, finally, map_ctl.
  match goal with |- context [m ?st] => destruct (m st) as [c0 s0] end. cbn. apply call_result_vf.
Qed.

Lemma eval_vf funcs n : forall e, vf (eval funcs n e).
Proof.
  induction n as [|k IH]; intros e; [apply vf_fail|].
  destruct e; cbn [eval].
  - apply vf_ret.
  - apply vf_read.
  - apply vf_bind; [apply IH|]. intros. apply vf_lift, unarith_vf.
  - apply vf_bind; [apply IH|]. intros. apply vf_bind; [apply IH|]. intros. apply vf_lift, arith_vf.
  - apply vf_bind; [apply IH|]. intros x. destruct (x =? 0); [apply vf_ret|]. apply vf_bind; [apply IH|]. intros. apply vf_ret.
  - apply vf_bind; [apply IH|]. intros x. destruct (x =? 0); [|apply vf_ret]. apply vf_bind; [apply IH|]. intros. apply vf_ret.
  - apply vf_bind; [apply IH|]. intros x. destruct (x =? 0); apply IH.
  - destruct (find_func f funcs) as [fd|]; [|apply vf_fail].
    match goal with |- vf (if ?c then _ else _) => destruct c end; [apply vf_fail|].
    apply vf_bind; [apply vf_eval_args; exact IH|]. intros vs. apply vf_call_bracket.
  - apply vf_bind; [apply vf_eval_list; exact IH|]. intros. apply vf_read.
Qed.

Lemma bound_scope_firstn ps vs acc : bound_scope (firstn (List.length vs) ps) vs acc = bound_scope ps vs acc.
Proof.
  revert vs acc. induction ps as [|p pr IH]; intros vs acc; [destruct vs; reflexivity|].
  destruct vs as [|v vr]; [reflexivity|]. cbn. apply IH.
Qed.
Lemma bound_scope_names ps vs acc x :
  assoc x (bound_scope ps vs acc) <> None -> assoc x acc <> None \/ In x (map pname ps).
Proof.
  revert vs acc. induction ps as [|p pr IH]; intros vs acc; [destruct vs; cbn; tauto|].
  destruct vs as [|v vr]; [cbn; tauto|]. cbn [bound_scope map]. intros H. apply IH in H as [H|H].
  - cbn in H. destruct (Nat.eqb x (pname p)) eqn:E; [apply Nat.eqb_eq in E; right; left; congruence|left; exact H].
  - right. right. exact H.
Qed.

Lemma bind_unfold {A B} (m : M A) (f : A -> M B) s :
  bind m f s = match m s with
               | (Val a, s') => f a s'
               | (Brk, s') => (Brk, s') | (Cnt, s') => (Cnt, s') | (Ret v, s') => (Ret v, s') | (Fail e, s') => (Fail e, s')
               end.
Proof. reflexivity. Qed.

(* a call of Ref, step by step *)
Lemma eval_call_steps funcs k f args rs :
  eval funcs (S k) (ECall f args) rs =
  match find_func f funcs with
  | None => (Fail EUnbound, rs)
  | Some fd =>
      if (Nat.ltb (List.length args) (required (fparams fd))) || (Nat.ltb (List.length (fparams fd)) (List.length args))
      then (Fail EArity, rs)
      else match eval_args (eval funcs k) (fparams fd) args rs with
           | (Val vs, rs1) =>
               (call_result (fret fd) (fst ((bind_params (eval funcs k) (fparams fd) vs ;;; exec_list (exec funcs k) (fbody fd)) (snd (m_push_frame f rs1)))),
                pop_frame_st (snd ((bind_params (eval funcs k) (fparams fd) vs ;;; exec_list (exec funcs k) (fbody fd)) (snd (m_push_frame f rs1)))))
           | (Brk, s') => (Brk, s') | (Cnt, s') => (Cnt, s') | (Ret v, s') => (Ret v, s') | (Fail e, s') => (Fail e, s')
           end
  end.
Proof.
  rewrite eval_call_eq. destruct (find_func f funcs) as [fd|]; [|reflexivity].
  destruct (_ || _); [reflexivity|]. rewrite bind_unfold.
  destruct (eval_args (eval funcs k) (fparams fd) args rs) as [c rs1]. destruct c; try reflexivity.
  unfold bind at 1. change (m_push_frame f rs1) with (Val tt, snd (m_push_frame f rs1)). lazy beta iota.
  unfold finally, map_ctl. cbn [snd].
  destruct ((bind_params (eval funcs k) (fparams fd) a ;;; exec_list (exec funcs k) (fbody fd)) (snd (m_push_frame f rs1))) as [c3 rs3].
  reflexivity.
Qed.
