(* C08 - the restore policy of evaluate_function_call_impl is exactly what the property needs: one
   program that leaves through all four exits separates every unsound policy from Ref. *)
From Coq Require Import List ZArith Bool Arith Lia.
From Cb Require Import Lang.Syntax Lang.Sem Lang.Print C08.Kinds C08.KindsLemmas.
Import ListNotations.
Local Open Scope Z_scope.

Definition n70 : ident := 70%nat.
Definition bump : list kstmt := [KAsg n70 (KBin Add (KVar n70) (KNum 1))].
Definition counter (f : ident) (k : kind) (init : Z) (tail : list kstmt) : kfunc :=
  {| kfname := f; kfret := k; kfvia := 0%nat; kfparams := [];
     kfbody := KDecl true KLong n70 (KNum init) :: bump ++ tail |}.

(* f1 runs to its end (void), f2 returns a long, f3 returns a string, f4 divides by zero;
   f5 owns a static of the same name and counts its own steps between the calls *)
Definition w_exits : kprog :=
  {| kpglob := [];
     kpfuncs :=
       [ counter 1%nat KVoid 100 [];
         counter 2%nat KLong 200 [KRet (Some (KVar n70))];
         counter 3%nat KStr 300 [KRet (Some (KLit KStr 1))];
         counter 4%nat KLong 400 [KRet (Some (KBin Div (KNum 1) (KNum 0)))];
         counter 5%nat KLong 0
           ([KExpr (KCall 1%nat [])] ++ bump ++
            [KDecl false KLong 2%nat (KCall 2%nat [])] ++ bump ++
            [KDecl false KStr 3%nat (KCall 3%nat [])] ++ bump ++
            [KDecl false KLong 4%nat (KNum 0); KTry 4%nat (KCall 4%nat [])] ++ bump ++
            [KRet (Some (KVar n70))]) ];
     kpmain := [KPrint [(KLong, KCall 5%nat [])]; KPrint [(KLong, KCall 5%nat [])]] |}.

Example w_exits_ref : kref_run 40 w_exits = ([KOVal KLong 5; KONl; KOVal KLong 10; KONl], Finished).
Proof. vm_compute. reflexivity. Qed.

Lemma unsound_policy_separated pol : policy_ok pol = false -> k_run true pol 40 w_exits <> kref_run 40 w_exits.
Proof.
  destruct pol as [[] [] [] [] []]; unfold policy_ok; simpl; intro H; try discriminate H;
    vm_compute; intro Heq; discriminate Heq.
Qed.

Lemma restore_policy_exact_l pol :
  (forall fuel p, k_run true pol fuel p = kref_run fuel p) <-> policy_ok pol = true.
Proof.
  split.
  - intro H. destruct (policy_ok pol) eqn:E; [reflexivity|].
    exfalso. apply (unsound_policy_separated pol E). apply H.
  - intros H fuel p. apply mech_refines_ref; exact H.
Qed.

(* the filed change C08-1: 6771 moved behind the re-throws, 6911 made conditional on a flag that is
   never set there - the string / double callee leaves the register on its own name *)
Definition seeded_policy : policy := {| p_end := true; p_ret := false; p_int := true; p_outer := false; p_err := true |}.
Definition w_seeded : kprog :=
  {| kpglob := [];
     kpfuncs :=
       [ counter 1%nat KStr 100 [KRet (Some (KLit KStr 0))];
         counter 2%nat KInt 0 [KDecl false KStr 1%nat (KCall 1%nat []); KAsg n70 (KBin Add (KVar n70) (KNum 1));
                           KPrint [(KStr, KVar 1%nat); (KLong, KVar n70)]; KRet (Some (KVar n70))] ];
     kpmain := [KPrint [(KInt, KCall 2%nat [])]; KPrint [(KInt, KCall 2%nat [])]] |}.
Example w_seeded_ref : kref_run 40 w_seeded =
  ([KOVal KStr 0; KOSp; KOVal KLong 2; KONl; KOVal KInt 2; KONl;
    KOVal KStr 0; KOSp; KOVal KLong 4; KONl; KOVal KInt 4; KONl], Finished).
Proof. vm_compute. reflexivity. Qed.
Example w_seeded_bad : k_run true seeded_policy 40 w_seeded =
  ([KOVal KStr 0; KOSp; KOVal KLong 102; KONl; KOVal KInt 102; KONl;
    KOVal KStr 0; KOSp; KOVal KLong 104; KONl; KOVal KInt 104; KONl], Finished).
Proof. vm_compute. reflexivity. Qed.
