(* C08 - proofs about CbCall (Kinds.v): the register discipline of evaluate_function_call_impl equals the
   stack discipline of the property, for results of every kind and every exit. *)
From Coq Require Import List ZArith Bool Arith Lia.
From Cb Require Import Lang.Syntax Lang.Sem Lang.Print C08.Kinds.
Import ListNotations.
Local Open Scope Z_scope.

(* a restore policy under which every exit puts the caller's name back *)
Definition policy_ok (pol : policy) : bool :=
  p_end pol && p_err pol && (p_ret pol || (p_int pol && p_outer pol)).

(* ---------- the two state relations ---------- *)
(* E: what an EXPRESSION may do to the activation stack and the register: nothing *)
Definition E (s s' : kstate) : Prop := kcur s' = kcur s /\ kframes s' = kframes s.
(* W: what a STATEMENT may do: change the variables of the running activation only *)
Definition W (s s' : kstate) : Prop :=
  kcur s' = kcur s /\ top_fn (kframes s') = top_fn (kframes s) /\ tl (kframes s') = tl (kframes s).

Lemma E_refl s : E s s. Proof. split; reflexivity. Qed.
Lemma W_refl s : W s s. Proof. repeat split; reflexivity. Qed.
Lemma E_trans a b c : E a b -> E b c -> E a c.
Proof. intros [H1 H2] [H3 H4]; split; congruence. Qed.
Lemma W_trans a b c : W a b -> W b c -> W a c.
Proof. intros (H1 & H2 & H3) (H4 & H5 & H6); repeat split; congruence. Qed.
Lemma E_W a b : E a b -> W a b.
Proof. intros [H1 H2]; repeat split; congruence. Qed.

Definition presE {A} (m : KM A) : Prop := forall s, E s (snd (m s)).
Definition presW {A} (m : KM A) : Prop := forall s, W s (snd (m s)).
Lemma presE_W {A} (m : KM A) : presE m -> presW m.
Proof. intros H s; apply E_W, H. Qed.

Lemma presE_ret {A} (a : A) : presE (kret a). Proof. intro s; apply E_refl. Qed.
Lemma presE_fail {A} e : presE (@kfail A e). Proof. intro s; apply E_refl. Qed.
Lemma presE_lift {A} (c : ctl A) : presE (klift c). Proof. intro s; apply E_refl. Qed.

Lemma presE_bind {A B} (m : KM A) (f : A -> KM B) : presE m -> (forall a, presE (f a)) -> presE (kbind m f).
Proof.
  intros Hm Hf s. unfold kbind. specialize (Hm s). destruct (m s) as [c s1]; simpl in Hm.
  destruct c; simpl; auto. eapply E_trans; [exact Hm | apply Hf].
Qed.
Lemma presW_bind {A B} (m : KM A) (f : A -> KM B) : presW m -> (forall a, presW (f a)) -> presW (kbind m f).
Proof.
  intros Hm Hf s. unfold kbind. specialize (Hm s). destruct (m s) as [c s1]; simpl in Hm.
  destruct c; simpl; auto. eapply W_trans; [exact Hm | apply Hf].
Qed.

(* ---------- primitives ---------- *)
Lemma set_top_vars_fn vs fs : top_fn (set_top_vars vs fs) = top_fn fs.
Proof. destruct fs; reflexivity. Qed.
Lemma set_top_vars_tl vs fs : tl (set_top_vars vs fs) = tl fs.
Proof. destruct fs; reflexivity. Qed.

Lemma k_put_W mech x e s : W s (k_put mech x e s).
Proof.
  unfold k_put. destruct (assoc x (top_vars (kframes s))).
  - repeat split; simpl; [apply set_top_vars_fn | apply set_top_vars_tl].
  - destruct (assoc x (kstatics (key mech s) s)); repeat split; reflexivity.
Qed.

Lemma presE_read mech x : presE (k_read mech x).
Proof. intro s; unfold k_read; destruct (k_get mech x s); apply E_refl. Qed.
Lemma presW_write mech x v : presW (k_write mech x v).
Proof.
  intro s; unfold k_write. destruct (k_get mech x s); [|apply W_refl].
  destruct (kcoerce (kk k) v); simpl; try apply W_refl. apply k_put_W.
Qed.
Lemma presW_declare k x v : presW (k_declare k x v).
Proof.
  intro s; unfold k_declare. destruct (kframes s) eqn:Hf; [apply W_refl|].
  destruct (kcoerce k v); simpl; try apply W_refl.
  repeat split; simpl; rewrite Hf; reflexivity.
Qed.
Lemma presE_static_known mech x : presE (k_static_known mech x).
Proof. intro s; apply E_refl. Qed.
Lemma presE_static_declare mech k x v : presE (k_static_declare mech k x v).
Proof. intro s; unfold k_static_declare; destruct (kcoerce k v); simpl; split; reflexivity. Qed.
Lemma presE_out o : presE (k_out o).
Proof. intro s; split; reflexivity. Qed.

(* ---------- the helpers over lists ---------- *)
Lemma presE_kargs ev : (forall e, presE (ev e)) -> forall es ps, presE (kargs ev ps es).
Proof.
  intros Hev es; induction es as [|e r IH]; intros ps; simpl; [apply presE_ret|].
  apply presE_bind; [apply Hev|]. intro v. destruct ps as [|p pr].
  - apply presE_bind; [apply IH|]. intro; apply presE_ret.
  - apply presE_bind; [apply presE_lift|]. intro. apply presE_bind; [apply IH|]. intro; apply presE_ret.
Qed.
Lemma presW_bind_params ps : forall vs, presW (kbind_params ps vs).
Proof.
  induction ps as [|p pr IH]; intros vs; simpl; [apply presE_W, presE_ret|].
  destruct vs as [|v vr].
  - destruct (kpd p); [|apply presE_W, presE_fail].
    apply presW_bind; [apply presW_declare|]. intro; apply IH.
  - apply presW_bind; [apply presW_declare|]. intro; apply IH.
Qed.
Lemma presW_exec_list ex : (forall st, presW (ex st)) -> forall ss, presW (kexec_list ex ss).
Proof.
  intros Hex ss; induction ss as [|s r IH]; simpl; [apply presE_W, presE_ret|].
  apply presW_bind; [apply Hex|]. intro; apply IH.
Qed.
Lemma presE_print_args ev : (forall e, presE (ev e)) -> forall es first, presE (kprint_args ev first es).
Proof.
  intros Hev es; induction es as [|[k e] r IH]; intros first; simpl; [apply presE_ret|].
  apply presE_bind; [destruct first; [apply presE_ret | apply presE_out]|]. intro.
  apply presE_bind; [apply Hev|]. intro. apply presE_bind; [apply presE_out|]. intro; apply IH.
Qed.

Lemma presW_catch m h : presE m -> (forall v, presW (h v)) -> presW (k_catch m h).
Proof.
  intros Hm Hh s. unfold k_catch. specialize (Hm s). destruct (m s) as [c s1]; simpl in Hm.
  destruct c; try (apply E_W; exact Hm).
  - eapply W_trans; [apply E_W; exact Hm | apply Hh].
  - destruct e; try (apply E_W; exact Hm). eapply W_trans; [apply E_W; exact Hm | apply Hh].
Qed.

(* ---------- the call protocol: every exit gives the caller its stack and its name back ---------- *)
Lemma restore_frames b prev s : kframes (restore b prev s) = kframes s.
Proof. destruct b; reflexivity. Qed.

Lemma presE_call pol fd inner : policy_ok pol = true -> presW inner -> presE (k_call pol fd inner).
Proof.
  intros Hok Hin s. unfold k_call.
  specialize (Hin (push_frame (kfname fd) (with_cur (kfname fd) s))).
  destruct (inner (push_frame (kfname fd) (with_cur (kfname fd) s))) as [c s2]; simpl in Hin.
  destruct Hin as (_ & _ & Htl). simpl in Htl.
  unfold policy_ok in Hok. apply andb_true_iff in Hok as [Hok H3]. apply andb_true_iff in Hok as [H1 H2].
  assert (Hf : forall b1 b2 p1 p2, kframes (restore b1 p1 (restore b2 p2 (pop_frame s2))) = kframes s).
  { intros. rewrite !restore_frames. simpl. exact Htl. }
  destruct c.
  - simpl. rewrite H1. split; [reflexivity | simpl; exact Htl].
  - simpl. rewrite H1. split; [reflexivity | simpl; exact Htl].
  - simpl. rewrite H1. split; [reflexivity | simpl; exact Htl].
  - destruct (rethrown (kfret fd)) eqn:Hr; simpl.
    + split; [|apply Hf].
      destruct (p_ret pol); simpl in *.
      * destruct (p_outer pol); reflexivity.
      * apply andb_true_iff in H3 as [_ H3]. rewrite H3. reflexivity.
    + split; [|apply Hf].
      destruct (p_ret pol); simpl in *.
      * destruct (p_int pol); reflexivity.
      * apply andb_true_iff in H3 as [H3 _]. rewrite H3. reflexivity.
  - simpl. rewrite H2. split; [reflexivity | simpl; exact Htl].
Qed.

(* ---------- Theorem A: expressions keep stack and register, statements keep the activation ---------- *)
Section Discipline.
Variable mech : bool.
Variable pol : policy.
Hypothesis Hok : policy_ok pol = true.
Variable funcs : list kfunc.

Lemma discipline : forall n,
  (forall e, presE (keval mech pol funcs n e)) /\ (forall st, presW (kexec mech pol funcs n st)).
Proof.
  induction n as [|k [IHe IHs]].
  { split; intros; simpl; [apply presE_fail | apply presE_W, presE_fail]. }
  split.
  - intros e. destruct e; cbn [keval].
    + apply presE_ret.
    + apply presE_ret.
    + apply presE_read.
    + apply presE_read.
    + apply presE_bind; [apply IHe|]. intro. apply presE_bind; [apply IHe|]. intro; apply presE_lift.
    + destruct (kfind f funcs) as [fd|]; [|apply presE_fail].
      destruct (_ || _); [apply presE_fail|].
      apply presE_bind; [apply presE_kargs, IHe|]. intro vs.
      apply presE_call; [exact Hok|].
      apply presW_bind; [apply presW_bind_params|]. intro; apply presW_exec_list, IHs.
  - intros st. destruct st; cbn [kexec].
    + destruct sta.
      * apply presE_W. apply presE_bind; [apply presE_static_known|]. intros [|]; [apply presE_ret|].
        apply presE_bind; [apply IHe|]. intro; apply presE_static_declare.
      * apply presW_bind; [apply presE_W, IHe|]. intro; apply presW_declare.
    + apply presW_bind; [apply presE_W, IHe|]. intro; apply presW_write.
    + apply presW_bind; [apply presE_W, IHe|]. intro; apply presE_W, presE_ret.
    + apply presW_catch; [apply IHe|]. intro; apply presW_write.
    + apply presW_bind; [apply presE_W, IHe|]. intro x. destruct (x =? 0); apply presW_exec_list, IHs.
    + apply presW_bind; [apply presW_declare|]. intro; apply IHs.
    + apply presW_bind; [apply presE_W, IHe|]. intro c. destruct (c =? 0); [apply presE_W, presE_ret|].
      apply presW_bind; [apply presW_exec_list, IHs|]. intro.
      apply presW_bind.
      * apply presW_bind; [apply presE_W, presE_read|]. intro.
        apply presW_bind; [apply presE_W, presE_lift|]. intro; apply presW_write.
      * intro; apply IHs.
    + destruct e; [|apply presE_W, presE_lift].
      apply presW_bind; [apply presE_W, IHe|]. intro; apply presE_W, presE_lift.
    + apply presW_bind; [apply presE_W, presE_print_args, IHe|]. intro; apply presE_W, presE_out.
Qed.
End Discipline.

(* ---------- Theorem B: looking statics up under the register = under the activation's function ---------- *)
Definition inv (s : kstate) : Prop := kcur s = top_fn (kframes s).
Lemma W_inv s s' : W s s' -> inv s -> inv s'.
Proof. unfold inv; intros (H1 & H2 & _) H; congruence. Qed.

Definition agree {A} (m1 m2 : KM A) : Prop := forall s, inv s -> m1 s = m2 s.
Lemma agree_refl {A} (m : KM A) : agree m m. Proof. intros s _; reflexivity. Qed.
Lemma agree_bind {A B} (m1 m2 : KM A) (f1 f2 : A -> KM B) :
  agree m1 m2 -> presW m1 -> (forall a, agree (f1 a) (f2 a)) -> agree (kbind m1 f1) (kbind m2 f2).
Proof.
  intros Hm Hp Hf s Hi. unfold kbind. rewrite <- (Hm s Hi). specialize (Hp s).
  destruct (m1 s) as [c s1]; simpl in Hp. destruct c; try reflexivity.
  apply Hf. eapply W_inv; eauto.
Qed.

Lemma key_inv s : inv s -> key true s = key false s.
Proof. intro H; exact H. Qed.
Lemma k_get_inv x s : inv s -> k_get true x s = k_get false x s.
Proof. intro H; unfold k_get; rewrite (key_inv s H); reflexivity. Qed.
Lemma k_put_inv x e s : inv s -> k_put true x e s = k_put false x e s.
Proof. intro H; unfold k_put; rewrite (key_inv s H); reflexivity. Qed.
Lemma agree_read x : agree (k_read true x) (k_read false x).
Proof. intros s H; unfold k_read; rewrite (k_get_inv x s H); reflexivity. Qed.
Lemma agree_write x v : agree (k_write true x v) (k_write false x v).
Proof. intros s H; unfold k_write; rewrite (k_get_inv x s H). destruct (k_get false x s); [|reflexivity].
  destruct (kcoerce (kk k) v); try reflexivity. rewrite (k_put_inv _ _ s H); reflexivity. Qed.
Lemma agree_static_known x : agree (k_static_known true x) (k_static_known false x).
Proof. intros s H; unfold k_static_known; rewrite (key_inv s H); reflexivity. Qed.
Lemma agree_static_declare k x v : agree (k_static_declare true k x v) (k_static_declare false k x v).
Proof. intros s H; unfold k_static_declare; rewrite (key_inv s H); reflexivity. Qed.

Lemma agree_kargs ev1 ev2 : (forall e, agree (ev1 e) (ev2 e)) -> (forall e, presE (ev1 e)) ->
  forall es ps, agree (kargs ev1 ps es) (kargs ev2 ps es).
Proof.
  intros Ha Hp es; induction es as [|e r IH]; intros ps; simpl; [apply agree_refl|].
  apply agree_bind; [apply Ha | apply presE_W, Hp |]. intro v. destruct ps as [|p pr].
  - apply agree_bind; [apply IH | apply presE_W, presE_kargs, Hp |]. intro; apply agree_refl.
  - apply agree_bind; [apply agree_refl | apply presE_W, presE_lift |]. intro.
    apply agree_bind; [apply IH | apply presE_W, presE_kargs, Hp |]. intro; apply agree_refl.
Qed.
Lemma agree_exec_list ex1 ex2 : (forall st, agree (ex1 st) (ex2 st)) -> (forall st, presW (ex1 st)) ->
  forall ss, agree (kexec_list ex1 ss) (kexec_list ex2 ss).
Proof.
  intros Ha Hp ss; induction ss as [|s r IH]; simpl; [apply agree_refl|].
  apply agree_bind; [apply Ha | apply Hp |]. intro; apply IH.
Qed.
Lemma agree_print_args ev1 ev2 : (forall e, agree (ev1 e) (ev2 e)) -> (forall e, presE (ev1 e)) ->
  forall es first, agree (kprint_args ev1 first es) (kprint_args ev2 first es).
Proof.
  intros Ha Hp es; induction es as [|[k e] r IH]; intros first; simpl; [apply agree_refl|].
  apply agree_bind; [apply agree_refl | destruct first; apply presE_W; [apply presE_ret | apply presE_out] |]. intro.
  apply agree_bind; [apply Ha | apply presE_W, Hp |]. intro.
  apply agree_bind; [apply agree_refl | apply presE_W, presE_out |]. intro; apply IH.
Qed.
Lemma agree_catch m1 m2 h1 h2 : agree m1 m2 -> presE m1 -> (forall v, agree (h1 v) (h2 v)) -> agree (k_catch m1 h1) (k_catch m2 h2).
Proof.
  intros Hm Hp Hh s Hi. unfold k_catch. rewrite <- (Hm s Hi). specialize (Hp s).
  destruct (m1 s) as [c s1]; simpl in Hp. assert (inv s1) by (eapply W_inv; [apply E_W; exact Hp | exact Hi]).
  destruct c; try reflexivity; [apply Hh; assumption|]. destruct e; try reflexivity. apply Hh; assumption.
Qed.
Lemma agree_call pol fd in1 in2 : agree in1 in2 -> agree (k_call pol fd in1) (k_call pol fd in2).
Proof.
  intros Hin s Hi. unfold k_call. rewrite (Hin (push_frame (kfname fd) (with_cur (kfname fd) s))); [reflexivity|].
  reflexivity.
Qed.

Section Modes.
Variable pol : policy.
Hypothesis Hok : policy_ok pol = true.
Variable funcs : list kfunc.

Lemma modes_agree : forall n,
  (forall e, agree (keval true pol funcs n e) (keval false pol funcs n e)) /\
  (forall st, agree (kexec true pol funcs n st) (kexec false pol funcs n st)).
Proof.
  induction n as [|k [IHe IHs]].
  { split; intros; apply agree_refl. }
  pose proof (discipline true pol Hok funcs k) as [De Ds].
  split.
  - intros e. destruct e; cbn [keval]; try apply agree_refl; try apply agree_read.
    + apply agree_bind; [apply IHe | apply presE_W, De |]. intro.
      apply agree_bind; [apply IHe | apply presE_W, De |]. intro; apply agree_refl.
    + destruct (kfind f funcs) as [fd|]; [|apply agree_refl].
      destruct (_ || _); [apply agree_refl|].
      apply agree_bind; [apply agree_kargs; [apply IHe | apply De] | apply presE_W, presE_kargs, De |]. intro vs.
      apply agree_call.
      apply agree_bind; [apply agree_refl | apply presW_bind_params |]. intro.
      apply agree_exec_list; [apply IHs | apply Ds].
  - intros st. destruct st; cbn [kexec].
    + destruct sta.
      * apply agree_bind; [apply agree_static_known | apply presE_W, presE_static_known |].
        intros [|]; [apply agree_refl|].
        apply agree_bind; [apply IHe | apply presE_W, De |]. intro; apply agree_static_declare.
      * apply agree_bind; [apply IHe | apply presE_W, De |]. intro; apply agree_refl.
    + apply agree_bind; [apply IHe | apply presE_W, De |]. intro; apply agree_write.
    + apply agree_bind; [apply IHe | apply presE_W, De |]. intro; apply agree_refl.
    + apply agree_catch; [apply IHe | apply De |]. intro; apply agree_write.
    + apply agree_bind; [apply IHe | apply presE_W, De |]. intro x.
      destruct (x =? 0); (apply agree_exec_list; [apply IHs | apply Ds]).
    + apply agree_bind; [apply agree_refl | apply presW_declare |]. intro; apply IHs.
    + apply agree_bind; [apply IHe | apply presE_W, De |]. intro c. destruct (c =? 0); [apply agree_refl|].
      apply agree_bind; [apply agree_exec_list; [apply IHs | apply Ds] | apply presW_exec_list, Ds |]. intro.
      apply agree_bind.
      * apply agree_bind; [apply agree_read | apply presE_W, presE_read |]. intro.
        apply agree_bind; [apply agree_refl | apply presE_W, presE_lift |]. intro; apply agree_write.
      * apply presW_bind; [apply presE_W, presE_read|]. intro.
        apply presW_bind; [apply presE_W, presE_lift|]. intro; apply presW_write.
      * intro; apply IHs.
    + destruct e; [|apply agree_refl].
      apply agree_bind; [apply IHe | apply presE_W, De |]. intro; apply agree_refl.
    + apply agree_bind; [apply agree_print_args; [apply IHe | apply De] | apply presE_W, presE_print_args, De |].
      intro; apply agree_refl.
Qed.

End Modes.

Lemma inv_init p : inv (kinit p). Proof. reflexivity. Qed.

Lemma k_run_modes pol fuel p : policy_ok pol = true -> k_run true pol fuel p = k_run false pol fuel p.
Proof.
  intros Hok. unfold k_run.
  pose proof (modes_agree pol Hok (kpfuncs p) fuel) as [_ Hs].
  pose proof (discipline true pol Hok (kpfuncs p) fuel) as [_ Ds].
  rewrite (agree_exec_list _ _ Hs Ds (kpmain p) (kinit p) (inv_init p)). reflexivity.
Qed.

(* ---------- a generic preservation principle: any preorder kept by the primitives is kept by every
   expression and statement (calls of every kind included) ---------- *)
Section Generic.
Variable mech : bool.
Variable pol : policy.
Variable funcs : list kfunc.
Variable R : kstate -> kstate -> Prop.
Hypothesis R_refl : forall s, R s s.
Hypothesis R_trans : forall a b c, R a b -> R b c -> R a c.
Hypothesis R_frames : forall s fs, R s (with_frames fs s).
Hypothesis R_cur : forall s c, R s (with_cur c s).
Hypothesis R_out : forall s o, R s (with_out o s).
Hypothesis R_put : forall x e s, R s (k_put mech x e s).
Hypothesis R_sdecl : forall k x v s, R s (snd (k_static_declare mech k x v s)).

Definition presR {A} (m : KM A) : Prop := forall s, R s (snd (m s)).
Lemma presR_ret {A} (a : A) : presR (kret a). Proof. intro; apply R_refl. Qed.
Lemma presR_fail {A} e : presR (@kfail A e). Proof. intro; apply R_refl. Qed.
Lemma presR_lift {A} (c : ctl A) : presR (klift c). Proof. intro; apply R_refl. Qed.
Lemma presR_bind {A B} (m : KM A) (f : A -> KM B) : presR m -> (forall a, presR (f a)) -> presR (kbind m f).
Proof.
  intros Hm Hf s. unfold kbind. specialize (Hm s). destruct (m s) as [c s1]; simpl in Hm.
  destruct c; simpl; auto. eapply R_trans; [exact Hm | apply Hf].
Qed.
Lemma presR_read x : presR (k_read mech x).
Proof. intro s; unfold k_read; destruct (k_get mech x s); apply R_refl. Qed.
Lemma presR_write x v : presR (k_write mech x v).
Proof.
  intro s; unfold k_write. destruct (k_get mech x s); [|apply R_refl].
  destruct (kcoerce (kk k) v); simpl; try apply R_refl. apply R_put.
Qed.
Lemma presR_declare k x v : presR (k_declare k x v).
Proof.
  intro s; unfold k_declare. destruct (kframes s); [apply R_refl|].
  destruct (kcoerce k v); simpl; try apply R_refl. apply R_frames.
Qed.
Lemma presR_out o : presR (k_out o). Proof. intro s; apply R_out. Qed.
Lemma presR_kargs ev : (forall e, presR (ev e)) -> forall es ps, presR (kargs ev ps es).
Proof.
  intros Hev es; induction es as [|e r IH]; intros ps; simpl; [apply presR_ret|].
  apply presR_bind; [apply Hev|]. intro v. destruct ps as [|p pr].
  - apply presR_bind; [apply IH|]. intro; apply presR_ret.
  - apply presR_bind; [apply presR_lift|]. intro. apply presR_bind; [apply IH|]. intro; apply presR_ret.
Qed.
Lemma presR_bind_params ps : forall vs, presR (kbind_params ps vs).
Proof.
  induction ps as [|p pr IH]; intros vs; simpl; [apply presR_ret|].
  destruct vs as [|v vr].
  - destruct (kpd p); [|apply presR_fail]. apply presR_bind; [apply presR_declare|]. intro; apply IH.
  - apply presR_bind; [apply presR_declare|]. intro; apply IH.
Qed.
Lemma presR_exec_list ex : (forall st, presR (ex st)) -> forall ss, presR (kexec_list ex ss).
Proof.
  intros Hex ss; induction ss as [|s r IH]; simpl; [apply presR_ret|].
  apply presR_bind; [apply Hex|]. intro; apply IH.
Qed.
Lemma presR_print_args ev : (forall e, presR (ev e)) -> forall es first, presR (kprint_args ev first es).
Proof.
  intros Hev es; induction es as [|[k e] r IH]; intros first; simpl; [apply presR_ret|].
  apply presR_bind; [destruct first; [apply presR_ret | apply presR_out]|]. intro.
  apply presR_bind; [apply Hev|]. intro. apply presR_bind; [apply presR_out|]. intro; apply IH.
Qed.
Lemma presR_catch m h : presR m -> (forall v, presR (h v)) -> presR (k_catch m h).
Proof.
  intros Hm Hh s. unfold k_catch. specialize (Hm s). destruct (m s) as [c s1]; simpl in Hm.
  destruct c; try exact Hm.
  - eapply R_trans; [exact Hm | apply Hh].
  - destruct e; try exact Hm. eapply R_trans; [exact Hm | apply Hh].
Qed.
Lemma R_restore b prev s : R s (restore b prev s).
Proof. destruct b; [apply R_cur | apply R_refl]. Qed.
Lemma presR_call fd inner : presR inner -> presR (k_call pol fd inner).
Proof.
  intros Hin s. unfold k_call.
  specialize (Hin (push_frame (kfname fd) (with_cur (kfname fd) s))).
  destruct (inner (push_frame (kfname fd) (with_cur (kfname fd) s))) as [c s2]; simpl in Hin.
  assert (H0 : R s s2).
  { eapply R_trans; [|exact Hin]. eapply R_trans; [apply R_cur | apply R_frames]. }
  assert (H1 : forall b p, R s (restore b p (pop_frame s2))).
  { intros. eapply R_trans; [exact H0|]. eapply R_trans; [apply R_frames | apply R_restore]. }
  destruct c; simpl; try apply H1.
  destruct (rethrown (kfret fd)); simpl; (eapply R_trans; [apply H1 | apply R_restore]).
Qed.

Lemma generic_preservation : forall n,
  (forall e, presR (keval mech pol funcs n e)) /\ (forall st, presR (kexec mech pol funcs n st)).
Proof.
  induction n as [|k [IHe IHs]].
  { split; intros; simpl; apply presR_fail. }
  split.
  - intros e. destruct e; cbn [keval]; try apply presR_ret; try apply presR_read.
    + apply presR_bind; [apply IHe|]. intro. apply presR_bind; [apply IHe|]. intro; apply presR_lift.
    + destruct (kfind f funcs) as [fd|]; [|apply presR_fail].
      destruct (_ || _); [apply presR_fail|].
      apply presR_bind; [apply presR_kargs, IHe|]. intro vs.
      apply presR_call. apply presR_bind; [apply presR_bind_params|]. intro; apply presR_exec_list, IHs.
  - intros st. destruct st; cbn [kexec].
    + destruct sta.
      * apply presR_bind; [intro s; apply R_refl|]. intros [|]; [apply presR_ret|].
        apply presR_bind; [apply IHe|]. intros v s; apply R_sdecl.
      * apply presR_bind; [apply IHe|]. intro; apply presR_declare.
    + apply presR_bind; [apply IHe|]. intro; apply presR_write.
    + apply presR_bind; [apply IHe|]. intro; apply presR_ret.
    + apply presR_catch; [apply IHe|]. intro; apply presR_write.
    + apply presR_bind; [apply IHe|]. intro x. destruct (x =? 0); apply presR_exec_list, IHs.
    + apply presR_bind; [apply presR_declare|]. intro; apply IHs.
    + apply presR_bind; [apply IHe|]. intro c. destruct (c =? 0); [apply presR_ret|].
      apply presR_bind; [apply presR_exec_list, IHs|]. intro.
      apply presR_bind.
      * apply presR_bind; [apply presR_read|]. intro.
        apply presR_bind; [apply presR_lift|]. intro; apply presR_write.
      * intro; apply IHs.
    + destruct e; [|apply presR_lift]. apply presR_bind; [apply IHe|]. intro; apply presR_lift.
    + apply presR_bind; [apply presR_print_args, IHe|]. intro; apply presR_out.
Qed.
End Generic.

(* ---------- statics: per function, persistent, initialised once ---------- *)
Lemma assoc_set_same {A} x (a : A) l : assoc x l <> None -> assoc x (assoc_set x a l) = Some a.
Proof.
  induction l as [|[y b] r IH]; simpl; [congruence|].
  destruct (Nat.eqb x y) eqn:E; simpl; rewrite E; [reflexivity | exact IH].
Qed.
Lemma assoc_set_other {A} x y (a : A) l : x <> y -> assoc y (assoc_set x a l) = assoc y l.
Proof.
  intro Hne. induction l as [|[z b] r IH]; simpl; [reflexivity|].
  destruct (Nat.eqb x z) eqn:E; simpl.
  - apply Nat.eqb_eq in E; subst z. destruct (Nat.eqb y x) eqn:E2; [apply Nat.eqb_eq in E2; congruence | reflexivity].
  - destruct (Nat.eqb y z); [reflexivity | exact IH].
Qed.
Lemma assoc_set_dom {A} x y (a : A) l : assoc y l <> None -> assoc y (assoc_set x a l) <> None.
Proof.
  intro H. destruct (Nat.eq_dec x y) as [->|Hne].
  - rewrite assoc_set_same by exact H. congruence.
  - rewrite assoc_set_other by exact Hne. exact H.
Qed.
Lemma kset_stat_same f sc l : assoc f (kset_stat f sc l) = Some sc.
Proof.
  unfold kset_stat. destruct (assoc f l) eqn:E.
  - apply assoc_set_same. congruence.
  - simpl. rewrite Nat.eqb_refl. reflexivity.
Qed.
Lemma kset_stat_other f g sc l : f <> g -> assoc g (kset_stat f sc l) = assoc g l.
Proof.
  intro Hne. unfold kset_stat. destruct (assoc f l) eqn:E.
  - apply assoc_set_other; exact Hne.
  - simpl. destruct (Nat.eqb g f) eqn:E2; [apply Nat.eqb_eq in E2; congruence | reflexivity].
Qed.

(* a store / a static declaration changes the statics of the function [key] names, and of no other *)
Lemma k_put_statics_private mech x e s g : g <> key mech s -> kstatics g (k_put mech x e s) = kstatics g s.
Proof.
  intro Hne. unfold k_put. destruct (assoc x (top_vars (kframes s))); [reflexivity|].
  destruct (assoc x (kstatics (key mech s) s)); [|reflexivity].
  unfold kstatics at 1. simpl. rewrite kset_stat_other by congruence. reflexivity.
Qed.
Lemma k_write_statics_private mech x v s g :
  g <> key mech s -> kstatics g (snd (k_write mech x v s)) = kstatics g s.
Proof.
  intro Hne. unfold k_write. destruct (k_get mech x s); [|reflexivity].
  destruct (kcoerce (kk k) v); try reflexivity. simpl. apply k_put_statics_private; exact Hne.
Qed.
Lemma k_static_declare_private mech k x v s g :
  g <> key mech s -> kstatics g (snd (k_static_declare mech k x v s)) = kstatics g s.
Proof.
  intro Hne. unfold k_static_declare. destruct (kcoerce k v); try reflexivity. simpl.
  unfold kstatics at 1. simpl. rewrite kset_stat_other by congruence. reflexivity.
Qed.

(* once known, known for ever: over every expression and statement, calls of every kind included *)
Definition SK (s s' : kstate) : Prop :=
  forall f x, assoc x (kstatics f s) <> None -> assoc x (kstatics f s') <> None.

Lemma statics_persist mech pol funcs n :
  (forall e, forall s, SK s (snd (keval mech pol funcs n e s))) /\
  (forall st, forall s, SK s (snd (kexec mech pol funcs n st s))).
Proof.
  apply (generic_preservation mech pol funcs SK); unfold SK.
  - auto.
  - intros a b c H1 H2 f x H; auto.
  - intros; assumption.
  - intros; assumption.
  - intros; assumption.
  - intros x e s f y H. unfold k_put. destruct (assoc x (top_vars (kframes s))); [exact H|].
    destruct (assoc x (kstatics (key mech s) s)) eqn:E; [|exact H].
    unfold kstatics at 1. simpl. destruct (Nat.eq_dec (key mech s) f) as [<-|Hne].
    + rewrite kset_stat_same. apply assoc_set_dom. exact H.
    + rewrite kset_stat_other by exact Hne. exact H.
  - intros k x v s f y H. unfold k_static_declare. destruct (kcoerce k v); try exact H. simpl.
    unfold kstatics at 1. simpl. destruct (Nat.eq_dec (key mech s) f) as [<-|Hne].
    + rewrite kset_stat_same. simpl. destruct (Nat.eqb y x); [congruence | exact H].
    + rewrite kset_stat_other by exact Hne. exact H.
Qed.

(* a `static` declaration of a known static does nothing (its initialiser is not evaluated);
   the first execution stores the converted initial value under the running function *)
Lemma kstatic_decl_once mech pol funcs n kd x e s :
  assoc x (kstatics (key mech s) s) <> None ->
  kexec mech pol funcs (S n) (KDecl true kd x e) s = (Val tt, s).
Proof.
  intro H. cbn [kexec]. unfold kbind, k_static_known.
  destruct (assoc x (kstatics (key mech s) s)); [reflexivity | congruence].
Qed.
Lemma kstatic_decl_first mech pol funcs n kd x e s v s1 :
  assoc x (kstatics (key mech s) s) = None ->
  keval mech pol funcs n e s = (Val v, s1) -> key mech s1 = key mech s -> kcoerce kd v = Val v ->
  let s2 := snd (kexec mech pol funcs (S n) (KDecl true kd x e) s) in
  assoc x (kstatics (key mech s) s2) = Some {| kk := kd; kv := v |}.
Proof.
  intros H He Hk Hc.
  change (kexec mech pol funcs (S n) (KDecl true kd x e))
    with (known <~ k_static_known mech x ;;
          if known then kret tt else v <~ keval mech pol funcs n e ;; k_static_declare mech kd x v).
  unfold kbind, k_static_known. rewrite H, He.
  unfold k_static_declare. rewrite Hc. simpl. rewrite Hk.
  unfold kstatics at 1. simpl. rewrite kset_stat_same. simpl. rewrite Nat.eqb_refl. reflexivity.
Qed.

(* ---------- the returned value reaches the caller unchanged, whatever its kind and exit ---------- *)
Lemma kcoerce_not_int k v : k <> KInt -> kcoerce k v = Val v.
Proof. destruct k; simpl; congruence. Qed.
Lemma call_value pol fd inner s v s2 :
  inner (push_frame (kfname fd) (with_cur (kfname fd) s)) = (Ret (Some v), s2) ->
  kcoerce (kfret fd) v = Val v ->
  fst (k_call pol fd inner s) = Val v.
Proof.
  intros H Hc. unfold k_call. rewrite H. destruct (rethrown (kfret fd)); simpl; exact Hc.
Qed.

(* ---------- Ref never looks at the register: its runs do not depend on the restore policy ---------- *)
Definition eqc (s t : kstate) : Prop :=
  kglob s = kglob t /\ kframes s = kframes t /\ kstat s = kstat t /\ kout s = kout t.
Definition simc {A} (m1 m2 : KM A) : Prop :=
  forall s t, eqc s t -> fst (m1 s) = fst (m2 t) /\ eqc (snd (m1 s)) (snd (m2 t)).
Lemma eqc_forget s : eqc s (with_cur 0%nat s). Proof. repeat split. Qed.
Lemma simc_same_pure {A} (c : ctl A) : simc (klift c) (klift c).
Proof. intros s t H; split; [reflexivity | exact H]. Qed.
Lemma simc_bind {A B} (m1 m2 : KM A) (f1 f2 : A -> KM B) :
  simc m1 m2 -> (forall a, simc (f1 a) (f2 a)) -> simc (kbind m1 f1) (kbind m2 f2).
Proof.
  intros Hm Hf s t Hst. unfold kbind. destruct (Hm s t Hst) as [H1 H2].
  destruct (m1 s) as [c1 s1], (m2 t) as [c2 t1]; simpl in *. subst c2.
  destruct c1; simpl; try (split; [reflexivity | exact H2]). apply Hf; exact H2.
Qed.
Lemma eqc_key s t : eqc s t -> key false s = key false t.
Proof. intros (_ & H & _); unfold key; rewrite H; reflexivity. Qed.
Lemma eqc_get x s t : eqc s t -> k_get false x s = k_get false x t.
Proof.
  intros H. pose proof (eqc_key s t H) as Hk. destruct H as (H1 & H2 & H3 & H4).
  unfold k_get, kstatics. rewrite Hk, H1, H2, H3. reflexivity.
Qed.
Lemma eqc_put x e s t : eqc s t -> eqc (k_put false x e s) (k_put false x e t).
Proof.
  intros H. pose proof (eqc_key s t H) as Hk. destruct H as (H1 & H2 & H3 & H4).
  unfold k_put, kstatics. rewrite Hk, H1, H2, H3.
  destruct (assoc x (top_vars (kframes t))); [repeat split; simpl; congruence|].
  set (A := match assoc (key false t) (kstat t) with Some sc => sc | None => [] end).
  destruct (assoc x A); repeat split; simpl; congruence.
Qed.
Lemma simc_read x : simc (k_read false x) (k_read false x).
Proof. intros s t H; unfold k_read; rewrite (eqc_get x s t H). destruct (k_get false x t); split; auto. Qed.
Lemma simc_write x v : simc (k_write false x v) (k_write false x v).
Proof.
  intros s t H; unfold k_write; rewrite (eqc_get x s t H). destruct (k_get false x t); [|split; auto].
  destruct (kcoerce (kk k) v); simpl; try (split; auto; fail). split; [reflexivity | apply eqc_put; exact H].
Qed.
Lemma simc_declare k x v : simc (k_declare k x v) (k_declare k x v).
Proof.
  intros s t H. destruct H as (H1 & H2 & H3 & H4). unfold k_declare. rewrite H2.
  destruct (kframes t) eqn:Ef; [split; [reflexivity | repeat split; simpl; congruence]|].
  destruct (kcoerce k v); simpl; (split; [reflexivity | repeat split; simpl; congruence]).
Qed.
Lemma simc_static_known x : simc (k_static_known false x) (k_static_known false x).
Proof.
  intros s t H. pose proof (eqc_key s t H) as Hk. destruct H as (H1 & H2 & H3 & H4).
  unfold k_static_known, kstatics. rewrite Hk, H3. split; [reflexivity | repeat split; assumption].
Qed.
Lemma simc_static_declare k x v : simc (k_static_declare false k x v) (k_static_declare false k x v).
Proof.
  intros s t H. pose proof (eqc_key s t H) as Hk. destruct H as (H1 & H2 & H3 & H4).
  unfold k_static_declare, kstatics. rewrite Hk, H3.
  destruct (kcoerce k v); simpl; split; try reflexivity; repeat split; simpl; congruence.
Qed.
Lemma simc_out o : simc (k_out o) (k_out o).
Proof. intros s t (H1 & H2 & H3 & H4). split; [reflexivity|]. repeat split; simpl; congruence. Qed.
Lemma simc_kargs ev1 ev2 : (forall e, simc (ev1 e) (ev2 e)) -> forall es ps, simc (kargs ev1 ps es) (kargs ev2 ps es).
Proof.
  intros Hev es; induction es as [|e r IH]; intros ps; simpl; [apply simc_same_pure|].
  apply simc_bind; [apply Hev|]. intro v. destruct ps as [|p pr].
  - apply simc_bind; [apply IH|]. intro; apply simc_same_pure.
  - apply simc_bind; [apply simc_same_pure|]. intro. apply simc_bind; [apply IH|]. intro; apply simc_same_pure.
Qed.
Lemma simc_bind_params ps : forall vs, simc (kbind_params ps vs) (kbind_params ps vs).
Proof.
  induction ps as [|p pr IH]; intros vs; simpl; [apply simc_same_pure|].
  destruct vs as [|v vr].
  - destruct (kpd p); [|apply simc_same_pure]. apply simc_bind; [apply simc_declare|]. intro; apply IH.
  - apply simc_bind; [apply simc_declare|]. intro; apply IH.
Qed.
Lemma simc_exec_list ex1 ex2 : (forall st, simc (ex1 st) (ex2 st)) -> forall ss, simc (kexec_list ex1 ss) (kexec_list ex2 ss).
Proof.
  intros Hex ss; induction ss as [|s r IH]; simpl; [apply simc_same_pure|].
  apply simc_bind; [apply Hex|]. intro; apply IH.
Qed.
Lemma simc_print_args ev1 ev2 : (forall e, simc (ev1 e) (ev2 e)) ->
  forall es first, simc (kprint_args ev1 first es) (kprint_args ev2 first es).
Proof.
  intros Hev es; induction es as [|[k e] r IH]; intros first; simpl; [apply simc_same_pure|].
  apply simc_bind; [destruct first; [apply simc_same_pure | apply simc_out]|]. intro.
  apply simc_bind; [apply Hev|]. intro. apply simc_bind; [apply simc_out|]. intro; apply IH.
Qed.
Lemma simc_catch m1 m2 h1 h2 : simc m1 m2 -> (forall v, simc (h1 v) (h2 v)) -> simc (k_catch m1 h1) (k_catch m2 h2).
Proof.
  intros Hm Hh s t Hst. unfold k_catch. destruct (Hm s t Hst) as [H1 H2].
  destruct (m1 s) as [c1 s1], (m2 t) as [c2 t1]; simpl in *. subst c2.
  destruct c1; simpl; try (split; [reflexivity | exact H2]); [apply Hh; exact H2|].
  destruct e; simpl; try (split; [reflexivity | exact H2]). apply Hh; exact H2.
Qed.
Lemma eqc_restore b1 b2 p1 p2 s t : eqc s t -> eqc (restore b1 p1 s) (restore b2 p2 t).
Proof. intros (H1 & H2 & H3 & H4). destruct b1, b2; repeat split; simpl; assumption. Qed.
Lemma simc_call pol1 pol2 fd in1 in2 : simc in1 in2 -> simc (k_call pol1 fd in1) (k_call pol2 fd in2).
Proof.
  intros Hin s t Hst. unfold k_call.
  assert (H0 : eqc (push_frame (kfname fd) (with_cur (kfname fd) s)) (push_frame (kfname fd) (with_cur (kfname fd) t))).
  { destruct Hst as (H1 & H2 & H3 & H4). repeat split; simpl; congruence. }
  destruct (Hin _ _ H0) as [Hc Hs].
  destruct (in1 _) as [c1 s2], (in2 _) as [c2 t2]; simpl in *. subst c2.
  assert (Hp : eqc (pop_frame s2) (pop_frame t2)).
  { destruct Hs as (H1 & H2 & H3 & H4). repeat split; simpl; congruence. }
  destruct c1; simpl; try (split; [reflexivity | apply eqc_restore; exact Hp]).
  destruct (rethrown (kfret fd)); simpl; (split; [reflexivity | repeat apply eqc_restore; exact Hp]).
Qed.

Lemma ref_policy_free pol1 pol2 funcs : forall n,
  (forall e, simc (keval false pol1 funcs n e) (keval false pol2 funcs n e)) /\
  (forall st, simc (kexec false pol1 funcs n st) (kexec false pol2 funcs n st)).
Proof.
  induction n as [|k [IHe IHs]].
  { split; intros; simpl; apply simc_same_pure. }
  split.
  - intros e. destruct e; cbn [keval]; try apply simc_same_pure; try apply simc_read.
    + apply simc_bind; [apply IHe|]. intro. apply simc_bind; [apply IHe|]. intro; apply simc_same_pure.
    + destruct (kfind f funcs) as [fd|]; [|apply simc_same_pure].
      destruct (_ || _); [apply simc_same_pure|].
      apply simc_bind; [apply simc_kargs, IHe|]. intro vs.
      apply simc_call. apply simc_bind; [apply simc_bind_params|]. intro; apply simc_exec_list, IHs.
  - intros st. destruct st; cbn [kexec].
    + destruct sta.
      * apply simc_bind; [apply simc_static_known|]. intros [|]; [apply simc_same_pure|].
        apply simc_bind; [apply IHe|]. intro; apply simc_static_declare.
      * apply simc_bind; [apply IHe|]. intro; apply simc_declare.
    + apply simc_bind; [apply IHe|]. intro; apply simc_write.
    + apply simc_bind; [apply IHe|]. intro; apply simc_same_pure.
    + apply simc_catch; [apply IHe|]. intro; apply simc_write.
    + apply simc_bind; [apply IHe|]. intro x. destruct (x =? 0); apply simc_exec_list, IHs.
    + apply simc_bind; [apply simc_declare|]. intro; apply IHs.
    + apply simc_bind; [apply IHe|]. intro c. destruct (c =? 0); [apply simc_same_pure|].
      apply simc_bind; [apply simc_exec_list, IHs|]. intro.
      apply simc_bind.
      * apply simc_bind; [apply simc_read|]. intro.
        apply simc_bind; [apply simc_same_pure|]. intro; apply simc_write.
      * intro; apply IHs.
    + destruct e; [|apply simc_same_pure]. apply simc_bind; [apply IHe|]. intro; apply simc_same_pure.
    + apply simc_bind; [apply simc_print_args, IHe|]. intro; apply simc_out.
Qed.

Lemma eqc_refl s : eqc s s. Proof. repeat split. Qed.
Lemma k_run_ref_policy_free pol1 pol2 fuel p : k_run false pol1 fuel p = k_run false pol2 fuel p.
Proof.
  unfold k_run. pose proof (ref_policy_free pol1 pol2 (kpfuncs p) fuel) as [_ Hs].
  destruct (simc_exec_list _ _ Hs (kpmain p) (kinit p) (kinit p) (eqc_refl _)) as [H1 H2].
  destruct (kexec_list _ _ _) as [c1 s1]. destruct (kexec_list (kexec false pol2 _ _) _ _) as [c2 s2].
  simpl in *. subst c2. destruct H2 as (_ & _ & _ & Ho). rewrite Ho. reflexivity.
Qed.

(* Mech under any sound policy = Ref *)
Lemma mech_refines_ref pol fuel p : policy_ok pol = true -> k_run true pol fuel p = kref_run fuel p.
Proof.
  intro H. rewrite (k_run_modes pol fuel p H). apply k_run_ref_policy_free.
Qed.

(* ---------- positional binding: parameter i := value i, for parameters of every kind ---------- *)
Fixpoint bound_vars (ps : list kparam) (vs : list Z) : kscope :=
  match ps, vs with
  | p :: pr, v :: vr => (kpn p, {| kk := kpk p; kv := v |}) :: bound_vars pr vr
  | _, _ => []
  end.
Lemma bind_params_positional : forall ps vs s f r,
  kframes s = f :: r -> List.length vs = List.length ps ->
  (forall p v, In (p, v) (combine ps vs) -> kcoerce (kpk p) v = Val v) ->
  kbind_params ps vs s =
  (Val tt, with_frames ({| kfn := kfn f; kvars := rev (bound_vars ps vs) ++ kvars f |} :: r) s).
Proof.
  induction ps as [|p pr IH]; intros vs s f r Hf Hl Hc.
  - destruct vs; [|discriminate]. simpl. unfold kret. f_equal.
    destruct s; simpl in *; subst; destruct f; reflexivity.
  - destruct vs as [|v vr]; [discriminate|]. simpl in Hl. injection Hl as Hl.
    cbn [kbind_params]. unfold kbind at 1. unfold k_declare. cbv beta. rewrite Hf.
    rewrite (Hc p v (or_introl eq_refl)). simpl.
    rewrite (IH vr _ {| kfn := kfn f; kvars := (kpn p, {| kk := kpk p; kv := v |}) :: kvars f |} r).
    + simpl. f_equal. unfold with_frames; simpl. f_equal. f_equal. f_equal.
      rewrite <- app_assoc. reflexivity.
    + simpl. try rewrite Hf. reflexivity.
    + exact Hl.
    + intros p0 v0 Hin. apply Hc. right. exact Hin.
Qed.
