(* Extraction of the C08 Mech (implementation lookup / call protocol) next to Ref and the printer. *)
From Coq Require Import Extraction ExtrOcamlBasic ExtrOcamlString ZArith.
From Cb Require Import Lang.Syntax Lang.Sem Lang.Print C08.Frames C08.Kinds.
Extraction Language OCaml.
Extraction "C08/c08_model.ml" print_program run mech_run render kref_run kmech_run Z.add Z.mul Z.opp Z.of_nat Z.of_N N.of_nat.
