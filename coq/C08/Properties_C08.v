(* C08 - property theorems only (proofs in C08/CallLemmas.v, C08/Refine.v, C08/Witness.v; for the
   calls of every kind - CbCall, C08/Kinds.v - in C08/KindsLemmas.v, C08/KindsWitness.v).
   Ref  = the shared reference interpreter [Lang.Sem.eval/exec] (lexical lookup, private frames).
   Mech = the implementation's lookup and call protocol [C08.Frames.meval/mexec] (find_variable walks
          every activation's scope, arguments are evaluated inside the callee's scope, statics last). *)
From Coq Require Import List ZArith Bool Arith.
From Cb Require Import Lang.Syntax Lang.Sem Lang.Respect Lang.Theorems Lang.Print
                       C08.CallLemmas C08.Frames C08.Model C08.Refine C08.Witness
                       C08.Kinds C08.KindsLemmas C08.KindsWitness.
Import ListNotations.
Local Open Scope Z_scope.

(* ================================================================== Ref: frames *)

(* Whatever expression is evaluated - in particular any call, to any depth of self or mutual
   recursion, whether it returns, fails or runs out of fuel - the frame stack afterwards is exactly
   the frame stack before: same activations, same variables, same values. A callee cannot touch its
   callers' locals. *)
Theorem callee_cannot_touch_caller_frame : forall funcs n e s,
  sframes (snd (eval funcs n e s)) = sframes s.
Proof. exact (fun funcs n e s => eval_frames_exact funcs n e s). Qed.
Print Assumptions callee_cannot_touch_caller_frame.

(* Every step of every activation (each recursion level included) leaves all frames below its own
   untouched and keeps the identity and block depth of its own frame: level k never clobbers level
   k-1. *)
Theorem recursion_levels_independent : forall funcs n,
  (forall e, respects below_kept (eval funcs n e)) /\ (forall st, respects below_kept (exec funcs n st)).
Proof. exact below_kept_all. Qed.
Print Assumptions recursion_levels_independent.

(* What a body reads is decided by its own frame, its own statics and the globals alone. *)
Theorem body_reads_only_own_frame_statics_globals : forall x s1 s2,
  hd_error (sframes s1) = hd_error (sframes s2) -> sglob s1 = sglob s2 ->
  statics_of (cur_fn s1) s1 = statics_of (cur_fn s2) s2 ->
  get_entry x s1 = get_entry x s2.
Proof. exact get_entry_local. Qed.
Print Assumptions body_reads_only_own_frame_statics_globals.

(* What a store or a declaration changes: never a frame below the running one, never the statics of
   another function. *)
Theorem body_writes_only_own_frame_statics_globals : forall x i v sta cst t d vs s,
  below_kept s (snd (m_write x i v s)) /\ below_kept s (snd (m_declare sta cst t x d vs s)) /\
  (forall g, g <> cur_fn s ->
     statics_of g (snd (m_write x i v s)) = statics_of g s /\
     statics_of g (snd (m_declare sta cst t x d vs s)) = statics_of g s).
Proof.
  intros. split; [apply write_below|]. split; [apply declare_below|].
  intros g Hg. split; [apply write_other_statics|apply declare_other_statics]; exact Hg.
Qed.
Print Assumptions body_writes_only_own_frame_statics_globals.

(* ================================================================== Ref: arguments *)

(* The values handed over are the arguments evaluated left to right in the caller, argument i
   converted to the type of parameter i. *)
Theorem args_evaluated_in_order : forall ev ps es s vs s',
  (List.length es <= List.length ps)%nat ->
  (eval_args ev ps es s = (Val vs, s') <-> args_eval ev ps es s vs s').
Proof. exact eval_args_spec. Qed.
Print Assumptions args_evaluated_in_order.

(* With as many arguments as (distinctly named) parameters, the body starts in a fresh frame that
   holds the parameters and nothing else, parameter i bound to the value of argument i. *)
Theorem args_positional : forall ev ps es s vs s1 f,
  List.length es = List.length ps -> NoDup (map pname ps) ->
  eval_args ev ps es s = (Val vs, s1) ->
  exists s2, bind_params ev ps vs (fresh_frame f s1) = (Val tt, s2) /\
    sframes s2 = {| ffn := f; fscopes := [bound_scope ps vs []] |} :: sframes s1 /\
    sglob s2 = sglob s1 /\ sstat s2 = sstat s1 /\ sout s2 = sout s1 /\
    args_eval ev ps es s vs s1 /\
    (forall x, scopes_get x [bound_scope ps vs []] =
               match assoc x (combine (map pname ps) (combine (map pty ps) vs)) with
               | Some (t, v) => Some (scalar_entry t v)
               | None => None
               end).
Proof. exact call_binds_positionally. Qed.
Print Assumptions args_positional.

(* Leaving out trailing arguments is the same as writing the declared defaults (literal defaults
   that fit their type): same value, same state, same output. *)
Theorem defaults_fill_trailing : forall funcs k f fd ps1 ps2 args zs s,
  find_func f funcs = Some fd -> fparams fd = ps1 ++ ps2 ->
  List.length args = List.length ps1 -> (required (fparams fd) <= List.length args)%nat ->
  Forall2 (fun p z => pdef p = Some (ENum z) /\ coerce (pty p) z = Val z) ps2 zs ->
  eval funcs (S (S k)) (ECall f args) s = eval funcs (S (S k)) (ECall f (args ++ map ENum zs)) s.
Proof. exact defaults_fill_trailing_l. Qed.
Print Assumptions defaults_fill_trailing.

(* Under the declaration rule (defaults are trailing) every parameter beyond the supplied ones has a
   default whenever the count passed the arity test, and binding them never reports a missing
   argument. *)
Theorem defaults_never_missing : forall ev ps n s c s',
  defaults_trailing ps = true -> (required ps <= n)%nat ->
  (forall d s0, fst (ev d s0) <> Fail EArity) ->
  bind_params ev (skipn n ps) [] s = (c, s') -> c <> Fail EArity.
Proof. intros ev ps n s c s' Ht Hr Hev. apply bind_params_no_missing; [apply defaults_present; assumption|exact Hev]. Qed.
Print Assumptions defaults_never_missing.

(* Too few or too many arguments: the call is rejected, nothing is evaluated, nothing changes. *)
Theorem arity_rejected : forall funcs k f fd args s,
  find_func f funcs = Some fd ->
  (List.length args < required (fparams fd) \/ List.length (fparams fd) < List.length args)%nat ->
  eval funcs (S k) (ECall f args) s = (Fail EArity, s).
Proof. exact arity_rejected_l. Qed.
Print Assumptions arity_rejected.

(* The value given to `return` is the value of the call whenever it fits the declared result type -
   always for `long`. *)
Theorem return_value_unchanged : forall funcs k f fd args s vs s1 s2 v,
  find_func f funcs = Some fd ->
  (required (fparams fd) <= List.length args <= List.length (fparams fd))%nat ->
  eval_args (eval funcs k) (fparams fd) args s = (Val vs, s1) ->
  (bind_params (eval funcs k) (fparams fd) vs ;;; exec_list (exec funcs k) (fbody fd)) (fresh_frame f s1) = (Ret (Some v), s2) ->
  (match fret fd with Some t => coerce t v = Val v | None => True end) ->
  eval funcs (S k) (ECall f args) s = (Val v, pop_frame_st s2).
Proof. exact return_value_unchanged_l. Qed.
Print Assumptions return_value_unchanged.

Theorem return_value_unchanged_long : forall v, in64 v = true -> coerce {| base := TLong; uns := false |} v = Val v.
Proof. exact coerce_long. Qed.
Print Assumptions return_value_unchanged_long.

(* ================================================================== Ref: statics *)

(* A `static` declaration whose variable exists does nothing at all (the initialiser is not
   evaluated); the first execution stores the initial value under the running function's name. *)
Theorem static_init_once : forall funcs k cst t x,
  (forall init s, static_known (cur_fn s) x s -> exec funcs (S k) (SDecl cst true t x init) s = (Val tt, s)) /\
  (forall e s v s1 v', ~ static_known (cur_fn s) x s -> sframes s <> [] ->
     eval funcs k e s = (Val v, s1) -> sframes s1 = sframes s -> coerce t v = Val v' ->
     exists s2, exec funcs (S k) (SDecl cst true t x (Some e)) s = (Val tt, s2) /\
                assoc x (statics_of (cur_fn s) s2) = Some {| ety := t; econst := cst; edims := []; evals := [v'] |} /\
                sframes s2 = sframes s /\ sglob s2 = sglob s1 /\ sout s2 = sout s1).
Proof. intros. split; [intros; apply static_decl_known; assumption|intros; eapply static_decl_first; eassumption]. Qed.
Print Assumptions static_init_once.

(* Once a function's static exists it exists for the rest of the run, whatever is evaluated; frames
   coming and going never touch the statics table. *)
Theorem static_persists : forall funcs n,
  ((forall e, respects statics_grow (eval funcs n e)) /\ (forall st, respects statics_grow (exec funcs n st))) /\
  (forall f s, sstat (snd (m_push_frame f s)) = sstat s /\ sstat (pop_frame_st s) = sstat s /\
               sstat (pop_scope_st s) = sstat s /\ sstat (snd (m_push_scope s)) = sstat s).
Proof. intros. split; [apply statics_grow_all|intros; apply frame_ops_keep_statics]. Qed.
Print Assumptions static_persists.

(* Statics are per function: only code running as g can change g's statics. *)
Theorem static_per_function : forall x i v sta cst t d vs s g, g <> cur_fn s ->
  statics_of g (snd (m_write x i v s)) = statics_of g s /\
  statics_of g (snd (m_declare sta cst t x d vs s)) = statics_of g s.
Proof. intros. split; [apply write_other_statics|apply declare_other_statics]; assumption. Qed.
Print Assumptions static_per_function.

(* ================================================================== Mech against Ref *)

(* find_variable agrees with the lexical lookup at every single lookup, under the side condition:
   [lm] = any stack below the running activation and [Gf] = any half-built callee frames on top, all
   of whose names are locals; the name looked up is not bound in the half-built frames and - while
   such frames exist - is not a static. *)
Theorem find_variable_agrees : forall funcs L Gn S, side_condition funcs L Gn S ->
  forall Gf lm rs x e, Inv L Gn S rs -> frames_in_L L lm -> ghosts_ok S Gf x ->
  get_entry x rs = Some e -> dget x (emb Gf lm rs) = Some e.
Proof. exact lookup_sim. Qed.
Print Assumptions find_variable_agrees.

(* The refinement: for EVERY program meeting the side condition (C08/Model.v: local names disjoint
   from global and static names, statics from globals; no argument mentions an earlier parameter of
   the callee or a static; static initialisers are literals), every fuel: the implementation model
   produces exactly Ref's transcript and outcome - unless Ref itself reports an unbound name. *)
Theorem dynamic_lookup_refines_lexical : forall p L S fuel,
  program_ok L S p -> snd (run fuel p) <> Failed EUnbound ->
  mech_run true fuel p = run fuel p.
Proof. exact refines_program. Qed.
Print Assumptions dynamic_lookup_refines_lexical.

(* the same, step by step: every expression (in any argument-evaluation context) and every statement *)
Theorem dynamic_lookup_refines_lexical_steps : forall funcs L Gn S, side_condition funcs L Gn S -> forall k,
  (forall e Gf lm, wf_expr funcs S e -> frames_in_L L lm -> frames_in_L L Gf ->
     (forall x, In x (vars e) -> ghosts_ok S Gf x) -> sim L Gn S Gf lm (meval true funcs k e) (eval funcs k e)) /\
  (forall st lm, wf_stmt funcs L S st -> frames_in_L L lm -> sim L Gn S [] lm (mexec true funcs k st) (exec funcs k st)).
Proof. exact refine_all. Qed.
Print Assumptions dynamic_lookup_refines_lexical_steps.

(* The side condition is satisfiable by programs that reuse every local name in every activation,
   own statics, read globals and use defaults. *)
Theorem side_condition_satisfiable :
  program_ok [1; 2; 3]%nat [70%nat] w_ok /\ mech_run true 60 w_ok = run 60 w_ok /\
  run 60 w_ok = ([OInt 34; ONl; OInt 30; OSp; OInt 34; OSp; OInt 5; ONl], Finished).
Proof.
  split; [exact w_ok_program_ok|]. split; [|apply w_ok_runs].
  apply dynamic_lookup_refines_lexical with (L := [1; 2; 3]%nat) (S := [70%nat]); [exact w_ok_program_ok|].
  rewrite (proj1 w_ok_runs). discriminate.
Qed.
Print Assumptions side_condition_satisfiable.

(* ================================================================== Mech: refuted without the side condition
   (each witness breaks one clause for every choice of L and S; main prints what Mech prints:
   known_findings/C08.json) *)

(* DESIGN #14: a name free in the callee resolves to the caller's local, not to the global *)
Theorem dynamic_lookup_refuted : exists p,
  (forall L S, ~ program_ok L S p) /\
  run 60 p = ([OInt 5; ONl; OInt 99; ONl], Finished) /\
  mech_run false 60 p = ([OInt 99; ONl; OInt 99; ONl], Finished).
Proof. exists w_free_name. split; [exact w_free_name_not_ok|]. exact (conj (proj1 w_free_name_runs) (proj1 (proj2 w_free_name_runs))). Qed.
Print Assumptions dynamic_lookup_refuted.

(* DESIGN #15: a static named like a global updates the global (statics are looked up last) *)
Theorem static_per_function_refuted : exists p,
  (forall L S, ~ program_ok L S p) /\
  run 60 p = ([OInt 1; ONl; OInt 2; ONl; OInt 7; ONl], Finished) /\
  mech_run false 60 p = ([OInt 8; ONl; OInt 9; ONl; OInt 9; ONl], Finished).
Proof. exists w_static_global. split; [exact w_static_global_not_ok|]. exact (conj (proj1 w_static_global_runs) (proj1 (proj2 w_static_global_runs))). Qed.
Print Assumptions static_per_function_refuted.

(* arguments are evaluated inside the callee's scope: f(n-1, acc+n) sees the new n; f(3,0) = 3, not 6 *)
Theorem recursion_levels_independent_refuted : exists p,
  (forall L S, ~ program_ok L S p) /\
  run 60 p = ([OInt 6; ONl], Finished) /\ mech_run false 60 p = ([OInt 3; ONl], Finished).
Proof. exists w_args_scope. split; [exact w_args_scope_not_ok|]. exact (conj (proj1 w_args_scope_runs) (proj1 (proj2 w_args_scope_runs))). Qed.
Print Assumptions recursion_levels_independent_refuted.

(* ... so binding is not positional: f(b, a, a) with a = 7, b = 8 receives (8, 8, 8) *)
Theorem args_positional_refuted : exists p,
  (forall L S, ~ program_ok L S p) /\
  run 60 p = ([OInt 877; ONl], Finished) /\ mech_run false 60 p = ([OInt 888; ONl], Finished).
Proof. exists w_positional. split; [exact w_positional_not_ok|]. exact (conj (proj1 w_positional_runs) (proj1 (proj2 w_positional_runs))). Qed.
Print Assumptions args_positional_refuted.

(* a callee assigning to a global's name changes the caller's local of that name: 10 becomes 15 *)
Theorem callee_cannot_touch_caller_frame_refuted : exists p,
  (forall L S, ~ program_ok L S p) /\
  run 60 p = ([OInt 6; ONl; OInt 10; ONl], Finished) /\ mech_run false 60 p = ([OInt 15; ONl; OInt 15; ONl], Finished).
Proof. exists w_caller_write. split; [exact w_caller_write_not_ok|]. exact (conj (proj1 w_caller_write_runs) (proj1 (proj2 w_caller_write_runs))). Qed.
Print Assumptions callee_cannot_touch_caller_frame_refuted.

(* a default mentioning a global is evaluated against the caller's local of that name *)
Theorem defaults_fill_trailing_refuted : exists p,
  (forall L S, ~ program_ok L S p) /\
  run 60 p = ([OInt 23; ONl], Finished) /\ mech_run false 60 p = ([OInt 28; ONl], Finished).
Proof. exists w_default_free. split; [exact w_default_free_not_ok|]. exact (conj (proj1 w_default_free_runs) (proj1 (proj2 w_default_free_runs))). Qed.
Print Assumptions defaults_fill_trailing_refuted.

(* a static's initialiser is evaluated on every execution of the declaration, twice on the first *)
Theorem static_init_once_refuted : exists p,
  (forall L S, ~ program_ok L S p) /\
  run 60 p = ([OInt 107; ONl; OInt 8; ONl; OInt 9; ONl], Finished) /\
  mech_run false 60 p = ([OInt 107; ONl; OInt 107; ONl; OInt 8; ONl; OInt 107; ONl; OInt 9; ONl], Finished).
Proof. exists w_static_init. split; [exact w_static_init_not_ok|]. exact (conj (proj1 w_static_init_runs) (proj1 (proj2 w_static_init_runs))). Qed.
Print Assumptions static_init_once_refuted.

(* a static handed to another function is "undefined": arguments are evaluated with the callee as
   current function, whose statics are searched instead of the caller's *)
Theorem static_persists_refuted : exists p,
  (forall L S, ~ program_ok L S p) /\
  run 60 p = ([OInt 7; ONl; OInt 8; ONl], Finished) /\ mech_run false 60 p = ([], Failed EUnbound).
Proof. exists w_static_arg. split; [exact w_static_arg_not_ok|]. exact (conj (proj1 w_static_arg_runs) (proj1 (proj2 w_static_arg_runs))). Qed.
Print Assumptions static_persists_refuted.

(* ================================================================== CbCall: results of every kind, every exit *)

(* The code's restore statements (6466, 6771, 6911, 7023) form a sound policy. *)
Theorem kinds_code_policy_sound : policy_ok code_policy = true.
Proof. reflexivity. Qed.
Print Assumptions kinds_code_policy_sound.

(* Whatever expression is evaluated - a call whose result is a long, int, bool, string, float, double,
   quad, struct, array, reference or nothing, leaving through the end of the body, a `return`, a
   re-thrown return or a runtime error, nested to any depth - the activation stack and the
   current-function register afterwards are exactly those before (Ref and Mech, every sound policy). *)
Theorem kinds_call_restores_caller : forall mech pol funcs n e s,
  policy_ok pol = true ->
  kframes (snd (keval mech pol funcs n e s)) = kframes s /\ kcur (snd (keval mech pol funcs n e s)) = kcur s.
Proof.
  intros mech pol funcs n e s H. destruct (discipline mech pol H funcs n) as [He _].
  destruct (He e s) as [H1 H2]. split; assumption.
Qed.
Print Assumptions kinds_call_restores_caller.

(* A statement changes the variables of the running activation only: the frames below, the function of
   the running frame and the register stay. *)
Theorem kinds_statement_keeps_activation : forall mech pol funcs n st s,
  policy_ok pol = true ->
  let s' := snd (kexec mech pol funcs n st s) in
  kcur s' = kcur s /\ top_fn (kframes s') = top_fn (kframes s) /\ tl (kframes s') = tl (kframes s).
Proof.
  intros mech pol funcs n st s H. destruct (discipline mech pol H funcs n) as [_ Hs]. exact (Hs st s).
Qed.
Print Assumptions kinds_statement_keeps_activation.

(* Looking a static up under the register (the implementation) is looking it up under the function of
   the running activation (the property): Mech = Ref on every program, for every sound policy. *)
Theorem kinds_register_equals_stack : forall pol fuel p,
  policy_ok pol = true -> k_run true pol fuel p = kref_run fuel p.
Proof. exact (fun pol fuel p H => mech_refines_ref pol fuel p H). Qed.
Print Assumptions kinds_register_equals_stack.

Theorem kinds_mech_equals_ref : forall fuel p, kmech_run fuel p = kref_run fuel p.
Proof. exact (fun fuel p => mech_refines_ref code_policy fuel p eq_refl). Qed.
Print Assumptions kinds_mech_equals_ref.

(* ... and ONLY for the sound ones: every policy that forgets a restore on some exit is separated from
   Ref by one program (w_exits: a void, a long, a string and a failing callee). *)
Theorem kinds_restore_policy_exact : forall pol,
  (forall fuel p, k_run true pol fuel p = kref_run fuel p) <-> policy_ok pol = true.
Proof. exact restore_policy_exact_l. Qed.
Print Assumptions kinds_restore_policy_exact.

(* The filed change C08-1 as a policy: the caller of a string function goes on under the callee's
   name and counts in the callee's static (102, 104 instead of 2, 4). *)
Theorem kinds_seeded_change_refuted : exists p,
  policy_ok seeded_policy = false /\
  kref_run 40 p = ([KOVal KStr 0; KOSp; KOVal KLong 2; KONl; KOVal KInt 2; KONl;
                    KOVal KStr 0; KOSp; KOVal KLong 4; KONl; KOVal KInt 4; KONl], Finished) /\
  k_run true seeded_policy 40 p =
                   ([KOVal KStr 0; KOSp; KOVal KLong 102; KONl; KOVal KInt 102; KONl;
                     KOVal KStr 0; KOSp; KOVal KLong 104; KONl; KOVal KInt 104; KONl], Finished).
Proof. exists w_seeded. split; [reflexivity|]. split; [exact w_seeded_ref | exact w_seeded_bad]. Qed.
Print Assumptions kinds_seeded_change_refuted.

(* A store and a static declaration change the statics of the running function and of no other. *)
Theorem kinds_statics_private : forall mech x v k s g,
  g <> key mech s ->
  kstatics g (snd (k_write mech x v s)) = kstatics g s /\
  kstatics g (snd (k_static_declare mech k x v s)) = kstatics g s.
Proof.
  intros. split; [apply k_write_statics_private | apply k_static_declare_private]; assumption.
Qed.
Print Assumptions kinds_statics_private.

(* Once known, a static stays known over every expression and statement (calls of every kind). *)
Theorem kinds_statics_persist : forall mech pol funcs n,
  (forall e s f x, assoc x (kstatics f s) <> None -> assoc x (kstatics f (snd (keval mech pol funcs n e s))) <> None) /\
  (forall st s f x, assoc x (kstatics f s) <> None -> assoc x (kstatics f (snd (kexec mech pol funcs n st s))) <> None).
Proof.
  intros mech pol funcs n. destruct (statics_persist mech pol funcs n) as [He Hs].
  split; intros; [apply (He e s) | apply (Hs st s)]; assumption.
Qed.
Print Assumptions kinds_statics_persist.

(* A static is initialised once: the declaration of a known static is a no-op. *)
Theorem kinds_static_init_once : forall mech pol funcs n kd x e s,
  assoc x (kstatics (key mech s) s) <> None ->
  kexec mech pol funcs (S n) (KDecl true kd x e) s = (Val tt, s).
Proof. exact kstatic_decl_once. Qed.
Print Assumptions kinds_static_init_once.

(* The value given to `return` is the value of the call, for every result kind and both return exits
   (an `int` result is range checked like a store). *)
Theorem kinds_return_value_unchanged : forall pol fd inner s v s2,
  inner (push_frame (kfname fd) (with_cur (kfname fd) s)) = (Ret (Some v), s2) ->
  (kfret fd <> KInt \/ kcoerce KInt v = Val v) ->
  fst (k_call pol fd inner s) = Val v.
Proof.
  intros pol fd inner s v s2 H [Hk|Hk]; apply (call_value pol fd inner s v s2 H).
  - apply kcoerce_not_int; exact Hk.
  - destruct (kfret fd); try reflexivity; exact Hk.
Qed.
Print Assumptions kinds_return_value_unchanged.

(* Positional binding for parameters of every kind: the body starts with parameter i := value i. *)
Theorem kinds_args_positional : forall ps vs s f r,
  kframes s = f :: r -> List.length vs = List.length ps ->
  (forall p v, In (p, v) (combine ps vs) -> kcoerce (kpk p) v = Val v) ->
  kbind_params ps vs s =
  (Val tt, with_frames ({| kfn := kfn f; kvars := rev (bound_vars ps vs) ++ kvars f |} :: r) s).
Proof. exact bind_params_positional. Qed.
Print Assumptions kinds_args_positional.
