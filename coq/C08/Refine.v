(* C08 - the refinement: under the name side condition (C08/Model.v) the implementation model Mech
   (C08/Frames.v, with lexical blocks) computes exactly what Ref computes, for every program, state
   and fuel - unless Ref itself reports an unbound name.

   Simulation: a Mech state is a Ref state whose caller frames [lr] are replaced by [lm] (the Mech
   stack below the running activation: real frames and half-built callee frames alike - their content
   is irrelevant, only that all their names are in L) and on top of which sit the half-built frames
   [Gf] of the calls whose arguments are being evaluated. *)
From Coq Require Import List ZArith Bool Arith Lia.
From Cb Require Import Lang.Syntax Lang.Sem Lang.Respect Lang.Theorems C08.CallLemmas C08.Frames C08.Model.
Import ListNotations.
Local Open Scope Z_scope.

(* ------------------------------------------------------------------ embedding *)
Definition emb (Gf lm : list frame) (rs : state) : state :=
  {| sglob := sglob rs; sframes := Gf ++ firstn 1 (sframes rs) ++ lm; sstat := sstat rs; sout := sout rs |}.

Definition bound_in (fs : list frame) (x : ident) : Prop := frames_get x fs <> None.

Lemma frames_get_app x a b :
  frames_get x (a ++ b) = match frames_get x a with Some e => Some e | None => frames_get x b end.
Proof. induction a as [|f r IH]; cbn; [reflexivity|]. destruct (scopes_get x (fscopes f)); [reflexivity|exact IH]. Qed.

Lemma frames_set_app_r x e a b : frames_get x a = None -> frames_set x e (a ++ b) = a ++ frames_set x e b.
Proof.
  induction a as [|f r IH]; cbn; [reflexivity|]. destruct (scopes_get x (fscopes f)); [discriminate|].
  intros H. rewrite IH by exact H. reflexivity.
Qed.

Lemma scopes_get_set_names x e y ss : scopes_get y (scopes_set x e ss) <> None <-> scopes_get y ss <> None.
Proof.
  induction ss as [|sc r IH]; cbn; [tauto|].
  destruct (assoc x sc) eqn:E; cbn.
  - pose proof (assoc_set_known y x e sc) as H.
    destruct (assoc y (assoc_set x e sc)), (assoc y sc); try tauto; try (split; congruence).
    + exfalso. apply (proj1 H); congruence.
    + exfalso. apply (proj2 H); congruence.
  - destruct (assoc y sc); [tauto|exact IH].
Qed.

Section Refine.
Variable funcs : list func.
Variables L Gn S : list ident.
Hypothesis SC : side_condition funcs L Gn S.

Definition scopes_in_L (ss : list scope) : Prop := forall x, scopes_get x ss <> None -> In x L.
Definition frames_in_L (fs : list frame) : Prop := forall x, bound_in fs x -> In x L.

(* what is known of a Ref state: it has a running activation whose variables are in L, its globals
   are in Gn, all statics are in S *)
Record Inv (rs : state) : Prop := {
  inv_top : exists C lr, sframes rs = C :: lr /\ scopes_in_L (fscopes C);
  inv_glob : forall x, assoc x (sglob rs) <> None -> In x Gn;
  inv_stat : forall g x, assoc x (statics_of g rs) <> None -> In x S
}.

(* simulation of one monadic computation in mode (Gf, lm) *)
Definition sim {A} (Gf lm : list frame) (mm mr : M A) : Prop :=
  forall rs, Inv rs -> fst (mr rs) <> Fail EUnbound ->
    mm (emb Gf lm rs) = (fst (mr rs), emb Gf lm (snd (mr rs))) /\ Inv (snd (mr rs)).

Lemma sim_ret {A} Gf lm (a : A) : sim Gf lm (ret a) (ret a).
Proof. intros rs HI _. split; [reflexivity|exact HI]. Qed.
Lemma sim_fail {A} Gf lm e : sim Gf lm (@fail A e) (fail e).
Proof. intros rs HI _. split; [reflexivity|exact HI]. Qed.
Lemma sim_lift {A} Gf lm (c : ctl A) : sim Gf lm (lift c) (lift c).
Proof. intros rs HI _. split; [reflexivity|exact HI]. Qed.

Lemma sim_bind {A B} Gf lm (mm mr : M A) (fm fr : A -> M B) :
  sim Gf lm mm mr -> (forall a, sim Gf lm (fm a) (fr a)) -> sim Gf lm (bind mm fm) (bind mr fr).
Proof.
  intros H1 H2 rs HI Hn. unfold bind in *. specialize (H1 rs HI).
  destruct (mr rs) as [c rs1] eqn:E. cbn [fst snd] in *.
  destruct c.
  - destruct H1 as [-> HI1]; [discriminate|]. apply H2; assumption.
  - destruct H1 as [-> HI1]; [discriminate|]. split; [reflexivity|assumption].
  - destruct H1 as [-> HI1]; [discriminate|]. split; [reflexivity|assumption].
  - destruct H1 as [-> HI1]; [discriminate|]. split; [reflexivity|assumption].
  - destruct H1 as [-> HI1]; [intro Hx; apply Hn; cbn; injection Hx as ->; reflexivity|]. split; [reflexivity|assumption].
Qed.

Lemma sim_map_ctl {A B} Gf lm (g : ctl A -> ctl B) (mm mr : M A) :
  (forall c, g c <> Fail EUnbound -> c <> Fail EUnbound) ->
  sim Gf lm mm mr -> sim Gf lm (map_ctl g mm) (map_ctl g mr).
Proof.
  intros Hg H rs HI Hn. unfold map_ctl in *. specialize (H rs HI).
  destruct (mr rs) as [c rs1]. cbn [fst snd] in *. destruct H as [-> HI1]; [apply Hg; exact Hn|].
  split; [reflexivity|assumption].
Qed.

Lemma sim_loop_step Gf lm (bm br nm nr : M unit) :
  sim Gf lm bm br -> sim Gf lm nm nr -> sim Gf lm (loop_step bm nm) (loop_step br nr).
Proof.
  intros Hb Hx rs HI Hn. unfold loop_step in *. specialize (Hb rs HI).
  destruct (br rs) as [c rs1]. cbn [fst snd] in *.
  destruct c.
  - destruct Hb as [-> HI1]; [discriminate|]. apply Hx; assumption.
  - destruct Hb as [-> HI1]; [discriminate|]. split; [reflexivity|assumption].
  - destruct Hb as [-> HI1]; [discriminate|]. apply Hx; assumption.
  - destruct Hb as [-> HI1]; [discriminate|]. split; [reflexivity|assumption].
  - destruct Hb as [-> HI1]; [exact Hn|]. split; [reflexivity|assumption].
Qed.

(* ------------------------------------------------------------------ lookup *)
Definition ghosts_ok (Gf : list frame) (x : ident) : Prop := ~ bound_in Gf x /\ (Gf <> [] -> ~ In x S).

Lemma cur_fn_emb_nil lm rs C lr : sframes rs = C :: lr -> cur_fn (emb [] lm rs) = cur_fn rs.
Proof. intros H. unfold cur_fn, emb. cbn. rewrite H. reflexivity. Qed.

Lemma lookup_sim Gf lm rs x e :
  Inv rs -> frames_in_L lm -> ghosts_ok Gf x ->
  get_entry x rs = Some e -> dget x (emb Gf lm rs) = Some e.
Proof.
  intros [[C [lr [Hfr HC]]] HG HS] Hlm [Hg1 Hg2] Hget.
  unfold get_entry in Hget. rewrite Hfr in Hget.
  unfold dget, emb. cbn [sframes sglob sstat]. rewrite Hfr. cbn [firstn app].
  rewrite frames_get_app. unfold bound_in in Hg1. destruct (frames_get x Gf); [exfalso; apply Hg1; discriminate|].
  cbn [frames_get]. destruct (scopes_get x (fscopes C)) as [e0|] eqn:E1; [exact Hget|].
  assert (Hst : forall g, statics_of g {| sglob := sglob rs; sframes := Gf ++ C :: lm; sstat := sstat rs; sout := sout rs |} = statics_of g rs) by reflexivity.
  destruct (assoc x (statics_of (ffn C) rs)) as [e1|] eqn:E2.
  - injection Hget as <-.
    assert (HxS : In x S) by (apply (HS (ffn C)); rewrite E2; discriminate).
    assert (Hnl : frames_get x lm = None).
    { destruct (frames_get x lm) eqn:E3; [|reflexivity]. exfalso. apply (sc_LS _ _ _ _ SC x); [apply Hlm; unfold bound_in; rewrite E3; discriminate|exact HxS]. }
    rewrite Hnl.
    assert (Hng : assoc x (sglob rs) = None).
    { destruct (assoc x (sglob rs)) eqn:E3; [|reflexivity]. exfalso. apply (sc_SG _ _ _ _ SC x HxS). apply HG. rewrite E3. discriminate. }
    rewrite Hng. rewrite Hst.
    assert (HGf : Gf = []) by (destruct Gf; [reflexivity|exfalso; apply Hg2; [discriminate|exact HxS]]).
    subst Gf. unfold cur_fn. cbn. exact E2.
  - assert (HxG : In x Gn) by (apply HG; rewrite Hget; discriminate).
    assert (Hnl : frames_get x lm = None).
    { destruct (frames_get x lm) eqn:E3; [|reflexivity]. exfalso. apply (sc_LG _ _ _ _ SC x); [apply Hlm; unfold bound_in; rewrite E3; discriminate|exact HxG]. }
    rewrite Hnl, Hget. reflexivity.
Qed.

Lemma read_sim Gf lm x idx :
  frames_in_L lm -> ghosts_ok Gf x -> sim Gf lm (d_read x idx) (m_read x idx).
Proof.
  intros Hlm Hg rs HI Hn. unfold m_read in *. unfold d_read.
  destruct (get_entry x rs) as [e|] eqn:E; [|exfalso; apply Hn; reflexivity].
  rewrite (lookup_sim Gf lm rs x e HI Hlm Hg E).
  destruct (flat_index (edims e) idx 0); cbn [fst snd]; split; try reflexivity; exact HI.
Qed.

(* a store: same place in both *)
Lemma put_sim Gf lm rs x e e' :
  Inv rs -> frames_in_L lm -> ghosts_ok Gf x ->
  get_entry x rs = Some e ->
  dput x e' (emb Gf lm rs) = emb Gf lm (put_entry x e' rs) /\ Inv (put_entry x e' rs).
Proof.
  intros HI Hlm Hg Hget. pose proof (lookup_sim Gf lm rs x e HI Hlm Hg Hget) as Hd.
  destruct HI as [[C [lr [Hfr HC]]] HG HS]. destruct Hg as [Hg1 Hg2].
  unfold get_entry in Hget. rewrite Hfr in Hget.
  unfold dget, emb in Hd. cbn [sframes sglob sstat] in Hd. rewrite Hfr in Hd. cbn [firstn app] in Hd.
  rewrite frames_get_app in Hd. unfold bound_in in Hg1.
  destruct (frames_get x Gf) eqn:EG; [exfalso; apply Hg1; discriminate|]. cbn [frames_get] in Hd.
  unfold dput, put_entry, emb. cbn [sframes sglob sstat sout]. rewrite Hfr. cbn [firstn app].
  rewrite frames_get_app, EG. cbn [frames_get].
  destruct (scopes_get x (fscopes C)) as [e0|] eqn:E1.
  - rewrite frames_set_app_r by exact EG. cbn [frames_set]. rewrite E1. cbn. split; [reflexivity|].
    constructor; cbn.
    + eexists _, _. split; [reflexivity|]. cbn. intros y Hy. apply HC. apply (scopes_get_set_names x e' y). exact Hy.
    + exact HG.
    + exact HS.
  - destruct (assoc x (statics_of (ffn C) rs)) as [e1|] eqn:E2.
    + assert (HxS : In x S) by (apply (HS (ffn C)); rewrite E2; discriminate).
      assert (Hnl : frames_get x lm = None).
      { destruct (frames_get x lm) eqn:E3; [|reflexivity]. exfalso. apply (sc_LS _ _ _ _ SC x); [apply Hlm; unfold bound_in; rewrite E3; discriminate|exact HxS]. }
      assert (Hng : assoc x (sglob rs) = None).
      { destruct (assoc x (sglob rs)) eqn:E3; [|reflexivity]. exfalso. apply (sc_SG _ _ _ _ SC x HxS). apply HG. rewrite E3. discriminate. }
      assert (HGf : Gf = []) by (destruct Gf; [reflexivity|exfalso; apply Hg2; [discriminate|exact HxS]]).
      subst Gf. rewrite Hnl, Hng. unfold cur_fn, statics_of. cbn. split; [reflexivity|].
      constructor; cbn.
      * eexists _, _. split; [first [exact Hfr|reflexivity]|exact HC].
      * exact HG.
      * intros g y. unfold statics_of. cbn. destruct (Nat.eq_dec g (ffn C)) as [->|Hne].
        -- rewrite statics_of_set_same. intros Hy. apply (HS (ffn C)). apply assoc_set_known in Hy. exact Hy.
        -- rewrite statics_of_set_other by congruence. apply HS.
    + assert (HxG : In x Gn) by (apply HG; rewrite Hget; discriminate).
      assert (Hnl : frames_get x lm = None).
      { destruct (frames_get x lm) eqn:E3; [|reflexivity]. exfalso. apply (sc_LG _ _ _ _ SC x); [apply Hlm; unfold bound_in; rewrite E3; discriminate|exact HxG]. }
      rewrite Hnl, Hget. cbn. split; [reflexivity|].
      constructor; cbn.
      * eexists _, _. split; [first [exact Hfr|reflexivity]|exact HC].
      * intros y Hy. apply HG. apply assoc_set_known in Hy. exact Hy.
      * exact HS.
Qed.

Lemma write_sim Gf lm x idx v :
  frames_in_L lm -> ghosts_ok Gf x -> sim Gf lm (d_write x idx v) (m_write x idx v).
Proof.
  intros Hlm Hg rs HI Hn. unfold m_write in *. unfold d_write.
  destruct (get_entry x rs) as [e|] eqn:E; [|exfalso; apply Hn; reflexivity].
  rewrite (lookup_sim Gf lm rs x e HI Hlm Hg E).
  destruct (econst e); [split; [reflexivity|exact HI]|].
  destruct (flat_index (edims e) idx 0); [|split; [reflexivity|exact HI]].
  destruct (coerce (ety e) v); cbn [fst snd]; try (split; [reflexivity|exact HI]).
  match goal with |- context [dput x ?e' _] => destruct (put_sim Gf lm rs x e e' HI Hlm Hg E) as [H1 H2] end.
  rewrite H1. split; [reflexivity|exact H2].
Qed.


(* ------------------------------------------------------------------ primitives in body mode *)
Lemma sim_finally {A} Gf lm (mm mr : M A) fin :
  sim Gf lm mm mr ->
  (forall rs, Inv rs -> fin (emb Gf lm rs) = emb Gf lm (fin rs) /\ Inv (fin rs)) ->
  sim Gf lm (finally mm fin) (finally mr fin).
Proof.
  intros H Hf rs HI Hn. unfold finally in *. specialize (H rs HI).
  destruct (mr rs) as [c rs1]. cbn [fst snd] in *. destruct H as [-> HI1]; [exact Hn|].
  destruct (Hf rs1 HI1) as [-> HI2]. split; [reflexivity|exact HI2].
Qed.

Lemma out_sim Gf lm o : sim Gf lm (m_out o) (m_out o).
Proof.
  intros rs [[C [lr [Hfr HC]]] HG HS] _. split; [reflexivity|]. constructor; cbn; [eexists _, _; split; [exact Hfr|exact HC]|exact HG|exact HS].
Qed.

Lemma scopes_in_L_push ss : scopes_in_L ss -> scopes_in_L ([] :: ss).
Proof. intros H x. cbn. apply H. Qed.
Lemma scopes_in_L_tl ss : scopes_in_L ss -> scopes_in_L (tl ss).
Proof.
  intros H x Hx. apply H. destruct ss as [|sc r]; [exact Hx|]. cbn in *. destruct (assoc x sc); [discriminate|exact Hx].
Qed.

Lemma block_sim {A} lm (mm mr : M A) :
  sim [] lm mm mr -> sim [] lm (m_push_scope ;;; finally mm pop_scope_st) (m_push_scope ;;; finally mr pop_scope_st).
Proof.
  intros H. apply sim_bind.
  - intros rs [[C [lr [Hfr HC]]] HG HS] _. unfold m_push_scope, emb. cbn [sframes sglob sstat sout]. rewrite Hfr. cbn.
    split; [reflexivity|]. constructor; cbn; [eexists _, _; split; [reflexivity|apply scopes_in_L_push; exact HC]|exact HG|exact HS].
  - intros _. apply sim_finally; [exact H|].
    intros rs [[C [lr [Hfr HC]]] HG HS]. unfold pop_scope_st, emb. cbn [sframes sglob sstat sout]. rewrite Hfr. cbn.
    split; [reflexivity|]. constructor; cbn; [eexists _, _; split; [reflexivity|apply scopes_in_L_tl; exact HC]|exact HG|exact HS].
Qed.

Lemma coerce_all_one t v : coerce_all t [v] = match coerce t v with Val v' => Val [v'] | Fail e => Fail e | _ => Fail EUndef end.
Proof. cbn. destruct (coerce t v); reflexivity. Qed.

Lemma declare_sim lm cst t x d vs :
  In x L -> sim [] lm (m_declare false cst t x d vs) (m_declare false cst t x d vs).
Proof.
  intros HxL rs [[C [lr [Hfr HC]]] HG HS] Hn. unfold m_declare in *. unfold emb. cbn [sframes sglob sstat sout].
  destruct (coerce_all t vs); cbn [fst snd]; try (split; [reflexivity|constructor; [eexists _, _; split; [exact Hfr|exact HC]|exact HG|exact HS]]).
  rewrite Hfr in *. cbn [firstn app]. destruct (fscopes C) as [|sc scs] eqn:E; cbn [fst snd] in *; [exfalso; apply Hn; reflexivity|].
  split; [reflexivity|]. constructor; cbn; [|exact HG|exact HS].
  eexists _, _. split; [reflexivity|]. cbn. intros y. cbn. destruct (Nat.eqb y x) eqn:Ey.
  - apply Nat.eqb_eq in Ey. subst y. intros _. exact HxL.
  - intros Hy. apply HC. cbn. exact Hy.
Qed.

Lemma static_known_sim lm x : sim [] lm (m_static_known x) (m_static_known x).
Proof.
  intros rs HI _. destruct HI as [[C [lr [Hfr HC]]] HG HS]. unfold m_static_known. cbn [fst snd].
  rewrite (cur_fn_emb_nil lm rs C lr Hfr). split; [reflexivity|]. constructor; [eexists _, _; split; [exact Hfr|exact HC]|exact HG|exact HS].
Qed.

(* ------------------------------------------------------------------ list combinators *)
Section Lists.
Variables (Gf lm : list frame) (evm evr : expr -> M Z) (exm exr : stmt -> M unit).

Lemma eval_list_sim es : allP (fun e => sim Gf lm (evm e) (evr e)) es -> sim Gf lm (eval_list evm es) (eval_list evr es).
Proof.
  induction es as [|e r IH]; cbn [allP fold_right eval_list]; [intros _; apply sim_ret|].
  intros [H1 H2]. apply sim_bind; [exact H1|]. intros v. apply sim_bind; [apply IH; exact H2|]. intros vs. apply sim_ret.
Qed.
Lemma exec_list_sim ss : allP (fun s => sim Gf lm (exm s) (exr s)) ss -> sim Gf lm (exec_list exm ss) (exec_list exr ss).
Proof.
  induction ss as [|s r IH]; cbn [allP fold_right exec_list]; [intros _; apply sim_ret|].
  intros [H1 H2]. apply sim_bind; [exact H1|]. intros _. apply IH. exact H2.
Qed.
Lemma print_args_sim first es : allP (fun e => sim Gf lm (evm e) (evr e)) es -> sim Gf lm (print_args evm first es) (print_args evr first es).
Proof.
  revert first. induction es as [|e r IH]; intros first; cbn [allP fold_right print_args]; [intros _; apply sim_ret|].
  intros [H1 H2]. apply sim_bind; [destruct first; [apply sim_ret|apply out_sim]|]. intros _.
  apply sim_bind; [exact H1|]. intros v. apply sim_bind; [apply out_sim|]. intros _. apply IH. exact H2.
Qed.
End Lists.

Lemma allP_impl {A} (P Q : A -> Prop) l : (forall a, In a l -> P a -> Q a) -> allP P l -> allP Q l.
Proof.
  induction l as [|a r IH]; cbn; [tauto|]. intros H [H1 H2]. split; [apply H; [left; reflexivity|exact H1]|].
  apply IH; [|exact H2]. intros b Hb. apply H. right. exact Hb.
Qed.

Lemma in_vars_flat x e es : In e es -> In x (vars e) -> In x (flat_map vars es).
Proof. intros H1 H2. apply in_flat_map. exists e. split; assumption. Qed.

Lemma find_func_in f fd : find_func f funcs = Some fd -> In fd funcs.
Proof.
  clear SC. induction funcs as [|g r IH]; cbn; [discriminate|]. destruct (Nat.eqb f (fname g)); [intros [= <-]; left; reflexivity|].
  intros H. right. apply IH. exact H.
Qed.

Lemma coerce_zero t : coerce t 0 = Val 0.
Proof. unfold coerce. cbn. rewrite andb_false_r. unfold in_range, range. destruct (base t), (uns t); reflexivity. Qed.


(* ------------------------------------------------------------------ small facts *)
Lemma fail_ne {A B} e : (@Fail A e) <> Fail EUnbound -> (@Fail B e) <> Fail EUnbound.
Proof. intros H Hx. apply H. injection Hx as ->. reflexivity. Qed.

Lemma ghosts_nil x : ghosts_ok [] x.
Proof. split; [unfold bound_in; cbn; congruence|congruence]. Qed.

(* plain structs: the member cells are declared, read and stored like any other local *)
Lemma decl_members_sim lm x flds : forall j,
  (forall i, (i < List.length flds)%nat -> In (mkey x (j + i)) L) ->
  sim [] lm (decl_members x j flds) (decl_members x j flds).
Proof.
  induction flds as [|f r IH]; intros j H; cbn [decl_members]; [apply sim_ret|].
  apply sim_bind.
  - apply declare_sim. specialize (H 0%nat). rewrite Nat.add_0_r in H. apply H. cbn. apply Nat.lt_0_succ.
  - intros _. apply IH. intros i Hi. replace (Datatypes.S j + i)%nat with (j + Datatypes.S i)%nat by (rewrite Nat.add_succ_r; reflexivity).
    apply H. cbn. apply (proj1 (Nat.succ_lt_mono _ _)). exact Hi.
Qed.
Lemma copy_cells_sim lm dst src idxs : frames_in_L lm ->
  sim [] lm (dcopy_cells dst src idxs) (copy_cells dst src idxs).
Proof.
  intros Hlm. induction idxs as [|i r IH]; cbn [dcopy_cells copy_cells]; [apply sim_ret|].
  apply sim_bind; [apply read_sim; [exact Hlm|apply ghosts_nil]|]. intros v.
  apply sim_bind; [apply write_sim; [exact Hlm|apply ghosts_nil]|]. intros _. exact IH.
Qed.
Lemma copy_members_sim lm x y flds : frames_in_L lm -> forall j,
  sim [] lm (dcopy_members x y j flds) (copy_members x y j flds).
Proof.
  intros Hlm. induction flds as [|f r IH]; intros j; cbn [dcopy_members copy_members]; [apply sim_ret|].
  apply sim_bind; [apply copy_cells_sim; exact Hlm|]. intros _. apply IH.
Qed.



Lemma assign_sim lm lv x idx v :
  frames_in_L lm -> sim [] lm (d_assign lv x idx v) (m_write x idx v).
Proof.
  intros Hlm rs HI Hn.
  assert (Hd : d_assign lv x idx v (emb [] lm rs) = d_write x idx v (emb [] lm rs)).
  { unfold d_assign. unfold m_write in Hn. destruct (get_entry x rs) as [e|] eqn:E; [|exfalso; apply Hn; reflexivity].
    rewrite (lookup_sim [] lm rs x e HI Hlm (ghosts_nil x) E). destruct lv; reflexivity. }
  rewrite Hd. apply write_sim; [exact Hlm|apply ghosts_nil|exact HI|exact Hn].
Qed.

Lemma bind_defaults_sim lm evm evr ps :
  allP (fun p => In (pname p) L /\ match pdef p with Some d => sim [] lm (evm d) (evr d) | None => True end) ps ->
  sim [] lm (bind_params evm ps []) (bind_params evr ps []).
Proof.
  induction ps as [|p pr IH]; cbn [allP fold_right]; [intros _; apply sim_ret|].
  intros [[HpL Hd] Hr]. rewrite !bind_params_default_eq. destruct (pdef p) as [d|]; [|apply sim_fail].
  apply sim_bind; [exact Hd|]. intros v. apply sim_bind; [apply declare_sim; exact HpL|]. intros _. apply IH. exact Hr.
Qed.

Definition recast {A B} (c : ctl A) (b : B) : ctl B :=
  match c with Val _ => Val b | Brk => Brk | Cnt => Cnt | Ret v => Ret v | Fail e => Fail e end.

Definition Fr (f : ident) (acc : scope) : frame := {| ffn := f; fscopes := [acc] |}.

Lemma bound_in_cons f acc Gf x : bound_in (Fr f acc :: Gf) x <-> assoc x acc <> None \/ bound_in Gf x.
Proof.
  unfold bound_in. cbn. destruct (assoc x acc); [split; [left|]; congruence|]. split; [right; assumption|intros [H|H]; [congruence|exact H]].
Qed.

(* ------------------------------------------------------------------ the supplied arguments *)
Section Args.
Variable k : nat.
Hypothesis IHe : forall e Gf lm, wf_expr funcs S e -> frames_in_L lm -> frames_in_L Gf ->
  (forall x, In x (vars e) -> ghosts_ok Gf x) -> sim Gf lm (meval true funcs k e) (eval funcs k e).

Lemma args_sim f Gf lm : frames_in_L lm -> frames_in_L Gf ->
  forall es ps seen acc rs c rs',
    Inv rs ->
    (forall x, assoc x acc <> None -> In x seen /\ In x L) ->
    allP (fun p => In (pname p) L) ps ->
    allP (wf_expr funcs S) es -> args_ok S seen ps es ->
    (forall x, In x (flat_map vars es) -> ghosts_ok Gf x) ->
    (List.length es <= List.length ps)%nat ->
    eval_args (eval funcs k) ps es rs = (c, rs') -> c <> Fail EUnbound ->
    Inv rs' /\
    exists acc', dbind_args (meval true funcs k) ps es (emb (Fr f acc :: Gf) lm rs) = (recast c tt, emb (Fr f acc' :: Gf) lm rs') /\
                 (forall vs, c = Val vs -> acc' = bound_scope ps vs acc).
Proof.
  intros Hlm HGf. induction es as [|e er IH]; intros ps seen acc rs c rs' HI Hacc HpL Hwf Hok Hgh Hlen Hev Hn.
  - cbn in Hev. injection Hev as <- <-. split; [exact HI|]. exists acc. split; [reflexivity|].
    intros vs [= <-]. destruct ps; reflexivity.
  - destruct ps as [|p pr]; [cbn in Hlen; lia|].
    cbn [allP fold_right] in Hwf, HpL. destruct Hwf as [Hwe Hwr]. destruct HpL as [HpL HprL].
    cbn [args_ok] in Hok. destruct Hok as [Hoke Hokr].
    cbn [eval_args] in Hev. cbn [dbind_args]. unfold bind in Hev |- *.
    assert (Hghe : forall x, In x (vars e) -> ghosts_ok (Fr f acc :: Gf) x).
    { intros x Hx. destruct (Hoke x Hx) as [Hs1 Hs2]. split; [|intros _; exact Hs2].
      intros Hb. apply bound_in_cons in Hb as [Hb|Hb].
      - apply Hs1. apply Hacc. exact Hb.
      - apply (proj1 (Hgh x (in_or_app _ _ _ (or_introl Hx)))). exact Hb. }
    assert (HFL : frames_in_L (Fr f acc :: Gf)).
    { intros x Hb. apply bound_in_cons in Hb as [Hb|Hb]; [apply Hacc; exact Hb|apply HGf; exact Hb]. }
    pose proof (IHe e (Fr f acc :: Gf) lm Hwe Hlm HFL Hghe rs HI) as Hs.
    destruct (eval funcs k e rs) as [c1 rs1] eqn:E1. cbn [fst snd] in Hs.
    destruct c1 as [w| | |rv|e1].
    2-5: injection Hev as <- <-; destruct Hs as [-> HI1]; [first [discriminate|apply (fail_ne _ Hn)]|]; split; [exact HI1|];
         exists acc; split; [reflexivity|intros vs; discriminate].
    destruct Hs as [Hm HI1]; [discriminate|]. rewrite Hm.
    unfold lift in Hev |- *. destruct (coerce (pty p) w) as [v'| | | |e2] eqn:Ec.
    2-5: injection Hev as <- <-; split; [exact HI1|]; exists acc; split; [reflexivity|intros vs; discriminate].
    (* the parameter is bound in the half-built frame *)
    assert (Hdecl : m_declare false false (pty p) (pname p) [] [v'] (emb (Fr f acc :: Gf) lm rs1) =
                    (Val tt, emb (Fr f ((pname p, scalar_entry (pty p) v') :: acc) :: Gf) lm rs1)).
    { unfold m_declare. rewrite coerce_all_one, (coerce_idem _ _ _ Ec). reflexivity. }
    rewrite Hdecl.
    destruct (eval_args (eval funcs k) pr er rs1) as [c2 rs2] eqn:E2.
    assert (Hn2 : c2 <> Fail EUnbound).
    { intros ->. apply Hn. injection Hev as <- <-. reflexivity. }
    destruct (IH pr (pname p :: seen) ((pname p, scalar_entry (pty p) v') :: acc) rs1 c2 rs2 HI1) as [HI2 [acc' [Hm2 Hacc']]]; try assumption.
    + intros x. cbn. destruct (Nat.eqb x (pname p)) eqn:Ex.
      * apply Nat.eqb_eq in Ex. subst x. intros _. split; [left; reflexivity|exact HpL].
      * intros Hx. destruct (Hacc x Hx). split; [right|]; assumption.
    + intros x Hx. apply Hgh. cbn. apply in_or_app. right. exact Hx.
    + cbn in Hlen. lia.
    + rewrite Hm2. destruct c2; injection Hev as <- <-; (split; [exact HI2|]); exists acc'; (split; [reflexivity|]); try (intros vs; discriminate).
      intros vs [= <-]. cbn [bound_scope]. apply Hacc'. reflexivity.
Qed.
End Args.


(* ------------------------------------------------------------------ one call *)
Lemma meval_call_eq k f args : meval true funcs (Datatypes.S k) (ECall f args) =
  match find_func f funcs with
  | None => fail EUnbound
  | Some fd =>
      m_push_frame f ;;;
      finally
        (if (Nat.ltb (List.length args) (required (fparams fd))) || (Nat.ltb (List.length (fparams fd)) (List.length args))
         then fail EArity
         else map_ctl (call_result (fret fd))
                (dbind_args (meval true funcs k) (fparams fd) args ;;;
                 bind_params (meval true funcs k) (skipn (List.length args) (fparams fd)) [] ;;;
                 exec_list (mexec true funcs k) (fbody fd)))
        pop_frame_st
  end.
Proof. reflexivity. Qed.

Lemma call_result_unbound rt c : call_result rt c <> Fail EUnbound -> c <> Fail EUnbound.
Proof. intros H ->. apply H. reflexivity. Qed.

Lemma frames_in_L_mid Gf C lm : frames_in_L Gf -> scopes_in_L (fscopes C) -> frames_in_L lm -> frames_in_L (Gf ++ C :: lm).
Proof.
  intros H1 H2 H3 x. unfold bound_in. rewrite frames_get_app. destruct (frames_get x Gf) eqn:E.
  - intros _. apply H1. unfold bound_in. rewrite E. discriminate.
  - cbn. destruct (scopes_get x (fscopes C)) eqn:E2.
    + intros _. apply H2. rewrite E2. discriminate.
    + intros H. apply H3. exact H.
Qed.

Lemma allP_skipn {A} (P : A -> Prop) n l : allP P l -> allP P (skipn n l).
Proof. revert l. induction n as [|n IH]; intros l; [tauto|]. destruct l as [|a r]; [tauto|]. cbn. intros [_ H]. apply IH. exact H. Qed.
Lemma allP_in {A} (P : A -> Prop) l a : allP P l -> In a l -> P a.
Proof. induction l as [|b r IH]; cbn; [tauto|]. intros [H1 H2] [<-|H]; [exact H1|apply IH; assumption]. Qed.

Lemma in_firstn {A} n (l : list A) a : In a (firstn n l) -> In a l.
Proof. revert l. induction n as [|n IH]; intros l; cbn; [tauto|]. destruct l as [|b r]; cbn; [tauto|]. intros [H|H]; [left; exact H|right; apply IH; exact H]. Qed.

Section Call.
Variable k : nat.
Hypothesis IHe : forall e Gf lm, wf_expr funcs S e -> frames_in_L lm -> frames_in_L Gf ->
  (forall x, In x (vars e) -> ghosts_ok Gf x) -> sim Gf lm (meval true funcs k e) (eval funcs k e).
Hypothesis IHx : forall st lm, wf_stmt funcs L S st -> frames_in_L lm -> sim [] lm (mexec true funcs k st) (exec funcs k st).

Lemma meval_call_steps f args ms :
  meval true funcs (Datatypes.S k) (ECall f args) ms =
  match find_func f funcs with
  | None => (Fail EUnbound, ms)
  | Some fd =>
      if (Nat.ltb (List.length args) (required (fparams fd))) || (Nat.ltb (List.length (fparams fd)) (List.length args))
      then (Fail EArity, pop_frame_st (snd (m_push_frame f ms)))
      else
        match dbind_args (meval true funcs k) (fparams fd) args (snd (m_push_frame f ms)) with
        | (Val _, ms1) =>
            (call_result (fret fd) (fst ((bind_params (meval true funcs k) (skipn (List.length args) (fparams fd)) [] ;;; exec_list (mexec true funcs k) (fbody fd)) ms1)),
             pop_frame_st (snd ((bind_params (meval true funcs k) (skipn (List.length args) (fparams fd)) [] ;;; exec_list (mexec true funcs k) (fbody fd)) ms1)))
        | (c, ms1) => (call_result (fret fd) (recast c tt), pop_frame_st ms1)
        end
  end.
Proof.
  rewrite meval_call_eq. destruct (find_func f funcs) as [fd|]; [|reflexivity].
  unfold bind at 1. change (m_push_frame f ms) with (Val tt, snd (m_push_frame f ms)). lazy beta iota. cbn [snd].
  destruct (_ || _); [reflexivity|]. unfold finally, map_ctl. rewrite bind_unfold.
  destruct (dbind_args (meval true funcs k) (fparams fd) args (snd (m_push_frame f ms))) as [c ms1]. destruct c; try reflexivity.
  destruct ((bind_params (meval true funcs k) (skipn (List.length args) (fparams fd)) [] ;;; exec_list (mexec true funcs k) (fbody fd)) ms1) as [c3 ms3].
  reflexivity.
Qed.

Lemma call_sim f args Gf lm :
  wf_expr funcs S (ECall f args) -> frames_in_L lm -> frames_in_L Gf ->
  (forall x, In x (vars (ECall f args)) -> ghosts_ok Gf x) ->
  sim Gf lm (meval true funcs (Datatypes.S k) (ECall f args)) (eval funcs (Datatypes.S k) (ECall f args)).
Proof.
  intros Hwf Hlm HGf Hgh rs HI Hn. rewrite meval_call_steps. rewrite eval_call_steps in *.
  cbn [wf_expr] in Hwf. destruct Hwf as [Hwa Hok].
  destruct (find_func f funcs) as [fd|] eqn:Ef; [|exfalso; apply Hn; reflexivity].
  pose proof (sc_funcs _ _ _ _ SC fd (find_func_in f fd Ef)) as [Hwp Hwb].
  destruct ((List.length args <? required (fparams fd))%nat || (List.length (fparams fd) <? List.length args)%nat) eqn:Ear.
  - (* wrong argument count: the callee's scope is pushed, the test fails, the scope is popped *)
    split; [|exact HI]. reflexivity.
  - apply orb_false_iff in Ear as [Ear1 Ear2]. apply Nat.ltb_ge in Ear1, Ear2.
    pose proof (eval_args_frames funcs k (fparams fd) args rs) as Hsame.
    pose proof (vf_eval_args _ (fparams fd) args (eval_vf funcs k) rs) as Hvf.
    destruct (eval_args (eval funcs k) (fparams fd) args rs) as [c rs1] eqn:Ea.
    unfold frames_same in Hsame. cbn [fst snd] in Hsame, Hvf.
    assert (Hn1 : c <> Fail EUnbound).
    { intros ->. apply Hn. reflexivity. }
    destruct (args_sim k IHe f Gf lm Hlm HGf args (fparams fd) [] [] rs c rs1 HI) as [HI1 [acc' [Hm Hacc']]]; try assumption.
    { cbn. intros x Hx. congruence. }
    { eapply allP_impl; [|exact Hwp]. cbn. tauto. }
    change (snd (m_push_frame f (emb Gf lm rs))) with (emb (Fr f [] :: Gf) lm rs).
    rewrite Hm.
    destruct HI1 as [[C [lr [Hfr1 HC]]] HG1 HS1].
    destruct c as [vs| | |rv|e0]; try contradiction.
    2: { (* an argument failed *)
      cbn [recast fst snd call_result]. split; [|constructor; [eexists _, _; split; [exact Hfr1|exact HC]|exact HG1|exact HS1]].
      reflexivity. }
    cbn [recast]. specialize (Hacc' vs eq_refl). subst acc'.
    (* Ref: push the frame, bind the supplied values *)
    set (n := List.length args) in *.
    assert (Hlv : List.length vs = n) by (eapply eval_args_length; exact Ea).
    assert (Hae : args_eval (eval funcs k) (fparams fd) args rs vs rs1) by (apply eval_args_spec; [exact Ear2|exact Ea]).
    pose proof (args_eval_coerced _ _ _ _ _ _ Hae) as HF2. rewrite Hlv in HF2.
    assert (Hps : fparams fd = firstn n (fparams fd) ++ skipn n (fparams fd)) by (symmetry; apply firstn_skipn).
    assert (Hl1 : List.length vs = List.length (firstn n (fparams fd))) by (rewrite firstn_length; lia).
    set (rs2 := with_top_scope rs1 f (bound_scope (firstn n (fparams fd)) vs []) (sframes rs1)).
    assert (Hsup : bind_params (eval funcs k) (fparams fd) vs (snd (m_push_frame f rs1)) =
                   bind_params (eval funcs k) (skipn n (fparams fd)) [] rs2).
    { rewrite Hps at 1. rewrite <- (app_nil_r vs) at 1. rewrite bind_params_app by exact Hl1.
      unfold bind.
      change (snd (m_push_frame f rs1)) with (with_top_scope rs1 f [] (sframes rs1)).
      rewrite (bind_params_supplied _ _ vs rs1 f [] (sframes rs1)); [reflexivity|exact Hl1|exact HF2]. }
    assert (Hshape : (bind_params (eval funcs k) (fparams fd) vs ;;; exec_list (exec funcs k) (fbody fd)) (snd (m_push_frame f rs1)) =
                     (bind_params (eval funcs k) (skipn n (fparams fd)) [] ;;; exec_list (exec funcs k) (fbody fd)) rs2).
    { unfold bind. rewrite Hsup. reflexivity. }
    pose proof (call_inside_below funcs k (fparams fd) vs (fbody fd) (snd (m_push_frame f rs1))) as Hbel.
    rewrite Hshape in *.
    (* the Mech state is the embedding of Ref's state after binding *)
    assert (Hemb : emb (Fr f (bound_scope (fparams fd) vs []) :: Gf) lm rs1 = emb [] (Gf ++ C :: lm) rs2).
    { unfold emb, rs2, with_top_scope, Fr. cbn. rewrite Hfr1. cbn. rewrite <- Hlv, bound_scope_firstn. reflexivity. }
    rewrite Hemb.
    assert (HI2 : Inv rs2).
    { constructor; cbn; [|exact HG1|exact HS1]. eexists _, _. split; [reflexivity|]. cbn.
      intros x Hx. cbn in Hx. destruct (assoc x (bound_scope (firstn n (fparams fd)) vs [])) eqn:Eb; [|congruence].
      destruct (bound_scope_names (firstn n (fparams fd)) vs [] x) as [Hb|Hb]; [rewrite Eb; discriminate|cbn in Hb; congruence|].
      apply in_map_iff in Hb as [p [<- Hp]]. apply (allP_in _ _ p Hwp). eapply in_firstn. exact Hp. }
    assert (Hlm' : frames_in_L (Gf ++ C :: lm)) by (apply frames_in_L_mid; assumption).
    (* defaults and body run in body mode above the enlarged lower stack *)
    assert (Hbody : sim [] (Gf ++ C :: lm)
              (bind_params (meval true funcs k) (skipn n (fparams fd)) [] ;;; exec_list (mexec true funcs k) (fbody fd))
              (bind_params (eval funcs k) (skipn n (fparams fd)) [] ;;; exec_list (exec funcs k) (fbody fd))).
    { apply sim_bind.
      - apply bind_defaults_sim. apply allP_skipn. eapply allP_impl; [|exact Hwp]. cbn. intros p _ [HpL Hd]. split; [exact HpL|].
        destruct (pdef p) as [d|]; [|exact I]. apply IHe; [exact Hd|exact Hlm'|intros x; unfold bound_in; cbn; congruence|intros x _; apply ghosts_nil].
      - intros _. apply exec_list_sim. eapply allP_impl; [|exact Hwb]. cbn. intros st _ Hst. apply IHx; [exact Hst|exact Hlm']. }
    specialize (Hbody rs2 HI2).
    destruct ((bind_params (eval funcs k) (skipn n (fparams fd)) [] ;;; exec_list (exec funcs k) (fbody fd)) rs2) as [c3 rs3] eqn:E3.
    cbn [fst snd] in *.
    destruct Hbody as [Hm3 HI3]; [apply (call_result_unbound (fret fd)); exact Hn|].
    rewrite Hm3. cbn [fst snd].
    destruct Hbel as [Htl _]. cbn in Htl.
    destruct HI3 as [[C3 [lr3 [Hfr3 HC3]]] HG3 HS3].
    rewrite Hfr3 in Htl. cbn in Htl. subst lr3.
    split.
    + unfold pop_frame_st, emb. cbn. rewrite Hfr3. cbn. rewrite Hfr1. cbn. reflexivity.
    + constructor; cbn; [|exact HG3|exact HS3]. rewrite Hfr3. cbn. eexists _, _. split; [exact Hfr1|exact HC].
Qed.
End Call.


(* ------------------------------------------------------------------ statements: helpers *)
Lemma lval_target_sim lm evm evr lv :
  match lv with LVar _ => True | LIdx _ idx => allP (fun e => sim [] lm (evm e) (evr e)) idx end ->
  sim [] lm (lval_target evm lv) (lval_target evr lv).
Proof.
  destruct lv as [x|a idx]; cbn [lval_target]; [intros _; apply sim_ret|].
  intros H. apply sim_bind; [apply eval_list_sim; exact H|]. intros. apply sim_ret.
Qed.

Lemma mexec_static_eq k cst t x init : mexec true funcs (Datatypes.S k) (SDecl cst true t x init) =
  (v <- lit_or (meval true funcs k) init ;;
   lift (coerce t v) ;;;
   known <- m_static_known x ;;
   if known then ret tt
   else v2 <- (match init with Some e => meval true funcs k e | None => ret 0 end) ;; d_static_raw cst t x v2).
Proof. reflexivity. Qed.

Lemma static_decl_sim k lm cst t x init :
  In x S -> static_init_ok t init ->
  sim [] lm (mexec true funcs (Datatypes.S k) (SDecl cst true t x init)) (exec funcs (Datatypes.S k) (SDecl cst true t x init)).
Proof.
  intros HxS Hinit rs HI Hn. rewrite mexec_static_eq. rewrite exec_static_decl_eq in *.
  destruct HI as [[C [lr [Hfr HC]]] HG HS].
  assert (Hinv : Inv rs) by (constructor; [eexists _, _; split; [exact Hfr|exact HC]|exact HG|exact HS]).
  assert (Hz : exists z, coerce t z = Val z /\ lit_or (meval true funcs k) init = ret z /\
                         (match init with Some e => meval true funcs k e | None => ret 0 end) (emb [] lm rs) =
                         (fst ((match init with Some e => eval funcs k e | None => ret 0 end) rs), emb [] lm rs) /\
                         snd ((match init with Some e => eval funcs k e | None => ret 0 end) rs) = rs /\
                         (forall v, fst ((match init with Some e => eval funcs k e | None => ret 0 end) rs) = Val v -> v = z)).
  { destruct init as [e|].
    - destruct e; try contradiction. cbn in Hinit. exists z. split; [exact Hinit|]. split; [reflexivity|].
      destruct k; cbn; repeat split; try reflexivity; intros v; [discriminate|intros [= <-]; reflexivity].
    - exists 0. split; [apply coerce_zero|]. cbn. repeat split; try reflexivity. intros v [= <-]. reflexivity. }
  destruct Hz as [z [Hc [Hlit [Hev2 [Hst Hval]]]]]. rewrite Hlit.
  unfold bind, ret, lift, m_static_known in *. rewrite Hc. rewrite (cur_fn_emb_nil lm rs C lr Hfr).
  change (statics_of (cur_fn rs) (emb [] lm rs)) with (statics_of (cur_fn rs) rs).
  destruct (assoc x (statics_of (cur_fn rs) rs)) eqn:Ek.
  - split; [reflexivity|exact Hinv].
  - rewrite Hev2.
    destruct ((match init with Some e => eval funcs k e | None => (fun s : state => (Val 0, s)) end) rs) as [c1 rs1] eqn:E1. cbn [fst snd] in *. subst rs1.
    destruct c1; try (split; [reflexivity|exact Hinv]).
    specialize (Hval a eq_refl). subst a.
    unfold m_declare, d_static_raw. rewrite coerce_all_one, Hc. rewrite Hfr.
    rewrite (cur_fn_emb_nil lm rs C lr Hfr). unfold cur_fn. rewrite Hfr. cbn [fst snd].
    split; [unfold emb, statics_of; cbn; rewrite ?Hfr; reflexivity|]. constructor; cbn; [eexists _, _; split; [first [exact Hfr|reflexivity]|exact HC]|exact HG|].
    intros g y. unfold statics_of. cbn. destruct (Nat.eq_dec g (ffn C)) as [->|Hne].
    + rewrite statics_of_set_same. cbn. destruct (Nat.eqb y x) eqn:Ey; [apply Nat.eqb_eq in Ey; subst y; intros _; exact HxS|apply HS].
    + rewrite statics_of_set_other by congruence. apply HS.
Qed.

(* ------------------------------------------------------------------ the induction on fuel *)
Theorem refine_all : forall k,
  (forall e Gf lm, wf_expr funcs S e -> frames_in_L lm -> frames_in_L Gf ->
     (forall x, In x (vars e) -> ghosts_ok Gf x) -> sim Gf lm (meval true funcs k e) (eval funcs k e)) /\
  (forall st lm, wf_stmt funcs L S st -> frames_in_L lm -> sim [] lm (mexec true funcs k st) (exec funcs k st)).
Proof.
  induction k as [|k [IHe IHx]]; [split; intros; apply sim_fail|].
  assert (IHl : forall es Gf lm, allP (wf_expr funcs S) es -> frames_in_L lm -> frames_in_L Gf ->
            (forall x, In x (flat_map vars es) -> ghosts_ok Gf x) ->
            allP (fun e => sim Gf lm (meval true funcs k e) (eval funcs k e)) es).
  { intros es Gf lm Hw Hlm HGf Hgh. eapply allP_impl; [|exact Hw]. cbn. intros e He Hwe.
    apply IHe; try assumption. intros x Hx. apply Hgh. eapply in_vars_flat; eassumption. }
  assert (IHe0 : forall e lm, wf_expr funcs S e -> frames_in_L lm -> sim [] lm (meval true funcs k e) (eval funcs k e)).
  { intros e lm Hw Hlm. apply IHe; [exact Hw|exact Hlm|intros x; unfold bound_in; cbn; congruence|intros x _; apply ghosts_nil]. }
  assert (IHl0 : forall es lm, allP (wf_expr funcs S) es -> frames_in_L lm ->
            allP (fun e => sim [] lm (meval true funcs k e) (eval funcs k e)) es).
  { intros es lm Hw Hlm. apply IHl; [exact Hw|exact Hlm|intros x; unfold bound_in; cbn; congruence|intros x _; apply ghosts_nil]. }
  assert (IHxl : forall ss lm, allP (wf_stmt funcs L S) ss -> frames_in_L lm ->
            sim [] lm (exec_list (mexec true funcs k) ss) (exec_list (exec funcs k) ss)).
  { intros ss lm Hw Hlm. apply exec_list_sim. eapply allP_impl; [|exact Hw]. cbn. intros st _ Hst. apply IHx; assumption. }
  assert (IHb : forall ss lm, allP (wf_stmt funcs L S) ss -> frames_in_L lm ->
            sim [] lm (blockm true (exec_list (mexec true funcs k) ss)) (in_block (exec funcs k) ss)).
  { intros ss lm Hw Hlm. unfold in_block. apply block_sim. apply IHxl; assumption. }
  assert (IHlv : forall lv lm, wf_lval funcs S lv -> frames_in_L lm ->
            sim [] lm (lval_target (meval true funcs k) lv) (lval_target (eval funcs k) lv)).
  { intros lv lm Hw Hlm. apply lval_target_sim. destruct lv; [exact I|]. apply IHl0; assumption. }
  split.
  - intros e Gf lm Hwf Hlm HGf Hgh. destruct e; cbn [wf_expr] in Hwf.
    + apply sim_ret.
    + apply read_sim; [exact Hlm|apply Hgh; left; reflexivity].
    + cbn [meval eval]. apply sim_bind; [apply IHe; assumption|]. intros. apply sim_lift.
    + destruct Hwf as [H1 H2]. cbn [meval eval].
      apply sim_bind; [apply IHe; try assumption; intros x Hx; apply Hgh; cbn; apply in_or_app; left; exact Hx|]. intros.
      apply sim_bind; [apply IHe; try assumption; intros x Hx; apply Hgh; cbn; apply in_or_app; right; exact Hx|]. intros. apply sim_lift.
    + destruct Hwf as [H1 H2]. cbn [meval eval].
      apply sim_bind; [apply IHe; try assumption; intros x Hx; apply Hgh; cbn; apply in_or_app; left; exact Hx|]. intros v.
      destruct (v =? 0); [apply sim_ret|].
      apply sim_bind; [apply IHe; try assumption; intros x Hx; apply Hgh; cbn; apply in_or_app; right; exact Hx|]. intros. apply sim_ret.
    + destruct Hwf as [H1 H2]. cbn [meval eval].
      apply sim_bind; [apply IHe; try assumption; intros x Hx; apply Hgh; cbn; apply in_or_app; left; exact Hx|]. intros v.
      destruct (v =? 0); [|apply sim_ret].
      apply sim_bind; [apply IHe; try assumption; intros x Hx; apply Hgh; cbn; apply in_or_app; right; exact Hx|]. intros. apply sim_ret.
    + destruct Hwf as [H1 [H2 H3]]. cbn [meval eval].
      apply sim_bind; [apply IHe; try assumption; intros x Hx; apply Hgh; cbn; apply in_or_app; left; exact Hx|]. intros v.
      destruct (v =? 0); apply IHe; try assumption; intros x Hx; apply Hgh; cbn; apply in_or_app; right; apply in_or_app; [right|left]; exact Hx.
    + apply call_sim; assumption.
    + cbn [meval eval]. apply sim_bind.
      * apply eval_list_sim. apply IHl; try assumption. intros x Hx. apply Hgh. right. exact Hx.
      * intros. apply read_sim; [exact Hlm|apply Hgh; left; reflexivity].
  - intros st lm Hwf Hlm. destruct st; cbn [wf_stmt] in Hwf.
    + destruct sta.
      * destruct Hwf as [H1 H2]. apply static_decl_sim; assumption.
      * destruct Hwf as [H1 H2]. cbn [mexec exec].
        apply sim_bind; [destruct init; [apply IHe0; assumption|apply sim_ret]|]. intros. apply declare_sim. exact H1.
    + destruct Hwf as [H1 H2]. cbn [mexec exec].
      apply sim_bind; [apply eval_list_sim; apply IHl0; assumption|]. intros. apply declare_sim. exact H1.
    + destruct Hwf as [H1 H2]. destruct op; cbn [mexec exec].
      * apply sim_bind; [apply IHlv; assumption|]. intros tg.
        apply sim_bind; [apply read_sim; [exact Hlm|apply ghosts_nil]|]. intros.
        apply sim_bind; [apply IHe0; assumption|]. intros.
        apply sim_bind; [apply sim_lift|]. intros. apply write_sim; [exact Hlm|apply ghosts_nil].
      * apply sim_bind; [apply IHe0; assumption|]. intros.
        apply sim_bind; [apply IHlv; assumption|]. intros tg. apply assign_sim. exact Hlm.
    + cbn [mexec exec]. apply sim_bind; [apply IHlv; assumption|]. intros tg.
      apply sim_bind; [apply read_sim; [exact Hlm|apply ghosts_nil]|]. intros.
      apply sim_bind; [apply sim_lift|]. intros. apply write_sim; [exact Hlm|apply ghosts_nil].
    + cbn [mexec exec]. apply sim_bind; [apply IHe0; assumption|]. intros. apply sim_ret.
    + destruct Hwf as [H1 [H2 H3]]. cbn [mexec exec].
      apply sim_bind; [apply IHe0; assumption|]. intros v. destruct (v =? 0); apply IHb; assumption.
    + destruct Hwf as [H1 H2]. cbn [mexec exec].
      apply sim_bind; [apply IHe0; assumption|]. intros v. destruct (v =? 0); [apply sim_ret|].
      apply sim_loop_step; [apply IHb; assumption|]. apply IHx; [cbn [wf_stmt]; split; assumption|exact Hlm].
    + destruct Hwf as [H1 [H2 [H3 H4]]]. cbn [mexec exec]. apply block_sim.
      apply sim_bind; [apply IHxl; assumption|]. intros _.
      apply sim_bind; [apply IHe0; assumption|]. intros v. destruct (v =? 0); [apply sim_ret|].
      apply sim_loop_step; [apply IHb; assumption|].
      apply sim_bind; [apply IHxl; assumption|]. intros _.
      apply IHx; [cbn [wf_stmt allP fold_right]; repeat split; assumption|exact Hlm].
    + apply sim_lift.
    + apply sim_lift.
    + destruct e; cbn [mexec exec]; [|apply sim_lift]. cbn [wf_opt] in Hwf.
      apply sim_bind; [apply IHe0; assumption|]. intros. apply sim_lift.
    + cbn [mexec exec]. apply IHb; assumption.
    + cbn [mexec exec]. apply sim_bind; [apply print_args_sim; apply IHl0; assumption|]. intros _.
      destruct nl; [apply out_sim|apply sim_ret].
    + cbn [mexec exec]. apply decl_members_sim. intros i Hi. apply Hwf. exact Hi.
    + cbn [mexec exec]. apply copy_members_sim. exact Hlm.
Qed.
End Refine.

(* ------------------------------------------------------------------ whole programs *)
Lemma assoc_in_fst {A} x (l : list (ident * A)) : assoc x l <> None -> In x (map fst l).
Proof.
  induction l as [|[y a] r IH]; cbn; [congruence|]. destruct (Nat.eqb x y) eqn:E.
  - apply Nat.eqb_eq in E. intros _. left. congruence.
  - intros H. right. apply IH. exact H.
Qed.

Lemma init_globals_names gs acc g x :
  Print.init_globals gs acc = Some g -> assoc x g <> None -> In x (map gname gs) \/ assoc x acc <> None.
Proof.
  revert acc. induction gs as [|d r IH]; intros acc; cbn [Print.init_globals map].
  - intros [= <-] H. right. exact H.
  - destruct (coerce_all (gty d) (ginit d)); try discriminate. intros Hg Hx.
    destruct (IH _ Hg Hx) as [H|H]; [left; right; exact H|].
    cbn in H. destruct (Nat.eqb x (gname d)) eqn:E; [apply Nat.eqb_eq in E; left; left; congruence|right; exact H].
Qed.

Theorem refines_program p L S fuel :
  program_ok L S p -> snd (Print.run fuel p) <> Print.Failed EUnbound ->
  mech_run true fuel p = Print.run fuel p.
Proof.
  intros [HSC Hmain] Hn. unfold Print.run, mech_run in *.
  unfold Print.init_state in *. destruct (Print.init_globals (pglobals p) []) as [g|] eqn:Eg; [|reflexivity].
  pose proof (refine_all (pfuncs p) L (map gname (pglobals p)) S HSC fuel) as [_ IHx].
  assert (Hsim : sim L (map gname (pglobals p)) S [] [] (exec_list (mexec true (pfuncs p) fuel) (pmain p)) (exec_list (exec (pfuncs p) fuel) (pmain p))).
  { apply exec_list_sim. eapply allP_impl; [|exact Hmain]. cbn. intros st _ Hst. apply IHx; [exact Hst|].
    intros x. unfold bound_in. cbn. congruence. }
  assert (HI : Inv L (map gname (pglobals p)) S (Print.state_with g)).
  { constructor.
    - eexists _, _. split; [reflexivity|]. intros x. cbn. congruence.
    - intros x Hx. cbn in Hx. destruct (init_globals_names _ _ _ x Eg Hx) as [H|H]; [exact H|cbn in H; congruence].
    - intros f x. cbn. congruence. }
  specialize (Hsim (Print.state_with g) HI).
  change (emb [] [] (Print.state_with g)) with (Print.state_with g) in Hsim.
  destruct (exec_list (exec (pfuncs p) fuel) (pmain p) (Print.state_with g)) as [c rs'] eqn:E. cbn [fst snd] in *.
  destruct Hsim as [Hm _].
  - intros ->. apply Hn. reflexivity.
  - rewrite Hm. reflexivity.
Qed.
