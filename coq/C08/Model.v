(* C08 - definitions used by the statements: the name side condition under which the implementation's
   dynamic lookup (Mech, C08/Frames.v) coincides with the lexical one (Ref, Lang/Sem.v).

   A program is described by three name sets: L (names declared as parameters or non-static locals,
   anywhere), Gn (global names), S (names declared `static`, anywhere). The side condition is
     - L is disjoint from Gn and from S, and S is disjoint from Gn
       ("no name free in a callee is a local of any - hence of any active - caller; no static shares
        a global's name");
     - at every call site, argument j mentions no parameter 1..j-1 of the callee and no static name
       ("no later argument mentions an earlier parameter name"; arguments are evaluated with the
        CALLEE as current function, so the caller's statics are out of reach);
     - a static's initialiser is absent or a literal that fits the type (it is evaluated on every
       execution of the declaration, twice on the first).
   Definitions only. *)
From Coq Require Import List ZArith Bool Arith.
From Cb Require Import Lang.Syntax Lang.Sem.
Import ListNotations.
Local Open Scope Z_scope.

Definition allP {A} (P : A -> Prop) (l : list A) : Prop := fold_right (fun a acc => P a /\ acc) True l.

(* variables mentioned by an expression, including those inside the arguments of nested calls (callee
   bodies are not part of the expression) *)
Fixpoint vars (e : expr) : list ident :=
  match e with
  | ENum _ => []
  | EVar x => [x]
  | EUn _ a => vars a
  | EBin _ a b | EAnd a b | EOr a b => vars a ++ vars b
  | ECond c a b => vars c ++ vars a ++ vars b
  | ECall _ args => flat_map vars args
  | EIdx a idx => a :: flat_map vars idx
  end.

Section SideCondition.
Variable funcs : list func.
Variables L Gn S : list ident.

(* argument j: no earlier parameter of the callee ([seen]), no static *)
Fixpoint args_ok (seen : list ident) (ps : list param) (es : list expr) : Prop :=
  match es with
  | [] => True
  | e :: er =>
      (forall x, In x (vars e) -> ~ In x seen /\ ~ In x S) /\
      match ps with
      | p :: pr => args_ok (pname p :: seen) pr er
      | [] => args_ok seen [] er
      end
  end.

Fixpoint wf_expr (e : expr) : Prop :=
  match e with
  | ENum _ | EVar _ => True
  | EUn _ a => wf_expr a
  | EBin _ a b | EAnd a b | EOr a b => wf_expr a /\ wf_expr b
  | ECond c a b => wf_expr c /\ wf_expr a /\ wf_expr b
  | ECall f args =>
      allP wf_expr args /\
      match find_func f funcs with Some fd => args_ok [] (fparams fd) args | None => True end
  | EIdx _ idx => allP wf_expr idx
  end.

Definition wf_opt (o : option expr) : Prop := match o with Some e => wf_expr e | None => True end.
Definition wf_lval (lv : lval) : Prop := match lv with LVar _ => True | LIdx _ idx => allP wf_expr idx end.

Definition static_init_ok (t : ty) (init : option expr) : Prop :=
  match init with
  | None => True
  | Some (ENum z) => coerce t z = Val z
  | Some _ => False
  end.

Fixpoint wf_stmt (st : stmt) : Prop :=
  match st with
  | SDecl _ sta t x init => if sta then In x S /\ static_init_ok t init else In x L /\ wf_opt init
  | SArr _ _ x _ init => In x L /\ allP wf_expr init
  | SAssign lv _ e => wf_lval lv /\ wf_expr e
  | SIncDec _ _ lv => wf_lval lv
  | SExpr e => wf_expr e
  | SIf c s1 s2 => wf_expr c /\ allP wf_stmt s1 /\ allP wf_stmt s2
  | SWhile c b => wf_expr c /\ allP wf_stmt b
  | SFor i c u b => allP wf_stmt i /\ wf_expr c /\ allP wf_stmt u /\ allP wf_stmt b
  | SBreak | SContinue => True
  | SReturn o => wf_opt o
  | SBlock ss => allP wf_stmt ss
  | SPrint _ args => allP wf_expr args
  | SStruct _ x flds => forall j, (j < List.length flds)%nat -> In (mkey x j) L     (* member cells are locals *)
  | SCopy _ _ _ => True
  end.

Definition wf_func (fd : func) : Prop :=
  allP (fun p => In (pname p) L /\ wf_opt (pdef p)) (fparams fd) /\ allP wf_stmt (fbody fd).

Record side_condition : Prop := {
  sc_LG : forall x, In x L -> ~ In x Gn;
  sc_LS : forall x, In x L -> ~ In x S;
  sc_SG : forall x, In x S -> ~ In x Gn;
  sc_funcs : forall fd, In fd funcs -> wf_func fd
}.
End SideCondition.

(* the whole program: Gn are the declared globals *)
Definition program_ok (L S : list ident) (p : program) : Prop :=
  side_condition (pfuncs p) L (map gname (pglobals p)) S /\ allP (wf_stmt (pfuncs p) L S) (pmain p).
