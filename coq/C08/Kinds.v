(* C08 - CbCall ("K"): calls whose results, parameters and locals are of EVERY kind, and the
   `current_function_name` register of the implementation.

   The shared core language (Lang/Syntax.v) has integer variables only, so the call protocol was tied
   to the code for `long` results alone.  evaluate_function_call_impl (evaluator/functions/
   call_impl.cpp:4184-7026) leaves through FOUR different exits, chosen by how the body ends and by
   the kind of the returned value:

     XEnd      the body runs to its end (void function, or a result function without `return`):
               6463-6467  cleanup_method_context(); pop_scope(); current_function_name = prev; return 0
     XInt      `return` of an int64 result (tiny..long, bool, char, pointer) or `return;`:
               inner `catch (ReturnException)` 6468, 6768-6771 pop_scope(); current_function_name = prev;
               ... return ret.value (6871)
     XRethrow  `return` of a function pointer / struct / array / string / float / double / quad /
               reference: the same handler RE-THROWS the exception (6773-6800) into the outer
               `catch (ReturnException)` 6873, which restores once more (6907-6911) and throws on
     XErr      a runtime error: `catch (...)` 6978, 7018-7024 pop_scope(); current_function_name = prev; throw
               (observable: `try (f(x))` catches the error and the caller goes on)

   The register matters because a `static` local is stored under "<current_function_name>::<name>"
   (managers/variables/static.cpp:24,61): when an exit forgets to put the caller's name back, the
   caller's statics silently become the callee's for the rest of the caller's body.

   This file: syntax with kinds (values are integer payloads - a non-integer value is treated
   abstractly as its payload: "s<z>", <z>.5, a struct whose member `a` is z, an array whose element 0
   is z), ONE evaluator with two switches:
     [mech = false]  Ref: a static belongs to the function of the running activation (the frame's
                     [kfn]) - the property's reading;
     [mech = true]   Mech: a static is looked up under the register [kcur], which a call saves, sets
                     and restores on each exit according to a [policy] (one flag per restore statement
                     of the C++; [code_policy] = the code as it is).
   Methods (`x.m(a)`), `try (f(a))`, the `for` header and the surface form of every kind are printing
   matters (ocaml/c08_driver.ml); semantically a method is a function whose first parameter is the
   receiver (the generated methods never assign to self: write-back is C07/C12's business), and
   [KTry] catches a division by zero.  Lookup is lexical and there is one variable scope per
   activation: dynamic lookup, arguments evaluated inside the callee's scope and block scoping are
   modelled on the core language (Frames.v); the K programs the check generates stay inside that
   side condition.  Definitions only. *)
From Coq Require Import List ZArith Bool Arith Lia.
From Cb Require Import Lang.Syntax Lang.Sem Lang.Print.
Import ListNotations.
Local Open Scope Z_scope.

Inductive kind := KLong | KInt | KBool | KStr | KDbl | KFlt | KQuad | KStruct | KArr | KRef | KVoid.

(* call_impl.cpp:6773-6800: the results that are re-thrown instead of returned as int64 *)
Definition rethrown (k : kind) : bool :=
  match k with KStr | KDbl | KFlt | KQuad | KStruct | KArr | KRef => true | KLong | KInt | KBool | KVoid => false end.

Inductive kexpr :=
| KNum (z : Z)                                  (* integer literal *)
| KLit (k : kind) (z : Z)                       (* literal of kind k with payload z: "s<z>", <z>.5, <z>.5f, <z>.5q *)
| KVar (x : ident)                              (* a variable of any kind: its payload *)
| KGet (x : ident)                              (* the payload of a struct / array variable as an integer: x.a, x[0] *)
| KBin (o : binop) (a b : kexpr)
| KCall (f : ident) (args : list kexpr).        (* f(args), or args[0].f(args[1..]) when f is a method *)

Inductive kstmt :=
| KDecl (sta : bool) (k : kind) (x : ident) (e : kexpr)   (* [static] K x = e; *)
| KAsg (x : ident) (e : kexpr)                            (* x = e;  (x.a = e; / x[0] = e; for an integer e) *)
| KExpr (e : kexpr)
| KTry (x : ident) (e : kexpr)                            (* x = e, or x = -1 when e ends in a division by zero: try (e) *)
| KIf (c : kexpr) (s1 s2 : list kstmt)
| KFor (i : ident) (n : kexpr) (body : list kstmt)        (* for (long i = 0; i < n; i = i + 1) { body } *)
| KLoop (i : ident) (n : kexpr) (body : list kstmt)       (* the same loop after its initialisation *)
| KRet (e : option kexpr)
| KPrint (args : list (kind * kexpr)).                    (* println(args): each argument rendered by its kind *)

Record kparam := { kpk : kind; kpn : ident; kpd : option Z }.        (* default: a literal payload *)
(* [kfvia]: how the function is called - 0 f(a), 1 as a method x.f(a) (parameter 0 is the receiver), 2 through a
   function pointer p(a), 3 through a dereferenced function pointer; a printing matter, the semantics is the same *)
Record kfunc := { kfname : ident; kfret : kind; kfvia : nat; kfparams : list kparam; kfbody : list kstmt }.
Record kprog := { kpglob : list (ident * Z); kpfuncs : list kfunc; kpmain : list kstmt }.

(* ---------- state ---------- *)
Record kentry := { kk : kind; kv : Z }.
Definition kscope := list (ident * kentry).
Record kframe := { kfn : ident; kvars : kscope }.
Inductive kitem := KOVal (k : kind) (z : Z) | KOSp | KONl.
Record kstate := { kglob : kscope; kframes : list kframe; kstat : list (ident * kscope); kout : list kitem;
                   kcur : ident }.                        (* kcur = Interpreter::current_function_name *)

Definition with_glob (g : kscope) (s : kstate) : kstate :=
  {| kglob := g; kframes := kframes s; kstat := kstat s; kout := kout s; kcur := kcur s |}.
Definition with_frames (fs : list kframe) (s : kstate) : kstate :=
  {| kglob := kglob s; kframes := fs; kstat := kstat s; kout := kout s; kcur := kcur s |}.
Definition with_stat (st : list (ident * kscope)) (s : kstate) : kstate :=
  {| kglob := kglob s; kframes := kframes s; kstat := st; kout := kout s; kcur := kcur s |}.
Definition with_out (o : list kitem) (s : kstate) : kstate :=
  {| kglob := kglob s; kframes := kframes s; kstat := kstat s; kout := o; kcur := kcur s |}.
Definition with_cur (c : ident) (s : kstate) : kstate :=
  {| kglob := kglob s; kframes := kframes s; kstat := kstat s; kout := kout s; kcur := c |}.

Definition KM (A : Type) := kstate -> ctl A * kstate.
Definition kret {A} (a : A) : KM A := fun s => (Val a, s).
Definition kfail {A} (e : err) : KM A := fun s => (Fail e, s).
Definition klift {A} (c : ctl A) : KM A := fun s => (c, s).
Definition kbind {A B} (m : KM A) (f : A -> KM B) : KM B :=
  fun s => match m s with
           | (Val a, s') => f a s'
           | (Brk, s') => (Brk, s')
           | (Cnt, s') => (Cnt, s')
           | (Ret v, s') => (Ret v, s')
           | (Fail e, s') => (Fail e, s')
           end.
Notation "x <~ m ;; f" := (kbind m (fun x => f)) (at level 61, m at next level, right associativity).
Notation "m ;;~ f" := (kbind m (fun _ => f)) (at level 61, right associativity).

Definition top_fn (fs : list kframe) : ident := match fs with f :: _ => kfn f | [] => 0%nat end.
Definition top_vars (fs : list kframe) : kscope := match fs with f :: _ => kvars f | [] => [] end.
Definition set_top_vars (vs : kscope) (fs : list kframe) : list kframe :=
  match fs with f :: r => {| kfn := kfn f; kvars := vs |} :: r | [] => [] end.
Definition kstatics (f : ident) (s : kstate) : kscope := match assoc f (kstat s) with Some sc => sc | None => [] end.
Definition kset_stat (f : ident) (sc : kscope) (l : list (ident * kscope)) : list (ident * kscope) :=
  match assoc f l with Some _ => assoc_set f sc l | None => (f, sc) :: l end.

(* the value a store into a location of kind k keeps (check_type_range for `int`; the other kinds
   the generators use hold every payload) *)
Definition kcoerce (k : kind) (v : Z) : ctl Z :=
  match k with
  | KInt => if (-2147483648 <=? v) && (v <=? 2147483647) then Val v else Fail ERange
  | _ => Val v
  end.

(* one restore statement of the C++ per flag *)
Record policy := { p_end : bool;      (* 6466: the body ran to its end *)
                   p_ret : bool;      (* 6771: inner ReturnException handler, before the re-throws *)
                   p_int : bool;      (* NOT in the code: a restore behind the re-throws (int64 results only) - where a
                                         change that moves 6771 down puts it *)
                   p_outer : bool;    (* 6911: outer ReturnException handler (re-thrown results only) *)
                   p_err : bool }.    (* 7023: catch (...) *)
Definition code_policy : policy := {| p_end := true; p_ret := true; p_int := false; p_outer := true; p_err := true |}.

Section KEval.
Variable mech : bool.
Variable pol : policy.
Variable funcs : list kfunc.

(* "<function>::" of a static: the running activation's function (Ref) / the register (Mech) *)
Definition key (s : kstate) : ident := if mech then kcur s else top_fn (kframes s).

(* lookup: the running activation, then the function's statics, then the globals *)
Definition k_get (x : ident) (s : kstate) : option kentry :=
  match assoc x (top_vars (kframes s)) with
  | Some e => Some e
  | None => match assoc x (kstatics (key s) s) with
            | Some e => Some e
            | None => assoc x (kglob s)
            end
  end.
Definition k_put (x : ident) (e : kentry) (s : kstate) : kstate :=
  match assoc x (top_vars (kframes s)) with
  | Some _ => with_frames (set_top_vars (assoc_set x e (top_vars (kframes s))) (kframes s)) s
  | None => match assoc x (kstatics (key s) s) with
            | Some _ => with_stat (kset_stat (key s) (assoc_set x e (kstatics (key s) s)) (kstat s)) s
            | None => with_glob (assoc_set x e (kglob s)) s
            end
  end.

Definition k_read (x : ident) : KM Z := fun s =>
  match k_get x s with Some e => (Val (kv e), s) | None => (Fail EUnbound, s) end.
(* a store keeps the kind of the location *)
Definition k_write (x : ident) (v : Z) : KM unit := fun s =>
  match k_get x s with
  | None => (Fail EUnbound, s)
  | Some e => match kcoerce (kk e) v with
              | Val v' => (Val tt, k_put x {| kk := kk e; kv := v' |} s)
              | Fail er => (Fail er, s)
              | _ => (Fail EUndef, s)
              end
  end.
(* a local / parameter: into the single scope of the running activation *)
Definition k_declare (k : kind) (x : ident) (v : Z) : KM unit := fun s =>
  match kframes s with
  | [] => (Fail EUnbound, s)
  | _ :: _ =>
      match kcoerce k v with
      | Val v' => (Val tt, with_frames (set_top_vars ((x, {| kk := k; kv := v' |}) :: top_vars (kframes s)) (kframes s)) s)
      | Fail er => (Fail er, s)
      | _ => (Fail EUndef, s)
      end
  end.
Definition k_static_known (x : ident) : KM bool := fun s =>
  (Val (match assoc x (kstatics (key s) s) with Some _ => true | None => false end), s).
Definition k_static_declare (k : kind) (x : ident) (v : Z) : KM unit := fun s =>
  match kcoerce k v with
  | Val v' => (Val tt, with_stat (kset_stat (key s) ((x, {| kk := k; kv := v' |}) :: kstatics (key s) s) (kstat s)) s)
  | Fail er => (Fail er, s)
  | _ => (Fail EUndef, s)
  end.
Definition k_out (o : kitem) : KM unit := fun s => (Val tt, with_out (o :: kout s) s).

Definition push_frame (f : ident) (s : kstate) : kstate := with_frames ({| kfn := f; kvars := [] |} :: kframes s) s.
Definition pop_frame (s : kstate) : kstate := with_frames (tl (kframes s)) s.
(* `current_function_name = prev_function_name;` when the flag of that statement is set *)
Definition restore (flag : bool) (prev : ident) (s : kstate) : kstate := if flag then with_cur prev s else s.

Fixpoint kfind (f : ident) (l : list kfunc) : option kfunc :=
  match l with [] => None | x :: r => if Nat.eqb f (kfname x) then Some x else kfind f r end.
Definition krequired (ps : list kparam) : nat :=
  List.length (filter (fun p => match kpd p with None => true | Some _ => false end) ps).

(* the value of a call whose body ended with control [c] *)
Definition k_result (rk : kind) (c : ctl unit) : ctl Z :=
  match c with
  | Ret (Some v) => kcoerce rk v
  | Fail er => Fail er
  | _ => Val 0
  end.

(* evaluate_function_call_impl from 4613 on: save the register, set it, push the scope, run
   parameters + body, leave through the exit the outcome selects *)
Definition k_call (fd : kfunc) (inner : KM unit) : KM Z := fun s =>
  let prev := kcur s in                                              (* 4613 *)
  let s1 := push_frame (kfname fd) (with_cur (kfname fd) s) in       (* 4614; push_scope *)
  let '(c, s2) := inner s1 in
  match c with
  | Ret v =>
      let s3 := restore (p_ret pol) prev (pop_frame s2) in           (* 6769-6771 *)
      if rethrown (kfret fd)
      then (k_result (kfret fd) c, restore (p_outer pol) prev s3)    (* throw ret; 6873 ... 6911; throw ret *)
      else (k_result (kfret fd) c, restore (p_int pol) prev s3)      (* return ret.value *)
  | Fail e => (Fail e, restore (p_err pol) prev (pop_frame s2))      (* 6978 ... 7019-7024 *)
  | _ => (Val 0, restore (p_end pol) prev (pop_frame s2))            (* 6464-6467 *)
  end.

(* `try (e)`: a division by zero inside e is caught (the value becomes -1) and the caller goes on;
   every other outcome is e's *)
Definition k_catch (m : KM Z) (h : Z -> KM unit) : KM unit := fun s =>
  match m s with
  | (Fail EDiv0, s') => h (-1) s'
  | (Val v, s') => h v s'
  | (Brk, s') => (Brk, s') | (Cnt, s') => (Cnt, s') | (Ret v, s') => (Ret v, s') | (Fail er, s') => (Fail er, s')
  end.

Section WithRec.
Variable ev : kexpr -> KM Z.
Variable ex : kstmt -> KM unit.

(* arguments: left to right in the caller, each converted to its parameter's kind *)
Fixpoint kargs (ps : list kparam) (es : list kexpr) : KM (list Z) :=
  match es with
  | [] => kret []
  | e :: r =>
      v <~ ev e ;;
      match ps with
      | p :: pr => v' <~ klift (kcoerce (kpk p) v) ;; vs <~ kargs pr r ;; kret (v' :: vs)
      | [] => vs <~ kargs [] r ;; kret (v :: vs)
      end
  end.

(* positional binding; omitted trailing parameters take their declared defaults *)
Fixpoint kbind_params (ps : list kparam) (vs : list Z) : KM unit :=
  match ps with
  | [] => kret tt
  | p :: pr =>
      match vs with
      | v :: vr => k_declare (kpk p) (kpn p) v ;;~ kbind_params pr vr
      | [] => match kpd p with
              | Some d => k_declare (kpk p) (kpn p) d ;;~ kbind_params pr []
              | None => kfail EArity
              end
      end
  end.

Fixpoint kexec_list (ss : list kstmt) : KM unit :=
  match ss with
  | [] => kret tt
  | s :: r => ex s ;;~ kexec_list r
  end.

Fixpoint kprint_args (first : bool) (es : list (kind * kexpr)) : KM unit :=
  match es with
  | [] => kret tt
  | (k, e) :: r => (if first then kret tt else k_out KOSp) ;;~ v <~ ev e ;; k_out (KOVal k v) ;;~ kprint_args false r
  end.
End WithRec.

Fixpoint keval (n : nat) (e : kexpr) {struct n} : KM Z :=
  match n with
  | O => kfail ENoFuel
  | S k =>
    match e with
    | KNum z => kret z
    | KLit _ z => kret z
    | KVar x => k_read x
    | KGet x => k_read x
    | KBin o a b => x <~ keval k a ;; y <~ keval k b ;; klift (arith o x y)
    | KCall f args =>
        match kfind f funcs with
        | None => kfail EUnbound
        | Some fd =>
            if (Nat.ltb (List.length args) (krequired (kfparams fd))) || (Nat.ltb (List.length (kfparams fd)) (List.length args))
            then kfail EArity
            else vs <~ kargs (keval k) (kfparams fd) args ;;
                 k_call fd (kbind_params (kfparams fd) vs ;;~ kexec_list (kexec k) (kfbody fd))
        end
    end
  end
with kexec (n : nat) (st : kstmt) {struct n} : KM unit :=
  match n with
  | O => kfail ENoFuel
  | S k =>
    match st with
    | KDecl true kd x e =>
        known <~ k_static_known x ;;
        if known then kret tt else v <~ keval k e ;; k_static_declare kd x v
    | KDecl false kd x e => v <~ keval k e ;; k_declare kd x v
    | KAsg x e => v <~ keval k e ;; k_write x v
    | KExpr e => keval k e ;;~ kret tt
    | KTry x e => k_catch (keval k e) (k_write x)
    | KIf c s1 s2 => x <~ keval k c ;; if x =? 0 then kexec_list (kexec k) s2 else kexec_list (kexec k) s1
    | KFor i bound body => k_declare KLong i 0 ;;~ kexec k (KLoop i bound body)
    | KLoop i bound body =>
        c <~ keval k (KBin Lt (KVar i) bound) ;;
        if c =? 0 then kret tt
        else kexec_list (kexec k) body ;;~ (old <~ k_read i ;; r <~ klift (arith Add old 1) ;; k_write i r) ;;~
             kexec k (KLoop i bound body)
    | KRet None => klift (Ret None)
    | KRet (Some e) => v <~ keval k e ;; klift (Ret (Some v))
    | KPrint args => kprint_args (keval k) true args ;;~ k_out KONl
    end
  end.
End KEval.

(* a whole program: `main` runs in its own scope under the function name 0 *)
Definition kinit (p : kprog) : kstate :=
  {| kglob := map (fun g => (fst g, {| kk := KLong; kv := snd g |})) (kpglob p);
     kframes := [{| kfn := 0%nat; kvars := [] |}]; kstat := []; kout := []; kcur := 0%nat |}.

Definition k_run (mech : bool) (pol : policy) (fuel : nat) (p : kprog) : list kitem * outcome :=
  let '(c, s) := kexec_list (kexec mech pol (kpfuncs p) fuel) (kpmain p) (kinit p) in
  (rev (kout s), match c with Fail e => Failed e | _ => Finished end).

Definition kref_run : nat -> kprog -> list kitem * outcome := k_run false code_policy.
Definition kmech_run : nat -> kprog -> list kitem * outcome := k_run true code_policy.
