(* C08 - Mech: the implementation's variable lookup and call protocol, as coded today.

   State and syntax are those of the reference interpreter (Lang/Sem.v); what differs is what the
   C++ does differently:

   * [dget]/[dput]  = VariableManager::find_variable (managers/variables/manager.cpp:73): walk EVERY
     scope on the scope stack, innermost first - i.e. the locals of the running activation, then the
     locals of its caller, of the caller's caller, ... - then the globals, then the statics
     "<current_function_name>::<name>" (managers/variables/static.cpp:14). Ref looks in the running
     activation only, then its statics, then the globals.
   * a call (evaluator/functions/call_impl.cpp:4184 onwards) first pushes the callee's scope and sets
     current_function_name to the callee, THEN tests the argument count (4612), THEN for each parameter
     in turn evaluates the argument (or the default) and assigns the parameter
     (assign_function_parameter, manager.cpp:1467: into the current = callee's scope). So argument
     i+1 is evaluated with parameters 1..i of the callee already visible, and with the CALLEE's
     statics (not the caller's) reachable.
   * blocks do not push a variable scope (one Scope per activation; Interpreter::push_scope is called
     by calls only): with [blk = false] a declaration goes to the single scope of the activation,
     where it replaces an entry of the same name (`variables[name] = var`).  [blk = true] keeps the
     lexical block scopes of Ref; it is the variant the refinement theorem is stated for (block
     scoping is property C01's finding C01-block-scope, not a C08 matter).
   * a `static` declaration (managers/variables/declaration.cpp:2061, static.cpp:24) evaluates its
     initialiser like any declaration (range check included) BEFORE it asks whether the static
     already exists, on every execution; when the static does not exist yet the initialiser is
     evaluated a second time by create_static_variable and that value is stored unchecked.

   Everything else (arithmetic, range-checked stores, arrays, control flow, output, the argument
   conversion to the parameter type, the conversion of the result) is Ref's. Definitions only. *)
From Coq Require Import List ZArith Bool Arith Lia.
From Cb Require Import Lang.Syntax Lang.Sem Lang.Print.
Import ListNotations.
Local Open Scope Z_scope.

(* ---------- find_variable: every scope of every activation, innermost first ---------- *)
Fixpoint frames_get (x : ident) (fs : list frame) : option entry :=
  match fs with
  | [] => None
  | f :: r => match scopes_get x (fscopes f) with Some e => Some e | None => frames_get x r end
  end.
Fixpoint frames_set (x : ident) (e : entry) (fs : list frame) : list frame :=
  match fs with
  | [] => []
  | f :: r => match scopes_get x (fscopes f) with
              | Some _ => {| ffn := ffn f; fscopes := scopes_set x e (fscopes f) |} :: r
              | None => f :: frames_set x e r
              end
  end.

Definition dget (x : ident) (s : state) : option entry :=
  match frames_get x (sframes s) with
  | Some e => Some e
  | None => match assoc x (sglob s) with
            | Some e => Some e
            | None => assoc x (statics_of (cur_fn s) s)
            end
  end.

Definition dput (x : ident) (e : entry) (s : state) : state :=
  match frames_get x (sframes s) with
  | Some _ => {| sglob := sglob s; sframes := frames_set x e (sframes s); sstat := sstat s; sout := sout s |}
  | None => match assoc x (sglob s) with
            | Some _ => {| sglob := assoc_set x e (sglob s); sframes := sframes s; sstat := sstat s; sout := sout s |}
            | None => {| sglob := sglob s; sframes := sframes s;
                         sstat := set_stat (cur_fn s) (assoc_set x e (statics_of (cur_fn s) s)) (sstat s); sout := sout s |}
            end
  end.

Definition d_read (x : ident) (idx : list Z) : M Z := fun s =>
  match dget x s with
  | None => (Fail EUnbound, s)
  | Some e => match flat_index (edims e) idx 0 with
              | None => (Fail EBounds, s)
              | Some k => (Val (nth (Z.to_nat k) (evals e) 0), s)
              end
  end.

Definition d_write (x : ident) (idx : list Z) (v : Z) : M unit := fun s =>
  match dget x s with
  | None => (Fail EUnbound, s)
  | Some e =>
      if econst e then (Fail EConst, s) else
      match flat_index (edims e) idx 0 with
      | None => (Fail EBounds, s)
      | Some k => match coerce (ety e) v with
                  | Val v' => (Val tt, dput x {| ety := ety e; econst := false; edims := edims e;
                                                evals := set_nth (Z.to_nat k) v' (evals e) |} s)
                  | Fail er => (Fail er, s)
                  | _ => (Fail EUndef, s)
                  end
      end
  end.

(* create_static_variable: "<function>::<name>" := the value, no range check *)
Definition d_static_raw (cst : bool) (t : ty) (x : ident) (v : Z) : M unit := fun s =>
  (Val tt, {| sglob := sglob s; sframes := sframes s;
              sstat := set_stat (cur_fn s) ((x, {| ety := t; econst := cst; edims := []; evals := [v] |}) :: statics_of (cur_fn s) s) (sstat s);
              sout := sout s |}).

(* plain assignment `x = v;` to a name find_variable does not know creates the variable in the current
   scope (managers/variables/assignment.cpp: the value is stored in a fresh Variable whose type is the
   type of the VALUE - modelled as `long`, which is exact for long-typed values; a bool-typed value,
   e.g. a comparison, makes a bool variable: not modelled, the generators never create variables this
   way, the one recorded replay uses a literal); compound assignment, ++/-- and element assignment
   report "Undefined variable" *)
Definition tlong : ty := {| base := TLong; uns := false |}.
Definition d_assign (lv : lval) (x : ident) (idx : list Z) (v : Z) : M unit := fun s =>
  match lv, dget x s with
  | LVar _, None => m_declare false false tlong x [] [v] s
  | _, _ => d_write x idx v s
  end.

(* executors/control_flow_executor.cpp:execute_for_statement: a declaration in the init clause is
   skipped when the name already exists in the CURRENT scope, and a variable it did declare is erased
   from the current scope when the loop ends normally (variable_exists_in_current_scope /
   remove_variable_from_current_scope) *)
Definition top_has (x : ident) : M bool := fun s =>
  (Val (match sframes s with
        | f :: _ => match fscopes f with sc :: _ => match assoc x sc with Some _ => true | None => false end | [] => false end
        | [] => false
        end), s).
Fixpoint remove_all {A} (x : ident) (l : list (ident * A)) : list (ident * A) :=
  match l with [] => [] | (y, a) :: r => if Nat.eqb x y then remove_all x r else (y, a) :: remove_all x r end.
Definition d_remove (x : ident) : M unit := fun s =>
  match sframes s with
  | f :: fr => (Val tt, {| sglob := sglob s;
                           sframes := {| ffn := ffn f; fscopes := match fscopes f with sc :: r => remove_all x sc :: r | [] => [] end |} :: fr;
                           sstat := sstat s; sout := sout s |})
  | [] => (Val tt, s)
  end.

(* the first evaluation of a static's initialiser; a literal costs no fuel (fuel is a proof device:
   this keeps Mech and Ref in step when the static is already known and Ref evaluates nothing) *)
Definition lit_or (ev : expr -> M Z) (init : option expr) : M Z :=
  match init with Some (ENum z) => ret z | Some e => ev e | None => ret 0 end.

(* whole-struct copy through the dynamic lookup (the member cells are found like any other name) *)
Fixpoint dcopy_cells (dst src : ident) (idxs : list (list Z)) : M unit :=
  match idxs with
  | [] => ret tt
  | i :: r => v <- d_read src i ;; d_write dst i v ;;; dcopy_cells dst src r
  end.
Fixpoint dcopy_members (x y : ident) (j : nat) (flds : list fld) : M unit :=
  match flds with
  | [] => ret tt
  | f :: r => dcopy_cells (mkey x j) (mkey y j) (all_idx (fdims f)) ;;; dcopy_members x y (S j) r
  end.

Section Mech.
Variable blk : bool.
Variable funcs : list func.

Definition blockm {A} (m : M A) : M A := if blk then m_push_scope ;;; finally m pop_scope_st else m.

Section WithRec.
Variable ev : expr -> M Z.
(* the supplied arguments: evaluate argument i in the callee's scope, convert, bind parameter i *)
Fixpoint dbind_args (ps : list param) (es : list expr) {struct es} : M unit :=
  match es with
  | [] => ret tt
  | e :: er =>
      match ps with
      | p :: pr => v <- ev e ;; v' <- lift (coerce (pty p) v) ;;
                   m_declare false false (pty p) (pname p) [] [v'] ;;; dbind_args pr er
      | [] => ret tt
      end
  end.
End WithRec.

Fixpoint meval (n : nat) (e : expr) {struct n} : M Z :=
  match n with
  | O => fail ENoFuel
  | S k =>
    match e with
    | ENum z => ret z
    | EVar x => d_read x []
    | EUn o a => v <- meval k a ;; lift (unarith o v)
    | EBin o a b => x <- meval k a ;; y <- meval k b ;; lift (arith o x y)
    | EAnd a b => x <- meval k a ;; if x =? 0 then ret 0 else y <- meval k b ;; ret (b2z (negb (y =? 0)))
    | EOr a b => x <- meval k a ;; if x =? 0 then y <- meval k b ;; ret (b2z (negb (y =? 0))) else ret 1
    | ECond c a b => x <- meval k c ;; if x =? 0 then meval k b else meval k a
    | EIdx a idx => is_ <- eval_list (meval k) idx ;; d_read a is_
    | ECall f args =>
        match find_func f funcs with
        | None => fail EUnbound
        | Some fd =>
            m_push_frame f ;;;                      (* push_scope(); current_function_name = callee *)
            finally
              (if (Nat.ltb (List.length args) (required (fparams fd))) || (Nat.ltb (List.length (fparams fd)) (List.length args))
               then fail EArity
               else map_ctl (call_result (fret fd))
                      (dbind_args (meval k) (fparams fd) args ;;;
                       bind_params (meval k) (skipn (List.length args) (fparams fd)) [] ;;;
                       exec_list (mexec k) (fbody fd)))
              pop_frame_st
        end
    end
  end
with mexec (n : nat) (st : stmt) {struct n} : M unit :=
  match n with
  | O => fail ENoFuel
  | S k =>
    match st with
    | SDecl cst sta t x init =>
        if sta then
          v <- lit_or (meval k) init ;;
          lift (coerce t v) ;;;
          known <- m_static_known x ;;
          if known then ret tt
          else v2 <- (match init with Some e => meval k e | None => ret 0 end) ;; d_static_raw cst t x v2
        else v <- (match init with Some e => meval k e | None => ret 0 end) ;; m_declare false cst t x [] [v]
    | SArr cst t x dims init => vs <- eval_list (meval k) init ;; m_declare false cst t x dims vs
    | SAssign lv None e =>
        v <- meval k e ;; tg <- lval_target (meval k) lv ;; d_assign lv (fst tg) (snd tg) v
    | SAssign lv (Some o) e =>
        tg <- lval_target (meval k) lv ;; old <- d_read (fst tg) (snd tg) ;; v <- meval k e ;;
        r <- lift (arith o old v) ;; d_write (fst tg) (snd tg) r
    | SIncDec _ inc lv =>
        tg <- lval_target (meval k) lv ;; old <- d_read (fst tg) (snd tg) ;;
        r <- lift (arith (if inc then Add else Sub) old 1) ;; d_write (fst tg) (snd tg) r
    | SExpr e => meval k e ;;; ret tt
    | SIf c s1 s2 => x <- meval k c ;; if x =? 0 then blockm (exec_list (mexec k) s2) else blockm (exec_list (mexec k) s1)
    | SWhile c body =>
        x <- meval k c ;;
        if x =? 0 then ret tt
        else loop_step (blockm (exec_list (mexec k) body)) (mexec k (SWhile c body))
    | SFor init c upd body =>
        let loop := (x <- meval k c ;;
                     if x =? 0 then ret tt
                     else loop_step (blockm (exec_list (mexec k) body))
                                    (exec_list (mexec k) upd ;;; mexec k (SFor [] c upd body))) in
        if blk then blockm (exec_list (mexec k) init ;;; loop)
        else match init with
             | [SDecl cst false t x ie] =>
                 ex <- top_has x ;;
                 if ex then loop
                 else (mexec k (SDecl cst false t x ie) ;;; loop) ;;; d_remove x
             | _ => exec_list (mexec k) init ;;; loop
             end
    | SBreak => lift Brk
    | SContinue => lift Cnt
    | SReturn None => lift (Ret None)
    | SReturn (Some e) => v <- meval k e ;; lift (Ret (Some v))
    | SBlock ss => blockm (exec_list (mexec k) ss)
    | SPrint nl args => print_args (meval k) true args ;;; if nl then m_out ONl else ret tt
    | SStruct _ x flds => decl_members x 0 flds
    | SCopy x y flds => dcopy_members x y 0 flds
    end
  end.
End Mech.

(* a whole program on the implementation model: main runs in its own scope, function name "" *)
Definition mech_run (blk : bool) (fuel : nat) (p : program) : list oitem * outcome :=
  match init_state p with
  | None => ([], Failed ERange)
  | Some s0 =>
      let '(c, s) := exec_list (mexec blk (pfuncs p) fuel) (pmain p) s0 in
      (rev (sout s), match c with Fail e => Failed e | _ => Finished end)
  end.
