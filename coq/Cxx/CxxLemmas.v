(* Lemmas about the Cxx embedding (not part of the trusted base):
   1. the literal constants of Cxx.v are what they should be, conversions are the identity on representable values;
   2. a continuation-passing copy of the evaluator ([evalK], [execK], [runK]) with [run f op args = runK f op args id]
      - normalising [runK] with the Z operations kept folded yields a decision tree whose inner nodes are the tests on
      the (symbolic) operands and whose leaves are results, which is what the proofs about generated functions use;
   3. the tactics [cxx_tree] / [cxx_cases] doing that. *)
From Coq Require Import ZArith Bool String List Lia.
From Cb Require Import Cxx.Cxx.
Import ListNotations.
Local Open Scope Z_scope.

(* ---------------------------------------------------------------- 1. sanity of the constants *)
(* (the integer types; long double: [ld_round], see Cxx.v) *)
Lemma bits_spec t : bits t = match t with TBool => 1 | TInt | TUInt => 32 | _ => 64 end.
Proof. destruct t; reflexivity. Qed.
Lemma modulus_spec t : modulus t = 2 ^ bits t.
Proof. destruct t; reflexivity. Qed.
Lemma tmin_spec t : is_ld t = false -> tmin t = if signed t then - 2 ^ (bits t - 1) else 0.
Proof. destruct t; try discriminate; reflexivity. Qed.
Lemma tmax_spec t : is_ld t = false -> tmax t = if signed t then 2 ^ (bits t - 1) - 1 else 2 ^ bits t - 1.
Proof. destruct t; try discriminate; reflexivity. Qed.
Lemma range_size t : is_ld t = false -> tmax t - tmin t + 1 = modulus t.
Proof. destruct t; try discriminate; reflexivity. Qed.

Lemma in_range_iff t z : is_ld t = false -> (in_range t z = true <-> tmin t <= z <= tmax t).
Proof. intros Ht. unfold in_range. destruct t; try discriminate; rewrite andb_true_iff, !Z.leb_le; tauto. Qed.

Lemma lit_ok_spec t z : is_ld t = false -> lit_ok t z = in_range t z.
Proof.
  intros Ht. unfold lit_ok, in_range, Z.leb. destruct t; try discriminate; destruct (_ ?= z), (z ?= _); reflexivity.
Qed.
(* a long double literal must be exactly representable: magnitude below 2^64 is enough *)
Lemma lit_ok_ld z : lit_ok TLDouble z = true -> in_range TLDouble z = true.
Proof.
  unfold lit_ok, in_range, ld_round. destruct (Z.abs z ?= 18446744073709551616) eqn:E; try discriminate. intros _.
  apply Z.compare_lt_iff in E. apply Z.ltb_lt in E. rewrite E. apply Z.eqb_refl.
Qed.

(* [conv.integral]: a representable value is unchanged; the result is always representable and congruent *)
Lemma conv_id t z : in_range t z = true -> conv t z = z.
Proof.
  intros H. destruct t; [| | | | |apply Z.eqb_eq in H; exact H];
    (apply in_range_iff in H; [|reflexivity]); cbn [conv signed tmin tmax modulus b2z nonzero] in *.
  - assert (z = 0 \/ z = 1) as [-> | ->] by lia; reflexivity.
  - rewrite Z.mod_small; lia.
  - rewrite Z.mod_small; lia.
  - rewrite Z.mod_small; lia.
  - rewrite Z.mod_small; lia.
Qed.
Lemma conv_in_range t z : is_ld t = false -> in_range t (conv t z) = true.
Proof.
  intros Ht. apply in_range_iff; [exact Ht|]. destruct t; try discriminate; cbn [conv signed tmin tmax modulus].
  - destruct z; cbn; lia.
  - pose proof (Z.mod_pos_bound (z - -2147483648) 4294967296 eq_refl). lia.
  - pose proof (Z.mod_pos_bound z 4294967296 eq_refl). lia.
  - pose proof (Z.mod_pos_bound (z - -9223372036854775808) 18446744073709551616 eq_refl). lia.
  - pose proof (Z.mod_pos_bound z 18446744073709551616 eq_refl). lia.
Qed.
Lemma conv_congruent t z : t <> TBool -> is_ld t = false -> (conv t z - z) mod modulus t = 0.
Proof.
  intros Ht Hl. destruct t; try congruence; try discriminate; cbn [conv signed tmin modulus];
    match goal with |- context [?x mod ?m + ?c] =>
      replace (x mod m + c - z) with (x mod m - x) by lia end || idtac;
    rewrite Zminus_mod, Z.mod_mod, Z.sub_diag by lia; reflexivity.
Qed.

(* ---------------------------------------------------------------- 2. continuation-passing copy *)
Section K.
  Context {A : Type}.

  Definition fitK (t : ity) (r : Z) (what : string) (k : eres -> A) : A :=
    if signed t then (if in_range t r then k (EV (t, r)) else k (EUB what)) else k (EV (t, r mod modulus t)).
  Lemma fitK_ok t r w k : fitK t r w k = k (fit t r w).
  Proof. unfold fitK, fit. destruct (signed t); [destruct (in_range t r)|]; reflexivity. Qed.

  Definition arith2K (o : binop) (t : ity) (a b : Z) (k : eres -> A) : A :=
    if is_ld t then k (ld_arith o a b) else
    match o with
    | BAdd => fitK t (a + b) ub_add k | BSub => fitK t (a - b) ub_sub k | BMul => fitK t (a * b) ub_mul k
    | BDiv => if b =? 0 then k (EUB ub_div0) else fitK t (Z.quot a b) ub_divovf k
    | BRem => if b =? 0 then k (EUB ub_rem0)
              else if in_range t (Z.quot a b) then k (EV (t, Z.rem a b)) else k (EUB ub_removf)
    | _ => k (arith2 o t a b)
    end.
  Lemma arith2K_ok o t a b k : arith2K o t a b k = k (arith2 o t a b).
  Proof.
    unfold arith2K, arith2. destruct (is_ld t); [reflexivity|].
    destruct o; rewrite ?fitK_ok; try reflexivity;
      (destruct (b =? 0); [reflexivity|]); rewrite ?fitK_ok; try reflexivity.
    destruct (in_range t (Z.quot a b)); reflexivity.
  Qed.

  Definition shiftK (o : binop) (t : ity) (a n : Z) (k : eres -> A) : A :=
    if is_ld t then k (shift o t a n) else
    if n <? 0 then k (EUB ub_shcount)
    else if bits t <=? n then k (EUB ub_shcount)
    else match o with
         | BShl => if signed t then
                     if a <? 0 then k (EUB ub_shlneg)
                     else if a * 2 ^ n <=? tmax (to_unsigned t) then k (EV (t, conv t (a * 2 ^ n)))
                          else k (EUB ub_shlovf)
                   else k (EV (t, (a * 2 ^ n) mod modulus t))
         | _ => k (EV (t, a / 2 ^ n))
         end.
  Lemma shiftK_ok o t a n k : shiftK o t a n k = k (shift o t a n).
  Proof.
    unfold shiftK. destruct (is_ld t) eqn:El; [reflexivity|]. unfold shift. rewrite El. destruct (n <? 0); [reflexivity|]. cbn [orb]. destruct (bits t <=? n); [reflexivity|].
    destruct o; try reflexivity. destruct (signed t); [|reflexivity]. destruct (a <? 0); [reflexivity|].
    destruct (a * 2 ^ n <=? tmax (to_unsigned t)); reflexivity.
  Qed.

  Definition binopK (o : binop) (va vb : value) (k : eres -> A) : A :=
    let (ta, a) := va in let (tb, b) := vb in
    let pa := promote ta in let pb := promote tb in
    if is_shift o then shiftK o pa (conv pa a) (conv pb b) k
    else let t := common pa pb in arith2K o t (conv t a) (conv t b) k.
  Lemma binopK_ok o va vb k : binopK o va vb k = k (binop_sem o va vb).
  Proof.
    destruct va as [ta a], vb as [tb b]. unfold binopK, binop_sem.
    destruct (is_shift o); [apply shiftK_ok|apply arith2K_ok].
  Qed.

  Definition unopK (o : unop) (v : value) (k : eres -> A) : A :=
    let (t, a) := v in let p := promote t in
    if is_ld p then k (unop_sem o (t, a)) else
    match o with
    | UNeg => if signed p then fitK p (- conv p a) ub_neg k else k (EV (p, (- conv p a) mod modulus p))
    | _ => k (unop_sem o (t, a))
    end.
  Lemma unopK_ok o v k : unopK o v k = k (unop_sem o v).
  Proof.
    destruct v as [t a]. unfold unopK. destruct (is_ld (promote t)) eqn:El; [reflexivity|].
    destruct o; try reflexivity. cbn [unop_sem]. rewrite El.
    destruct (signed (promote t)); [apply fitK_ok|reflexivity].
  Qed.

  Definition castK (ta t : ity) (z : Z) (k : eres -> A) : A :=
    if is_ld ta && negb (is_ld t) && negb (ity_eqb t TBool)
    then (if in_range t z then k (EV (t, z)) else k (EUB ub_fpint))
    else k (EV (t, conv t z)).
  Lemma castK_ok ta t z k : castK ta t z k = k (cast ta t z).
  Proof. unfold castK, cast. destruct (_ && _ && _); [destruct (in_range t z)|]; reflexivity. Qed.

  (* the test of a bool-converted value, as a two-way branch on the Coq boolean *)
  Definition whenK (z : Z) (yes no : A) : A := if nonzero z then yes else no.

  Fixpoint evalK (ve : vecs) (sp : string * string) (en : env) (e : expr) (k : eres -> A) {struct e} : A :=
    match e with
    | ECast t a => evalK ve sp en a (fun r => match r with EV (ta, z) => castK ta t z k | r => k r end)
    | EUn o a => evalK ve sp en a (fun r => match r with EV v => unopK o v k | r => k r end)
    | EBin o a b =>
        evalK ve sp en a (fun ra => match ra with
          | EV va => evalK ve sp en b (fun rb => match rb with EV vb => binopK o va vb k | r => k r end)
          | r => k r end)
    | ELAnd a b =>
        evalK ve sp en a (fun ra => match ra with
          | EV (_, za) => whenK za (evalK ve sp en b (fun rb => match rb with EV (_, zb) => k (EV (TBool, conv TBool zb)) | r => k r end))
                                   (k (EV (TBool, 0)))
          | r => k r end)
    | ELOr a b =>
        evalK ve sp en a (fun ra => match ra with
          | EV (_, za) => whenK za (k (EV (TBool, 1)))
                                   (evalK ve sp en b (fun rb => match rb with EV (_, zb) => k (EV (TBool, conv TBool zb)) | r => k r end))
          | r => k r end)
    | ECond c a b =>
        evalK ve sp en c (fun rc => match rc, type_of ve en e with
          | EV (_, zc), Some t =>
              let k' := fun r => match r with EV (_, z) => k (EV (t, conv t z)) | r => k r end in
              whenK zc (evalK ve sp en a k') (evalK ve sp en b k')
          | EV _, None => k (EStuck "untypable ?:")
          | r, _ => k r end)
    | EVecAt v i =>
        match vlookup v ve with
        | Some (t, l) => evalK ve sp en i (fun r => match r with
            | EV (_, z) => if conv TULong z <? vec_len l then k (EV (t, vec_nth l (conv TULong z))) else k (EUB ub_index)
            | r => k r end)
        | None => k (EStuck ("unbound vector " ++ v))
        end
    | _ => k (eval ve sp en e)
    end.

  Lemma evalK_ok ve sp en e : forall k, evalK ve sp en e k = k (eval ve sp en e).
  Proof.
    induction e; intros k; cbn [evalK eval]; try reflexivity.
    - rewrite IHe. destruct (eval ve sp en e) as [[t' z]| |]; [apply castK_ok|reflexivity|reflexivity].
    - rewrite IHe. destruct (eval ve sp en e) as [v| |]; [apply unopK_ok|reflexivity|reflexivity].
    - rewrite IHe1. destruct (eval ve sp en e1) as [va| |]; try reflexivity.
      rewrite IHe2. destruct (eval ve sp en e2) as [vb| |]; [apply binopK_ok|reflexivity|reflexivity].
    - rewrite IHe1. destruct (eval ve sp en e1) as [[ta za]| |]; try reflexivity. unfold whenK.
      destruct (nonzero za); [|reflexivity]. rewrite IHe2. destruct (eval ve sp en e2) as [[tb zb]| |]; reflexivity.
    - rewrite IHe1. destruct (eval ve sp en e1) as [[ta za]| |]; try reflexivity. unfold whenK.
      destruct (nonzero za); [reflexivity|]. rewrite IHe2. destruct (eval ve sp en e2) as [[tb zb]| |]; reflexivity.
    - rewrite IHe1. destruct (eval ve sp en e1) as [[tc zc]| |]; try reflexivity.
      destruct (type_of ve en (ECond e1 e2 e3)) as [t|]; [|reflexivity].
      unfold whenK. destruct (nonzero zc); [rewrite IHe2|rewrite IHe3];
        match goal with |- context [eval ve sp en ?x] => destruct (eval ve sp en x) as [[? ?]| |] end; reflexivity.
    - destruct (vlookup v ve) as [[t l]|]; [|reflexivity]. rewrite IHe.
      destruct (eval ve sp en e) as [[ti z]| |]; try reflexivity. unfold vec_at. destruct (conv TULong z <? vec_len l); reflexivity.
  Qed.

  Definition liftK (r : eres) (k : Z -> A) (done : result -> A) : A :=
    match r with EV (_, z) => k z | EUB w => done (RUB w) | EStuck w => done (RStuck w) end.

  Definition errK (r : eres) (k : value -> A) (done : result -> A) : A :=
    match r with EV v => k v | EUB w => done (RUB w) | EStuck w => done (RStuck w) end.

  Fixpoint eval_argsK (ve : vecs) (sp : string * string) (en : env) (es : list expr) (k : result + list value -> A) : A :=
    match es with
    | [] => k (inr [])
    | e :: r => evalK ve sp en e (fun x => match x with
                  | EV v => eval_argsK ve sp en r (fun y => match y with inr vs => k (inr (v :: vs)) | inl z => k (inl z) end)
                  | EUB w => k (inl (RUB w))
                  | EStuck w => k (inl (RStuck w))
                  end)
    end.
  Lemma eval_argsK_ok ve sp en es : forall k, eval_argsK ve sp en es k = k (eval_args ve sp en es).
  Proof.
    induction es as [|e r IH]; intros k; cbn [eval_argsK eval_args]; [reflexivity|].
    rewrite evalK_ok. destruct (eval ve sp en e) as [v| |]; try reflexivity.
    rewrite IH. destruct (eval_args ve sp en r); reflexivity.
  Qed.

  (* a loop is not opened: its outcome is handed to the continuations as it is (the proofs about a function with a loop
     treat the loop by induction and use the trees only for the loop-free pieces) *)
  Definition whileK (ve : vecs) (fuel : nat) (sp : string * string) (rt : ity) (c : expr) (b : stmt) (en : env)
                    (next : env -> A) (done : result -> A) : A :=
    match exec ve fuel sp rt en (SWhile c b) with ONext en' => next en' | ODone r => done r end.

  (* [next] continues after the statement, [done] leaves the function *)
  Fixpoint execK (ve : vecs) (fuel : nat) (sp : string * string) (rt : ity) (en : env) (s : stmt) (next : env -> A) (done : result -> A) : A :=
    match s with
    | SSkip | SEffect _ => next en
    | SSeq a b => execK ve fuel sp rt en a (fun en' => execK ve fuel sp rt en' b next done) done
    | SReturn e => evalK ve sp en e (fun r => match r with
        | EV (te, z) => castK te rt z (fun c => done (match c with EV v => RVal v | EUB w => RUB w | EStuck w => RStuck w end))
        | EUB w => done (RUB w) | EStuck w => done (RStuck w) end)
    | SThrow m => done (match msg_text ve sp en m with Some t => RThrow t | None => RStuck "exception text" end)
    | SIf c a b =>
        evalK ve sp en c (fun r => liftK r (fun z =>
          whenK z (execK ve fuel sp rt en a (fun en' => next (leave en en')) done)
                  (execK ve fuel sp rt en b (fun en' => next (leave en en')) done)) done)
    | SDecl t x e => evalK ve sp en e (fun r => match r with
        | EV (te, z) => castK te t z (fun c => errK c (fun v => next ((x, v) :: en)) done)
        | EUB w => done (RUB w) | EStuck w => done (RStuck w) end)
    | SAssign x e => evalK ve sp en e (fun r => match r, lookup x en with
        | EV (te, z), Some (t, _) => castK te t z (fun c => errK c (fun v => next (update x v en)) done)
        | EV _, None => done (RStuck ("assignment to the unbound name " ++ x))
        | EUB w, _ => done (RUB w) | EStuck w, _ => done (RStuck w) end)
    | SReturnVoid => done RVoid
    | SReturnCall tag es => eval_argsK ve sp en es (fun r => done (match r with inr vs => RCall tag vs | inl r => r end))
    | SBlock a => execK ve fuel sp rt en a (fun en' => next (leave en en')) done
    | SWhile c b => whileK ve fuel sp rt c b en next done
    end.

  Lemma execK_ok ve fuel sp rt s : forall en next done,
    execK ve fuel sp rt en s next done = match exec ve fuel sp rt en s with ONext en' => next en' | ODone r => done r end.
  Proof.
    induction s; intros en next done; cbn [execK exec]; try reflexivity.
    - rewrite IHs1. destruct (exec ve fuel sp rt en s1); [apply IHs2|reflexivity].
    - rewrite evalK_ok. destruct (eval ve sp en e) as [[t z]| |]; try reflexivity. rewrite castK_ok. reflexivity.
    - rewrite evalK_ok. destruct (eval ve sp en c) as [[t z]| |]; cbn [liftK lift]; try reflexivity.
      unfold whenK. destruct (nonzero z); [rewrite IHs1; destruct (exec ve fuel sp rt en s1)|rewrite IHs2; destruct (exec ve fuel sp rt en s2)];
        reflexivity.
    - rewrite evalK_ok. destruct (eval ve sp en e) as [[t' z]| |]; try reflexivity. rewrite castK_ok.
      destruct (cast t' t z); reflexivity.
    - rewrite evalK_ok. destruct (eval ve sp en e) as [[t' z]| |]; try reflexivity.
      destruct (lookup x en) as [[t w]|]; [|reflexivity]. rewrite castK_ok. destruct (cast t' t z); reflexivity.
    - rewrite eval_argsK_ok. reflexivity.
    - rewrite IHs. destruct (exec ve fuel sp rt en s); reflexivity.
  Qed.

  Fixpoint bindK (ps : list (string * ity)) (args : list (string * value)) (k : option env -> A) : A :=
    match ps, args with
    | [], [] => k (Some [])
    | (x, t) :: ps', (y, (u, z)) :: args' =>
        if String.eqb x y && ity_eqb t u then
          if is_ld t then
            if ld_round z =? z then bindK ps' args' (fun r => k (option_map (cons (x, (t, z))) r)) else k None
          else if tmin t <=? z then
            if z <=? tmax t then bindK ps' args' (fun r => k (option_map (cons (x, (t, z))) r)) else k None
          else k None
        else k None
    | _, _ => k None
    end.
  Lemma bindK_ok ps : forall args k, bindK ps args k = k (bind ps args).
  Proof.
    induction ps as [|[x t] ps IH]; intros [|[y [u z]] args] k; cbn [bindK bind]; try reflexivity.
    destruct (String.eqb x y && ity_eqb t u); cbn [andb]; [|reflexivity].
    destruct t; cbn [is_ld in_range]; try (destruct (ld_round z =? z); [apply IH|reflexivity]);
      (destruct (_ <=? z); cbn [andb]; [|reflexivity]); (destruct (z <=? _); [apply IH|reflexivity]).
  Qed.

  Definition runK (f : fn) (op : string) (args : list (string * value)) (k : result -> A) : A :=
    bindK (f_params f) args (fun r => match r with
      | None => k (RStuck "arguments do not match the parameters")
      | Some en => execK [] 0 (f_sparam f, op) (f_ret f) en (f_body f) (fun _ => k RFallOff) k
      end).
  Lemma runK_ok f op args k : runK f op args k = k (run f op args).
  Proof.
    unfold runK, run. rewrite bindK_ok. destruct (bind (f_params f) args); [|reflexivity].
    rewrite execK_ok. destruct (exec _ _ _ _ _ _); reflexivity.
  Qed.
End K.

Lemma run_as_tree f op args : run f op args = runK f op args (fun r => r).
Proof. symmetry. apply (runK_ok (A := result)). Qed.

(* ---------------------------------------------------------------- 2a. loops
   [exec] of a while statement is [while_loop] started with the full fuel; [while_loop] is the object of the inductions in the
   proofs about functions with a loop (the trees are used for the condition and for the body). *)
Section While.
  Variables (ve : vecs) (fuel : nat) (sp : string * string) (rt : ity) (c : expr) (b : stmt).
  Fixpoint while_loop (n : nat) (en : env) {struct n} : outcome :=
    match n with
    | O => ODone RNoFuel
    | S n' => lift (eval ve sp en c) (fun z =>
                if nonzero z
                then match exec ve fuel sp rt en b with ONext en' => while_loop n' (leave en en') | d => d end
                else ONext en)
    end.
End While.
Lemma exec_while ve fuel sp rt en c b : exec ve fuel sp rt en (SWhile c b) = while_loop ve fuel sp rt c b fuel en.
Proof. reflexivity. Qed.
Lemma while_loop_S ve fuel sp rt c b n en :
  while_loop ve fuel sp rt c b (S n) en =
  lift (eval ve sp en c) (fun z =>
    if nonzero z then match exec ve fuel sp rt en b with ONext en' => while_loop ve fuel sp rt c b n (leave en en') | d => d end
    else ONext en).
Proof. reflexivity. Qed.
(* the loop-free pieces as trees *)
Lemma eval_as_tree ve sp en e : eval ve sp en e = evalK ve sp en e (fun r => r).
Proof. symmetry. apply (evalK_ok (A := eres)). Qed.
Lemma exec_as_tree ve fuel sp rt en s : exec ve fuel sp rt en s = execK ve fuel sp rt en s ONext ODone.
Proof. rewrite (execK_ok (A := outcome)). destruct (exec ve fuel sp rt en s); reflexivity. Qed.

(* a function with vector parameters: the arguments are taken as they are once they are known to be well formed *)
Definition run_vecK {A : Type} (fuel : nat) (f : vfn) (op : string) (ve : vecs) (args : list (string * value)) (k : result -> A) : A :=
  bindK (f_params (v_fn f)) args (fun r => match r with
    | None => k (RStuck "arguments do not match the parameters")
    | Some en => execK ve fuel (f_sparam (v_fn f), op) (f_ret (v_fn f)) en (f_body (v_fn f)) (fun _ => k RFallOff) k
    end).
Lemma run_vec_as_tree fuel f op vargs args : bind_vecs (v_vecs f) vargs = Some vargs ->
  run_vec fuel f op vargs args = run_vecK fuel f op vargs args (fun r => r).
Proof.
  intros Hb. unfold run_vec, run_vecK. rewrite Hb, (bindK_ok (A := result)). destruct (bind _ args); [|reflexivity].
  rewrite (execK_ok (A := result)). destruct (exec _ _ _ _ _ _); reflexivity.
Qed.

(* ---------------------------------------------------------------- 2b. a value returned by ANY function of the fragment
   has the declared return type and lies inside it *)
Lemma cast_in_range ta t z v : is_ld t = false -> cast ta t z = EV v -> fst v = t /\ in_range t (snd v) = true.
Proof.
  intros Ht. unfold cast. destruct (_ && _ && _).
  - destruct (in_range t z) eqn:E; [|discriminate]. intros H. injection H as <-. auto.
  - intros H. injection H as <-. split; [reflexivity|apply conv_in_range; exact Ht].
Qed.
Lemma eval_args_errors ve sp en es r : eval_args ve sp en es = inl r -> (exists w, r = RUB w) \/ (exists w, r = RStuck w).
Proof.
  revert r. induction es as [|e es IH]; intros r; cbn [eval_args]; [discriminate|].
  destruct (eval ve sp en e); [|intros H; injection H as <-; eauto..].
  destruct (eval_args ve sp en es); [intros H; injection H as <-; apply IH; reflexivity|discriminate].
Qed.
Lemma exec_returns_in_range ve fuel sp rt s : is_ld rt = false ->
  forall en ty z, exec ve fuel sp rt en s = ODone (RVal (ty, z)) -> ty = rt /\ in_range rt z = true.
Proof.
  intros Hrt. induction s; intros en ty z; cbn [exec]; try discriminate.
  - destruct (exec ve fuel sp rt en s1) eqn:E1; [apply IHs2|intros H; injection H as ->; eapply IHs1; eassumption].
  - destruct (eval ve sp en e) as [[t' z']| |]; try discriminate.
    destruct (cast t' rt z') eqn:E; try discriminate. intros H. injection H as ->.
    apply cast_in_range in E; [exact E|exact Hrt].
  - destruct (msg_text ve sp en m); discriminate.
  - destruct (eval ve sp en c) as [[t' z']| |]; cbn [lift]; try discriminate.
    destruct (nonzero z').
    + destruct (exec ve fuel sp rt en s1) eqn:E1; [discriminate|]. intros H. injection H as ->. eapply IHs1; eassumption.
    + destruct (exec ve fuel sp rt en s2) eqn:E2; [discriminate|]. intros H. injection H as ->. eapply IHs2; eassumption.
  - destruct (eval ve sp en e) as [[t' z']| |]; try discriminate. destruct (cast t' t z'); discriminate.
  - destruct (eval ve sp en e) as [[t' z']| |]; try discriminate.
    destruct (lookup x en) as [[t w]|]; [|discriminate]. destruct (cast t' t z'); discriminate.
  - destruct (eval_args ve sp en args) eqn:E; [|discriminate].
    apply eval_args_errors in E as [[w ->] | [w ->]]; discriminate.
  - destruct (exec ve fuel sp rt en s) eqn:E1; [discriminate|]. intros H. injection H as ->. eapply IHs; eassumption.
  - match goal with |- ?loop fuel en = _ -> _ => set (L := loop); generalize fuel at 1 end.
    intros n. revert en. induction n as [|n IHn]; intros en; cbn [L]; [discriminate|]. fold L.
    destruct (eval ve sp en c) as [[t' z']| |]; cbn [lift]; try discriminate.
    destruct (nonzero z'); [|discriminate].
    destruct (exec ve fuel sp rt en s) eqn:E1; [apply IHn|]. intros H. injection H as ->. eapply IHs; eassumption.
Qed.
Lemma run_returns_in_range f op args t z : is_ld (f_ret f) = false ->
  run f op args = RVal (t, z) -> t = f_ret f /\ in_range (f_ret f) z = true.
Proof.
  intros Hr. unfold run. destruct (bind (f_params f) args); [|discriminate].
  destruct (exec _ _ _ _ _ _) eqn:E; [discriminate|]. intros ->. eapply exec_returns_in_range; eassumption.
Qed.
Lemma run_vec_returns_in_range fuel f op vargs args t z : is_ld (f_ret (v_fn f)) = false ->
  run_vec fuel f op vargs args = RVal (t, z) -> t = f_ret (v_fn f) /\ in_range (f_ret (v_fn f)) z = true.
Proof.
  intros Hr. unfold run_vec. destruct (bind_vecs _ _); [|discriminate]. destruct (bind _ _); [|discriminate].
  destruct (exec _ _ _ _ _ _) eqn:E; [discriminate|]. intros ->. eapply exec_returns_in_range; eassumption.
Qed.

(* ---------------------------------------------------------------- 3. tactics
   [cxx_tree]: rewrite the goal's [run f op args] (f, op and the shape of args concrete, operand values symbolic) into its
   decision tree.  [cxx_tree_sym]: the same with the operator string symbolic ([op_is] is kept folded).
   [cxx_cases]: split the tree along its tests, innermost test first, folding closed arithmetic on the way. *)
Ltac cxx_norm := cbv -[Z.add Z.sub Z.mul Z.opp Z.quot Z.rem Z.div Z.modulo Z.pow Z.land Z.lor Z.lxor Z.eqb Z.leb Z.ltb ld_round whileK vec_len vec_nth dec_string].
Ltac cxx_norm_sym :=
  cbv -[Z.add Z.sub Z.mul Z.opp Z.quot Z.rem Z.div Z.modulo Z.pow Z.land Z.lor Z.lxor Z.eqb Z.leb Z.ltb ld_round op_is whileK vec_len vec_nth dec_string].
(* only the call is normalised, the rest of the goal is left as written *)
Ltac cxx_tree :=
  rewrite run_as_tree;
  match goal with
  | |- context [@runK ?A ?f ?op ?args ?k] =>
      let t := constr:(@runK A f op args k) in
      let t' := eval cbv -[Z.add Z.sub Z.mul Z.opp Z.quot Z.rem Z.div Z.modulo Z.pow Z.land Z.lor Z.lxor Z.eqb Z.leb Z.ltb ld_round whileK vec_len vec_nth dec_string] in t in
      change t with t'
  end.
Ltac cxx_tree_sym :=
  rewrite run_as_tree;
  match goal with
  | |- context [@runK ?A ?f ?op ?args ?k] =>
      let t := constr:(@runK A f op args k) in
      let t' := eval cbv -[Z.add Z.sub Z.mul Z.opp Z.quot Z.rem Z.div Z.modulo Z.pow Z.land Z.lor Z.lxor Z.eqb Z.leb Z.ltb ld_round op_is whileK vec_len vec_nth dec_string] in t in
      change t with t'
  end.

(* the same for [run_vecK fuel f op vectors args k] (vector contents symbolic, loops left as [whileK]) *)
Ltac cxx_vtree :=
  match goal with
  | |- context [@run_vecK ?A ?fuel ?f ?op ?ve ?args ?k] =>
      let t := constr:(@run_vecK A fuel f op ve args k) in
      let t' := eval cbv -[Z.add Z.sub Z.mul Z.opp Z.quot Z.rem Z.div Z.modulo Z.pow Z.land Z.lor Z.lxor Z.eqb Z.leb Z.ltb ld_round whileK vec_len vec_nth dec_string] in t in
      change t with t'
  end.

Ltac is_poslit p := lazymatch p with xH => idtac | xO ?q => is_poslit q | xI ?q => is_poslit q end.
Ltac is_zlit z := lazymatch z with Z0 => idtac | Zpos ?p => is_poslit p | Zneg ?p => is_poslit p end.
(* one closed application of a Z operation -> its value *)
Ltac fold_bin op :=
  match goal with
  | |- context [op ?x ?y] => is_zlit x; is_zlit y; let v := eval vm_compute in (op x y) in change (op x y) with v
  end.
Ltac fold_const :=
  first [ fold_bin Z.sub | fold_bin Z.add | fold_bin Z.modulo | fold_bin Z.mul | fold_bin Z.eqb | fold_bin Z.leb
        | fold_bin Z.ltb | fold_bin Z.land | fold_bin Z.pow | fold_bin Z.quot | fold_bin Z.rem | fold_bin Z.div
        | fold_bin Z.lor | fold_bin Z.lxor
        | match goal with
          | |- context [ld_round ?x] => is_zlit x; let v := eval vm_compute in (ld_round x) in change (ld_round x) with v
          end
        | match goal with
          | |- context [Z.opp ?x] => is_zlit x; let v := eval vm_compute in (Z.opp x) in change (Z.opp x) with v
          end ].
Ltac fold_consts := repeat fold_const; cbv beta iota.

(* split on one test whose condition contains no further test (closed conditions have been folded away) *)
Ltac cxx_split :=
  match goal with
  | |- context [if ?c then _ else _] =>
      lazymatch c with context [if _ then _ else _] => fail | _ => idtac end;
      destruct c eqn:?; cbv beta iota
  end.
Ltac cxx_cases := fold_consts; repeat (cxx_split; fold_consts).
