(* Cxx - a deep embedding of the side-effect-free integer fragment of C++17 (N4659), with its semantics.

   PART OF THE TRUSTED BASE: the terms `Definition fn_<name> : fn := ...` that translators/cxx_pure.py
   regenerates from clang's AST of /repo's functions on every run are given their meaning by this file, and
   the theorems about them (C01/HelpersGen.v, C01/TypedChainGen.v, C04/CheckTypeRange.v, C05/FlatIndexGen.v) are only as good as this
   reading of the standard.  It is independent of any particular function.  Target: LP64, gcc / clang on x86-64.

   Types       bool, int (32), unsigned int (32), long = int64_t (64), unsigned long = uint64_t = size_t (64), and the
               INTEGER-VALUED part of long double (x87 extended precision: 64-bit significand, see [ld_round]).
   Values      (type, Z) with the integer inside the range of the type; read-only std::vector<T> objects of such values.
   Expressions names, literals, casts, unary + - ! ~, the sixteen binary operators, && || ?:, `op == "literal"`,
               v.size(), v.empty(), v[i] on a read-only std::vector of integers.
   Statements  return e; return; return builder(args) (uninterpreted result object); throw std::runtime_error(text);
               (text: literals, the string parameter, std::to_string of an integer, concatenation);
               if / else; T x = e; x = e; x op= e; ++x; --x; { block }; while; for (executed with FUEL: at most [fuel]
               evaluations of the condition of one loop, RNoFuel beyond that); dropped diagnostic calls.
               No break / continue / goto, no calls, no pointers, no writes to vectors.
   Undefined   signed overflow of + - * and unary - [expr.pre]/4; / and % by zero, and / and % whose quotient
   behaviour   is not representable (INT64_MIN / -1, INT64_MIN % -1) [expr.mul]/4; shift count negative or
   (RUB)       >= width of the promoted left operand [expr.shift]/1; << of a negative signed value or with a
               result not representable in the corresponding unsigned type [expr.shift]/2; conversion of a long
               double outside the target integer type [conv.fpint]/1; v[i] with i >= v.size() [sequence.reqmts] Table 88
               (operator[] is *(a.begin() + n), which is undefined outside the sequence); flowing off the end of a
               value-returning function [stmt.return]/2 is reported separately (RFallOff).
   Implement-  conversion of an out-of-range value to a signed type [conv.integral]/3: modulo 2^n (two's
   ation-      complement; gcc and clang document this, C++20 requires it); >> of a negative signed value
   defined     [expr.shift]/3: arithmetic shift = floor (a / 2^n) (gcc, clang); & | ^ ~ on signed operands act
               on the two's-complement representation; the format and rounding of long double.
   Everything is total and computable ([vm_compute] evaluates [run] on concrete arguments) and extractable. *)
From Coq Require Import ZArith Bool String List DecimalString.
Import ListNotations.
Local Open Scope Z_scope.

(* ---------------------------------------------------------------- types [basic.fundamental] *)
Inductive ity := TBool | TInt | TUInt | TLong | TULong | TLDouble.

Definition ity_eqb (a b : ity) : bool :=
  match a, b with
  | TBool, TBool | TInt, TInt | TUInt, TUInt | TLong, TLong | TULong, TULong | TLDouble, TLDouble => true
  | _, _ => false
  end.
Definition is_ld (t : ity) : bool := match t with TLDouble => true | _ => false end.
(* for long double: the width of the significand *)
Definition width (t : ity) : nat := match t with TBool => 1 | TInt | TUInt => 32 | TLong | TULong | TLDouble => 64 end.
Definition bits (t : ity) : Z := Z.of_nat (width t).
Definition signed (t : ity) : bool := match t with TInt | TLong | TLDouble => true | _ => false end.
(* 2^bits, min and max as literals (CxxLemmas.modulus_spec / tmin_spec / tmax_spec prove they are what they should be) *)
Definition modulus (t : ity) : Z :=
  match t with TBool => 2 | TInt | TUInt => 4294967296 | TLong | TULong | TLDouble => 18446744073709551616 end.
Definition tmin (t : ity) : Z :=
  match t with TInt => -2147483648 | TLong => -9223372036854775808 | _ => 0 end.
Definition tmax (t : ity) : Z :=
  match t with TBool => 1 | TInt => 2147483647 | TUInt => 4294967295
             | TLong => 9223372036854775807 | TULong | TLDouble => 18446744073709551615 end.

(* long double [basic.fundamental]/8 is implementation-defined; x86-64 gcc / clang: the x87 extended format, 64-bit
   significand, exponent range far beyond anything reachable here, default rounding to nearest, ties to even.
   Only INTEGER-VALUED long doubles are in the fragment: a value (TLDouble, z) is the long double equal to the integer z,
   which exists iff z has at most 64 significant bits, i.e. [ld_round z = z].  Integer-valued long doubles are closed
   under + - * (the exact result is an integer and rounding an integer of magnitude >= 2^64 yields an integer);
   everything that could leave the integers (division, non-integer literals) is outside the fragment (EStuck). *)
Definition ld_round (z : Z) : Z :=
  if Z.abs z <? 18446744073709551616 then z else
  let e := Z.log2 (Z.abs z) - 63 in
  let m := Z.abs z in
  let q := m / 2 ^ e in
  let r := m mod 2 ^ e in
  let half := 2 ^ (e - 1) in
  let q' := if r <? half then q else if half <? r then q + 1 else if Z.even q then q else q + 1 in
  Z.sgn z * (q' * 2 ^ e).

Definition in_range (t : ity) (z : Z) : bool :=
  match t with TLDouble => ld_round z =? z | _ => (tmin t <=? z) && (z <=? tmax t) end.
(* the same test for the (closed) value of a literal, written with Z.compare so that proofs can keep <=? folded
   on symbolic operands while literals still compute (CxxLemmas.lit_ok_spec: lit_ok = in_range) *)
Definition lit_ok (t : ity) (z : Z) : bool :=
  match t with
  | TLDouble => match Z.compare (Z.abs z) 18446744073709551616 with Lt => true | _ => false end   (* exactly representable *)
  | _ => match Z.compare (tmin t) z, Z.compare z (tmax t) with Gt, _ | _, Gt => false | _, _ => true end
  end.

Definition value := (ity * Z)%type.
Definition b2z (b : bool) : Z := if b then 1 else 0.
Definition nonzero (z : Z) : bool := match z with Z0 => false | _ => true end.   (* [conv.bool] *)

(* ---------------------------------------------------------------- conversions
   [conv.bool]: zero -> false, anything else -> true.
   [conv.integral]/2: to unsigned: the least unsigned integer congruent modulo 2^n.
   [conv.integral]/3: to signed: unchanged if representable, otherwise implementation-defined: gcc/clang reduce
   modulo 2^n into the range (the formula below is the identity on representable values: CxxLemmas.conv_id). *)
Definition conv (t : ity) (z : Z) : Z :=
  match t with
  | TBool => b2z (nonzero z)
  | TLDouble => ld_round z              (* [conv.fpint]/2 integer -> floating: exact if representable, else nearest *)
  | _ => if signed t then (z - tmin t) mod modulus t + tmin t else z mod modulus t
  end.

(* [conv.prom]: bool -> int (the other types of this fragment have rank >= int and are unchanged) *)
Definition promote (t : ity) : ity := match t with TBool => TInt | _ => t end.

(* [expr.arith.conv]/1.5 on two PROMOTED types *)
Definition rank (t : ity) : nat := match t with TBool => 0 | TInt | TUInt => 1 | TLong | TULong => 2 | TLDouble => 3 end.
Definition to_unsigned (t : ity) : ity := match t with TInt => TUInt | TLong => TULong | _ => t end.
Definition common (a b : ity) : ity :=
  if is_ld a || is_ld b then TLDouble                                            (* 1.1 - 1.3 *)
  else if ity_eqb a b then a                                                     (* 1.5.1 *)
  else if Bool.eqb (signed a) (signed b) then (if Nat.ltb (rank a) (rank b) then b else a) (* 1.5.2 *)
  else let (s, u) := if signed a then (a, b) else (b, a) in
       if Nat.leb (rank s) (rank u) then u                                       (* 1.5.3 *)
       else if Nat.ltb (width u) (width s) then s                                (* 1.5.4 *)
       else to_unsigned s.                                                       (* 1.5.5 *)

(* ---------------------------------------------------------------- syntax *)
Inductive unop := UPlus | UNeg | UNot | UCompl.
Inductive binop := BAdd | BSub | BMul | BDiv | BRem | BAnd | BOr | BXor | BShl | BShr
                 | BEq | BNe | BLt | BGt | BLe | BGe.
Inductive expr :=
| EVar (x : string)                  (* parameter or local, read as a prvalue (lvalue-to-rvalue) *)
| ELit (t : ity) (z : Z)             (* integer / boolean literal of type t *)
| ECast (t : ity) (e : expr)         (* static_cast<t>, functional / C cast, implicit integral or boolean conversion *)
| EUn (o : unop) (e : expr)
| EBin (o : binop) (a b : expr)
| ELAnd (a b : expr) | ELOr (a b : expr)
| ECond (c a b : expr)
| EStrEq (x : string) (lit : string)  (* `x == "lit"` on the function's std::string parameter *)
| EVecSize (v : string)              (* v.size() of a std::vector: size_type = unsigned long [vector.capacity] *)
| EVecEmpty (v : string)             (* v.empty() = (v.size() == 0) [vector.capacity] *)
| EVecAt (v : string) (i : expr).    (* v[i] read as a prvalue; i initialises the parameter of type size_type *)

(* the text of a std::runtime_error: "lit", the string parameter, a + b, std::to_string(e) of an integer e *)
Inductive msg := MLit (s : string) | MStr (x : string) | MCat (a b : msg) | MDec (e : expr).

Inductive stmt :=
| SSkip
| SSeq (s1 s2 : stmt)
| SReturn (e : expr)
| SThrow (m : msg)                   (* throw std::runtime_error(m) *)
| SIf (c : expr) (s1 s2 : stmt)
| SDecl (t : ity) (x : string) (e : expr)   (* T x = e; *)
| SEffect (what : string)            (* a call whose only effect is diagnostic output (error_msg / debug_msg): skip *)
| SAssign (x : string) (e : expr)    (* x = e; as a statement, x a local variable or parameter [expr.ass] *)
| SReturnVoid                        (* return; *)
| SReturnCall (tag : string) (args : list expr)
                                     (* return tag(args); where tag builds the result object and is not interpreted *)
| SBlock (s : stmt)                  (* { s } : the names declared in s go out of scope at the closing brace [stmt.block] *)
| SWhile (c : expr) (body : stmt).   (* while (c) body [stmt.while] *)

(* Derived forms, defined by the equivalences the standard itself gives (x a local variable or parameter, so that
   "evaluated only once" makes no difference):
   [expr.ass]/7       E1 op= E2 behaves as E1 = E1 op E2 (the operation is done in the common type of the promoted operands,
                      the result is converted back to the type of E1);
   [expr.pre.incr]/1  ++x is x += 1, /2 --x is x -= 1; as a discarded-value expression x++ / x-- have the same effect
                      [expr.post.incr]/1 (not for bool, which the translator does not accept here);
   [stmt.for]/1       for (init cond; step) body is { init while (cond) { body step; } } when body contains no continue
                      (there is no continue in the fragment); the body is a block scope of its own [stmt.iter]/2. *)
Definition SAssignOp (o : binop) (x : string) (e : expr) : stmt := SAssign x (EBin o (EVar x) e).
Definition SIncr (x : string) : stmt := SAssignOp BAdd x (ELit TInt 1).
Definition SDecr (x : string) : stmt := SAssignOp BSub x (ELit TInt 1).
Definition SFor (init : stmt) (c : expr) (step : stmt) (body : stmt) : stmt :=
  SBlock (SSeq init (SWhile c (SSeq (SBlock body) step))).

Record fn := { f_name : string; f_ret : ity; f_sparam : string; f_params : list (string * ity); f_body : stmt }.
(* a function that also reads std::vector objects (const std::vector<T> & parameters; data members of *this in a const member
   function, where they are const too [class.this]): their names and element types *)
Record vfn := { v_fn : fn; v_vecs : list (string * ity) }.

(* ---------------------------------------------------------------- expressions *)
Inductive eres := EV (v : value) | EUB (what : string) | EStuck (what : string).
(* EStuck: the term is not a well-formed program of the fragment (unbound name, literal outside its type);
   never the result of a translated function on well-typed arguments - the theorems exclude it. *)

Definition env := list (string * value).
Fixpoint lookup (x : string) (en : env) : option value :=
  match en with [] => None | (y, v) :: r => if String.eqb x y then Some v else lookup x r end.

(* the std::vector<T> objects in reach: name -> (T, elements).  Nothing in the fragment modifies a vector, so they are
   not part of the state. *)
Definition vecs := list (string * (ity * list Z)).
Fixpoint vlookup (x : string) (ve : vecs) : option (ity * list Z) :=
  match ve with [] => None | (y, v) :: r => if String.eqb x y then Some v else vlookup x r end.
Definition vec_len (l : list Z) : Z := Z.of_nat (List.length l).
Definition vec_nth (l : list Z) (i : Z) : Z := nth (Z.to_nat i) l 0.

(* the ways to reach undefined behaviour *)
Definition ub_add : string := "signed overflow in +".
Definition ub_sub : string := "signed overflow in -".
Definition ub_mul : string := "signed overflow in *".
Definition ub_div0 : string := "division by zero".
Definition ub_divovf : string := "quotient not representable in /".
Definition ub_rem0 : string := "remainder by zero".
Definition ub_removf : string := "quotient not representable in %".
Definition ub_shcount : string := "shift count negative or not less than the width".
Definition ub_shlneg : string := "left shift of a negative value".
Definition ub_shlovf : string := "left shift result not representable".
Definition ub_neg : string := "signed overflow in unary -".
Definition ub_fpint : string := "floating value not representable in the integer type".
Definition ub_index : string := "vector subscript not less than size()".

(* signed result: must be representable [expr.pre]/4; unsigned: modulo 2^n [basic.fundamental]/4 *)
Definition fit (t : ity) (r : Z) (what : string) : eres :=
  if signed t then (if in_range t r then EV (t, r) else EUB what) else EV (t, r mod modulus t).

Definition is_cmp (o : binop) : bool := match o with BEq | BNe | BLt | BGt | BLe | BGe => true | _ => false end.
Definition is_shift (o : binop) : bool := match o with BShl | BShr => true | _ => false end.

(* long double operands (integer-valued): + - * round once, comparisons are exact; / may leave the integers, % & | ^
   are ill-formed on floating operands [expr.mul]/2 [expr.bit.and] *)
Definition ld_arith (o : binop) (a b : Z) : eres :=
  match o with
  | BAdd => EV (TLDouble, ld_round (a + b)) | BSub => EV (TLDouble, ld_round (a - b)) | BMul => EV (TLDouble, ld_round (a * b))
  | BEq => EV (TBool, b2z (a =? b)) | BNe => EV (TBool, b2z (negb (a =? b)))
  | BLt => EV (TBool, b2z (a <? b)) | BGt => EV (TBool, b2z (b <? a))
  | BLe => EV (TBool, b2z (a <=? b)) | BGe => EV (TBool, b2z (b <=? a))
  | _ => EStuck "long double operation outside the integer-valued fragment"
  end.

(* both operands already converted to the common type t *)
Definition arith2 (o : binop) (t : ity) (a b : Z) : eres :=
  if is_ld t then ld_arith o a b else
  match o with
  | BAdd => fit t (a + b) ub_add                                  (* [expr.add] *)
  | BSub => fit t (a - b) ub_sub
  | BMul => fit t (a * b) ub_mul                                  (* [expr.mul] *)
  | BDiv => if b =? 0 then EUB ub_div0                                 (* [expr.mul]/4: truncation *)
            else fit t (Z.quot a b) ub_divovf
  | BRem => if b =? 0 then EUB ub_rem0
            else if in_range t (Z.quot a b) then EV (t, Z.rem a b) else EUB ub_removf
  | BAnd => EV (t, Z.land a b) | BOr => EV (t, Z.lor a b) | BXor => EV (t, Z.lxor a b)   (* [expr.bit.and] [expr.or] [expr.xor] *)
  | BEq => EV (TBool, b2z (a =? b)) | BNe => EV (TBool, b2z (negb (a =? b)))      (* [expr.eq] *)
  | BLt => EV (TBool, b2z (a <? b)) | BGt => EV (TBool, b2z (b <? a))             (* [expr.rel] *)
  | BLe => EV (TBool, b2z (a <=? b)) | BGe => EV (TBool, b2z (b <=? a))
  | BShl | BShr => EStuck "shift"
  end.

(* [expr.shift]: t = promoted type of the left operand, n = value of the (promoted) right operand *)
Definition shift (o : binop) (t : ity) (a n : Z) : eres :=
  if is_ld t then EStuck "shift of a long double" else
  if (n <? 0) || (bits t <=? n) then EUB ub_shcount
  else match o with
       | BShl => if signed t then
                   if a <? 0 then EUB ub_shlneg
                   else if a * 2 ^ n <=? tmax (to_unsigned t) then EV (t, conv t (a * 2 ^ n))
                        else EUB ub_shlovf
                 else EV (t, (a * 2 ^ n) mod modulus t)
       | _ => EV (t, a / 2 ^ n)       (* Z division rounds towards minus infinity: arithmetic shift *)
       end.

Definition binop_sem (o : binop) (va vb : value) : eres :=
  let (ta, a) := va in let (tb, b) := vb in
  let pa := promote ta in let pb := promote tb in
  if is_shift o then shift o pa (conv pa a) (conv pb b)
  else let t := common pa pb in arith2 o t (conv t a) (conv t b).

Definition unop_sem (o : unop) (v : value) : eres :=
  let (t, a) := v in let p := promote t in
  if is_ld p then match o with
                  | UPlus => EV (p, a) | UNeg => EV (p, - a) | UNot => EV (TBool, b2z (negb (nonzero a)))
                  | UCompl => EStuck "~ of a long double"
                  end else
  match o with
  | UPlus => EV (p, conv p a)                                                     (* [expr.unary.op]/7 *)
  | UNeg => if signed p then fit p (- conv p a) ub_neg      (* [expr.unary.op]/8 *)
            else EV (p, (- conv p a) mod modulus p)
  | UNot => EV (TBool, b2z (negb (nonzero a)))                                    (* [expr.unary.op]/9 *)
  | UCompl => EV (p, if signed p then - conv p a - 1 else tmax p - conv p a)      (* [expr.unary.op]/10 *)
  end.

(* static type of an expression (needed for ?: whose type depends on the branch not taken, [expr.cond]/6) *)
Fixpoint type_of (ve : vecs) (en : env) (e : expr) : option ity :=
  match e with
  | EVar x => option_map fst (lookup x en)
  | ELit t _ => Some t
  | ECast t _ => Some t
  | EUn UNot _ => Some TBool
  | EUn _ a => option_map promote (type_of ve en a)
  | EBin o a b =>
      match type_of ve en a, type_of ve en b with
      | Some ta, Some tb => Some (if is_cmp o then TBool else if is_shift o then promote ta
                                  else common (promote ta) (promote tb))
      | _, _ => None
      end
  | ELAnd _ _ | ELOr _ _ | EStrEq _ _ | EVecEmpty _ => Some TBool
  | ECond _ a b =>
      match type_of ve en a, type_of ve en b with
      | Some ta, Some tb => Some (if ity_eqb ta tb then ta else common (promote ta) (promote tb))
      | _, _ => None
      end
  | EVecSize _ => Some TULong
  | EVecAt v _ => option_map fst (vlookup v ve)
  end.

(* conversion of a value of type ta to type t: between integer types and to long double [conv]; from an (integer-valued)
   long double to an integer type [conv.fpint]/1: the value if representable, undefined behaviour otherwise; to bool
   [conv.bool] *)
Definition cast (ta t : ity) (z : Z) : eres :=
  if is_ld ta && negb (is_ld t) && negb (ity_eqb t TBool)
  then (if in_range t z then EV (t, z) else EUB ub_fpint)
  else EV (t, conv t z).

(* the test `op == "lit"` (a function of its own so that proofs can keep it folded while names are compared) *)
Definition op_is (sp : string * string) (lit : string) : bool := String.eqb (snd sp) lit.

(* v[n], n already converted to size_type: *(v.begin() + n), defined for n < v.size() only *)
Definition vec_at (t : ity) (l : list Z) (n : Z) : eres := if n <? vec_len l then EV (t, vec_nth l n) else EUB ub_index.

(* sp = (name of the std::string parameter, its value). Operands have no side effects, so the unspecified
   evaluation order of the operands of a binary operator cannot be observed. *)
Fixpoint eval (ve : vecs) (sp : string * string) (en : env) (e : expr) : eres :=
  match e with
  | EVar x => match lookup x en with Some v => EV v | None => EStuck ("unbound name " ++ x) end
  | ELit t z => if lit_ok t z then EV (t, z) else EStuck "literal outside its type"
  | ECast t a => match eval ve sp en a with EV (ta, z) => cast ta t z | r => r end
  | EUn o a => match eval ve sp en a with EV v => unop_sem o v | r => r end
  | EBin o a b =>
      match eval ve sp en a with
      | EV va => match eval ve sp en b with EV vb => binop_sem o va vb | r => r end
      | r => r
      end
  | ELAnd a b =>                                                                  (* [expr.log.and]: short circuit *)
      match eval ve sp en a with
      | EV (_, za) => if nonzero za
                      then match eval ve sp en b with EV (_, zb) => EV (TBool, conv TBool zb) | r => r end
                      else EV (TBool, 0)
      | r => r
      end
  | ELOr a b =>                                                                   (* [expr.log.or] *)
      match eval ve sp en a with
      | EV (_, za) => if nonzero za then EV (TBool, 1)
                      else match eval ve sp en b with EV (_, zb) => EV (TBool, conv TBool zb) | r => r end
      | r => r
      end
  | ECond c a b =>                                                                (* [expr.cond]: only one branch *)
      match eval ve sp en c, type_of ve en e with
      | EV (_, zc), Some t =>
          match (if nonzero zc then eval ve sp en a else eval ve sp en b) with
          | EV (_, z) => EV (t, conv t z)
          | r => r
          end
      | EV _, None => EStuck "untypable ?:"
      | r, _ => r
      end
  | EStrEq x lit => if String.eqb x (fst sp) then EV (TBool, b2z (op_is sp lit))
                    else EStuck ("not the string parameter: " ++ x)
  | EVecSize v => match vlookup v ve with                                         (* [vector.capacity] *)
                  | Some (_, l) => EV (TULong, vec_len l) | None => EStuck ("unbound vector " ++ v) end
  | EVecEmpty v => match vlookup v ve with
                   | Some (_, l) => EV (TBool, b2z (vec_len l =? 0)) | None => EStuck ("unbound vector " ++ v) end
  | EVecAt v i =>                    (* the argument is converted to the parameter type size_type [expr.call]/7 *)
      match vlookup v ve with
      | Some (t, l) => match eval ve sp en i with EV (_, z) => vec_at t l (conv TULong z) | r => r end
      | None => EStuck ("unbound vector " ++ v)
      end
  end.

(* ---------------------------------------------------------------- statements and functions *)
Inductive result :=
| RVal (v : value)        (* return value, converted to the declared return type [stmt.return]/2 *)
| RThrow (m : string)     (* std::runtime_error(m) leaves the function *)
| RUB (what : string)     (* undefined behaviour was reached *)
| RFallOff                (* control reached the closing brace (undefined behaviour for a non-void function) *)
| RStuck (what : string)  (* not a well-formed call of a function of the fragment *)
| RCall (tag : string) (vs : list value)  (* the result object tag(vs) is returned (tag is not interpreted) *)
| RVoid                   (* `return;` (a void function may also simply reach its end: RFallOff) *)
| RNoFuel.                (* a loop was not finished within the fuel given to [run_vec]: says nothing about the C++ *)
Inductive outcome := ONext (en : env) | ODone (r : result).

(* std::to_string(int / long / unsigned long): the decimal representation, as by sprintf "%d" / "%ld" / "%lu"
   [string.conversions]/7 *)
Definition dec_string (z : Z) : string := NilZero.string_of_int (Z.to_int z).
Fixpoint msg_text (ve : vecs) (sp : string * string) (en : env) (m : msg) : option string :=
  match m with
  | MLit s => Some s
  | MStr x => if String.eqb x (fst sp) then Some (snd sp) else None
  | MCat a b => match msg_text ve sp en a, msg_text ve sp en b with Some x, Some y => Some (x ++ y)%string | _, _ => None end
  | MDec e => match eval ve sp en e with EV (_, z) => Some (dec_string z) | _ => None end
  end.

Definition lift (r : eres) (k : Z -> outcome) : outcome :=
  match r with EV (_, z) => k z | EUB w => ODone (RUB w) | EStuck w => ODone (RStuck w) end.

(* assignment to the innermost variable called x *)
Fixpoint update (x : string) (v : value) (en : env) : env :=
  match en with [] => [] | (y, w) :: r => if String.eqb x y then (y, v) :: r else (y, w) :: update x v r end.
(* leaving a block: the names declared inside it (pushed in front) go out of scope, assignments to outer variables stay *)
Definition leave (outer inner : env) : env := skipn (List.length inner - List.length outer) inner.

(* the arguments of a result constructor (no side effects: their unspecified order cannot be observed) *)
Fixpoint eval_args (ve : vecs) (sp : string * string) (en : env) (es : list expr) : result + list value :=
  match es with
  | [] => inr []
  | e :: r => match eval ve sp en e with
              | EV v => match eval_args ve sp en r with inr vs => inr (v :: vs) | inl x => inl x end
              | EUB w => inl (RUB w)
              | EStuck w => inl (RStuck w)
              end
  end.

(* [fuel]: how often the condition of ONE execution of a while statement may be evaluated (every loop, also a nested one,
   starts with the full amount); an iteration that would need more yields RNoFuel *)
Fixpoint exec (ve : vecs) (fuel : nat) (sp : string * string) (rt : ity) (en : env) (s : stmt) {struct s} : outcome :=
  match s with
  | SSkip | SEffect _ => ONext en
  | SSeq a b => match exec ve fuel sp rt en a with ONext en' => exec ve fuel sp rt en' b | d => d end
  | SReturn e => match eval ve sp en e with
                 | EV (te, z) => ODone (match cast te rt z with EV v => RVal v | EUB w => RUB w | EStuck w => RStuck w end)
                 | EUB w => ODone (RUB w) | EStuck w => ODone (RStuck w)
                 end
  | SThrow m => ODone (match msg_text ve sp en m with Some t => RThrow t | None => RStuck "exception text" end)
  | SIf c a b =>                     (* the condition is contextually converted to bool [stmt.select]; names
                                        declared in a branch go out of scope at its end [basic.scope.block] *)
      lift (eval ve sp en c) (fun z =>
        match (if nonzero z then exec ve fuel sp rt en a else exec ve fuel sp rt en b) with ONext en' => ONext (leave en en') | d => d end)
  | SDecl t x e => match eval ve sp en e with
                   | EV (te, z) => match cast te t z with
                                   | EV v => ONext ((x, v) :: en) | EUB w => ODone (RUB w) | EStuck w => ODone (RStuck w)
                                   end
                   | EUB w => ODone (RUB w) | EStuck w => ODone (RStuck w)
                   end
  | SAssign x e => match eval ve sp en e, lookup x en with
                   | EV (te, z), Some (t, _) =>
                       match cast te t z with
                       | EV v => ONext (update x v en) | EUB w => ODone (RUB w) | EStuck w => ODone (RStuck w)
                       end
                   | EV _, None => ODone (RStuck ("assignment to the unbound name " ++ x))
                   | EUB w, _ => ODone (RUB w) | EStuck w, _ => ODone (RStuck w)
                   end
  | SReturnVoid => ODone RVoid
  | SReturnCall tag es => ODone (match eval_args ve sp en es with inr vs => RCall tag vs | inl r => r end)
  | SBlock a => match exec ve fuel sp rt en a with ONext en' => ONext (leave en en') | d => d end
  | SWhile c b =>                    (* [stmt.while]: the condition (contextually converted to bool) is tested before each
                                        execution of the body; the body is a block scope entered and left on every
                                        iteration [stmt.iter]/2; return / throw inside the body leave the loop *)
      (fix loop (n : nat) (en : env) {struct n} : outcome :=
         match n with
         | O => ODone RNoFuel
         | S n' => lift (eval ve sp en c) (fun z =>
                     if nonzero z
                     then match exec ve fuel sp rt en b with ONext en' => loop n' (leave en en') | d => d end
                     else ONext en)
         end) fuel en
  end.

(* arguments are given with the parameter's name and must have exactly the parameter's type and a value inside it *)
Fixpoint bind (ps : list (string * ity)) (args : list (string * value)) : option env :=
  match ps, args with
  | [], [] => Some []
  | (x, t) :: ps', (y, (u, z)) :: args' =>
      if String.eqb x y && ity_eqb t u && in_range t z
      then option_map (cons (x, (t, z))) (bind ps' args') else None
  | _, _ => None
  end.

(* a function without vectors and loops *)
Definition run (f : fn) (op : string) (args : list (string * value)) : result :=
  match bind (f_params f) args with
  | None => RStuck "arguments do not match the parameters"
  | Some en => match exec [] 0 (f_sparam f, op) (f_ret f) en (f_body f) with ONext _ => RFallOff | ODone r => r end
  end.

(* vector arguments: exactly the declared element type, every element inside it, at most PTRDIFF_MAX elements
   (max_size() of any std::vector is not larger [vector.capacity]; libstdc++: PTRDIFF_MAX / sizeof (T)) *)
Definition vec_ok (t : ity) (l : list Z) : bool := forallb (in_range t) l && (vec_len l <=? tmax TLong).
Fixpoint bind_vecs (ps : list (string * ity)) (args : vecs) : option vecs :=
  match ps, args with
  | [], [] => Some []
  | (x, t) :: ps', (y, (u, l)) :: args' =>
      if String.eqb x y && ity_eqb t u && vec_ok t l
      then option_map (cons (x, (t, l))) (bind_vecs ps' args') else None
  | _, _ => None
  end.

Definition run_vec (fuel : nat) (f : vfn) (op : string) (vargs : vecs) (args : list (string * value)) : result :=
  match bind_vecs (v_vecs f) vargs, bind (f_params (v_fn f)) args with
  | Some ve, Some en =>
      match exec ve fuel (f_sparam (v_fn f), op) (f_ret (v_fn f)) en (f_body (v_fn f)) with ONext _ => RFallOff | ODone r => r end
  | _, _ => RStuck "arguments do not match the parameters"
  end.
