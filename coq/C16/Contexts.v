(* C16 - where a rendering stands: the print path of Nested.v inside the statements that open scopes, repeat
   their body, choose among bodies, postpone a statement, or run a re-created copy of the body.

     interpreter.cpp: AST_COMPOUND_STMT / statement executors     a block, the body of if / else, for, while, a switch
       (control_flow_executor.cpp, statement_executor.cpp)        case, a match arm: push_scope, the statements in order,
                                                                  the scope's deferred statements last-registered-first,
                                                                  pop_scope.  A loop runs its body once per iteration
                                                                  on the SAME AST nodes; a match arm binds the payload
     defer stmt;                                                  registered when reached, run when the scope is left
     generic_instantiation.cpp: clone_ast_node                    f<int>(..) / Box<int>.m(..) run a deep copy of the body:
       instantiate_generic_function / instantiate_generic_impl    every field of every node, the interpolation segments
                                                                  and their format specifier included
     primary_expression_parser.cpp: parseInterpolatedString       the AST of a literal = its segments (text / expression
                                                                  + format); evaluate_interpolated_string walks them

   A call instance is described as in Nested.v, with a body of [cstmt] tokens: [COpen al] enters a scope in which
   the expression texts [fst] of [al] mean what the keys [snd] mean outside (the loop variable / match binding /
   a call whose arguments changed since the previous iteration), [CClose] leaves it.  The harness flattens the
   control flow it generated (it knows the branch taken and the iteration count); what the model adds is that a
   rendering depends on nothing but the literal and the meanings of its expressions - not on the position, the
   iteration, or on whether the AST was copied.  Definitions only; proofs are in ContextsProofs.v. *)
From Coq Require Import List Arith Bool Ascii String ZArith NArith.
From Cb Require Import C16.Model C16.Nested.
Import ListNotations.
Local Open Scope char_scope.

Inductive cstmt :=
| CBase (s : xstmt)
| COpen (al : list (bytes * bytes))
| CClose
| CDefer (s : xstmt).

(* text -> the outcome the key has in the enclosing environment *)
Definition alias_env (e : menv) (al : list (bytes * bytes)) : menv :=
  map (fun p => (fst p, mlookup e (snd p))) al.

(* the deferred statements of a scope, last registered first, in the environment the scope has when it is left *)
Fixpoint run_defers (e : menv) (ds : list xstmt) : M unit :=
  match ds with
  | [] => mret tt
  | s :: r => mbind (stmt_m e s) (fun _ => run_defers e r)
  end.

(* environment, pending deferred statements of the current scope (head = last registered), enclosing scopes *)
Definition frames := list (menv * list xstmt).
Definition cstate := (menv * list xstmt * frames)%type.

Definition step_c (st : cstate) (s : cstmt) : M cstate :=
  let '(e, ds, stk) := st in
  match s with
  | CBase x => mbind (stmt_m e x) (fun e' => mret (e', ds, stk))
  | COpen al => mret (alias_env e al ++ e, [], (e, ds) :: stk)
  | CDefer x => mret (e, x :: ds, stk)
  | CClose =>
      mbind (run_defers e ds) (fun _ =>
      match stk with
      | (e0, ds0) :: r => mret (e0, ds0, r)
      | [] => mret (e, [], [])
      end)
  end.

Fixpoint exec_c (st : cstate) (p : list cstmt) : M cstate :=
  match p with
  | [] => mret st
  | s :: r => mbind (step_c st s) (fun st' => exec_c st' r)
  end.

(* leaving the function: the scopes still open are left innermost first *)
Fixpoint unwind (stk : frames) (e : menv) (ds : list xstmt) : M menv :=
  match stk with
  | [] => mbind (run_defers e ds) (fun _ => mret e)
  | (e0, ds0) :: r => mbind (run_defers e ds) (fun _ => unwind r e0 ds0)
  end.

Definition call_c (ps ls : menv) (body : list cstmt) (r : option xarg) : M value :=
  mbind (seq_params ps) (fun bound =>
  mbind (exec_c (bound ++ ls, [], []) body) (fun st =>
  mbind (unwind (snd st) (fst (fst st)) (snd (fst st))) (fun e' =>
  match r with
  | None => mret (VInt 0)
  | Some a => eval_arg_m e' a
  end))).

Inductive ccomp :=
| KVal (v : value)
| KCall (params : list (bytes * ccomp)) (locals : list (bytes * ccomp)) (body : list cstmt) (ret : option xarg).

Fixpoint run_ccomp (c : ccomp) : M value :=
  match c with
  | KVal v => mret v
  | KCall ps ls body r =>
      call_c (map (fun p => (fst p, run_ccomp (snd p))) ps)
             (map (fun p => (fst p, run_ccomp (snd p))) ls) body r
  end.

Definition cstmt_parses (s : cstmt) : bool :=
  match s with
  | CBase x => xstmt_parses x
  | CDefer x => xstmt_parses x
  | _ => true
  end.
Fixpoint ccomp_parses (c : ccomp) : bool :=
  match c with
  | KVal _ => true
  | KCall ps ls body r =>
      forallb (fun p => ccomp_parses (snd p)) ps && forallb (fun p => ccomp_parses (snd p)) ls
      && forallb cstmt_parses body && match r with Some a => xarg_parses a | None => true end
  end.

Definition run_main_c (c : ccomp) : ((bytes * bool) + err)%type :=
  if ccomp_parses c then
    match run_ccomp c with
    | inl (s, Some _) => inl (s, false)
    | inl (s, None) => inl (s, true)
    | inr x => inr x
    end
  else inr EParse.

(* the call instances of Nested.v are the ones without scope tokens *)
Fixpoint embed (c : comp) : ccomp :=
  match c with
  | CVal v => KVal v
  | CCall ps ls body r =>
      KCall (map (fun p => (fst p, embed (snd p))) ps) (map (fun p => (fst p, embed (snd p))) ls) (map CBase body) r
  end.

(* ---------- shapes the theorems speak about ---------- *)
(* a scope whose body is flat: printing statements, declarations, calls, deferred statements *)
Definition flat_tok (s : cstmt) : bool := match s with CBase _ | CDefer _ => true | _ => false end.
Fixpoint bases (p : list cstmt) : list xstmt :=
  match p with
  | [] => []
  | CBase x :: r => x :: bases r
  | _ :: r => bases r
  end.
Fixpoint defers (p : list cstmt) : list xstmt :=
  match p with
  | [] => []
  | CDefer x :: r => x :: defers r
  | _ :: r => defers r
  end.
Definition scope (al : list (bytes * bytes)) (body : list cstmt) : list cstmt := COpen al :: body ++ [CClose].

(* what a scope does in an environment: its statements, then its deferred statements in reverse *)
Definition scope_result (e : menv) (al : list (bytes * bytes)) (body : list cstmt) : M unit :=
  mbind (exec_m (alias_env e al ++ e) (bases body)) (fun e1 => run_defers e1 (rev (defers body))).

(* a loop / any sequence of scopes over the same enclosing environment *)
Definition scopes (its : list (list (bytes * bytes) * list cstmt)) : list cstmt :=
  List.concat (map (fun it => scope (fst it) (snd it)) its).

(* ---------- the AST of a literal and its copy ---------- *)
(* ASTNode of kind AST_STRING_INTERPOLATION_SEGMENT: is_interpolation_text / is_interpolation_expr, str_value (the
   text, or the source of the expression standing for ->left), interpolation_format *)
Record seg_node := { sn_text : bool; sn_expr : bool; sn_str : bytes; sn_fmt : option bytes }.

Definition node_of (s : segment) : seg_node :=
  match s with
  | SText t => {| sn_text := true; sn_expr := false; sn_str := t; sn_fmt := None |}
  | SDollar => {| sn_text := false; sn_expr := false; sn_str := []; sn_fmt := None |}
  | SExpr ex sp => {| sn_text := false; sn_expr := true; sn_str := ex; sn_fmt := sp |}
  end.

(* clone_ast_node: a new node, every field copied *)
Definition clone_node (n : seg_node) : seg_node :=
  {| sn_text := sn_text n; sn_expr := sn_expr n; sn_str := sn_str n; sn_fmt := sn_fmt n |}.

(* evaluate_interpolated_string over the nodes: if (is_interpolation_text) append; else if (is_interpolation_expr)
   evaluate ->left and append format_interpolated_value(value, interpolation_format) *)
Fixpoint eval_nodes_m (e : menv) (l : list seg_node) : M bytes :=
  match l with
  | [] => mret []
  | n :: r =>
      if sn_text n then mbind (eval_nodes_m e r) (fun o => mret (sn_str n ++ o))
      else if sn_expr n then
        mbind (mlookup e (sn_str n)) (fun v =>
        if spec_supported v (spec_of (sn_fmt n)) then
          mbind (eval_nodes_m e r) (fun o => mret (format_value v (spec_of (sn_fmt n)) ++ o))
        else inr EUnsupported)
      else eval_nodes_m e r
  end.

(* the parser's result for a literal token, and the evaluation of (a copy of) it *)
Definition parse_literal (s : bytes) : option (list seg_node) :=
  if has_interpolation s then
    match split s with Some segs => Some (map node_of segs) | None => None end
  else Some [node_of (SText s)].
