(* C16 - lemmas about padding, the printf directive parser of render_formatted_string and the
   spec parser of format_interpolated_value. *)
From Coq Require Import List Arith Bool Ascii String ZArith NArith Lia.
From Cb Require Import C16.Model C16.Spec C16.Digits.
Import ListNotations.
Local Open Scope char_scope.

(* ---------- lengths ---------- *)
Lemma pad_num_length m z w sg dg :
  List.length (pad_num m z w sg dg) = Nat.max w (List.length sg + List.length dg).
Proof.
  unfold pad_num, spaces, zeros. destruct m, z; repeat rewrite app_length; rewrite repeat_length; lia.
Qed.

Lemma pad_str_length m w body : List.length (pad_str m w body) = Nat.max w (List.length body).
Proof. unfold pad_str, spaces. destruct m; rewrite app_length, repeat_length; lia. Qed.

Lemma ipad_length z w body : List.length (ipad z w body) = Nat.max w (List.length body).
Proof. unfold ipad. rewrite app_length, repeat_length. lia. Qed.

(* ---------- strings without NUL / backslash pass through fputs and process_escape unchanged ---------- *)
Definition clean (s : bytes) : Prop := Forall (fun c => ceq c "000" = false /\ ceq c "\" = false) s.

Lemma cstr_clean s : clean s -> cstr s = s.
Proof. induction 1 as [|c s [H0 _] _ IH]; [ reflexivity | ]. cbn [cstr]. rewrite H0, IH. reflexivity. Qed.

Lemma process_escape_clean_bs s : no_backslash s -> process_escape s = s.
Proof.
  induction 1 as [|c s H1 _ IH]; [ reflexivity | ]. cbn [process_escape].
  assert (E : ceq c "\" = false) by (unfold ceq; apply Ascii.eqb_neq; exact H1).
  rewrite E, IH. reflexivity.
Qed.

Lemma process_escape_clean s : clean s -> process_escape s = s.
Proof.
  induction 1 as [|c s [_ H1] _ IH]; [ reflexivity | ]. cbn [process_escape]. rewrite H1, IH. reflexivity.
Qed.

Lemma clean_app a b : clean a -> clean b -> clean (a ++ b).
Proof. apply Forall_app_intro || (intros; apply Forall_app; split; assumption). Qed.

Lemma clean_repeat c k : ceq c "000" = false -> ceq c "\" = false -> clean (repeat c k).
Proof. intros. induction k; constructor; auto. Qed.

Lemma clean_base u b n : (2 <= b <= 16)%N -> clean (render_base u b n).
Proof.
  intros Hb. eapply Forall_impl; [ | apply render_base_clean; exact Hb ].
  intros c (H0 & H1 & _). split; assumption.
Qed.

Lemma clean_sign z : clean (sign_of z).
Proof. destruct z; repeat constructor. Qed.

Lemma clean_pad_num m z w sg dg : clean sg -> clean dg -> clean (pad_num m z w sg dg).
Proof.
  intros. unfold pad_num, spaces, zeros.
  destruct m, z; repeat apply clean_app; try assumption; apply clean_repeat; reflexivity.
Qed.

Lemma clean_ipad z w body : clean body -> clean (ipad z w body).
Proof. intros. unfold ipad. apply clean_app; [ destruct z; apply clean_repeat; reflexivity | assumption ]. Qed.

Lemma clean_dec z : clean (dec z).
Proof. rewrite dec_split. apply clean_app; [ apply clean_sign | apply clean_base; lia ]. Qed.

Lemma pad_num_nonempty m z w sg dg : dg <> [] -> pad_num m z w sg dg <> [].
Proof.
  intros H E. apply (f_equal (@List.length ascii)) in E. rewrite pad_num_length in E. cbn in E.
  destruct dg; [ congruence | cbn in E; lia ].
Qed.

(* ---------- span ---------- *)
Lemma span_app p a b :
  forallb p a = true -> match b with [] => True | c :: _ => p c = false end -> span p (a ++ b) = (a, b).
Proof.
  intros Ha Hb. induction a as [|x a IH].
  - cbn [app]. destruct b as [|c b]; [ reflexivity | ]. cbn [span]. rewrite Hb. reflexivity.
  - cbn [forallb] in Ha. apply andb_true_iff in Ha. destruct Ha as [Hx Ha].
    cbn [app span]. rewrite Hx, (IH Ha). reflexivity.
Qed.

(* ---------- width text ---------- *)
Lemma digit_val_char d : (d < 10)%N -> digit_val (digit_char false d) = d.
Proof.
  intros Hd.
  pose (P := fun d => if (d <? 10)%N then N.eqb (digit_val (digit_char false d)) d else true).
  assert (E : forallb P (map N.of_nat (seq 0 16)) = true) by (vm_compute; reflexivity).
  pose proof (below16 P E d ltac:(lia)) as H. unfold P in H.
  destruct (N.ltb_spec d 10); [ apply N.eqb_eq; exact H | lia ].
Qed.

Lemma nat_of_digits_udec n : nat_of_digits (udec n) = N.to_nat n.
Proof.
  unfold nat_of_digits, udec, render_base. f_equal.
  rewrite <- (digits_value 10 n) at 2 by lia. unfold from_digits.
  pose proof (digits_bound 10 n ltac:(lia)) as F. revert F. generalize 0%N. generalize (digitsN 10 n).
  induction l as [|d l IH]; intros acc F; [ reflexivity | ].
  inversion F; subst. cbn [map fold_left]. rewrite digit_val_char by assumption. apply IH. assumption.
Qed.

Lemma width_text_value w : nat_of_digits (width_text w) = w.
Proof. destruct w; [ reflexivity | ]. unfold width_text. rewrite nat_of_digits_udec. lia. Qed.

Lemma width_text_digits w : forallb is_digit (width_text w) = true.
Proof. destruct w; [ reflexivity | apply udec_all_digits ]. Qed.

(* the width never starts with '0', hence never looks like a flag *)
Lemma width_text_head w : match width_text w with [] => True | c :: _ => is_flag c = false end.
Proof.
  destruct w; [ exact I | ]. unfold width_text.
  destruct (udec_head (N.of_nat (S w))) as (c & r & E & Hc); [ lia | ]. rewrite E.
  pose proof (udec_all_digits (N.of_nat (S w))) as A. rewrite E in A. cbn [forallb] in A.
  apply andb_true_iff in A. destruct A as [A _].
  unfold is_flag. rewrite Hc.
  unfold is_digit, ceq, code in *.
  (* a digit character is none of - + space # *)
  destruct c as [b0 b1 b2 b3 b4 b5 b6 b7]; destruct b0, b1, b2, b3, b4, b5, b6, b7; try reflexivity; discriminate.
Qed.

Lemma flag_text_flags m z : forallb is_flag (flag_text m z) = true.
Proof. destruct m, z; reflexivity. Qed.

Lemma flag_text_has m z :
  has_char "-" (flag_text m z) = m /\ has_char "0" (flag_text m z) = z /\
  has_char "+" (flag_text m z) = false /\ has_char " " (flag_text m z) = false /\ has_char "#" (flag_text m z) = false.
Proof. destruct m, z; repeat split; reflexivity. Qed.

(* ---------- one directive of render_formatted_string ---------- *)
Definition conv_char (c : ascii) : Prop :=
  is_flag c = false /\ is_digit c = false /\ ceq c "." = false /\ ceq c "l" = false /\ ceq c "L" = false /\
  ceq c "%" = false.

Lemma render_go_percent fu tl args :
  match tl with [] => False | c2 :: _ => ceq c2 "%" = false end ->
  render_go (S fu) ("%" :: tl) args =
    let (flags, r1) := span is_flag tl in
    let (width, r2) := span is_digit r1 in
    let (prec, r3) := parse_prec r2 in
    let (lm, r4) := parse_len r3 in
    match r4 with
    | [] => Some ("%" :: flags ++ width ++ prec ++ lm, args)
    | spec :: r5 =>
      match args with
      | [] => oapp ["%"; spec] (render_go fu r5 [])
      | a :: args' =>
        match conv spec flags width prec a with
        | CUnsupported => None
        | CUnknown => oapp ["%"; spec] (render_go fu r5 args')
        | COk s => oapp (match s with [] => arg_to_string a | _ => s end) (render_go fu r5 args')
        end
      end
    end.
Proof.
  destruct tl as [|c2 r]; [ contradiction | ]. intros H.
  cbn [render_go]. change (ceq "%" "\") with false. change (ceq "%" "%") with true. cbn [negb].
  rewrite H. reflexivity.
Qed.

Lemma render_go_directive fu m z w c rest a args : conv_char c ->
  render_go (S fu) (directive m z w c ++ rest) (a :: args) =
  match conv c (flag_text m z) (width_text w) [] a with
  | CUnsupported => None
  | CUnknown => oapp ["%"; c] (render_go fu rest args)
  | COk s => oapp (match s with [] => arg_to_string a | _ => s end) (render_go fu rest args)
  end.
Proof.
  intros (Hf & Hd & Hdot & Hl & HL & Hp).
  unfold directive. cbn [app]. rewrite <- !app_assoc. cbn [app].
  rewrite render_go_percent.
  - rewrite (span_app is_flag (flag_text m z) (width_text w ++ c :: rest)).
    + rewrite (span_app is_digit (width_text w) (c :: rest)) by (try apply width_text_digits; exact Hd).
      unfold parse_prec. rewrite Hdot. unfold parse_len. rewrite Hl, HL. reflexivity.
    + apply flag_text_flags.
    + pose proof (width_text_head w) as Hw. destruct (width_text w); [ exact Hf | exact Hw ].
  - (* the character after '%' is not another '%' *)
    destruct m, z; cbn [flag_text app]; try reflexivity.
    pose proof (width_text_digits w) as Hw. destruct (width_text w) as [|x r]; [ exact Hp | ].
    cbn [app]. cbn [forallb] in Hw. apply andb_true_iff in Hw. destruct Hw as [Hx _].
    unfold is_digit, ceq, code in *.
    destruct x as [b0 b1 b2 b3 b4 b5 b6 b7]; destruct b0, b1, b2, b3, b4, b5, b6, b7; try reflexivity; discriminate.
Qed.

Lemma render_go_nil fu args : render_go fu [] args = Some ([], args).
Proof. destruct fu; reflexivity. Qed.

(* the integer conversions, for every flag combination of '-' and '0', every width, every value *)
Definition int_body (c : ascii) (v : Z) : bytes * bytes :=
  if ceq c "d" || ceq c "i" then (sign_of v, mag_of v)
  else if ceq c "u" then ([], udec (u64 v))
  else if ceq c "o" then ([], render_base false 8 (u64 v))
  else if ceq c "x" then ([], render_base false 16 (u64 v))
  else ([], render_base true 16 (u64 v)).
Definition int_conv_char (c : ascii) : Prop := In c ["d"; "i"; "u"; "o"; "x"; "X"].

Lemma int_body_clean c v : clean (fst (int_body c v)) /\ clean (snd (int_body c v)) /\ snd (int_body c v) <> [].
Proof.
  unfold int_body.
  destruct (ceq c "d" || ceq c "i"); [ | destruct (ceq c "u"); [ | destruct (ceq c "o"); [ | destruct (ceq c "x") ] ] ];
    cbn [fst snd]; repeat split; try apply clean_sign; try (apply clean_base; lia); try constructor;
    try (apply render_base_nonempty; lia).
Qed.

Lemma conv_int c m z w a : int_conv_char c ->
  conv c (flag_text m z) (width_text w) [] a =
  COk (pad_num m z w (fst (int_body c (farg_int a))) (snd (int_body c (farg_int a)))).
Proof.
  intros Hc. destruct (flag_text_has m z) as (Hm & Hz & Hp & Hs & Hh).
  pose proof (int_body_clean c (farg_int a)) as (C1 & C2 & _).
  unfold conv. rewrite Hm, Hz, Hp, Hs, Hh, width_text_value. cbn [orb negb].
  unfold int_body in *.
  destruct Hc as [<-|[<-|[<-|[<-|[<-|[<-|[]]]]]]]; cbv [ceq Ascii.eqb Bool.eqb orb fst snd] in *;
    rewrite cstr_clean by (apply clean_pad_num; assumption); reflexivity.
Qed.

Lemma int_conv_is_conv_char c : int_conv_char c -> conv_char c.
Proof. intros [<-|[<-|[<-|[<-|[<-|[<-|[]]]]]]]; repeat split. Qed.

Theorem render_int_directive c m z w a : int_conv_char c ->
  render (directive m z w c) [a] =
  Some (pad_num m z w (fst (int_body c (farg_int a))) (snd (int_body c (farg_int a)))).
Proof.
  intros Hc. unfold render.
  rewrite <- (app_nil_r (directive m z w c)) at 2.
  rewrite render_go_directive by (apply int_conv_is_conv_char; exact Hc).
  rewrite conv_int by exact Hc. rewrite render_go_nil. cbn [oapp append_extra].
  pose proof (int_body_clean c (farg_int a)) as (C1 & C2 & NE).
  destruct (pad_num m z w _ _) eqn:E; [ exfalso; revert E; apply pad_num_nonempty; exact NE | ].
  rewrite <- E, app_nil_r, process_escape_clean by (apply clean_pad_num; assumption). reflexivity.
Qed.

(* ---------- %% and plain text ---------- *)
Lemma escape_percent_length t : List.length t <= List.length (escape_percent t).
Proof. induction t as [|c t IH]; [ cbn; lia | ]. cbn [escape_percent]. destruct (ceq c "%"); cbn; lia. Qed.

Lemma render_go_escape_percent t : no_backslash t -> forall fu args,
  List.length (escape_percent t) <= fu -> render_go fu (escape_percent t) args = Some (t, args).
Proof.
  induction 1 as [|c t Hc _ IH]; intros fu args Hfu.
  - apply render_go_nil.
  - cbn [escape_percent] in *. assert (Hb : ceq c "\" = false).
    { unfold ceq. apply Ascii.eqb_neq. exact Hc. }
    destruct (ceq c "%") eqn:Ep.
    + cbn [List.length] in Hfu. destruct fu as [|fu]; [ lia | ].
      cbn [render_go]. change (ceq "%" "\") with false. change (ceq "%" "%") with true. cbn [negb].
      rewrite IH by lia. apply Ascii.eqb_eq in Ep. subst. reflexivity.
    + cbn [List.length] in Hfu. destruct fu as [|fu]; [ lia | ].
      cbn [render_go]. rewrite Hb, Ep. cbn [negb]. rewrite IH by lia. reflexivity.
Qed.

Theorem render_percent_percent t : no_backslash t -> render (escape_percent t) [] = Some t.
Proof.
  intros H. unfold render. rewrite render_go_escape_percent by (try assumption; lia).
  cbn [append_extra]. rewrite process_escape_clean_bs; [ reflexivity | exact H ].
Qed.

(* ---------- backslash runs before a directive (fix 475de81) ---------- *)
Definition no_meta (t : bytes) : Prop := Forall (fun c => c <> "%" /\ c <> "\") t.

Lemma has_fmt_go_plain t : no_meta t -> forall s, has_fmt_go false (t ++ s) = has_fmt_go false s.
Proof.
  induction 1 as [|c t (Hp & Hb) _ IH]; intros s; [ reflexivity | ].
  cbn [app has_fmt_go].
  assert (E1 : ceq c "%" = false) by (apply Ascii.eqb_neq; exact Hp).
  assert (E2 : ceq c "\" = false) by (apply Ascii.eqb_neq; exact Hb).
  rewrite E1, E2. apply IH.
Qed.

Lemma has_fmt_go_pairs k : forall b s, has_fmt_go b (bs_pairs k ++ s) = has_fmt_go b s.
Proof.
  induction k as [|k IH]; intros b s; [ reflexivity | ].
  cbn [bs_pairs app has_fmt_go]. change (ceq "\" "%") with false. change (ceq "\" "\") with true. cbv iota.
  rewrite negb_involutive. apply IH.
Qed.

(* an even run of backslashes leaves the directive active, an odd run hides it *)
Theorem backslash_parity_l t k rest : no_meta t ->
  has_fmt (t ++ bs_pairs k ++ "%" :: "d" :: rest) = true /\
  has_fmt (t ++ bs_pairs k ++ "\" :: "%" :: "d" :: rest) = has_fmt rest.
Proof.
  intros Ht. unfold has_fmt. split.
  - rewrite (has_fmt_go_plain t Ht), has_fmt_go_pairs. reflexivity.
  - rewrite (has_fmt_go_plain t Ht), has_fmt_go_pairs. cbn [has_fmt_go]. change (ceq "\" "%") with false. change (ceq "\" "\") with true.
    change (ceq "%" "%") with true. change (ceq "d" "%") with false. change (ceq "d" "\") with false. reflexivity.
Qed.

Lemma render_go_bs_pair fu r args :
  render_go (S fu) ("\" :: "\" :: r) args = ocons "\" (ocons "\" (render_go fu r args)).
Proof. reflexivity. Qed.

(* \\%d : one backslash, then the directive is rendered *)
Theorem render_escaped_backslash_directive m z w c a : int_conv_char c ->
  render ("\" :: "\" :: directive m z w c) [a] =
  Some ("\" :: pad_num m z w (fst (int_body c (farg_int a))) (snd (int_body c (farg_int a)))).
Proof.
  intros Hc. unfold render. cbn [List.length]. rewrite render_go_bs_pair.
  generalize (List.length (directive m z w c)). intros n.
  rewrite <- (app_nil_r (directive m z w c)).
  rewrite render_go_directive by (apply int_conv_is_conv_char; exact Hc).
  rewrite conv_int by exact Hc. rewrite render_go_nil.
  pose proof (int_body_clean c (farg_int a)) as (C1 & C2 & NE).
  remember (pad_num m z w (fst (int_body c (farg_int a))) (snd (int_body c (farg_int a)))) as out eqn:Eo.
  assert (C : clean out) by (subst out; apply clean_pad_num; assumption).
  assert (N : out <> []) by (subst out; apply pad_num_nonempty; exact NE).
  assert (E : match out with [] => arg_to_string a | _ :: _ => out end = out) by (destruct out; congruence).
  rewrite E. cbn [oapp ocons append_extra]. rewrite app_nil_r.
  change (process_escape ("\" :: "\" :: out)) with ("\"%char :: process_escape out).
  rewrite process_escape_clean by exact C. reflexivity.
Qed.
