(* C16 - {x:.Nf}: the fixed-point rendering of a double (Model.v: fix_q, frac_digits, fixed).
   The printed number q / 10^p is within half a unit of the last printed digit of the exact value m * 2^e,
   a tie goes to the even digit, an integral multiple is printed exactly; the text is sign, integer part
   (no leading zeros), and for p > 0 a point and exactly p digits; reading the digits back gives q. *)
From Coq Require Import List Arith Bool Ascii String ZArith NArith Lia.
From Cb Require Import C16.Model C16.Spec C16.Digits C16.Format.
Import ListNotations.
Local Open Scope N_scope.

(* ---------- the rounding ---------- *)
Lemma pow2_pos k : 0 < 2 ^ Npos k.
Proof. apply N.neq_0_lt_0. apply N.pow_nonzero. discriminate. Qed.

(* exponent >= 0: the value is an integer, nothing is rounded *)
Theorem fix_q_exact_l m e p : (0 <= e)%Z -> fix_q m e p = m * 10 ^ N.of_nat p * 2 ^ Z.to_N e.
Proof.
  intros He. unfold fix_q. destruct e as [|k|k]; [ | reflexivity | lia ].
  cbn [Z.to_N]. rewrite N.pow_0_r, N.mul_1_r. reflexivity.
Qed.

(* exponent < 0: |q * 2^k - m * 10^p| <= 2^k / 2 *)
Theorem fix_q_half_ulp_l m k p :
  let t := m * 10 ^ N.of_nat p in
  let d := 2 ^ Npos k in
  let q := fix_q m (Zneg k) p in
  (2 * Z.abs (Z.of_N (q * d) - Z.of_N t) <= Z.of_N d)%Z.
Proof.
  intros t d q. subst q. unfold fix_q. fold t. fold d.
  pose proof (pow2_pos k) as Hd. fold d in Hd.
  pose proof (N.div_mod t d) as Hdm. pose proof (N.mod_lt t d) as Hr.
  assert (Hd0 : d <> 0) by lia. specialize (Hdm Hd0). specialize (Hr Hd0).
  set (q0 := t / d) in *. set (r := t mod d) in *.
  destruct (2 * r <? d) eqn:E1; [ apply N.ltb_lt in E1 | apply N.ltb_ge in E1 ].
  - nia.
  - destruct (d <? 2 * r) eqn:E2; [ apply N.ltb_lt in E2 | apply N.ltb_ge in E2 ].
    + nia.
    + destruct (N.even q0); nia.
Qed.

(* an exact tie (the discarded part is exactly half a unit) goes to the even neighbour *)
Theorem fix_q_tie_even_l m k p :
  let t := m * 10 ^ N.of_nat p in
  let d := 2 ^ Npos k in
  2 * (t mod d) = d -> N.even (fix_q m (Zneg k) p) = true.
Proof.
  intros t d Ht. unfold fix_q. fold t. fold d.
  rewrite Ht. rewrite N.ltb_irrefl.
  destruct (N.even (t / d)) eqn:E; [ exact E | ].
  rewrite N.add_1_r, N.even_succ, <- N.negb_even, E. reflexivity.
Qed.

(* a value with at most p decimals is printed exactly *)
Theorem fix_q_exact_decimal_l m k p :
  let t := m * 10 ^ N.of_nat p in
  let d := 2 ^ Npos k in
  t mod d = 0 -> fix_q m (Zneg k) p * d = t.
Proof.
  intros t d Ht. unfold fix_q. fold t. fold d. rewrite Ht.
  pose proof (pow2_pos k) as Hd. fold d in Hd.
  assert (E : 2 * 0 <? d = true) by (apply N.ltb_lt; lia). rewrite E.
  pose proof (N.div_mod t d) as Hdm. assert (Hd0 : d <> 0) by lia. specialize (Hdm Hd0). rewrite Ht in Hdm. lia.
Qed.

(* ---------- the digits ---------- *)
Lemma frac_digits_acc p : forall n acc, frac_digits p n acc = frac_digits p n [] ++ acc.
Proof.
  induction p as [|p IH]; intros n acc; [ reflexivity | ].
  cbn [frac_digits]. rewrite IH, (IH _ [_]), <- app_assoc. reflexivity.
Qed.

Theorem frac_digits_length_l p n : List.length (frac_digits p n []) = p.
Proof.
  revert n. induction p as [|p IH]; intros n; [ reflexivity | ].
  cbn [frac_digits]. rewrite frac_digits_acc, app_length, IH. cbn. lia.
Qed.

Lemma frac_digits_chars p : forall n, exists ds,
  chars_digits 10 (frac_digits p n []) = Some ds /\ from_digits 10 ds = n mod 10 ^ N.of_nat p /\
  forallb is_digit (frac_digits p n []) = true.
Proof.
  induction p as [|p IH]; intros n.
  - exists []. cbn. rewrite N.mod_1_r. repeat split; reflexivity.
  - cbn [frac_digits]. rewrite frac_digits_acc.
    destruct (IH (n / 10)) as (ds & Hc & Hv & Hd).
    assert (Hlt : n mod 10 < 10) by (apply N.mod_lt; discriminate).
    exists (ds ++ [n mod 10]). split; [ | split ].
    + apply chars_digits_app; [ exact Hc | ].
      cbn [chars_digits]. rewrite digit_roundtrip by lia.
      assert (E : n mod 10 <? 10 = true) by (apply N.ltb_lt; exact Hlt). rewrite E. reflexivity.
    + unfold from_digits in *. rewrite fold_left_app. cbn [fold_left]. unfold step at 1. rewrite Hv.
      rewrite Nat2N.inj_succ, N.pow_succ_r'.
      rewrite (N.mod_mul_r n 10 (10 ^ N.of_nat p)) by (try discriminate; apply N.pow_nonzero; discriminate).
      lia.
    + rewrite forallb_app, Hd. cbn [forallb]. rewrite digit_is_digit by exact Hlt. reflexivity.
Qed.

(* reading the p fraction digits back gives q mod 10^p; they are p decimal digits *)
Theorem frac_digits_value_l p n :
  option_map (from_digits 10) (chars_digits 10 (frac_digits p n [])) = Some (n mod 10 ^ N.of_nat p) /\
  forallb is_digit (frac_digits p n []) = true.
Proof.
  destruct (frac_digits_chars p n) as (ds & Hc & Hv & Hd). rewrite Hc. cbn [option_map]. rewrite Hv. split; [ reflexivity | exact Hd ].
Qed.

(* ---------- the text ---------- *)
(* sign, canonical integer part, and for p > 0 a point and exactly p digits; integer part and fraction
   read back as q / 10^p and q mod 10^p, i.e. the text denotes q / 10^p exactly *)
Theorem fixed_shape_l neg m e p :
  let q := fix_q m e p in
  exists ip fp,
    fixed neg m e p = (if neg then ["-"%char] else []) ++ ip ++ (match p with O => [] | _ => "."%char :: fp end) /\
    parse_base 10 ip = Some (q / 10 ^ N.of_nat p) /\ canonical_unsigned ip = true /\
    List.length fp = p /\ forallb is_digit fp = true /\
    option_map (from_digits 10) (chars_digits 10 fp) = Some (q mod 10 ^ N.of_nat p).
Proof.
  intros q. exists (udec (q / 10 ^ N.of_nat p)), (frac_digits p (q mod 10 ^ N.of_nat p) []).
  split; [ reflexivity | ].
  split; [ apply render_base_roundtrip; lia | ].
  split; [ apply udec_canonical | ].
  split; [ apply frac_digits_length_l | ].
  destruct (frac_digits_value_l p (q mod 10 ^ N.of_nat p)) as [Hv Hd].
  split; [ exact Hd | ].
  rewrite Hv. rewrite N.mod_mod by (apply N.pow_nonzero; discriminate). reflexivity.
Qed.

(* {x:.pf} / {x:W.pf} / {x} of a double *)
Theorem interp_float_default_l ng m e : format_value (VFlt ng m e) [] = fixed ng m e 6.
Proof. reflexivity. Qed.

Lemma flag_false_not_zero c : is_flag c = false -> ceq c "0" = false.
Proof. unfold is_flag. intros H. destruct (ceq c "0"); [ rewrite !orb_true_r in H; cbn in H; rewrite ?orb_true_r in H; discriminate | reflexivity ]. Qed.

(* {x:[0][W].p[f]} = the fixed rendering with p decimals, right-aligned in W columns (fill character in front) *)
Theorem interp_float_spec_l zero w p tc ng m e : tc = [] \/ tc = ["f"%char] ->
  format_value (VFlt ng m e) (fspec zero w p tc) = ipad zero w (fixed ng m e p) /\
  spec_supported (VFlt ng m e) (fspec zero w p tc) = true.
Proof.
  intros Htc.
  assert (Htc' : match tc with [] => True | c :: _ => is_digit c = false end) by (destruct Htc as [->| ->]; [ exact I | reflexivity ]).
  assert (Hrest : forall r0, r0 = width_text w ++ "."%char :: udec (N.of_nat p) ++ tc ->
            span is_digit r0 = (width_text w, "."%char :: udec (N.of_nat p) ++ tc) /\
            parse_prec ("."%char :: udec (N.of_nat p) ++ tc) = ("."%char :: udec (N.of_nat p), tc)).
  { intros r0 ->. split.
    - apply span_app; [ apply width_text_digits | reflexivity ].
    - unfold parse_prec. change (ceq "." ".") with true. cbv iota.
      rewrite (span_app is_digit (udec (N.of_nat p)) tc (udec_all_digits _) Htc'). reflexivity. }
  destruct (Hrest _ eq_refl) as [Hspan Hprec].
  assert (Hsplit : (match fspec zero w p tc with
                    | c :: r => if ceq c "0" then (true, r) else (false, fspec zero w p tc)
                    | [] => (false, [])
                    end) = (zero, width_text w ++ "."%char :: udec (N.of_nat p) ++ tc)).
  { unfold fspec. destruct zero; cbn [app]; [ reflexivity | ].
    pose proof (width_text_head w) as Hw. destruct (width_text w) as [|x r] eqn:Ew; cbn [app]; [ reflexivity | ].
    rewrite (flag_false_not_zero x Hw). reflexivity. }
  assert (Hne : fspec zero w p tc <> []).
  { unfold fspec. destruct zero; cbn [app]; [ discriminate | ]. destruct (width_text w); discriminate. }
  assert (Hp : prec_of ("."%char :: udec (N.of_nat p)) = Some p).
  { cbn [prec_of]. rewrite nat_of_digits_udec, Nat2N.id. reflexivity. }
  assert (Hr0 : match fspec zero w p tc with c :: r => if ceq c "0" then r else fspec zero w p tc | [] => [] end
                = width_text w ++ "."%char :: udec (N.of_nat p) ++ tc).
  { revert Hsplit. destruct (fspec zero w p tc) as [|c r]; [ intros H; inversion H; reflexivity | ].
    destruct (ceq c "0"); intros H; inversion H; reflexivity. }
  split.
  - assert (E0 : format_value (VFlt ng m e) (fspec zero w p tc) = format_spec (VFlt ng m e) (fspec zero w p tc)).
    { unfold format_value. destruct (fspec zero w p tc); [ congruence | reflexivity ]. }
    rewrite E0. unfold format_spec. rewrite Hsplit, Hspan, Hprec, width_text_value, Hp.
    destruct Htc as [->| ->]; reflexivity.
  - assert (E1 : spec_supported (VFlt ng m e) (fspec zero w p tc) =
                 let r0 := match fspec zero w p tc with c :: r => if ceq c "0" then r else fspec zero w p tc | [] => [] end in
                 let (_, r1) := span is_digit r0 in
                 let (pr, r2) := parse_prec r1 in
                 let tc' := match r2 with c :: _ => c | [] => "000"%char end in
                 match prec_of pr with
                 | Some _ => negb (ceq tc' "x" || ceq tc' "X" || ceq tc' "b")
                 | None => false
                 end).
    { unfold spec_supported. destruct (fspec zero w p tc); [ congruence | reflexivity ]. }
    rewrite E1. cbv zeta. rewrite Hr0, Hspan, Hprec, Hp. destruct Htc as [->| ->]; reflexivity.
Qed.
