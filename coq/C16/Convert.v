(* C16 - the converters: printf directives (render_formatted_string), println of an integer,
   interpolation specs (format_interpolated_value).  Every statement is for all values / widths. *)
From Coq Require Import List Arith Bool Ascii String ZArith NArith Lia.
From Cb Require Import C16.Model C16.Spec C16.Digits C16.Format.
Import ListNotations.
Local Open Scope char_scope.

(* ---------- printf ---------- *)
Lemma int_body_d v : int_body "d" v = (sign_of v, mag_of v).
Proof. reflexivity. Qed.

Theorem printf_d_l m z w v :
  render (directive m z w "d") [FInt v] = Some (pad_num m z w (sign_of v) (mag_of v)).
Proof. rewrite render_int_directive by (left; reflexivity). reflexivity. Qed.

Theorem printf_plain_d_is_dec v : render (s2l "%d") [FInt v] = Some (dec v).
Proof.
  change (s2l "%d") with (directive false false 0 "d"). rewrite printf_d_l.
  unfold pad_num. cbn [spaces repeat Nat.sub app]. reflexivity.
Qed.

Theorem printf_lld_is_dec v : render (s2l "%lld") [FInt v] = Some (dec v).
Proof.
  unfold render. cbn [s2l list_ascii_of_string List.length].
  rewrite render_go_percent by reflexivity.
  change (span is_flag ["l"; "l"; "d"]) with (@nil ascii, ["l"; "l"; "d"]). cbv beta iota.
  change (span is_digit ["l"; "l"; "d"]) with (@nil ascii, ["l"; "l"; "d"]). cbv beta iota.
  change (parse_prec ["l"; "l"; "d"]) with (@nil ascii, ["l"; "l"; "d"]). cbv beta iota.
  change (parse_len ["l"; "l"; "d"]) with (["l"; "l"], ["d"]). cbv beta iota.
  change (conv "d" [] [] [] (FInt v)) with (COk (cstr (pad_num false false 0 (sign_of v) (mag_of v)))).
  cbv beta iota.
  remember (pad_num false false 0 (sign_of v) (mag_of v)) as out eqn:Eo.
  assert (C : clean out).
  { subst out. apply clean_pad_num; [ apply clean_sign | apply clean_base; lia ]. }
  assert (NE : out <> []).
  { subst out. apply pad_num_nonempty. apply render_base_nonempty. lia. }
  rewrite cstr_clean by exact C.
  destruct out as [|a b]; [ congruence | ].
  cbn [render_go oapp append_extra]. rewrite app_nil_r, process_escape_clean by exact C.
  rewrite Eo. unfold pad_num. cbn [spaces repeat Nat.sub app]. reflexivity.
Qed.

Theorem printf_int_length c m z w a out : int_conv_char c ->
  render (directive m z w c) [a] = Some out ->
  List.length out =
  Nat.max w (List.length (fst (int_body c (farg_int a))) + List.length (snd (int_body c (farg_int a)))).
Proof.
  intros Hc. rewrite render_int_directive by exact Hc. intros E. inversion E. apply pad_num_length.
Qed.

Theorem printf_d_length m z w v out :
  render (directive m z w "d") [FInt v] = Some out -> List.length out = Nat.max w (List.length (dec v)).
Proof.
  intros E. rewrite (printf_int_length "d" m z w (FInt v) out) by (try (left; reflexivity); exact E).
  rewrite int_body_d, dec_split, app_length. reflexivity.
Qed.

Lemma sign_zeros_parse k v : parse_dec (sign_of v ++ zeros k ++ mag_of v) = Some v.
Proof.
  unfold parse_dec. destruct v as [|p|p]; cbn [sign_of app].
  - rewrite (parse_base_zeros 10 _ _ _ ltac:(lia) (mag_of_parse 0)). reflexivity.
  - rewrite (parse_base_zeros 10 _ _ _ ltac:(lia) (mag_of_parse (Zpos p))). reflexivity.
  - rewrite parse_base_minus.
    rewrite (parse_base_zeros 10 _ _ _ ltac:(lia) (mag_of_parse (Zneg p))). reflexivity.
Qed.

(* '0' flag: the sign stays in front, the zeros go between sign and digits, the value reads back *)
Theorem printf_zero_pad_l w v :
  render (directive false true w "d") [FInt v] =
    Some (sign_of v ++ zeros (w - List.length (dec v)) ++ mag_of v) /\
  parse_dec (sign_of v ++ zeros (w - List.length (dec v)) ++ mag_of v) = Some v.
Proof.
  split.
  - rewrite printf_d_l. unfold pad_num. rewrite dec_split. reflexivity.
  - apply sign_zeros_parse.
Qed.

(* unsigned views read back the value modulo 2^64 *)
Theorem printf_unsigned_roundtrip_l c b u v : In (c, b, u) [("u", 10%N, false); ("o", 8%N, false); ("x", 16%N, false); ("X", 16%N, true)] ->
  exists out, render (directive false false 0 c) [FInt v] = Some out /\
              option_map Z.of_N (parse_base b out) = Some (v mod 18446744073709551616)%Z.
Proof.
  intros H. exists (render_base u b (u64 v)). split.
  - assert (Hc : int_conv_char c) by (unfold int_conv_char; cbn in *; intuition congruence).
    rewrite render_int_directive by exact Hc. unfold pad_num. cbn [spaces repeat Nat.sub app farg_int].
    destruct H as [E|[E|[E|[E|[]]]]]; inversion E; subst; reflexivity.
  - rewrite render_base_roundtrip.
    + cbn [option_map]. rewrite u64_value. reflexivity.
    + destruct H as [E|[E|[E|[E|[]]]]]; inversion E; subst; lia.
Qed.

(* %s and %c *)
Lemma conv_s m z w a : conv "s" (flag_text m z) (width_text w) [] a = COk (cstr (pad_str m w (arg_to_string a))).
Proof.
  destruct (flag_text_has m z) as (Hm & Hz & Hp & Hs & Hh).
  unfold conv. rewrite Hm, Hp, Hs, Hh, width_text_value. reflexivity.
Qed.

Lemma conv_c m z w a : conv "c" (flag_text m z) (width_text w) [] a =
  COk (cstr (pad_str m w [match a with FStr (c :: _) => c | _ => byte_of_Z (farg_int a) end])).
Proof.
  destruct (flag_text_has m z) as (Hm & Hz & Hp & Hs & Hh).
  unfold conv. rewrite Hm, Hp, Hs, Hh, width_text_value. reflexivity.
Qed.

Lemma clean_pad_str m w body : clean body -> clean (pad_str m w body).
Proof. intros. unfold pad_str, spaces. destruct m; apply clean_app; try assumption; apply clean_repeat; reflexivity. Qed.

Theorem printf_s_l m z w s : clean s ->
  render (directive m z w "s") [FStr s] = Some (pad_str m w s).
Proof.
  intros C. unfold render. rewrite <- (app_nil_r (directive m z w "s")) at 2.
  rewrite render_go_directive by (repeat split). rewrite conv_s, render_go_nil.
  cbn [arg_to_string]. rewrite cstr_clean by (apply clean_pad_str; exact C).
  assert (E : (match pad_str m w s with [] => s | _ => pad_str m w s end) = pad_str m w s).
  { destruct (pad_str m w s) eqn:E; [ | reflexivity ].
    apply (f_equal (@List.length ascii)) in E. rewrite pad_str_length in E. cbn in E.
    destruct s; [ reflexivity | cbn in E; lia ]. }
  rewrite E. cbn [oapp append_extra]. rewrite app_nil_r, process_escape_clean by (apply clean_pad_str; exact C).
  reflexivity.
Qed.

Theorem printf_c_l m z w v : clean [byte_of_Z v] ->
  render (directive m z w "c") [FInt v] = Some (pad_str m w [byte_of_Z v]).
Proof.
  intros C. unfold render. rewrite <- (app_nil_r (directive m z w "c")) at 2.
  rewrite render_go_directive by (repeat split). rewrite conv_c, render_go_nil.
  cbn [farg_int]. rewrite cstr_clean by (apply clean_pad_str; exact C).
  destruct (pad_str m w [byte_of_Z v]) eqn:E.
  - apply (f_equal (@List.length ascii)) in E. rewrite pad_str_length in E. cbn in E. lia.
  - rewrite <- E. cbn [oapp append_extra].
    rewrite app_nil_r, process_escape_clean by (apply clean_pad_str; exact C). reflexivity.
Qed.

(* ---------- println of one integer ---------- *)
Theorem println_int_is_dec e v : stmt_out e (SPrint true [AInt v]) = inl (dec v ++ ["010"]).
Proof. reflexivity. Qed.

(* ---------- interpolation specs ---------- *)
Definition spec_letter (c : ascii) : Prop := is_digit c = false /\ ceq c "." = false.

Lemma not_digit_not_zero c : is_digit c = false -> ceq c "0" = false.
Proof.
  unfold is_digit, ceq, code.
  destruct c as [b0 b1 b2 b3 b4 b5 b6 b7]; destruct b0, b1, b2, b3, b4, b5, b6, b7; intros H; try reflexivity; discriminate.
Qed.

Definition fmt_expected (v : value) (zero : bool) (w : nat) (tc : ascii) : bytes :=
  if ceq tc "x" then ipad zero w (render_base false 16 (u64 (value_int v)))
  else if ceq tc "X" then ipad zero w (render_base true 16 (u64 (value_int v)))
  else if ceq tc "b" then
    let bin := render_base false 2 (u64 (value_int v)) in
    if zero && (0 <? w)%nat then ipad true w bin else bin
  else match v with
       | VInt z => if zero then pad_num false true w (sign_of z) (mag_of z) else ipad false w (dec z)
       | VStr s => s
       | VFlt _ _ _ => []           (* no precision in these specs: a double is outside the model *)
       end.

Lemma format_value_parse v zero w (tc : bytes) :
  match tc with [] => True | c :: _ => spec_letter c end ->
  ispec zero w tc <> [] ->
  format_value v (ispec zero w tc) = fmt_expected v zero w (match tc with c :: _ => c | [] => "000" end).
Proof.
  intros Htc NE.
  assert (E0 : format_value v (ispec zero w tc) = format_spec v (ispec zero w tc)).
  { unfold format_value. destruct (ispec zero w tc); [ congruence | reflexivity ]. }
  rewrite E0. clear E0 NE. unfold format_spec.
  assert (Hsplit : (match ispec zero w tc with
                    | c :: r => if ceq c "0" then (true, r) else (false, ispec zero w tc)
                    | [] => (false, [])
                    end) = (zero, width_text w ++ tc)).
  { unfold ispec. destruct zero; cbn [app]; [ reflexivity | ].
    pose proof (width_text_head w) as Hw. destruct (width_text w) as [|x r] eqn:Ew.
    - cbn [app]. destruct tc as [|c t]; [ reflexivity | ].
      destruct Htc as [Hd _]. rewrite (not_digit_not_zero c Hd). reflexivity.
    - cbn [app]. unfold is_flag in Hw. destruct (ceq x "0"); [ | reflexivity ].
      rewrite !orb_true_r in Hw. cbn in Hw. discriminate. }
  rewrite Hsplit.
  rewrite (span_app is_digit (width_text w) tc).
  - rewrite width_text_value. unfold parse_prec, fmt_expected.
    destruct tc as [|c t]; [ reflexivity | ]. destruct Htc as [_ Hdot]. rewrite Hdot. reflexivity.
  - apply width_text_digits.
  - destruct tc as [|c t]; [ exact I | apply Htc ].
Qed.

Theorem interp_default_is_dec z : format_value (VInt z) [] = dec z.
Proof. reflexivity. Qed.

Theorem interp_dec_width_l zero w z tc : tc = [] \/ tc = ["d"] -> (zero = true \/ w <> 0 \/ tc <> []) ->
  format_value (VInt z) (ispec zero w tc) =
  if zero then pad_num false true w (sign_of z) (mag_of z) else ipad false w (dec z).
Proof.
  intros Htc NE. rewrite format_value_parse.
  - destruct Htc as [->| ->]; reflexivity.
  - destruct Htc as [->| ->]; [ exact I | split; reflexivity ].
  - unfold ispec. destruct zero; [ discriminate | ]. cbn [app].
    destruct w as [|w].
    + cbn [width_text app]. destruct NE as [?|[?|?]]; congruence.
    + intros E. apply app_eq_nil in E. destruct E as [E _]. unfold width_text in E.
      apply render_base_nonempty in E; [ exact E | lia ].
Qed.

Definition hex_letter (upper : bool) : ascii := if upper then "X" else "x".

Theorem interp_hex_l zero w z upper :
  format_value (VInt z) (ispec zero w [hex_letter upper]) =
  ipad zero w (render_base upper 16 (u64 z)).
Proof.
  rewrite format_value_parse.
  - destruct upper; reflexivity.
  - destruct upper; split; reflexivity.
  - unfold ispec. intros E. apply app_eq_nil in E. destruct E as [_ E]. apply app_eq_nil in E.
    destruct E as [_ E]. discriminate.
Qed.

Theorem interp_bin_l zero w z :
  format_value (VInt z) (ispec zero w ["b"]) =
  if zero && (0 <? w)%nat then ipad true w (render_base false 2 (u64 z)) else render_base false 2 (u64 z).
Proof.
  rewrite format_value_parse.
  - reflexivity.
  - split; reflexivity.
  - unfold ispec. intros E. apply app_eq_nil in E. destruct E as [_ E]. apply app_eq_nil in E.
    destruct E as [_ E]. discriminate.
Qed.

(* reading back: zero padding and the plain form give the value mod 2^64 *)
Lemma ipad_zero_parse b w s n : (1 <= b)%N -> parse_base b s = Some n -> parse_base b (ipad true w s) = Some n.
Proof. intros. unfold ipad. apply (parse_base_zeros b); assumption. Qed.

Lemma ipad_0 zero s : ipad zero 0 s = s.
Proof. reflexivity. Qed.

Theorem interp_hex_roundtrip_l w z upper :
  option_map Z.of_N (parse_base 16 (format_value (VInt z) (ispec true w [hex_letter upper])))
  = Some (z mod 18446744073709551616)%Z /\
  option_map Z.of_N (parse_base 16 (format_value (VInt z) [hex_letter upper]))
  = Some (z mod 18446744073709551616)%Z.
Proof.
  split.
  - rewrite interp_hex_l, (ipad_zero_parse 16 w _ (u64 z)) by (try lia; apply render_base_roundtrip; lia).
    cbn [option_map]. rewrite u64_value. reflexivity.
  - change [hex_letter upper] with (ispec false 0 [hex_letter upper]).
    rewrite interp_hex_l, ipad_0, render_base_roundtrip by lia.
    cbn [option_map]. rewrite u64_value. reflexivity.
Qed.

Theorem interp_bin_roundtrip_l zero w z :
  option_map Z.of_N (parse_base 2 (format_value (VInt z) (ispec zero w ["b"])))
  = Some (z mod 18446744073709551616)%Z.
Proof.
  rewrite interp_bin_l.
  destruct (zero && (0 <? w)%nat).
  - rewrite (ipad_zero_parse 2 w _ (u64 z)) by (try lia; apply render_base_roundtrip; lia).
    cbn [option_map]. rewrite u64_value. reflexivity.
  - rewrite render_base_roundtrip by lia. cbn [option_map]. rewrite u64_value. reflexivity.
Qed.

Theorem interp_width_length_l zero w z tc : tc = [] \/ tc = ["d"] -> (zero = true \/ w <> 0 \/ tc <> []) ->
  List.length (format_value (VInt z) (ispec zero w tc)) = Nat.max w (List.length (dec z)).
Proof.
  intros. rewrite interp_dec_width_l by assumption. destruct zero.
  - rewrite pad_num_length, dec_split, app_length. reflexivity.
  - apply ipad_length.
Qed.

(* zero padding: sign first, zeros between sign and digits, the text reads back as the value - for every
   value, negative ones included (repaired by /repo commit 4cd822e, former finding #27) *)
Theorem interp_zero_pad_l w z tc : tc = [] \/ tc = ["d"] ->
  format_value (VInt z) (ispec true w tc) = sign_of z ++ zeros (w - List.length (dec z)) ++ mag_of z /\
  parse_dec (format_value (VInt z) (ispec true w tc)) = Some z.
Proof.
  intros Htc. rewrite interp_dec_width_l by (try assumption; left; reflexivity).
  unfold pad_num. rewrite <- dec_split. split; [ reflexivity | apply sign_zeros_parse ].
Qed.
