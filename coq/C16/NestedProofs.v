(* C16 - proofs about Nested.v: rendering inside rendering.
   - the effect-free model of Model.v is exactly the restriction of the nested model (so every theorem of
     Properties_C16 about Model.v speaks about the extracted [run_main] as well);
   - evaluate_interpolated_string is re-entrant: whatever the evaluation of an expression segment writes,
     renders or raises, the text before and after it is byte-identical, at every nesting depth;
   - what a statement writes is the arguments' own output in evaluation order, interleaved with the
     separators / followed by the rendered format exactly as print_multiple does it;
   - an error raised inside a nested evaluation keeps everything written before it and nothing after. *)
From Coq Require Import List Arith Bool Ascii String ZArith NArith Lia.
From Cb Require Import C16.Model C16.Spec C16.Segments C16.Print C16.Nested.
Import ListNotations.
Local Open Scope char_scope.

(* ---------- the monad ---------- *)
Lemma mbind_mret_l {A B} (a : A) (f : A -> M B) : mbind (mret a) f = f a.
Proof. unfold mbind, mret. destruct (f a) as [[s r]|x]; reflexivity. Qed.

Lemma mbind_mret_r {A} (m : M A) : mbind m mret = m.
Proof. destruct m as [[s [a|]]|x]; cbn; rewrite ?app_nil_r; reflexivity. Qed.

Lemma mbind_ok {A B} (m : M A) (f : A -> M B) s a s' r :
  m = inl (s, Some a) -> f a = inl (s', r) -> mbind m f = inl (s ++ s', r).
Proof. intros -> H. cbn. rewrite H. reflexivity. Qed.

Lemma mbind_fail {A B} (m : M A) (f : A -> M B) s : m = inl (s, None) -> mbind m f = inl (s, None).
Proof. intros ->. reflexivity. Qed.

Lemma mbind_err {A B} (m : M A) (f : A -> M B) x : m = inr x -> mbind m f = inr x.
Proof. intros ->. reflexivity. Qed.

Lemma mbind_assoc {A B C} (m : M A) (f : A -> M B) (g : B -> M C) :
  mbind (mbind m f) g = mbind m (fun a => mbind (f a) g).
Proof.
  destruct m as [[s [a|]]|x]; cbn; try reflexivity.
  destruct (f a) as [[s1 [b|]]|y]; cbn; try reflexivity.
  destruct (g b) as [[s2 r]|z]; cbn; [ rewrite app_assoc | ]; reflexivity.
Qed.

Lemma mbind_emit {B} b (f : unit -> M B) s r : f tt = inl (s, r) -> mbind (emit b) f = inl (b ++ s, r).
Proof. intros H. unfold emit. cbn. rewrite H. reflexivity. Qed.

Lemma mbind_ext {A B} (m : M A) (f g : A -> M B) : (forall a, f a = g a) -> mbind m f = mbind m g.
Proof. intros H. destruct m as [[s [a|]]|x]; cbn; try reflexivity. rewrite H. reflexivity. Qed.

(* ---------- Model.v is the effect-free restriction ---------- *)
Definition lift_res {A} (r : (A + err)%type) : M A := match r with inl a => mret a | inr x => inr x end.
Definition lift_out (r : res) : M unit := match r with inl o => emit o | inr x => inr x end.

Lemma mlookup_lift e k :
  mlookup (lift_env e) k = match lookup e k with Some v => mret v | None => inr EUnbound end.
Proof.
  induction e as [|[k' v] e IH]; [ reflexivity | ].
  cbn [lift_env map mlookup lookup fst snd]. destruct (beq k k'); [ reflexivity | exact IH ].
Qed.

Lemma eval_segs_lift e l : eval_segs_m (lift_env e) l = lift_res (eval_segs e l).
Proof.
  induction l as [|s l IH]; [ reflexivity | ].
  destruct s as [t|ex sp|]; cbn [eval_segs_m eval_segs].
  - rewrite IH. destruct (eval_segs e l) as [o|x]; cbn; [ rewrite ?app_nil_r | ]; reflexivity.
  - rewrite mlookup_lift. destruct (lookup e ex) as [v|]; [ | reflexivity ].
    rewrite mbind_mret_l. unfold spec_of.
    destruct (spec_supported v match sp with Some f => f | None => [] end); [ | reflexivity ].
    rewrite IH. destruct (eval_segs e l) as [o|x]; cbn; reflexivity.
  - exact IH.
Qed.

Lemma eval_quoted_lift e s : eval_quoted_m (lift_env e) s = lift_res (eval_quoted e s).
Proof.
  unfold eval_quoted_m, eval_quoted. destruct (has_interpolation s); [ | reflexivity ].
  destruct (split s); [ apply eval_segs_lift | reflexivity ].
Qed.

Lemma print_value_lift e a : print_value_m (lift_env e) (lift_arg a) = lift_out (print_value e a).
Proof.
  destruct a as [s|z|s]; unfold print_value_m; cbn [lift_arg eval_arg_m print_value]; try reflexivity.
  rewrite eval_quoted_lift. destruct (eval_quoted e s) as [o|x]; reflexivity.
Qed.

Lemma print_argument_lift e a : print_argument_m (lift_env e) (lift_arg a) = lift_out (print_argument e a).
Proof.
  destruct a as [s|z|s]; cbn [lift_arg print_argument_m print_argument].
  - destruct (has_interpolation s); [ apply (print_value_lift e (AQuoted s)) | reflexivity ].
  - apply (print_value_lift e (AInt z)).
  - apply (print_value_lift e (AStr s)).
Qed.

Lemma join_values_lift e first l :
  join_values_m (lift_env e) first (map lift_arg l) = lift_out (join_values e first l).
Proof.
  revert first. induction l as [|a l IH]; intros first; [ reflexivity | ].
  cbn [map join_values_m join_values]. rewrite print_argument_lift, IH.
  destruct (print_argument e a) as [v|x]; cbn [rbind lift_out].
  - destruct (join_values e false l) as [o|y]; cbn; reflexivity.
  - reflexivity.
Qed.

Lemma collect_lift e l : collect_m (lift_env e) (map lift_arg l) = lift_res (collect e l).
Proof.
  induction l as [|a l IH]; [ reflexivity | ].
  cbn [map collect_m collect]. rewrite IH.
  destruct a as [s|z|s]; cbn [lift_arg eval_arg_m].
  - rewrite eval_quoted_lift. destruct (eval_quoted e s) as [v|x]; [ | reflexivity ].
    destruct (collect e l) as [xs|y]; reflexivity.
  - destruct (collect e l) as [xs|y]; reflexivity.
  - destruct (collect e l) as [xs|y]; reflexivity.
Qed.

Lemma find_fmt_lift l :
  find_fmt_x (map lift_arg l) =
  match find_fmt l with Some (pre, f, post) => Some (map lift_arg pre, f, map lift_arg post) | None => None end.
Proof.
  induction l as [|a l IH]; [ reflexivity | ].
  cbn [map find_fmt_x find_fmt].
  assert (E : is_fmt_literal_x (lift_arg a) = is_fmt_literal a) by (destruct a; reflexivity).
  rewrite E. destruct (is_fmt_literal a); [ reflexivity | ].
  rewrite IH. destruct (find_fmt l) as [[[pre f] post]|]; reflexivity.
Qed.

Lemma print_multiple_lift e args :
  print_multiple_m (lift_env e) (map lift_arg args) = lift_out (print_multiple e args).
Proof.
  destruct args as [|a [|b r]]; [ reflexivity | apply print_argument_lift | ].
  unfold print_multiple_m, print_multiple.
  change (lift_arg a :: lift_arg b :: map lift_arg r) with (map lift_arg (a :: b :: r)).
  cbn [map]. change (lift_arg a :: lift_arg b :: map lift_arg r) with (map lift_arg (a :: b :: r)).
  rewrite find_fmt_lift. destruct (find_fmt (a :: b :: r)) as [[[pre f] post]|]; [ | apply join_values_lift ].
  rewrite join_values_lift, collect_lift.
  destruct (join_values e true pre) as [p|x]; cbn [rbind lift_out]; [ | reflexivity ].
  destruct (collect e post) as [fa|y]; [ | destruct pre; reflexivity ].
  destruct (render f fa) as [out|] eqn:Er; destruct pre; cbn; rewrite Er; cbn; rewrite ?app_nil_r; reflexivity.
Qed.

Lemma stmt_lift e s (Hs : s <> SFail) :
  stmt_m (lift_env e) (lift_stmt s) =
  match stmt_out e s with inl o => inl (o, Some (lift_env e)) | inr x => inr x end.
Proof.
  destruct s as [nl args|]; [ | congruence ].
  cbn [lift_stmt stmt_m stmt_out]. rewrite print_multiple_lift.
  destruct (print_multiple e args) as [o|x]; cbn; [ | reflexivity ].
  rewrite app_nil_r. reflexivity.
Qed.

Lemma exec_lift e p :
  exec_m (lift_env e) (map lift_stmt p) =
  match exec e p with
  | (inl o, false) => inl (o, Some (lift_env e))
  | (inl o, true) => inl (o, None)
  | (inr x, _) => inr x
  end.
Proof.
  induction p as [|s p IH]; [ reflexivity | ].
  destruct s as [nl args|]; [ | reflexivity ].
  cbn [map exec_m exec]. rewrite stmt_lift by discriminate.
  destruct (stmt_out e (SPrint nl args)) as [o|x]; [ | reflexivity ].
  cbn [mbind]. rewrite IH. destruct (exec e p) as [[o'|y] [|]]; reflexivity.
Qed.

Lemma forallb_parses_lift p : forallb xstmt_parses (map lift_stmt p) = forallb stmt_parses p.
Proof.
  induction p as [|s p IH]; [ reflexivity | ]. cbn [map forallb]. rewrite IH. f_equal.
  destruct s as [nl args|]; [ | reflexivity ]. cbn [lift_stmt xstmt_parses stmt_parses].
  induction args as [|a args IHa]; [ reflexivity | ]. cbn [map forallb]. rewrite IHa. f_equal.
  destruct a; reflexivity.
Qed.

Lemma run_locals_lift e :
  map (fun p : bytes * comp => (fst p, run_comp (snd p))) (map (fun q : bytes * value => (fst q, CVal (snd q))) e) = lift_env e.
Proof. unfold lift_env. rewrite map_map. apply map_ext. intros [k v]. reflexivity. Qed.

Lemma comp_parses_vals (e : env) :
  forallb (fun p : bytes * comp => comp_parses (snd p)) (map (fun q : bytes * value => (fst q, CVal (snd q))) e) = true.
Proof. induction e as [|[k v] e IH]; [ reflexivity | exact IH ]. Qed.

(* a program of Model.v, run by the nested model, gives the same stdout and the same kind of ending *)
Theorem nested_conservative_l e p :
  run_main (lift_program e p) =
  match run_program e p with
  | (inl o, failed) => inl (o, failed)
  | (inr x, _) => inr x
  end.
Proof.
  unfold run_main, run_program, lift_program.
  cbn [comp_parses forallb andb]. rewrite comp_parses_vals, forallb_parses_lift, andb_true_r. cbn [andb].
  destruct (forallb stmt_parses p); [ | reflexivity ].
  cbn [run_comp map]. rewrite run_locals_lift. unfold call_m. cbn [seq_params].
  rewrite mbind_mret_l. cbn [app]. rewrite exec_lift.
  destruct (exec e p) as [[o|x] [|]]; cbn; rewrite ?app_nil_r; reflexivity.
Qed.

(* ---------- interpolation: one expression between two texts ---------- *)
Definition text_seg (t : bytes) : list segment := match t with [] => [] | _ => [SText t] end.

Lemma split_one_expr t1 ex t2 : plain_text t1 -> no_backslash t1 -> plain_text t2 -> no_braces ex ->
  has_interpolation (t1 ++ "{" :: ex ++ "}" :: t2) = true /\
  split (t1 ++ "{" :: ex ++ "}" :: t2) = Some (text_seg t1 ++ mk_expr ex :: text_seg t2).
Proof.
  intros H1 Hb H2 He. split.
  { clear H2. induction H1 as [|c t (Ho & _ & _) _ IH].
    - cbn [app has_interpolation]. change (ceq "{" "\") with false. change (ceq "{" "{") with true. cbv iota.
      destruct He as [|c ex (Ho & _) _]; cbn [app]; [ reflexivity | ]. rewrite (ceq_neq _ _ Ho). reflexivity.
    - inversion Hb; subst. cbn [app has_interpolation].
      rewrite (ceq_neq c "\") by assumption. rewrite (ceq_neq _ _ Ho). apply IH. assumption. }
  unfold split. rewrite split_go_plain by exact H1. cbn [app].
  cbn [split_go]. change (ceq "{" "$") with false. change (ceq "{" "{") with true. cbn [andb].
  assert (Hnext : match ex ++ "}" :: t2 with
                  | c2 :: r => if ceq c2 "{" then split_go r MText (t1 ++ ["{"])
                               else flush t1 (split_go (ex ++ "}" :: t2) (MExpr 0 []) [])
                  | [] => flush t1 (split_go (ex ++ "}" :: t2) (MExpr 0 []) [])
                  end = flush t1 (split_go (ex ++ "}" :: t2) (MExpr 0 []) [])).
  { destruct He as [|c ex' (Ho & _) _]; cbn [app]; [ reflexivity | ]. rewrite (ceq_neq _ _ Ho). reflexivity. }
  rewrite Hnext. rewrite split_go_expr by exact He. cbn [app].
  rewrite <- (app_nil_r t2) at 1. rewrite split_go_plain by exact H2. cbn [app split_go].
  destruct t1, t2; reflexivity.
Qed.

Lemma eval_text_seg e t (l : list segment) :
  eval_segs_m e (text_seg t ++ l) = mbind (eval_segs_m e l) (fun o => mret (t ++ o)).
Proof.
  destruct t as [|c t]; [ | reflexivity ].
  cbn [text_seg app]. symmetry. apply mbind_mret_r.
Qed.

(* whatever the evaluation of {ex} writes (side) and yields (v), the texts around it are byte-identical *)
Theorem interp_nested_frame_l e t1 ex t2 side v :
  plain_text t1 -> no_backslash t1 -> plain_text t2 -> no_braces ex ->
  mlookup e (fst (split_colon ex)) = inl (side, Some v) ->
  spec_supported v (spec_of (snd (split_colon ex))) = true ->
  eval_quoted_m e (t1 ++ "{" :: ex ++ "}" :: t2) =
  inl (side, Some (t1 ++ format_value v (spec_of (snd (split_colon ex))) ++ t2)).
Proof.
  intros H1 Hb H2 He Hl Hsup. unfold eval_quoted_m.
  destruct (split_one_expr t1 ex t2 H1 Hb H2 He) as [Hf Hs]. rewrite Hf, Hs.
  rewrite eval_text_seg. unfold mk_expr. destruct (split_colon ex) as [a o]. cbn [fst snd] in *.
  cbn [eval_segs_m]. rewrite Hl. cbn [mbind]. rewrite Hsup.
  assert (Et : eval_segs_m e (text_seg t2) = mret t2).
  { destruct t2; [ reflexivity | ]. cbn [text_seg eval_segs_m]. rewrite mbind_mret_l, app_nil_r. reflexivity. }
  rewrite Et. cbn. rewrite !app_nil_r. reflexivity.
Qed.

(* ... and if it raises an error, nothing of the outer string is ever produced *)
Theorem interp_nested_error_l e t1 ex t2 side :
  plain_text t1 -> no_backslash t1 -> plain_text t2 -> no_braces ex ->
  mlookup e (fst (split_colon ex)) = inl (side, None) ->
  eval_quoted_m e (t1 ++ "{" :: ex ++ "}" :: t2) = inl (side, None).
Proof.
  intros H1 Hb H2 He Hl. unfold eval_quoted_m.
  destruct (split_one_expr t1 ex t2 H1 Hb H2 He) as [Hf Hs]. rewrite Hf, Hs.
  rewrite eval_text_seg. unfold mk_expr. destruct (split_colon ex) as [a o]. cbn [fst snd] in *.
  cbn [eval_segs_m]. rewrite Hl. reflexivity.
Qed.

(* ---------- interpolation: any segment list ---------- *)
(* what one segment writes while it is evaluated and what it contributes to the value *)
Definition seg_ok (e : menv) (s : segment) (o : bytes * bytes) : Prop :=
  match s with
  | SText t => o = ([], t)
  | SDollar => o = ([], [])
  | SExpr ex sp => exists v, mlookup e ex = inl (fst o, Some v) /\ spec_supported v (spec_of sp) = true /\
                             snd o = format_value v (spec_of sp)
  end.

Theorem eval_segs_m_ok_l e l outs : Forall2 (seg_ok e) l outs ->
  eval_segs_m e l = inl (List.concat (map fst outs), Some (List.concat (map snd outs))).
Proof.
  induction 1 as [|s o l outs Hs _ IH]; [ reflexivity | ].
  destruct s as [t|ex sp|]; cbn [seg_ok] in Hs; cbn [eval_segs_m map List.concat].
  - subst o. rewrite IH. cbn. rewrite app_nil_r. reflexivity.
  - destruct Hs as (v & Hl & Hsup & Hv). destruct o as [sd val]. cbn [fst snd] in *. subst val.
    rewrite Hl. cbn [mbind]. rewrite Hsup, IH. cbn. rewrite app_nil_r. reflexivity.
  - subst o. rewrite IH. reflexivity.
Qed.

Theorem eval_segs_m_error_l e l1 outs ex sp l2 side : Forall2 (seg_ok e) l1 outs ->
  mlookup e ex = inl (side, None) ->
  eval_segs_m e (l1 ++ SExpr ex sp :: l2) = inl (List.concat (map fst outs) ++ side, None).
Proof.
  intros H Hl. induction H as [|s o l outs Hs _ IH].
  - cbn [app eval_segs_m map List.concat]. rewrite Hl. reflexivity.
  - destruct s as [t|ex' sp'|]; cbn [seg_ok] in Hs; cbn [app eval_segs_m map List.concat].
    + subst o. rewrite IH. reflexivity.
    + destruct Hs as (v & Hl' & Hsup & Hv). destruct o as [sd val]. cbn [fst snd] in *.
      rewrite Hl'. cbn [mbind]. rewrite Hsup, IH. cbn. rewrite app_assoc. reflexivity.
    + subst o. rewrite IH. reflexivity.
Qed.

(* ---------- print / println with arguments that write ---------- *)
Definition arg_ok (e : menv) (a : xarg) (o : bytes) : Prop := print_argument_m e a = inl (o, Some tt).

(* a call prints what it writes while running, then the text of its value *)
Theorem print_call_l e n side v : mlookup e n = inl (side, Some v) -> is_flt v = false ->
  print_argument_m e (XRef n) = inl (side ++ value_bytes v, Some tt).
Proof. intros H Hf. unfold print_argument_m, print_value_m. cbn [eval_arg_m]. rewrite H. cbn [mbind]. rewrite Hf. reflexivity. Qed.

Theorem print_interpolated_l e s side b : has_interpolation s = true ->
  eval_quoted_m e s = inl (side, Some b) ->
  print_argument_m e (XQuoted s) = inl (side ++ cstr b, Some tt).
Proof.
  intros Hi H. unfold print_argument_m. rewrite Hi. unfold print_value_m. cbn [eval_arg_m]. rewrite H. cbn.
  rewrite app_nil_r. reflexivity.
Qed.

Lemma join_values_m_false e args vs : Forall2 (arg_ok e) args vs ->
  join_values_m e false args = inl (List.concat (map (cons " ") vs), Some tt).
Proof.
  induction 1 as [|a v args vs Ha _ IH]; [ reflexivity | ].
  cbn [join_values_m map List.concat]. unfold arg_ok in Ha.
  apply (mbind_emit [" "]). rewrite Ha. cbn [mbind]. rewrite IH. reflexivity.
Qed.

Lemma join_values_m_true e args vs : Forall2 (arg_ok e) args vs ->
  join_values_m e true args = inl (join_sp vs, Some tt).
Proof.
  destruct 1 as [|a v args vs Ha H]; [ reflexivity | ].
  cbn [join_values_m join_sp]. unfold arg_ok in Ha.
  rewrite (mbind_emit [] _ (v ++ List.concat (map (cons " ") vs)) (Some tt)); [ reflexivity | ].
  rewrite Ha. cbn [mbind]. rewrite (join_values_m_false e args vs H). reflexivity.
Qed.

(* the arguments' own output appears in evaluation order, each after the separator that precedes it *)
Theorem println_m_single_spaces_l e nl args vs : 2 <= List.length args -> find_fmt_x args = None ->
  Forall2 (arg_ok e) args vs ->
  stmt_m e (XPrint nl args) = inl (join_sp vs ++ (if nl then ["010"] else []), Some e).
Proof.
  intros Hlen Hf H. cbn [stmt_m]. unfold print_multiple_m.
  destruct args as [|a [|b r]]; try (cbn in Hlen; lia).
  rewrite Hf, (join_values_m_true e _ vs H). cbn. rewrite app_nil_r. reflexivity.
Qed.

(* an error raised while argument number |pre| is evaluated: stdout holds the earlier arguments, the
   separator and what the failing evaluation wrote; nothing else *)
Lemma join_values_m_error e first pre vs a post side : Forall2 (arg_ok e) pre vs ->
  print_argument_m e a = inl (side, None) ->
  join_values_m e first (pre ++ a :: post) =
  inl ((if first then join_sp vs else List.concat (map (cons " ") vs))
       ++ (match pre with [] => if first then [] else [" "] | _ => [" "] end) ++ side, None).
Proof.
  intros H Ha. revert first. induction H as [|p v pre vs Hp _ IH]; intros first.
  - cbn [app join_values_m map List.concat join_sp]. rewrite Ha.
    destruct first; reflexivity.
  - cbn [app join_values_m]. unfold arg_ok in Hp. rewrite Hp. cbn [mbind emit]. rewrite (IH false).
    destruct first; cbn [join_sp map List.concat app]; rewrite <- ?app_assoc; cbn [app].
    + destruct pre; reflexivity.
    + destruct pre; reflexivity.
Qed.

Theorem println_m_error_l e nl pre vs a post side : find_fmt_x (pre ++ a :: post) = None ->
  2 <= List.length (pre ++ a :: post) -> Forall2 (arg_ok e) pre vs ->
  print_argument_m e a = inl (side, None) ->
  stmt_m e (XPrint nl (pre ++ a :: post)) =
  inl (join_sp vs ++ (match pre with [] => [] | _ => [" "] end) ++ side, None).
Proof.
  intros Hf Hlen H Ha. cbn [stmt_m]. unfold print_multiple_m.
  destruct (pre ++ a :: post) as [|x [|y r]] eqn:E; try (cbn in Hlen; lia).
  rewrite Hf, <- E, (join_values_m_error e true pre vs a post side H Ha). reflexivity.
Qed.

(* collect_formatted_arguments: all arguments are evaluated, in order, before the format is rendered *)
Lemma collect_m_ok e post outs :
  Forall2 (fun a o => eval_arg_m e a = inl (fst o, Some (snd o)) /\ is_flt (snd o) = false) post outs ->
  collect_m e post = inl (List.concat (map fst outs), Some (map (fun o => farg_of (snd o)) outs)).
Proof.
  induction 1 as [|a o post outs [Ha Hf] _ IH]; [ reflexivity | ].
  cbn [collect_m map List.concat]. rewrite Ha. cbn [mbind]. rewrite Hf, IH. cbn. rewrite app_nil_r. reflexivity.
Qed.

Theorem println_m_format_path_l e nl pre f post vs outs out :
  find_fmt_x (pre ++ XQuoted f :: post) = Some (pre, f, post) -> 2 <= List.length (pre ++ XQuoted f :: post) ->
  Forall2 (arg_ok e) pre vs ->
  Forall2 (fun a o => eval_arg_m e a = inl (fst o, Some (snd o)) /\ is_flt (snd o) = false) post outs ->
  render f (map (fun o => farg_of (snd o)) outs) = Some out ->
  stmt_m e (XPrint nl (pre ++ XQuoted f :: post)) =
  inl (List.concat (map (fun v => v ++ [" "]) vs) ++ List.concat (map fst outs) ++ cstr out
       ++ (if nl then ["010"] else []), Some e).
Proof.
  intros Hf Hlen Hpre Hpost Hr. cbn [stmt_m]. unfold print_multiple_m.
  destruct (pre ++ XQuoted f :: post) as [|a [|b r]] eqn:E; try (cbn in Hlen; lia).
  rewrite Hf, (join_values_m_true e pre vs Hpre), (collect_m_ok e post outs Hpost). cbn [mbind emit].
  rewrite Hr. cbn.
  assert (J : join_sp vs ++ (match pre with [] => [] | _ => [" "] end) = List.concat (map (fun v => v ++ [" "]) vs)).
  { destruct Hpre as [|a0 v0 pre' vs' _ H]; [ reflexivity | ].
    cbn [join_sp map List.concat]. rewrite <- !app_assoc. f_equal. cbn [app]. apply concat_shift. }
  rewrite !app_nil_r, <- J, <- !app_assoc. reflexivity.
Qed.

(* ---------- order of output of a run with nested evaluations ---------- *)
Lemma exec_m_app e p q : exec_m e (p ++ q) = mbind (exec_m e p) (fun e' => exec_m e' q).
Proof.
  revert e. induction p as [|s p IH]; intros e.
  - cbn [app exec_m]. rewrite mbind_mret_l. reflexivity.
  - cbn [app exec_m]. rewrite mbind_assoc. apply mbind_ext. intros e'. apply IH.
Qed.

Theorem output_in_order_m_l e p q op e' oq r :
  exec_m e p = inl (op, Some e') -> exec_m e' q = inl (oq, r) -> exec_m e (p ++ q) = inl (op ++ oq, r).
Proof. intros Hp Hq. rewrite exec_m_app. apply (mbind_ok _ _ _ _ _ _ Hp Hq). Qed.

(* a statement that ends in an error somewhere inside (a failing statement, or an error raised in a function
   called from an interpolation or a print argument): everything written before is on stdout, what the failing
   evaluation itself wrote before the error as well, nothing after it *)
Theorem output_before_nested_error_l e p s q op e' os :
  exec_m e p = inl (op, Some e') -> stmt_m e' s = inl (os, None) ->
  exec_m e (p ++ s :: q) = inl (op ++ os, None).
Proof.
  intros Hp Hs. apply (output_in_order_m_l e p (s :: q) op e' os None Hp).
  cbn [exec_m]. rewrite Hs. reflexivity.
Qed.

(* ---------- calls ---------- *)
Lemma seq_params_ok ps outs :
  Forall2 (fun p o => snd p = inl (fst o, Some (snd o))) ps outs ->
  seq_params ps = inl (List.concat (map fst outs),
                       Some (map (fun po => (fst (fst po), mret (snd (snd po)))) (combine ps outs))).
Proof.
  induction 1 as [|[k m] o ps outs Hp _ IH]; [ reflexivity | ].
  cbn [seq_params map List.concat combine fst snd] in *. rewrite Hp, IH. cbn. rewrite app_nil_r. reflexivity.
Qed.

(* the argument expressions write first (left to right), then the body, then the return expression *)
Theorem call_sequence_l ps ls body r sides bound ob e' orr v :
  seq_params ps = inl (sides, Some bound) ->
  exec_m (bound ++ ls) body = inl (ob, Some e') ->
  match r with Some a => eval_arg_m e' a = inl (orr, Some v) | None => orr = [] /\ v = VInt 0 end ->
  call_m ps ls body r = inl (sides ++ ob ++ orr, Some v).
Proof.
  intros Hp Hb Hr. unfold call_m. apply (mbind_ok _ _ _ _ _ _ Hp). apply (mbind_ok _ _ _ _ _ _ Hb).
  destruct r as [a|]; [ exact Hr | ]. destruct Hr as [-> ->]. reflexivity.
Qed.

(* an error in the body (or in an argument): the call yields nothing, the caller stops *)
Theorem call_error_in_body_l ps ls body r sides bound ob :
  seq_params ps = inl (sides, Some bound) -> exec_m (bound ++ ls) body = inl (ob, None) ->
  call_m ps ls body r = inl (sides ++ ob, None).
Proof.
  intros Hp Hb. unfold call_m. apply (mbind_ok _ _ _ _ _ _ Hp). apply mbind_fail. exact Hb.
Qed.

(* ---------- every depth ---------- *)
Definition wrapper_ok (w : bytes * bytes) : Prop := plain_text (fst w) /\ no_backslash (fst w) /\ plain_text (snd w).

Lemma hole_facts : no_braces hole /\ split_colon hole = (hole, None).
Proof. split; [ repeat constructor; discriminate | reflexivity ]. Qed.

Lemma run_wrap_one w inner :
  run_comp (wrap_one w inner) =
  mbind (eval_quoted_m [(hole, run_comp inner)] (fst w ++ "{" :: hole ++ "}" :: snd w)) (fun b => mret (VStr b)).
Proof.
  unfold wrap_one. cbn [run_comp map fst snd]. unfold call_m. cbn [seq_params].
  rewrite mbind_mret_l. cbn [app exec_m]. rewrite mbind_mret_l. reflexivity.
Qed.

Theorem tower_value_l ws inner side :
  Forall wrapper_ok ws ->
  (forall s, run_comp inner = inl (side, Some (VStr s)) ->
     run_comp (tower ws inner) =
     inl (side, Some (VStr (List.concat (map fst ws) ++ s ++ List.concat (map snd (rev ws)))))) /\
  (run_comp inner = inl (side, None) -> run_comp (tower ws inner) = inl (side, None)).
Proof.
  intros H. destruct hole_facts as [Hh Hc]. induction H as [|w ws (H1 & Hb & H2) _ [IHv IHe]].
  - split; intros; cbn [tower map List.concat rev app]; [ rewrite app_nil_r | ]; assumption.
  - split.
    + intros s Hi. cbn [tower]. rewrite run_wrap_one.
      rewrite (interp_nested_frame_l _ (fst w) hole (snd w) side
                 (VStr (List.concat (map fst ws) ++ s ++ List.concat (map snd (rev ws)))) H1 Hb H2 Hh).
      * rewrite Hc. cbn [snd spec_of format_value mbind mret]. rewrite app_nil_r.
        cbn [map List.concat rev]. rewrite map_app, concat_app. cbn [map List.concat].
        rewrite app_nil_r, <- !app_assoc. reflexivity.
      * rewrite Hc. cbn [fst mlookup beq hole ceq]. rewrite (IHv s Hi).
        change (beq hole hole) with true. reflexivity.
      * reflexivity.
    + intros Hi. cbn [tower]. rewrite run_wrap_one.
      rewrite (interp_nested_error_l _ (fst w) hole (snd w) side H1 Hb H2 Hh); [ reflexivity | ].
      rewrite Hc. cbn [fst mlookup]. change (beq hole hole) with true. cbv iota. exact (IHe Hi).
Qed.
