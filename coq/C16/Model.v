(* C16 - Mech model of the output path of the Cb interpreter, function by function:
     src/backend/interpreter/output/output_manager.cpp   print_multiple, print_value (integer and string
                                                          values), print_formatted, collect_formatted_arguments,
                                                          render_formatted_string, process_escape_sequences,
                                                          has_unescaped_format_specifiers
     src/common/io_interface.cpp                          write_number (snprintf "%lld")
     src/platform/native/native_stdio_output.cpp          write_string = fputs (stops at NUL), write_char
     src/frontend/recursive_parser/recursive_lexer.cpp    makeString (interpolation detection)
     src/frontend/recursive_parser/parsers/primary_expression_parser.cpp   parseInterpolatedString
     src/backend/interpreter/evaluator/core/evaluator.cpp evaluate_interpolated_string, format_interpolated_value
     src/frontend/main.cpp                                fflush(stdout) before every _Exit
   Strings are lists of bytes ([ascii]); integer values are [Z] (the harness stays inside int64, the
   conversions that look at the two's-complement image reduce modulo 2^64 explicitly).
   Floating point, %p, precision and the flags + space # are outside the model ([Unsupported]).
   Everything is total and computable; the extracted code is run against /repo's binary on the same
   generated programs by harness/props/c16.py.  No proofs in this file. *)
From Coq Require Import List Arith Bool Ascii String ZArith NArith Lia.
Import ListNotations.
Local Open Scope char_scope.

Definition bytes := list ascii.
Definition s2l (s : string) : bytes := list_ascii_of_string s.
Definition ceq (a b : ascii) : bool := Ascii.eqb a b.
Definition code (c : ascii) : N := N_of_ascii c.
Definition is_digit (c : ascii) : bool := (48 <=? code c)%N && (code c <=? 57)%N.   (* isdigit, C locale *)

Fixpoint span (p : ascii -> bool) (s : bytes) : bytes * bytes :=
  match s with
  | [] => ([], [])
  | c :: r => if p c then let (a, b) := span p r in (c :: a, b) else ([], s)
  end.

(* ------------------------------------------------------------------------------------------------
   Integer rendering.  snprintf("%lld"/"%llu"/"%llx"/"%llo"), operator<<(long) and std::to_string all
   print the positional numeral of the value; [to_digits] is that numeral, most significant first.   *)
Fixpoint to_digits (fuel : nat) (b n : N) (acc : list N) : list N :=
  match fuel with
  | O => acc
  | S f => if (n <? b)%N then n :: acc else to_digits f b (n / b)%N ((n mod b)%N :: acc)
  end.
Definition digitsN (b n : N) : list N := to_digits (S (N.to_nat (N.size n))) b n [].

Definition digit_char (upper : bool) (d : N) : ascii :=
  nth (N.to_nat d) (s2l (if upper then "0123456789ABCDEF" else "0123456789abcdef")) "?".
Definition render_base (upper : bool) (b n : N) : bytes := map (digit_char upper) (digitsN b n).
Definition udec (n : N) : bytes := render_base false 10 n.

(* sign and magnitude digits of a signed decimal conversion *)
Definition sign_of (z : Z) : bytes := match z with Zneg _ => ["-"] | _ => [] end.
Definition mag_of (z : Z) : bytes := udec (Z.abs_N z).
(* io_interface.cpp:write_number, numeric_to_string default case, std::to_string(value.value) *)
Definition dec (z : Z) : bytes := sign_of z ++ mag_of z.

(* static_cast<unsigned long long>(int64_t) *)
Definition u64 (z : Z) : N := Z.to_N (z mod 18446744073709551616).

(* ------------------------------------------------------------------------------------------------
   process_escape_sequences (output_manager.cpp:945) *)
Definition escape_of (x : ascii) : option ascii :=
  if ceq x "n" then Some "010" else if ceq x "t" then Some "009" else if ceq x "r" then Some "013"
  else if ceq x "0" then Some "000" else if ceq x "\" then Some "\" else if ceq x """" then Some """"
  else if ceq x "%" then Some "%" else None.

Fixpoint process_escape (s : bytes) : bytes :=
  match s with
  | [] => []
  | c :: tl =>
      if ceq c "\" then
        match tl with
        | x :: r => match escape_of x with
                    | Some e => e :: process_escape r
                    | None => c :: process_escape tl
                    end
        | [] => [c]
        end
      else c :: process_escape tl
  end.

(* fputs(str) / std::string(buffer.data()): the bytes before the first NUL *)
Fixpoint cstr (s : bytes) : bytes :=
  match s with [] => [] | c :: r => if ceq c "000" then [] else c :: cstr r end.

(* ------------------------------------------------------------------------------------------------
   has_unescaped_format_specifiers (output_manager.cpp:989).  [odd_bs]: the run of backslashes directly
   before the current position has odd length (fix 475de81: only then is a '%' escaped). *)
Definition fmt_after (rest : bytes) : bool :=        (* rest = text after the skipped width digits *)
  match rest with
  | [] => false
  | c :: r =>
      if ceq c "d" || ceq c "s" || ceq c "c" || ceq c "p" || ceq c "f" || ceq c "%" then true
      else if ceq c "l" then
        match r with
        | c1 :: c2 :: _ => ceq c1 "l" && ceq c2 "d"
        | _ => false
        end
      else false
  end.

Fixpoint has_fmt_go (odd_bs : bool) (s : bytes) : bool :=
  match s with
  | [] => false
  | c :: tl =>
      if ceq c "%" then
        if odd_bs then has_fmt_go false tl
        else if fmt_after (snd (span is_digit tl)) then true else has_fmt_go false tl
      else has_fmt_go (if ceq c "\" then negb odd_bs else false) tl
  end.
Definition has_fmt (s : bytes) : bool := has_fmt_go false s.

(* ------------------------------------------------------------------------------------------------
   render_formatted_string (output_manager.cpp:1416) *)
Inductive farg := FInt (z : Z) | FStr (s : bytes).
Definition farg_int (a : farg) : Z := match a with FInt z => z | FStr _ => 0%Z end.
(* argument_to_string: str_args for strings, numeric_to_string for integers *)
Definition arg_to_string (a : farg) : bytes := match a with FInt z => dec z | FStr s => s end.

Definition is_flag (c : ascii) : bool := ceq c "-" || ceq c "+" || ceq c " " || ceq c "0" || ceq c "#".
Definition has_char (x : ascii) (s : bytes) : bool := existsb (ceq x) s.

Definition digit_val (c : ascii) : N := (code c - 48)%N.
Definition nat_of_digits (s : bytes) : nat :=
  N.to_nat (fold_left (fun a c => (a * 10 + digit_val c)%N) s 0%N).

Definition parse_prec (s : bytes) : bytes * bytes :=
  match s with
  | c :: r => if ceq c "." then let (d, r') := span is_digit r in (c :: d, r') else ([], s)
  | [] => ([], [])
  end.
Definition parse_len (s : bytes) : bytes * bytes :=
  match s with
  | c :: r =>
      if ceq c "l" then
        match r with
        | c2 :: r2 => if ceq c2 "l" then ([c; c2], r2) else ([c], r)
        | [] => ([c], [])
        end
      else if ceq c "L" then ([c], r) else ([], s)
  | [] => ([], [])
  end.

Definition spaces (k : nat) : bytes := repeat " " k.
Definition zeros (k : nat) : bytes := repeat "0" k.

(* what glibc's vsnprintf does with the flags '-' '0' and a width, for an integer conversion whose
   sign is [sg] and whose digits are [dg] *)
Definition pad_num (minus zero : bool) (w : nat) (sg dg : bytes) : bytes :=
  let k := w - List.length (sg ++ dg) in
  if minus then sg ++ dg ++ spaces k
  else if zero then sg ++ zeros k ++ dg
  else spaces k ++ sg ++ dg.
(* %s and %c: the 0 flag is ignored by glibc *)
Definition pad_str (minus : bool) (w : nat) (body : bytes) : bytes :=
  let k := w - List.length body in
  if minus then body ++ spaces k else spaces k ++ body.

Inductive conv_result := COk (s : bytes) | CUnknown | CUnsupported.

Definition byte_of_Z (z : Z) : ascii := ascii_of_N (Z.to_N (z mod 256)).

Definition conv (spec : ascii) (flags width prec : bytes) (a : farg) : conv_result :=
  let minus := has_char "-" flags in
  let zero := has_char "0" flags in
  let w := nat_of_digits width in
  let exotic := has_char "+" flags || has_char " " flags || has_char "#" flags
                || negb (match prec with [] => true | _ => false end) in
  let known r := if exotic then CUnsupported else COk (cstr r) in
  if ceq spec "d" || ceq spec "i" then
    known (pad_num minus zero w (sign_of (farg_int a)) (mag_of (farg_int a)))
  else if ceq spec "u" then known (pad_num minus zero w [] (udec (u64 (farg_int a))))
  else if ceq spec "o" then known (pad_num minus zero w [] (render_base false 8 (u64 (farg_int a))))
  else if ceq spec "x" then known (pad_num minus zero w [] (render_base false 16 (u64 (farg_int a))))
  else if ceq spec "X" then known (pad_num minus zero w [] (render_base true 16 (u64 (farg_int a))))
  else if ceq spec "c" then
    known (pad_str minus w [match a with
                            | FStr (c :: _) => c
                            | _ => byte_of_Z (farg_int a)
                            end])
  else if ceq spec "s" then known (pad_str minus w (arg_to_string a))
  else if ceq spec "p" || ceq spec "f" || ceq spec "F" || ceq spec "e" || ceq spec "E"
          || ceq spec "g" || ceq spec "G" || ceq spec "a" || ceq spec "A" then CUnsupported
  else CUnknown.

Definition ocons (c : ascii) (r : option (bytes * list farg)) : option (bytes * list farg) :=
  match r with Some (s, a) => Some (c :: s, a) | None => None end.
Definition oapp (p : bytes) (r : option (bytes * list farg)) : option (bytes * list farg) :=
  match r with Some (s, a) => Some (p ++ s, a) | None => None end.

(* the main loop; returns the text and the arguments not consumed. [fuel] >= length f suffices. *)
Fixpoint render_go (fuel : nat) (f : bytes) (args : list farg) : option (bytes * list farg) :=
  match fuel with
  | O => Some ([], args)
  | S fu =>
    match f with
    | [] => Some ([], args)
    | c :: tl =>
      if ceq c "\" then
        match tl with
        | c2 :: r =>
            if ceq c2 "\" then ocons c (ocons c2 (render_go fu r args))    (* an escaped backslash hides nothing (475de81) *)
            else if ceq c2 "%" then ocons "%" (render_go fu r args)
            else ocons c (render_go fu tl args)
        | [] => ocons c (render_go fu tl args)
        end
      else if negb (ceq c "%") then ocons c (render_go fu tl args)
      else
        match tl with
        | c2 :: r =>
          if ceq c2 "%" then ocons "%" (render_go fu r args)
          else
            let (flags, r1) := span is_flag tl in
            let (width, r2) := span is_digit r1 in
            let (prec, r3) := parse_prec r2 in
            let (lm, r4) := parse_len r3 in
            match r4 with
            | [] => Some ("%" :: flags ++ width ++ prec ++ lm, args)
            | spec :: r5 =>
              match args with
              | [] => oapp ["%"; spec] (render_go fu r5 [])
              | a :: args' =>
                match conv spec flags width prec a with
                | CUnsupported => None
                | CUnknown => oapp ["%"; spec] (render_go fu r5 args')
                | COk s => oapp (match s with [] => arg_to_string a | _ => s end) (render_go fu r5 args')
                end
              end
            end
        | [] => Some (["%"], args)
        end
    end
  end.

Fixpoint append_extra (res : bytes) (extra : list farg) : bytes :=
  match extra with
  | [] => res
  | a :: r => append_extra ((match res with [] => [] | _ => res ++ [" "] end) ++ arg_to_string a) r
  end.

Definition render (f : bytes) (args : list farg) : option bytes :=
  match render_go (S (List.length f)) f args with
  | Some (s, extra) => Some (process_escape (append_extra s extra))
  | None => None
  end.

(* ------------------------------------------------------------------------------------------------
   recursive_lexer.cpp:makeString - does the literal contain an interpolation?  [s] is the text between
   the quotes; a '{' in the last position is followed by the closing quote in the source, hence != '{'. *)
Fixpoint has_interpolation (s : bytes) : bool :=
  match s with
  | [] => false
  | c :: tl =>
      if ceq c "\" then match tl with _ :: r => has_interpolation r | [] => false end
      else if ceq c "{" then
        match tl with
        | c2 :: _ => if ceq c2 "{" then has_interpolation tl else true
        | [] => true
        end
      else has_interpolation tl
  end.

(* ------------------------------------------------------------------------------------------------
   primary_expression_parser.cpp:parseInterpolatedString.  A segment list; [SDollar] records the '$'
   of "${" that the parser drops (it produces no output).  [SExpr e None]: no ':' in the braces. *)
Inductive segment := SText (t : bytes) | SExpr (e : bytes) (spec : option bytes) | SDollar.
Inductive mode := MText | MExpr (depth : nat) (acc : bytes).

Definition flush (cur : bytes) (r : option (list segment)) : option (list segment) :=
  match r with
  | Some l => Some (match cur with [] => l | _ => SText cur :: l end)
  | None => None
  end.
Definition oseg (x : segment) (r : option (list segment)) : option (list segment) :=
  match r with Some l => Some (x :: l) | None => None end.

(* expr_str.find(':') *)
Fixpoint split_colon (s : bytes) : bytes * option bytes :=
  match s with
  | [] => ([], None)
  | c :: r => if ceq c ":" then ([], Some r) else let (a, b) := split_colon r in (c :: a, b)
  end.
Definition mk_expr (inner : bytes) : segment := let (e, sp) := split_colon inner in SExpr e sp.

Fixpoint split_go (s : bytes) (m : mode) (cur : bytes) : option (list segment) :=
  match s with
  | [] => match m with MText => flush cur (Some []) | MExpr _ _ => None end   (* "Unmatched braces" *)
  | c :: tl =>
    match m with
    | MText =>
      if ceq c "$" && (match tl with c2 :: _ => ceq c2 "{" | [] => false end) then
        flush cur (oseg SDollar (split_go tl MText []))
      else if ceq c "{" then
        match tl with
        | c2 :: r => if ceq c2 "{" then split_go r MText (cur ++ ["{"])
                     else flush cur (split_go tl (MExpr 0 []) [])
        | [] => flush cur (split_go tl (MExpr 0 []) [])
        end
      else if ceq c "}" then
        match tl with
        | c2 :: r => if ceq c2 "}" then split_go r MText (cur ++ ["}"]) else None   (* "Unmatched '}'" *)
        | [] => None
        end
      else split_go tl MText (cur ++ [c])
    | MExpr d acc =>
      if ceq c "{" then split_go tl (MExpr (S d) (acc ++ [c])) []
      else if ceq c "}" then
        match d with
        | O => oseg (mk_expr acc) (split_go tl MText [])
        | S d' => split_go tl (MExpr d' (acc ++ [c])) []
        end
      else split_go tl (MExpr d (acc ++ [c])) []
    end
  end.
Definition split (s : bytes) : option (list segment) := split_go s MText [].

(* ------------------------------------------------------------------------------------------------
   evaluator.cpp:format_interpolated_value for integer, string and floating-point values.
   A double is given exactly: (-1)^neg * m * 2^e (m < 2^53 for a finite double; no NaN / infinity). *)
Inductive value := VInt (z : Z) | VStr (s : bytes) | VFlt (neg : bool) (m : N) (e : Z).
Definition value_int (v : value) : Z := match v with VInt z => z | _ => 0%Z end.

(* std::setfill(fill) << std::setw(w) << body : right-aligned *)
Definition ipad (zero : bool) (w : nat) (body : bytes) : bytes :=
  repeat (if zero then "0" else " ") (w - List.length body) ++ body.

(* ss << std::fixed << std::setprecision(p) << double  (= printf "%.pf", also std::to_string with p = 6):
   the exact value m * 2^e times 10^p, rounded to the nearest integer, ties to the even one (glibc rounds the
   exact decimal expansion in the current rounding mode) ... *)
Definition fix_q (m : N) (e : Z) (p : nat) : N :=
  let t := (m * 10 ^ N.of_nat p)%N in
  match e with
  | Z0 => t
  | Zpos k => (t * 2 ^ Npos k)%N
  | Zneg k =>
      let d := (2 ^ Npos k)%N in
      let q := (t / d)%N in
      let r := (t mod d)%N in
      if (2 * r <? d)%N then q
      else if (d <? 2 * r)%N then (q + 1)%N
      else if N.even q then q else (q + 1)%N
  end.
(* ... printed as integer part, and for p > 0 a point and exactly p fraction digits *)
Fixpoint frac_digits (p : nat) (n : N) (acc : bytes) : bytes :=
  match p with
  | O => acc
  | S p' => frac_digits p' (n / 10)%N (digit_char false (n mod 10)%N :: acc)
  end.
Definition fixed (neg : bool) (m : N) (e : Z) (p : nat) : bytes :=
  let q := fix_q m e p in
  (if neg then ["-"] else []) ++ udec (q / 10 ^ N.of_nat p)%N
  ++ match p with O => [] | _ => "." :: frac_digits p (q mod 10 ^ N.of_nat p)%N [] end.

(* ".digits" as scanned by parse_prec -> the precision *)
Definition prec_of (pr : bytes) : option nat :=
  match pr with [] => None | _ :: d => Some (nat_of_digits d) end.

(* the part after "if (format_spec.empty())" *)
Definition format_spec (v : value) (spec : bytes) : bytes :=
  let (zero, r0) := match spec with c :: r => if ceq c "0" then (true, r) else (false, spec) | [] => (false, []) end in
  let (wd, r1) := span is_digit r0 in
  let w := nat_of_digits wd in
  let (pr, r2) := parse_prec r1 in
  let tc := match r2 with c :: _ => c | [] => "000" end in
  if ceq tc "x" then ipad zero w (render_base false 16 (u64 (value_int v)))
  else if ceq tc "X" then ipad zero w (render_base true 16 (u64 (value_int v)))
  else if ceq tc "b" then
    let bin := render_base false 2 (u64 (value_int v)) in
    if zero && (0 <? w)%nat then ipad true w bin else bin
  else match v with
       | VInt z =>
           (* setfill('0') << std::internal << setw(w): the fill goes between sign and digits
              (fix 4cd822e, former finding #27); without the 0 flag: right-aligned with spaces *)
           if zero then pad_num false true w (sign_of z) (mag_of z) else ipad false w (dec z)
       | VStr s => s
       | VFlt ng m e =>
           (* std::fixed only with a precision; setfill('0') without std::internal: the fill precedes the sign *)
           match prec_of pr with
           | Some p => ipad zero w (fixed ng m e p)
           | None => []              (* default (%g-like) iostream formatting: outside the model, see spec_supported *)
           end
       end.

Definition format_value (v : value) (spec : bytes) : bytes :=
  match spec with
  | [] => match v with
          | VInt z => dec z
          | VStr s => s
          | VFlt ng m e => fixed ng m e 6              (* std::to_string(double) = "%f" *)
          end
  | _ => format_spec v spec
  end.

(* which (value, spec) pairs the model renders: everything for integers and strings; for a double the empty spec
   and [0][width].precision[f...] ; a double through x X b or without a precision is outside the model *)
Definition spec_supported (v : value) (spec : bytes) : bool :=
  match v with
  | VFlt _ _ _ =>
      match spec with
      | [] => true
      | _ =>
        let r0 := match spec with c :: r => if ceq c "0" then r else spec | [] => [] end in
        let (_, r1) := span is_digit r0 in
        let (pr, r2) := parse_prec r1 in
        let tc := match r2 with c :: _ => c | [] => "000" end in
        match prec_of pr with
        | Some _ => negb (ceq tc "x" || ceq tc "X" || ceq tc "b")
        | None => false
        end
      end
  | _ => true
  end.

Definition env := list (bytes * value).
Fixpoint beq (a b : bytes) : bool :=
  match a, b with
  | [], [] => true
  | x :: a', y :: b' => ceq x y && beq a' b'
  | _, _ => false
  end.
Fixpoint lookup (e : env) (k : bytes) : option value :=
  match e with [] => None | (k', v) :: r => if beq k k' then Some v else lookup r k end.

Inductive err := EParse | EUnsupported | EUnbound.
Definition res := (bytes + err)%type.
Definition rbind (r : res) (f : bytes -> res) : res := match r with inl b => f b | inr e => inr e end.

(* evaluate_interpolated_string *)
Fixpoint eval_segs (e : env) (l : list segment) : res :=
  match l with
  | [] => inl []
  | SText t :: r => rbind (eval_segs e r) (fun o => inl (t ++ o))
  | SDollar :: r => eval_segs e r
  | SExpr ex sp :: r =>
      match lookup e ex with
      | None => inr EUnbound
      | Some v =>
          if spec_supported v (match sp with Some f => f | None => [] end) then
            rbind (eval_segs e r)
                  (fun o => inl (format_value v (match sp with Some f => f | None => [] end) ++ o))
          else inr EUnsupported
      end
  end.

(* value of a string literal token as an expression: raw text unless the lexer flagged interpolation *)
Definition eval_quoted (e : env) (s : bytes) : res :=
  if has_interpolation s then
    match split s with Some segs => eval_segs e segs | None => inr EParse end
  else inl s.

(* ------------------------------------------------------------------------------------------------
   print_value / print_multiple / print_formatted for the PRINT/PRINTLN statement node *)
Inductive arg :=
| AQuoted (s : bytes)      (* a string literal token (text between the quotes, escapes unprocessed) *)
| AInt (z : Z)             (* any other expression with an integer value *)
| AStr (s : bytes).        (* any other expression with a string value *)

(* print_value: every path ends in write_string(c_str) or write_number *)
Definition print_value (e : env) (a : arg) : res :=
  match a with
  | AQuoted s => rbind (eval_quoted e s) (fun v => inl (cstr v))
  | AInt z => inl (dec z)
  | AStr s => inl (cstr s)
  end.

(* collect_formatted_arguments *)
Fixpoint collect (e : env) (l : list arg) : (list farg + err)%type :=
  match l with
  | [] => inl []
  | a :: r =>
      match (match a with
             | AQuoted s => match eval_quoted e s with inl v => inl (FStr v) | inr x => inr x end
             | AInt z => inl (FInt z)
             | AStr s => inl (FStr s)
             end), collect e r with
      | inl x, inl xs => inl (x :: xs)
      | inr x, _ => inr x
      | _, inr x => inr x
      end
  end.

Definition is_fmt_literal (a : arg) : option bytes :=
  match a with
  | AQuoted s => if has_interpolation s then None else if has_fmt s then Some s else None
  | _ => None
  end.

(* the first string literal holding a format specifier: (arguments before, format, arguments after) *)
Fixpoint find_fmt (l : list arg) : option (list arg * bytes * list arg) :=
  match l with
  | [] => None
  | a :: r =>
      match is_fmt_literal a with
      | Some f => Some ([], f, r)
      | None => match find_fmt r with
                | Some (pre, f, post) => Some (a :: pre, f, post)
                | None => None
                end
      end
  end.

(* the print_argument lambda of print_multiple (fix 033c981): a plain string literal is printed with its
   escapes processed, exactly as when it is the only argument; everything else goes to print_value *)
Definition print_argument (e : env) (a : arg) : res :=
  match a with
  | AQuoted s => if has_interpolation s then print_value e a else inl (cstr (process_escape s))
  | _ => print_value e a
  end.

(* for (j...) { if (j > 0) write_char(' '); print_argument(arg[j]); } *)
Fixpoint join_values (e : env) (first : bool) (l : list arg) : res :=
  match l with
  | [] => inl []
  | a :: r => rbind (print_argument e a) (fun v =>
              rbind (join_values e false r) (fun o =>
              inl ((if first then [] else [" "]) ++ v ++ o)))
  end.

Definition print_multiple (e : env) (args : list arg) : res :=
  match args with
  | [] => inl []
  | [a] => print_argument e a        (* the single-argument special case does the same thing *)
  | _ =>
      match find_fmt args with
      | Some (pre, f, post) =>
          rbind (join_values e true pre) (fun p =>
          match collect e post with
          | inr x => inr x
          | inl fa =>
              match render f fa with
              | None => inr EUnsupported
              | Some out => inl (p ++ (match pre with [] => [] | _ => [" "] end) ++ cstr out)
              end
          end)
      | None => join_values e true args
      end
  end.

(* ------------------------------------------------------------------------------------------------
   a program: print / println statements and a statement that raises a run-time error *)
Inductive stmt := SPrint (newline : bool) (args : list arg) | SFail.

Definition stmt_out (e : env) (s : stmt) : res :=
  match s with
  | SPrint nl args => rbind (print_multiple e args) (fun o => inl (o ++ (if nl then ["010"] else [])))
  | SFail => inl []
  end.

(* every string literal of the program is split by the parser before anything runs *)
Definition arg_parses (a : arg) : bool :=
  match a with
  | AQuoted s => if has_interpolation s then (match split s with Some _ => true | None => false end) else true
  | _ => true
  end.
Definition stmt_parses (s : stmt) : bool :=
  match s with SPrint _ args => forallb arg_parses args | SFail => true end.

(* stdout of the run and whether it ended with an error; stdout is flushed on both exits (main.cpp) *)
Fixpoint exec (e : env) (p : list stmt) : res * bool :=
  match p with
  | [] => (inl [], false)
  | SFail :: _ => (inl [], true)
  | s :: r =>
      match stmt_out e s with
      | inr x => (inr x, false)
      | inl o => let (ro, failed) := exec e r in (rbind ro (fun o' => inl (o ++ o')), failed)
      end
  end.

Definition run_program (e : env) (p : list stmt) : res * bool :=
  if forallb stmt_parses p then exec e p else (inr EParse, true).
