(* C16 - property theorems about code positions (Contexts.v): a rendering is the same wherever it stands.
   Only statements and [exact]; the proofs are in ContextsProofs.v. *)
From Coq Require Import List Arith Bool Ascii String ZArith NArith.
From Cb Require Import C16.Model C16.Nested C16.NestedProofs C16.Contexts C16.ContextsProofs.
Import ListNotations.
Local Open Scope char_scope.

(* the call instances of Nested.v, run by the model with scopes that is extracted and compared with /repo's binary
   ([run_main_c]), give exactly [run_main]: every theorem of Properties_C16 speaks about [run_main_c] too *)
Theorem contexts_model_conservative : forall c, run_main_c (embed c) = run_main c.
Proof. exact contexts_conservative_l. Qed.
Print Assumptions contexts_model_conservative.

(* a scope (block, body of if / else / for / while, switch case, match arm) whose body prints, declares, calls and
   defers: it writes what its statements write, in order, then what its deferred statements write, the last
   registered first, each evaluated in the environment the scope has at its end; afterwards the environment, the
   deferred statements still pending outside and the enclosing scopes are what they were *)
Theorem scope_output_then_deferred_in_reverse : forall e ds stk al body ob e1 od, forallb flat_tok body = true ->
  exec_m (alias_env e al ++ e) (bases body) = inl (ob, Some e1) ->
  run_defers e1 (rev (defers body)) = inl (od, Some tt) ->
  exec_c (e, ds, stk) (scope al body) = inl (ob ++ od, Some (e, ds, stk)).
Proof. exact scope_output_l. Qed.
Print Assumptions scope_output_then_deferred_in_reverse.

Theorem deferred_last_registered_first : forall e d1 d2 o1 o2 e1 e2,
  stmt_m e d2 = inl (o2, Some e2) -> stmt_m e d1 = inl (o1, Some e1) ->
  run_defers e (rev [d1; d2]) = inl (o2 ++ o1, Some tt).
Proof. exact deferred_in_reverse_l. Qed.
Print Assumptions deferred_last_registered_first.

(* an error inside a scope: everything written before it is on stdout, the deferred statements do not run,
   nothing after the scope runs *)
Theorem scope_error_ends_run : forall e ds stk al body rest ob, forallb flat_tok body = true ->
  exec_m (alias_env e al ++ e) (bases body) = inl (ob, None) ->
  exec_c (e, ds, stk) (scope al body ++ rest) = inl (ob, None).
Proof. exact scope_error_l. Qed.
Print Assumptions scope_error_ends_run.

(* a loop: the output is the concatenation of the iterations' outputs, each of which is [scope_result] of the
   enclosing environment and the meanings the iteration gives to its expression texts - nothing else *)
Theorem loop_output_is_concatenation_of_iterations : forall e ds stk its outs,
  Forall (fun it => forallb flat_tok (snd it) = true) its ->
  Forall2 (fun it o => scope_result e (fst it) (snd it) = inl (o, Some tt)) its outs ->
  exec_c (e, ds, stk) (scopes its) = inl (List.concat outs, Some (e, ds, stk)).
Proof. exact loop_iterations_l. Qed.
Print Assumptions loop_output_is_concatenation_of_iterations.

(* the n-th evaluation of a body renders like the first *)
Theorem loop_nth_iteration_like_first : forall e ds stk al body o n, forallb flat_tok body = true ->
  scope_result e al body = inl (o, Some tt) ->
  exec_c (e, ds, stk) (scopes (repeat_l (al, body) n)) = inl (List.concat (repeat_l o n), Some (e, ds, stk)).
Proof. exact loop_nth_like_first_l. Qed.
Print Assumptions loop_nth_iteration_like_first.

(* a statement inside a scope that rebinds nothing writes exactly what it writes outside (its own declarations
   end with the scope) *)
Theorem statement_same_inside_scope : forall e ds stk s,
  exec_c (e, ds, stk) (scope [] [CBase s]) = mbind (stmt_m e s) (fun _ => mret (e, ds, stk)).
Proof. exact stmt_same_in_scope_l. Qed.
Print Assumptions statement_same_inside_scope.

(* the loop variable / match binding / changed expression: inside the scope the text means what its key means *)
Theorem scope_binding : forall e x k al, mlookup (alias_env e ((x, k) :: al) ++ e) x = mlookup e k.
Proof. exact scope_binding_l. Qed.
Print Assumptions scope_binding.

(* the end of a function body: its statements, its deferred statements in reverse, then the return expression *)
Theorem call_body_then_deferred_then_return : forall ps ls body r, forallb flat_tok body = true ->
  call_c ps ls body r =
  mbind (seq_params ps) (fun bound =>
  mbind (exec_m (bound ++ ls) (bases body)) (fun e1 =>
  mbind (run_defers e1 (rev (defers body))) (fun _ =>
  match r with None => mret (VInt 0) | Some a => eval_arg_m e1 a end))).
Proof. exact call_flat_l. Qed.
Print Assumptions call_body_then_deferred_then_return.

(* a deep copy of a literal's AST (generic instantiation) renders like the literal itself: every text segment,
   every expression and every format specifier is where it was *)
Theorem cloned_literal_renders_like_original : forall e s ns, parse_literal s = Some ns ->
  eval_nodes_m e (map clone_node ns) = eval_quoted_m e s.
Proof. exact cloned_literal_l. Qed.
Print Assumptions cloned_literal_renders_like_original.

(* ---------------- non-vacuity ---------------- *)
(* the seeded-change witness: a literal with format specifiers in a body that runs as a copy, in a loop, with a
   deferred statement; for (i = 0; i < 2; i++) { defer println("d{i}"); println("id={id:05d} i={i:x}"); } *)
Example ex_loop_defer :
  let body := [CDefer (XPrint true [XQuoted (s2l "d{i}")]); CBase (XPrint true [XQuoted (s2l "id={id:05d} i={i:x}")])] in
  run_main_c (KCall [] [(s2l "id", KVal (VInt 42)); (s2l "i@0", KVal (VInt 10)); (s2l "i@1", KVal (VInt 11))]
                (scopes [([(s2l "i", s2l "i@0")], body); ([(s2l "i", s2l "i@1")], body)]) None)
  = inl (s2l "id=00042 i=a" ++ ["010"] ++ s2l "d10" ++ ["010"] ++ s2l "id=00042 i=b" ++ ["010"] ++ s2l "d11" ++ ["010"], false).
Proof. vm_compute. reflexivity. Qed.
Example ex_clone :
  option_map (fun ns => eval_nodes_m [(s2l "m", mret (VInt 255))] (map clone_node ns)) (parse_literal (s2l "0x{m:x}/{m:08b} {{ok}}"))
  = Some (inl ([], Some (s2l "0xff/11111111 {ok}"))).
Proof. vm_compute. reflexivity. Qed.
