(* C16 - proofs about Contexts.v: a rendering does not depend on where it stands.
   - the call instances of Nested.v are exactly the ones without scope tokens (so every theorem about
     [run_main] speaks about the extracted [run_main_c]);
   - a scope writes what its statements write in order and then what its deferred statements write, last
     registered first, and leaves environment, pending deferred statements and enclosing scopes as they were;
   - an error inside a scope ends the run there: the deferred statements do not run;
   - a loop writes the concatenation of its iterations; an iteration's output is a function of the enclosing
     environment and the meanings the iteration gives to its expressions - the n-th like the first;
   - a print statement inside a scope that rebinds nothing writes what it writes outside;
   - a copy of a literal's AST renders like the literal. *)
From Coq Require Import List Arith Bool Ascii String ZArith NArith Lia.
From Cb Require Import C16.Model C16.Nested C16.NestedProofs C16.Contexts.
Import ListNotations.
Local Open Scope char_scope.

(* ---------- induction over call instances ---------- *)
Definition comp_ind2 (P : comp -> Prop) (HV : forall v, P (CVal v))
  (HC : forall ps ls body r, Forall (fun p => P (snd p)) ps -> Forall (fun p => P (snd p)) ls -> P (CCall ps ls body r))
  : forall c, P c :=
  fix go (c : comp) : P c :=
    match c with
    | CVal v => HV v
    | CCall ps ls body r =>
        HC ps ls body r
          ((fix gl (l : list (bytes * comp)) : Forall (fun p => P (snd p)) l :=
              match l with
              | [] => Forall_nil _
              | p :: t => Forall_cons p (go (snd p)) (gl t)
              end) ps)
          ((fix gl (l : list (bytes * comp)) : Forall (fun p => P (snd p)) l :=
              match l with
              | [] => Forall_nil _
              | p :: t => Forall_cons p (go (snd p)) (gl t)
              end) ls)
    end.

(* ---------- execution of token lists ---------- *)
Lemma exec_c_app st p q : exec_c st (p ++ q) = mbind (exec_c st p) (fun st' => exec_c st' q).
Proof.
  revert st. induction p as [|s p IH]; intros st.
  - cbn [app exec_c]. rewrite mbind_mret_l. reflexivity.
  - cbn [app exec_c]. rewrite mbind_assoc. apply mbind_ext. intros st'. apply IH.
Qed.

Lemma exec_c_base e ds stk p :
  exec_c (e, ds, stk) (map CBase p) = mbind (exec_m e p) (fun e' => mret (e', ds, stk)).
Proof.
  revert e. induction p as [|s p IH]; intros e.
  - cbn [map exec_c exec_m]. rewrite mbind_mret_l. reflexivity.
  - cbn [map exec_c exec_m step_c]. rewrite !mbind_assoc. apply mbind_ext. intros e'.
    rewrite mbind_mret_l. apply IH.
Qed.

Lemma exec_c_flat body : forallb flat_tok body = true -> forall e ds stk,
  exec_c (e, ds, stk) body = mbind (exec_m e (bases body)) (fun e1 => mret (e1, rev (defers body) ++ ds, stk)).
Proof.
  induction body as [|s body IH]; intros Hf e ds stk.
  - cbn. reflexivity.
  - cbn [forallb] in Hf. apply andb_true_iff in Hf. destruct Hf as [Hs Hf].
    destruct s as [x | al | | x]; try discriminate Hs.
    + cbn [exec_c step_c bases defers exec_m]. rewrite !mbind_assoc. apply mbind_ext. intros e'.
      rewrite mbind_mret_l. apply (IH Hf).
    + cbn [exec_c step_c bases defers]. rewrite mbind_mret_l. rewrite (IH Hf).
      apply mbind_ext. intros e1. cbn [rev]. rewrite <- app_assoc. reflexivity.
Qed.

(* a scope with a flat body *)
Lemma scope_runs_l e ds stk al body : forallb flat_tok body = true ->
  exec_c (e, ds, stk) (scope al body) = mbind (scope_result e al body) (fun _ => mret (e, ds, stk)).
Proof.
  intros Hf. unfold scope, scope_result. cbn [exec_c step_c]. rewrite mbind_mret_l.
  rewrite exec_c_app. rewrite (exec_c_flat body Hf). rewrite !mbind_assoc. apply mbind_ext. intros e1.
  rewrite mbind_mret_l. cbn [exec_c step_c]. rewrite app_nil_r. rewrite !mbind_assoc.
  apply mbind_ext. intros []. rewrite !mbind_mret_l. reflexivity.
Qed.

Theorem scope_output_l e ds stk al body ob e1 od : forallb flat_tok body = true ->
  exec_m (alias_env e al ++ e) (bases body) = inl (ob, Some e1) ->
  run_defers e1 (rev (defers body)) = inl (od, Some tt) ->
  exec_c (e, ds, stk) (scope al body) = inl (ob ++ od, Some (e, ds, stk)).
Proof.
  intros Hf Hb Hd. rewrite (scope_runs_l _ _ _ _ _ Hf). unfold scope_result.
  rewrite (mbind_ok _ _ _ _ _ _ Hb Hd). cbn. rewrite app_nil_r. reflexivity.
Qed.

Theorem scope_error_l e ds stk al body rest ob : forallb flat_tok body = true ->
  exec_m (alias_env e al ++ e) (bases body) = inl (ob, None) ->
  exec_c (e, ds, stk) (scope al body ++ rest) = inl (ob, None).
Proof.
  intros Hf Hb. rewrite exec_c_app. rewrite (scope_runs_l _ _ _ _ _ Hf). unfold scope_result.
  rewrite (mbind_fail _ _ _ Hb). reflexivity.
Qed.

(* the deferred statements themselves: last registered first, each in the environment at the end of the scope *)
Lemma run_defers_app e p q : run_defers e (p ++ q) = mbind (run_defers e p) (fun _ => run_defers e q).
Proof.
  induction p as [|s p IH].
  - cbn [app run_defers]. rewrite mbind_mret_l. reflexivity.
  - cbn [app run_defers]. rewrite mbind_assoc. apply mbind_ext. intros _. apply IH.
Qed.

Theorem deferred_in_reverse_l e d1 d2 o1 o2 e1 e2 :
  stmt_m e d2 = inl (o2, Some e2) -> stmt_m e d1 = inl (o1, Some e1) ->
  run_defers e (rev [d1; d2]) = inl (o2 ++ o1, Some tt).
Proof.
  intros H2 H1. cbn [rev app run_defers]. rewrite H2. cbn. rewrite H1. cbn. rewrite app_nil_r. reflexivity.
Qed.

(* a sequence of scopes over the same enclosing environment: a loop's iterations, one after the other *)
Theorem loop_iterations_l e ds stk its outs :
  Forall (fun it => forallb flat_tok (snd it) = true) its ->
  Forall2 (fun it o => scope_result e (fst it) (snd it) = inl (o, Some tt)) its outs ->
  exec_c (e, ds, stk) (scopes its) = inl (List.concat outs, Some (e, ds, stk)).
Proof.
  intros Hf H. induction H as [|it o its outs Hit _ IH].
  - reflexivity.
  - inversion Hf as [|? ? Hf1 Hf2]; subst. unfold scopes. cbn [map List.concat].
    rewrite exec_c_app. rewrite (scope_runs_l _ _ _ _ _ Hf1). rewrite Hit. cbn [mbind mret].
    fold (scopes its). rewrite (IH Hf2). rewrite app_nil_r. reflexivity.
Qed.

Fixpoint repeat_l {A} (x : A) (n : nat) : list A := match n with O => [] | S k => x :: repeat_l x k end.

Theorem loop_nth_like_first_l e ds stk al body o n : forallb flat_tok body = true ->
  scope_result e al body = inl (o, Some tt) ->
  exec_c (e, ds, stk) (scopes (repeat_l (al, body) n)) = inl (List.concat (repeat_l o n), Some (e, ds, stk)).
Proof.
  intros Hf H. apply loop_iterations_l.
  - induction n; cbn [repeat_l]; constructor; auto.
  - induction n; cbn [repeat_l]; constructor; auto.
Qed.

(* a statement in a scope that rebinds nothing: what it writes outside; its declarations end with the scope *)
Theorem stmt_same_in_scope_l e ds stk s :
  exec_c (e, ds, stk) (scope [] [CBase s]) = mbind (stmt_m e s) (fun _ => mret (e, ds, stk)).
Proof.
  rewrite scope_runs_l by reflexivity. unfold scope_result. cbn [alias_env map app bases defers rev exec_m run_defers].
  rewrite !mbind_assoc. apply mbind_ext. intros e'. rewrite !mbind_mret_l. reflexivity.
Qed.

(* the names a scope binds: the loop variable / the match binding / an expression that changed its meaning *)
Lemma beq_refl_l a : beq a a = true.
Proof. induction a as [|c a IH]; cbn; [ reflexivity | ]. unfold ceq. rewrite Ascii.eqb_refl. exact IH. Qed.

Theorem scope_binding_l e x k al : mlookup (alias_env e ((x, k) :: al) ++ e) x = mlookup e k.
Proof. cbn [alias_env map app fst snd mlookup]. rewrite beq_refl_l. reflexivity. Qed.

(* leaving a function with a flat body: its deferred statements, then the return expression *)
Theorem call_flat_l ps ls body r : forallb flat_tok body = true ->
  call_c ps ls body r =
  mbind (seq_params ps) (fun bound =>
  mbind (exec_m (bound ++ ls) (bases body)) (fun e1 =>
  mbind (run_defers e1 (rev (defers body))) (fun _ =>
  match r with None => mret (VInt 0) | Some a => eval_arg_m e1 a end))).
Proof.
  intros Hf. unfold call_c. apply mbind_ext. intros bound. rewrite (exec_c_flat body Hf).
  rewrite !mbind_assoc. apply mbind_ext. intros e1. rewrite mbind_mret_l. cbn [fst snd unwind].
  rewrite app_nil_r. rewrite !mbind_assoc. apply mbind_ext. intros _. rewrite mbind_mret_l. reflexivity.
Qed.

(* ---------- Nested.v is the restriction to bodies without scope tokens ---------- *)
Lemma call_c_base ps ls body r : call_c ps ls (map CBase body) r = call_m ps ls body r.
Proof.
  unfold call_c, call_m. apply mbind_ext. intros bound. rewrite exec_c_base. rewrite !mbind_assoc.
  apply mbind_ext. intros e'. rewrite mbind_mret_l. cbn [fst snd unwind run_defers]. rewrite !mbind_mret_l. reflexivity.
Qed.

Lemma map_ext_Forall {A B} (f g : A -> B) l : Forall (fun a => f a = g a) l -> map f l = map g l.
Proof. induction 1 as [|a l Ha _ IH]; cbn; [ reflexivity | rewrite Ha, IH; reflexivity ]. Qed.

Lemma embed_run_l : forall c, run_ccomp (embed c) = run_comp c.
Proof.
  apply comp_ind2; [ reflexivity | ]. intros ps ls body r Hps Hls.
  cbn [embed run_ccomp run_comp]. rewrite !map_map. cbn [fst snd]. rewrite call_c_base.
  f_equal; apply map_ext_Forall.
  - eapply Forall_impl; [ | exact Hps ]. intros p Hp. cbn. rewrite Hp. reflexivity.
  - eapply Forall_impl; [ | exact Hls ]. intros p Hp. cbn. rewrite Hp. reflexivity.
Qed.

Lemma forallb_ext_Forall {A} (f g : A -> bool) l : Forall (fun a => f a = g a) l -> forallb f l = forallb g l.
Proof. induction 1 as [|a l Ha _ IH]; cbn; [ reflexivity | rewrite Ha, IH; reflexivity ]. Qed.

Lemma forallb_map_l {A B} (f : B -> bool) (g : A -> B) l : forallb f (map g l) = forallb (fun a => f (g a)) l.
Proof. induction l as [|a l IH]; cbn; [ reflexivity | rewrite IH; reflexivity ]. Qed.

Lemma embed_parses_l : forall c, ccomp_parses (embed c) = comp_parses c.
Proof.
  apply comp_ind2; [ reflexivity | ]. intros ps ls body r Hps Hls.
  cbn [embed ccomp_parses comp_parses]. rewrite !forallb_map_l. cbn [fst snd].
  assert (Hb : forallb (fun x => cstmt_parses (CBase x)) body = forallb xstmt_parses body) by reflexivity.
  rewrite Hb.
  rewrite (forallb_ext_Forall _ _ _ Hps), (forallb_ext_Forall _ _ _ Hls). reflexivity.
Qed.

Theorem contexts_conservative_l c : run_main_c (embed c) = run_main c.
Proof. unfold run_main_c, run_main. rewrite embed_parses_l, embed_run_l. reflexivity. Qed.

(* ---------- the AST of a literal and its copy ---------- *)
Lemma clone_node_same n : clone_node n = n.
Proof. destruct n; reflexivity. Qed.

Lemma eval_nodes_of_segments e l : eval_nodes_m e (map node_of l) = eval_segs_m e l.
Proof.
  induction l as [|s l IH]; [ reflexivity | ].
  destruct s as [t | ex sp | ]; cbn [map node_of eval_nodes_m eval_segs_m sn_text sn_expr sn_str sn_fmt].
  - rewrite IH. reflexivity.
  - apply mbind_ext. intros v. destruct (spec_supported v (spec_of sp)); [ | reflexivity ]. rewrite IH. reflexivity.
  - exact IH.
Qed.

Theorem cloned_literal_l e s ns : parse_literal s = Some ns ->
  eval_nodes_m e (map clone_node ns) = eval_quoted_m e s.
Proof.
  intros H. rewrite (map_ext _ (fun n => n) clone_node_same), map_id.
  unfold parse_literal in H. unfold eval_quoted_m. destruct (has_interpolation s).
  - destruct (split s) as [segs|]; [ | discriminate H ]. injection H as <-. apply eval_nodes_of_segments.
  - injection H as <-. cbn. rewrite app_nil_r. reflexivity.
Qed.
