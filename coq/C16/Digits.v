(* C16 - lemmas about the numeral functions of Model.v: to_digits / render_base / dec.
   Round trips hold for every natural / integer (no 64-bit bound), every base 2..16. *)
From Coq Require Import List Arith Bool Ascii String ZArith NArith Lia.
From Cb Require Import C16.Model C16.Spec.
Import ListNotations.
Local Open Scope N_scope.

(* ---------- finite case analysis on digits below 16 ---------- *)
Lemma below16 (P : N -> bool) :
  forallb P (map N.of_nat (seq 0 16)) = true -> forall d, d < 16 -> P d = true.
Proof.
  intros H d Hd. rewrite forallb_forall in H. apply H.
  rewrite <- (N2Nat.id d). apply in_map. apply in_seq. lia.
Qed.

Lemma digit_roundtrip u d : d < 16 -> char_digit (digit_char u d) = Some d.
Proof.
  intros Hd.
  pose proof (below16 (fun d => match char_digit (digit_char u d) with Some d' => N.eqb d' d | None => false end)) as H.
  assert (E : forallb (fun d => match char_digit (digit_char u d) with Some d' => N.eqb d' d | None => false end)
                (map N.of_nat (seq 0 16)) = true) by (destruct u; vm_compute; reflexivity).
  specialize (H E d Hd). cbv beta in H.
  destruct (char_digit (digit_char u d)); [ apply N.eqb_eq in H; subst; reflexivity | discriminate ].
Qed.

Lemma digit_is_digit d : d < 10 -> is_digit (digit_char false d) = true.
Proof.
  intros Hd.
  pose (P := fun d => if d <? 10 then is_digit (digit_char false d) else true).
  assert (E : forallb P (map N.of_nat (seq 0 16)) = true) by (vm_compute; reflexivity).
  pose proof (below16 P E d ltac:(lia)) as H. unfold P in H.
  destruct (N.ltb_spec d 10); [ exact H | lia ].
Qed.

Lemma digit_zero_iff d : d < 16 -> ceq (digit_char false d) "0" = (d =? 0).
Proof.
  intros Hd.
  pose proof (below16 (fun d => Bool.eqb (ceq (digit_char false d) "0") (d =? 0))) as H.
  assert (E : forallb (fun d => Bool.eqb (ceq (digit_char false d) "0") (d =? 0)) (map N.of_nat (seq 0 16)) = true)
    by (vm_compute; reflexivity).
  specialize (H E d Hd). apply eqb_prop in H. exact H.
Qed.

Lemma digit_not_special u d : d < 16 ->
  let c := digit_char u d in
  ceq c "000" = false /\ ceq c "\" = false /\ ceq c "-" = false /\ ceq c "%" = false.
Proof.
  intros Hd c.
  pose (P := fun d => let c := digit_char u d in
                      negb (ceq c "000") && negb (ceq c "\") && negb (ceq c "-") && negb (ceq c "%")).
  assert (E : forallb P (map N.of_nat (seq 0 16)) = true) by (destruct u; vm_compute; reflexivity).
  pose proof (below16 P E d Hd) as H. unfold P in H. cbv zeta in H. fold c in H.
  repeat (apply andb_true_iff in H; destruct H as [H ?]).
  repeat split; apply negb_true_iff; assumption.
Qed.

(* ---------- to_digits ---------- *)
Lemma to_digits_acc fuel b : forall n acc, to_digits fuel b n acc = to_digits fuel b n [] ++ acc.
Proof.
  induction fuel as [|f IH]; intros n acc; cbn [to_digits]; [ reflexivity | ].
  destruct (n <? b); [ reflexivity | ].
  rewrite (IH _ (n mod b :: acc)), (IH _ [n mod b]), <- app_assoc. reflexivity.
Qed.

Lemma pow2_succ f : 2 ^ N.of_nat (S f) = 2 * 2 ^ N.of_nat f.
Proof. rewrite Nat2N.inj_succ, N.pow_succ_r'. reflexivity. Qed.

Lemma div_small f b n : 2 <= b -> n < 2 ^ N.of_nat (S f) -> n / b < 2 ^ N.of_nat f.
Proof.
  intros Hb Hn. rewrite pow2_succ in Hn.
  apply N.div_lt_upper_bound; [ lia | ]. nia.
Qed.

Lemma to_digits_value fuel b : 2 <= b -> forall n acc, n < 2 ^ N.of_nat fuel ->
  fold_left (step b) (to_digits fuel b n acc) 0 = fold_left (step b) acc n.
Proof.
  intros Hb. induction fuel as [|f IH]; intros n acc Hn.
  - cbn in Hn. assert (n = 0) by lia. subst. reflexivity.
  - cbn [to_digits]. destruct (N.ltb_spec n b).
    + cbn [fold_left]. unfold step at 2. rewrite N.mul_0_l, N.add_0_l. reflexivity.
    + rewrite IH by (apply div_small; assumption).
      cbn [fold_left]. unfold step at 2.
      replace (n / b * b + n mod b) with n; [ reflexivity | ].
      rewrite N.mul_comm. apply N.div_mod. lia.
Qed.

Lemma size_bound n : n < 2 ^ N.of_nat (S (N.to_nat (N.size n))).
Proof.
  rewrite pow2_succ, N2Nat.id. pose proof (N.size_gt n). lia.
Qed.

Lemma digits_value b n : 2 <= b -> from_digits b (digitsN b n) = n.
Proof.
  intros Hb. unfold from_digits, digitsN.
  rewrite to_digits_value by (try assumption; apply size_bound). reflexivity.
Qed.

Lemma to_digits_bound fuel b : 0 < b -> forall n acc,
  Forall (fun d => d < b) acc -> Forall (fun d => d < b) (to_digits fuel b n acc).
Proof.
  intros Hb. induction fuel as [|f IH]; intros n acc Ha; cbn [to_digits]; [ assumption | ].
  destruct (N.ltb_spec n b).
  - constructor; assumption.
  - apply IH. constructor; [ apply N.mod_lt; lia | assumption ].
Qed.

Lemma digits_bound b n : 0 < b -> Forall (fun d => d < b) (digitsN b n).
Proof. intros. apply to_digits_bound; [ assumption | constructor ]. Qed.

(* head of the numeral: the numeral is never empty; its first digit is 0 only for the number 0 *)
Lemma to_digits_head fuel b : 2 <= b -> forall n acc, n < 2 ^ N.of_nat fuel -> n <> 0 ->
  exists d ds, to_digits fuel b n acc = d :: ds /\ d <> 0.
Proof.
  intros Hb. induction fuel as [|f IH]; intros n acc Hn Hz.
  - cbn in Hn. lia.
  - cbn [to_digits]. destruct (N.ltb_spec n b).
    + exists n, acc. split; [ reflexivity | assumption ].
    + apply IH; [ apply div_small; assumption | ].
      intro E. apply N.div_small_iff in E; lia.
Qed.

Lemma digits_zero b : 0 < b -> digitsN b 0 = [0].
Proof. intros Hb. unfold digitsN. cbn. destruct (N.ltb_spec 0 b); [ reflexivity | lia ]. Qed.

Lemma digits_head b n : 2 <= b -> n <> 0 -> exists d ds, digitsN b n = d :: ds /\ d <> 0.
Proof. intros. apply to_digits_head; try assumption. apply size_bound. Qed.

Lemma digits_nonempty b n : 2 <= b -> digitsN b n <> [].
Proof.
  intros Hb. destruct (N.eq_dec n 0) as [->|Hz].
  - rewrite digits_zero by lia. discriminate.
  - destruct (digits_head b n Hb Hz) as (d & ds & E & _). rewrite E. discriminate.
Qed.

(* ---------- characters ---------- *)
Lemma chars_of_digits u b ds : b <= 16 -> Forall (fun d => d < b) ds ->
  chars_digits b (map (digit_char u) ds) = Some ds.
Proof.
  intros Hb H. induction H as [|d ds Hd _ IH]; [ reflexivity | ].
  cbn [map chars_digits]. rewrite digit_roundtrip by lia.
  destruct (N.ltb_spec d b); [ | lia ]. rewrite IH. reflexivity.
Qed.

Theorem render_base_roundtrip u b n : 2 <= b <= 16 -> parse_base b (render_base u b n) = Some n.
Proof.
  intros [Hb1 Hb2]. unfold parse_base, render_base.
  destruct (digitsN b n) as [|d ds] eqn:E; [ exfalso; eapply digits_nonempty; eauto | ].
  rewrite <- E. destruct (map (digit_char u) (digitsN b n)) eqn:E2.
  - rewrite E in E2. discriminate.
  - rewrite <- E2, chars_of_digits by (try assumption; apply digits_bound; lia).
    cbn [option_map]. rewrite digits_value by assumption. reflexivity.
Qed.

Lemma render_base_nonempty u b n : 2 <= b -> render_base u b n <> [].
Proof.
  intros Hb E. unfold render_base in E. apply map_eq_nil in E. revert E. apply digits_nonempty. assumption.
Qed.

Lemma render_base_clean u b n : 2 <= b <= 16 ->
  Forall (fun c => ceq c "000" = false /\ ceq c "\" = false /\ ceq c "-" = false /\ ceq c "%" = false)
         (render_base u b n).
Proof.
  intros [Hb1 Hb2]. unfold render_base. apply Forall_map.
  pose proof (digits_bound b n ltac:(lia)) as F. rewrite Forall_forall in *.
  intros d Hd. apply digit_not_special. specialize (F d Hd). cbv beta in F. lia.
Qed.

Lemma udec_all_digits n : forallb is_digit (udec n) = true.
Proof.
  unfold udec, render_base. apply forallb_forall. intros c Hc.
  apply in_map_iff in Hc. destruct Hc as (d & <- & Hd).
  pose proof (digits_bound 10 n ltac:(lia)) as F. rewrite Forall_forall in F.
  apply digit_is_digit. apply F. assumption.
Qed.

Lemma udec_zero : udec 0 = ["0"%char].
Proof. reflexivity. Qed.

(* first character of the decimal numeral of a non-zero number is not '0' *)
Lemma udec_head n : n <> 0 -> exists c r, udec n = c :: r /\ ceq c "0" = false.
Proof.
  intros Hz. destruct (digits_head 10 n ltac:(lia) Hz) as (d & ds & E & Hd).
  exists (digit_char false d), (map (digit_char false) ds). unfold udec, render_base. rewrite E. split; [ reflexivity | ].
  pose proof (digits_bound 10 n ltac:(lia)) as F. rewrite E in F. inversion F; subst.
  rewrite digit_zero_iff by lia. apply N.eqb_neq. assumption.
Qed.

Lemma udec_canonical n : canonical_unsigned (udec n) = true.
Proof.
  destruct (N.eq_dec n 0) as [->|Hz]; [ reflexivity | ].
  destruct (udec_head n Hz) as (c & r & E & Hc).
  unfold canonical_unsigned. pose proof (udec_all_digits n) as A. rewrite E in *.
  rewrite A, Hc. reflexivity.
Qed.

(* ---------- signed decimal ---------- *)
Local Open Scope Z_scope.

Lemma dec_nonneg z : 0 <= z -> dec z = udec (Z.to_N z).
Proof. destruct z; intros; try lia; reflexivity. Qed.

Lemma dec_neg p : dec (Zneg p) = "-"%char :: udec (Npos p).
Proof. reflexivity. Qed.

Lemma parse_base_minus b r : parse_base b ("-"%char :: r) = None.
Proof. reflexivity. Qed.

Theorem dec_roundtrip_l z : parse_dec (dec z) = Some z.
Proof.
  unfold parse_dec. destruct z as [|p|p].
  - reflexivity.
  - change (dec (Zpos p)) with (udec (Npos p)). unfold udec.
    rewrite render_base_roundtrip by lia. reflexivity.
  - rewrite dec_neg, parse_base_minus. unfold udec. rewrite render_base_roundtrip by lia. reflexivity.
Qed.

Theorem dec_canonical_l z : is_canonical_dec (dec z) = true.
Proof.
  unfold is_canonical_dec. destruct z as [|p|p].
  - reflexivity.
  - change (dec (Zpos p)) with (udec (Npos p)). rewrite udec_canonical. reflexivity.
  - rewrite dec_neg. apply orb_true_iff. right.
    rewrite udec_canonical. destruct (udec_head (Npos p)) as (c & r & E & Hc); [ discriminate | ].
    rewrite E. cbn [beq]. rewrite Hc. reflexivity.
Qed.

Theorem dec_injective_l a b : dec a = dec b -> a = b.
Proof.
  intros E. pose proof (dec_roundtrip_l a) as Ha. rewrite E, dec_roundtrip_l in Ha. congruence.
Qed.

Lemma dec_split z : dec z = sign_of z ++ mag_of z.
Proof. reflexivity. Qed.

Lemma mag_of_parse z : parse_base 10 (mag_of z) = Some (Z.abs_N z).
Proof. unfold mag_of, udec. apply render_base_roundtrip. lia. Qed.

(* leading zeros do not change the value read back *)
Lemma from_digits_zeros b k ds : from_digits b (repeat 0%N k ++ ds) = from_digits b ds.
Proof.
  unfold from_digits. rewrite fold_left_app. f_equal.
  induction k as [|k IH]; [ reflexivity | ]. cbn [repeat fold_left]. unfold step at 2.
  rewrite N.mul_0_l, N.add_0_l. exact IH.
Qed.

Lemma chars_digits_app b s t ds dt :
  chars_digits b s = Some ds -> chars_digits b t = Some dt -> chars_digits b (s ++ t) = Some (ds ++ dt).
Proof.
  revert ds. induction s as [|c s IH]; intros ds Hs Ht.
  - inversion Hs. exact Ht.
  - cbn [chars_digits app] in *. destruct (char_digit c); [ | discriminate ].
    destruct (_ <? _)%N; [ | discriminate ].
    destruct (chars_digits b s) as [ds'|]; [ | discriminate ].
    inversion Hs; subst. rewrite (IH ds' eq_refl Ht). reflexivity.
Qed.

Lemma chars_digits_zeros b k : (1 <= b)%N -> chars_digits b (zeros k) = Some (repeat 0%N k).
Proof.
  intros Hb. induction k as [|k IH]; [ reflexivity | ].
  unfold zeros in *. cbn [repeat chars_digits]. change (char_digit "0") with (Some 0%N).
  cbv iota beta. assert (E : (0 <? b)%N = true) by (apply N.ltb_lt; lia). rewrite E, IH. reflexivity.
Qed.

Lemma parse_base_zeros b k n s : (1 <= b)%N -> parse_base b s = Some n -> parse_base b (zeros k ++ s) = Some n.
Proof.
  intros Hb. unfold parse_base. destruct s as [|c s]; [ discriminate | ].
  destruct (chars_digits b (c :: s)) as [ds|] eqn:E; [ | discriminate ].
  intros H. inversion H; subst.
  destruct (zeros k ++ c :: s) eqn:E2; [ destruct k; discriminate | ].
  rewrite <- E2. erewrite chars_digits_app; [ | apply chars_digits_zeros; lia | exact E ].
  cbn [option_map]. rewrite from_digits_zeros. reflexivity.
Qed.

Lemma u64_value z : Z.of_N (u64 z) = z mod 18446744073709551616.
Proof. unfold u64. apply Z2N.id. apply Z.mod_pos_bound. lia. Qed.
