(* C16 - print_multiple joining and the order of output of a whole run. *)
From Coq Require Import List Arith Bool Ascii String ZArith NArith Lia.
From Cb Require Import C16.Model C16.Spec.
Import ListNotations.
Local Open Scope char_scope.

(* texts separated by exactly one space *)
Definition join_sp (l : list bytes) : bytes :=
  match l with [] => [] | v :: r => v ++ List.concat (map (cons " ") r) end.

Lemma join_values_false e args vs : Forall2 (fun a v => print_argument e a = inl v) args vs ->
  join_values e false args = inl (List.concat (map (cons " ") vs)).
Proof.
  induction 1 as [|a v args vs Ha _ IH]; [ reflexivity | ].
  cbn [join_values]. rewrite Ha. cbn [rbind]. rewrite IH. reflexivity.
Qed.

Lemma join_values_true e args vs : Forall2 (fun a v => print_argument e a = inl v) args vs ->
  join_values e true args = inl (join_sp vs).
Proof.
  destruct 1 as [|a v args vs Ha H]; [ reflexivity | ].
  cbn [join_values]. rewrite Ha. cbn [rbind]. rewrite (join_values_false e args vs H). reflexivity.
Qed.

Theorem println_single_spaces_l e nl args vs : 2 <= List.length args -> find_fmt args = None ->
  Forall2 (fun a v => print_argument e a = inl v) args vs ->
  stmt_out e (SPrint nl args) = inl (join_sp vs ++ (if nl then ["010"] else [])).
Proof.
  intros Hlen Hf H. unfold stmt_out, print_multiple.
  destruct args as [|a [|b r]]; try (cbn in Hlen; lia).
  rewrite Hf. rewrite (join_values_true e _ vs H). reflexivity.
Qed.

(* a plain string literal contributes its escape-processed text, alone or among several arguments *)
Theorem println_literal_uniform_l e nl s rest vs : has_interpolation s = false -> rest <> [] ->
  find_fmt (AQuoted s :: rest) = None ->
  Forall2 (fun a v => print_argument e a = inl v) rest vs ->
  stmt_out e (SPrint nl [AQuoted s]) = inl (cstr (process_escape s) ++ (if nl then ["010"] else [])) /\
  stmt_out e (SPrint nl (AQuoted s :: rest)) =
    inl (join_sp (cstr (process_escape s) :: vs) ++ (if nl then ["010"] else [])).
Proof.
  intros Hi Hr Hf H. split.
  - unfold stmt_out, print_multiple, print_argument. rewrite Hi. reflexivity.
  - apply println_single_spaces_l; [ destruct rest; [ congruence | cbn; lia ] | exact Hf | ].
    constructor; [ | exact H ]. unfold print_argument. rewrite Hi. reflexivity.
Qed.

(* arguments that are not string literals never start the printf path *)
Definition not_literal (a : arg) : Prop := match a with AQuoted _ => False | _ => True end.
Lemma find_fmt_no_literal args : Forall not_literal args -> find_fmt args = None.
Proof.
  induction 1 as [|a args Ha _ IH]; [ reflexivity | ].
  cbn [find_fmt]. destruct a; [ destruct Ha | | ]; cbn [is_fmt_literal]; rewrite IH; reflexivity.
Qed.

Definition value_text (a : arg) : bytes := match a with AInt z => dec z | AStr s => cstr s | AQuoted s => s end.

Theorem println_values_l e nl args : 2 <= List.length args -> Forall not_literal args ->
  stmt_out e (SPrint nl args) = inl (join_sp (map value_text args) ++ (if nl then ["010"] else [])).
Proof.
  intros Hlen H. apply println_single_spaces_l; [ exact Hlen | apply find_fmt_no_literal; exact H | ].
  clear Hlen. induction H as [|a args Ha _ IH]; [ constructor | ].
  cbn [map]. constructor; [ | exact IH ]. destruct a; [ destruct Ha | reflexivity | reflexivity ].
Qed.

Lemma concat_shift (l : list bytes) :
  List.concat (map (cons " ") l) ++ [" "] = " " :: List.concat (map (fun v => v ++ [" "]) l).
Proof.
  induction l as [|v l IH]; [ reflexivity | ].
  cbn [map List.concat app]. rewrite <- app_assoc, IH, <- app_assoc. reflexivity.
Qed.

(* the printf path: arguments before the format literal are joined by spaces, one more space, then the
   rendered format with the arguments after it *)
Theorem println_format_path_l e nl pre f post vs fa out :
  find_fmt (pre ++ AQuoted f :: post) = Some (pre, f, post) -> 2 <= List.length (pre ++ AQuoted f :: post) ->
  Forall2 (fun a v => print_argument e a = inl v) pre vs ->
  collect e post = inl fa -> render f fa = Some out ->
  stmt_out e (SPrint nl (pre ++ AQuoted f :: post)) =
  inl (List.concat (map (fun v => v ++ [" "]) vs) ++ cstr out ++ (if nl then ["010"] else [])).
Proof.
  intros Hf Hlen Hpre Hc Hr. unfold stmt_out, print_multiple.
  destruct (pre ++ AQuoted f :: post) as [|a [|b r]] eqn:E; try (cbn in Hlen; lia).
  rewrite Hf, (join_values_true e pre vs Hpre). cbn [rbind]. rewrite Hc, Hr. cbn [rbind].
  apply f_equal. rewrite <- !app_assoc.
  assert (J : join_sp vs ++ (match pre with [] => [] | _ => [" "] end) = List.concat (map (fun v => v ++ [" "]) vs)).
  { destruct Hpre as [|a0 v0 pre' vs' _ H]; [ reflexivity | ].
    cbn [join_sp map List.concat]. rewrite <- !app_assoc. f_equal. cbn [app]. apply concat_shift. }
  rewrite app_assoc, J. reflexivity.
Qed.

(* ---------- order of output ---------- *)
Definition no_fail (p : list stmt) : Prop := Forall (fun s => s <> SFail) p.

Lemma exec_app e p q op : no_fail p -> exec e p = (inl op, false) ->
  exec e (p ++ q) = (rbind (fst (exec e q)) (fun oq => inl (op ++ oq)), snd (exec e q)).
Proof.
  revert op. induction p as [|s p IH]; intros op Hn H.
  - cbn in H. inversion H; subst. cbn [app]. destruct (exec e q) as [[oq|x] f]; reflexivity.
  - inversion Hn as [|? ? Hs Hp]; subst.
    destruct s as [nl args|]; [ | congruence ].
    cbn [app exec] in *. destruct (stmt_out e (SPrint nl args)) as [o|x]; [ | inversion H ].
    destruct (exec e p) as [[o'|x] f] eqn:Ep; cbn [rbind] in H; inversion H; subst.
    rewrite (IH o' Hp eq_refl). destruct (exec e q) as [[oq|x] f']; cbn [fst snd rbind]; [ | reflexivity ].
    rewrite app_assoc. reflexivity.
Qed.

(* everything printed before the failing statement is on stdout, in order, and nothing after it *)
Theorem output_before_error_l e p q op : no_fail p -> exec e p = (inl op, false) ->
  exec e (p ++ SFail :: q) = (inl op, true).
Proof.
  intros Hn H. rewrite (exec_app e p (SFail :: q) op Hn H). cbn [exec fst snd rbind]. rewrite app_nil_r. reflexivity.
Qed.

(* a run without error: the output of a prefix of the program is a prefix of the output *)
Theorem output_in_order_l e p q op oq : no_fail p -> exec e p = (inl op, false) -> exec e q = (inl oq, false) ->
  exec e (p ++ q) = (inl (op ++ oq), false).
Proof. intros Hn Hp Hq. rewrite (exec_app e p q op Hn Hp), Hq. reflexivity. Qed.

(* the output of a run is the concatenation of the statements' outputs *)
Theorem exec_concat_l e p outs : no_fail p -> Forall2 (fun s o => stmt_out e s = inl o) p outs ->
  exec e p = (inl (List.concat outs), false).
Proof.
  intros Hn H. induction H as [|s o p outs Hs _ IH]; [ reflexivity | ].
  inversion Hn as [|? ? Hs' Hp]; subst. destruct s as [nl args|]; [ | congruence ].
  cbn [exec]. rewrite Hs, (IH Hp). reflexivity.
Qed.
