(* C16 - the property's own vocabulary (definitions only): reading numerals back, canonical decimal
   form, re-assembling a split literal, escaping braces / percent signs.  None of this is extracted
   into the model driver; the theorems relate these readers to the Mech functions of Model.v. *)
From Coq Require Import List Arith Bool Ascii String ZArith NArith.
From Cb Require Import C16.Model.
Import ListNotations.
Local Open Scope char_scope.

(* ---------- numerals ---------- *)
Definition step (b a d : N) : N := (a * b + d)%N.
Definition from_digits (b : N) (ds : list N) : N := fold_left (step b) ds 0%N.

(* value of one digit character, either case *)
Definition char_digit (c : ascii) : option N :=
  let n := code c in
  if (48 <=? n)%N && (n <=? 57)%N then Some (n - 48)%N
  else if (97 <=? n)%N && (n <=? 102)%N then Some (n - 87)%N
  else if (65 <=? n)%N && (n <=? 70)%N then Some (n - 55)%N
  else None.

Fixpoint chars_digits (b : N) (s : bytes) : option (list N) :=
  match s with
  | [] => Some []
  | c :: r =>
      match char_digit c with
      | Some d => if (d <? b)%N then option_map (cons d) (chars_digits b r) else None
      | None => None
      end
  end.

(* an unsigned numeral in base b: at least one digit, every digit below b (leading zeros tolerated) *)
Definition parse_base (b : N) (s : bytes) : option N :=
  match s with [] => None | _ => option_map (from_digits b) (chars_digits b s) end.

(* a decimal numeral: digits, or '-' followed by digits *)
Definition parse_dec (s : bytes) : option Z :=
  match parse_base 10 s with
  | Some n => Some (Z.of_N n)
  | None => match s with
            | "-" :: r => option_map (fun n => Z.opp (Z.of_N n)) (parse_base 10 r)
            | _ => None
            end
  end.

(* canonical: only digits, no leading zero except the numeral 0 itself, '-' only before a non-zero numeral *)
Definition canonical_unsigned (s : bytes) : bool :=
  match s with
  | [] => false
  | c :: r => forallb is_digit s && (negb (ceq c "0") || match r with [] => true | _ => false end)
  end.
Definition is_canonical_dec (s : bytes) : bool :=
  canonical_unsigned s ||
  match s with
  | "-" :: r => canonical_unsigned r && negb (beq r ["0"])
  | _ => false
  end.

(* ---------- text of a printf directive / an interpolation spec ---------- *)
Definition width_text (w : nat) : bytes := match w with O => [] | _ => udec (N.of_nat w) end.
Definition flag_text (minus zero : bool) : bytes := (if minus then ["-"] else []) ++ (if zero then ["0"] else []).
Definition directive (minus zero : bool) (w : nat) (c : ascii) : bytes :=
  "%" :: flag_text minus zero ++ width_text w ++ [c].
Definition ispec (zero : bool) (w : nat) (tc : bytes) : bytes :=
  (if zero then ["0"] else []) ++ width_text w ++ tc.
(* [0][width].precision[f] *)
Definition fspec (zero : bool) (w p : nat) (tc : bytes) : bytes :=
  (if zero then ["0"] else []) ++ width_text w ++ "." :: udec (N.of_nat p) ++ tc.

(* ---------- literals ---------- *)
(* doubling every '%' of a text *)
Fixpoint escape_percent (t : bytes) : bytes :=
  match t with [] => [] | c :: r => if ceq c "%" then "%" :: "%" :: escape_percent r else c :: escape_percent r end.
(* k escaped backslashes: the source text \\ repeated k times *)
Fixpoint bs_pairs (k : nat) : bytes := match k with O => [] | S k' => "\" :: "\" :: bs_pairs k' end.
Definition no_backslash (t : bytes) : Prop := Forall (fun c => c <> "\") t.
Definition no_nul (t : bytes) : Prop := Forall (fun c => c <> "000") t.

(* doubling every brace of a text *)
Fixpoint escape_braces (t : bytes) : bytes :=
  match t with
  | [] => []
  | c :: r => if ceq c "{" then "{" :: "{" :: escape_braces r
              else if ceq c "}" then "}" :: "}" :: escape_braces r else c :: escape_braces r
  end.

(* source text of one segment / of a segment list *)
Definition unsplit_seg (s : segment) : bytes :=
  match s with
  | SText t => escape_braces t
  | SDollar => ["$"]
  | SExpr e None => "{" :: e ++ ["}"]
  | SExpr e (Some f) => "{" :: e ++ ":" :: f ++ ["}"]
  end.
Definition unsplit (l : list segment) : bytes := List.concat (map unsplit_seg l).

Definition plain_text (t : bytes) : Prop := Forall (fun c => c <> "{" /\ c <> "}" /\ c <> "$") t.

(* what a segment contributes to the value of the literal when every expression renders as [f e spec] *)
Definition seg_value (f : bytes -> option bytes -> bytes) (s : segment) : bytes :=
  match s with SText t => t | SDollar => [] | SExpr e sp => f e sp end.
