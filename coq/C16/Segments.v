(* C16 - the interpolation splitter (parseInterpolatedString), the lexer's detection and
   evaluate_interpolated_string: the segments partition the literal, for every byte string. *)
From Coq Require Import List Arith Bool Ascii String ZArith NArith Lia.
From Cb Require Import C16.Model C16.Spec.
Import ListNotations.
Local Open Scope char_scope.

Lemma ceq_eq a b : ceq a b = true -> a = b.
Proof. apply Ascii.eqb_eq. Qed.
Lemma ceq_neq a b : a <> b -> ceq a b = false.
Proof. apply Ascii.eqb_neq. Qed.
Lemma ceq_false a b : ceq a b = false -> a <> b.
Proof. apply Ascii.eqb_neq. Qed.

Lemma escape_braces_app a b : escape_braces (a ++ b) = escape_braces a ++ escape_braces b.
Proof.
  induction a as [|c a IH]; [ reflexivity | ]. cbn [app escape_braces].
  destruct (ceq c "{"); [ | destruct (ceq c "}") ]; rewrite IH; reflexivity.
Qed.

Lemma unsplit_cons x l : unsplit (x :: l) = unsplit_seg x ++ unsplit l.
Proof. reflexivity. Qed.

Lemma flush_some cur r segs : flush cur r = Some segs ->
  exists l, r = Some l /\ unsplit segs = escape_braces cur ++ unsplit l.
Proof.
  unfold flush. destruct r as [l|]; [ | discriminate ]. intros E. inversion E; subst. exists l. split; [ reflexivity | ].
  destruct cur; reflexivity.
Qed.

Lemma oseg_some x r segs : oseg x r = Some segs -> exists l, r = Some l /\ segs = x :: l.
Proof. unfold oseg. destruct r as [l|]; [ | discriminate ]. intros E. inversion E. eauto. Qed.

Lemma split_colon_join s : let (a, o) := split_colon s in
  s = match o with Some f => a ++ ":" :: f | None => a end.
Proof.
  induction s as [|c s IH]; [ reflexivity | ]. cbn [split_colon].
  destruct (ceq c ":") eqn:E.
  - apply ceq_eq in E. subst. reflexivity.
  - destruct (split_colon s) as [a o]. destruct o; cbn [app]; rewrite IH at 1; reflexivity.
Qed.

Lemma unsplit_mk_expr acc : unsplit_seg (mk_expr acc) = "{" :: acc ++ ["}"].
Proof.
  unfold mk_expr. pose proof (split_colon_join acc) as H. destruct (split_colon acc) as [a o].
  destruct o as [f|]; cbn [unsplit_seg]; subst acc.
  - rewrite <- app_assoc. reflexivity.
  - reflexivity.
Qed.

(* ---------- the partition theorem ---------- *)
Lemma split_go_unsplit n : forall s, List.length s <= n ->
  (forall cur segs, split_go s MText cur = Some segs -> unsplit segs = escape_braces cur ++ s) /\
  (forall d acc segs, split_go s (MExpr d acc) [] = Some segs -> unsplit segs = "{" :: acc ++ s).
Proof.
  induction n as [|n IH]; intros s Hn.
  - destruct s; [ | cbn in Hn; lia ]. split.
    + intros cur segs H. cbn [split_go] in H. apply flush_some in H. destruct H as (l & E & ->).
      inversion E; subst. reflexivity.
    + intros d acc segs H. discriminate.
  - destruct s as [|c tl].
    { split.
      + intros cur segs H. cbn [split_go] in H. apply flush_some in H. destruct H as (l & E & ->).
        inversion E; subst. reflexivity.
      + intros d acc segs H. discriminate. }
    cbn [List.length] in Hn.
    assert (Htl : List.length tl <= n) by lia.
    destruct (IH tl Htl) as [IHT IHE].
    split.
    + intros cur segs H. cbn [split_go] in H.
      destruct (ceq c "$" && match tl with c2 :: _ => ceq c2 "{" | [] => false end) eqn:Ed.
      { apply andb_true_iff in Ed. destruct Ed as [Ec _]. apply ceq_eq in Ec. subst c.
        apply flush_some in H. destruct H as (l & E & ->).
        apply oseg_some in E. destruct E as (l' & E & ->).
        rewrite unsplit_cons, (IHT [] l' E). reflexivity. }
      destruct (ceq c "{") eqn:Eo.
      { apply ceq_eq in Eo. subst c. destruct tl as [|c2 r].
        - apply flush_some in H. destruct H as (l & E & ->). discriminate.
        - destruct (ceq c2 "{") eqn:E2.
          + apply ceq_eq in E2. subst c2.
            assert (Hr : List.length r <= n) by (cbn in Htl; lia).
            destruct (IH r Hr) as [IHr _]. rewrite (IHr _ _ H), escape_braces_app, <- app_assoc. reflexivity.
          + apply flush_some in H. destruct H as (l & E & ->). rewrite (IHE _ _ _ E). reflexivity. }
      destruct (ceq c "}") eqn:Ec.
      { apply ceq_eq in Ec. subst c. destruct tl as [|c2 r]; [ discriminate | ].
        destruct (ceq c2 "}") eqn:E2; [ | discriminate ].
        apply ceq_eq in E2. subst c2.
        assert (Hr : List.length r <= n) by (cbn in Htl; lia).
        destruct (IH r Hr) as [IHr _]. rewrite (IHr _ _ H), escape_braces_app, <- app_assoc. reflexivity. }
      rewrite (IHT _ _ H), escape_braces_app, <- app_assoc. cbn [escape_braces]. rewrite Eo, Ec. reflexivity.
    + intros d acc segs H. cbn [split_go] in H.
      destruct (ceq c "{") eqn:Eo.
      { rewrite (IHE _ _ _ H), <- app_assoc. reflexivity. }
      destruct (ceq c "}") eqn:Ec.
      { apply ceq_eq in Ec. subst c. destruct d as [|d'].
        - apply oseg_some in H. destruct H as (l & E & ->).
          rewrite unsplit_cons, unsplit_mk_expr, (IHT [] l E). cbn [escape_braces app].
          rewrite <- app_assoc. reflexivity.
        - rewrite (IHE _ _ _ H), <- app_assoc. reflexivity. }
      rewrite (IHE _ _ _ H), <- app_assoc. reflexivity.
Qed.

Theorem split_partitions_l s segs : split s = Some segs -> unsplit segs = s.
Proof.
  intros H. destruct (split_go_unsplit (List.length s) s (le_n _)) as [HT _].
  apply (HT [] segs H).
Qed.

(* ---------- plain text goes through unchanged ---------- *)
Lemma split_go_plain t : plain_text t -> forall s cur,
  split_go (t ++ s) MText cur = split_go s MText (cur ++ t).
Proof.
  induction 1 as [|c t (Ho & Hc & Hd) _ IH]; intros s cur.
  - rewrite app_nil_r. reflexivity.
  - cbn [app split_go]. rewrite (ceq_neq _ _ Hd), (ceq_neq _ _ Ho), (ceq_neq _ _ Hc). cbn [andb].
    rewrite IH, <- app_assoc. reflexivity.
Qed.

Theorem split_plain_l t : plain_text t -> split t = Some (match t with [] => [] | _ => [SText t] end).
Proof.
  intros H. unfold split. rewrite <- (app_nil_r t) at 1. rewrite split_go_plain by exact H.
  cbn [app split_go flush]. reflexivity.
Qed.

(* an expression without braces is scanned up to its closing brace *)
Definition no_braces (e : bytes) : Prop := Forall (fun c => c <> "{" /\ c <> "}") e.

Lemma split_go_expr e : no_braces e -> forall rest acc,
  split_go (e ++ "}" :: rest) (MExpr 0 acc) [] = oseg (mk_expr (acc ++ e)) (split_go rest MText []).
Proof.
  induction 1 as [|c e (Ho & Hc) _ IH]; intros rest acc.
  - rewrite app_nil_r. reflexivity.
  - cbn [app split_go]. rewrite (ceq_neq _ _ Ho), (ceq_neq _ _ Hc), IH, <- app_assoc. reflexivity.
Qed.

(* {{ and }} : a text with every brace doubled splits into that text *)
Definition no_dollar (t : bytes) : Prop := Forall (fun c => c <> "$") t.

Lemma split_go_escaped t : no_dollar t -> forall s cur,
  split_go (escape_braces t ++ s) MText cur = split_go s MText (cur ++ t).
Proof.
  induction 1 as [|c t Hd _ IH]; intros s cur.
  - rewrite app_nil_r. reflexivity.
  - cbn [escape_braces]. destruct (ceq c "{") eqn:Eo; [ | destruct (ceq c "}") eqn:Ec ].
    + apply ceq_eq in Eo. subst c. cbn [app split_go]. cbn [ceq Ascii.eqb Bool.eqb andb].
      change (ceq "{" "$") with false. change (ceq "{" "{") with true. cbn [andb].
      rewrite IH, <- app_assoc. reflexivity.
    + apply ceq_eq in Ec. subst c. cbn [app split_go].
      change (ceq "}" "$") with false. change (ceq "}" "{") with false. change (ceq "}" "}") with true. cbn [andb].
      rewrite IH, <- app_assoc. reflexivity.
    + cbn [app split_go]. rewrite (ceq_neq _ _ Hd), Eo, Ec. cbn [andb]. rewrite IH, <- app_assoc. reflexivity.
Qed.

Theorem split_escaped_l t : no_dollar t ->
  split (escape_braces t) = Some (match t with [] => [] | _ => [SText t] end).
Proof.
  intros H. unfold split. rewrite <- (app_nil_r (escape_braces t)). rewrite split_go_escaped by exact H.
  cbn [app split_go flush]. reflexivity.
Qed.

(* ---------- the lexer's flag ---------- *)
Lemma has_interpolation_brace s : no_backslash s -> In "{" s -> has_interpolation s = true.
Proof.
  induction 1 as [|c s Hb _ IH]; intros Hin; [ destruct Hin | ].
  cbn [has_interpolation]. rewrite (ceq_neq _ _ Hb).
  destruct (ceq c "{") eqn:Eo.
  - destruct s as [|c2 r]; [ reflexivity | ].
    destruct (ceq c2 "{") eqn:E2; [ | reflexivity ].
    apply IH. left. symmetry. apply ceq_eq. exact E2.
  - apply IH. destruct Hin as [E|Hin]; [ | exact Hin ].
    subst c. discriminate.
Qed.

Lemma has_interpolation_none s : Forall (fun c => c <> "{") s -> has_interpolation s = false.
Proof.
  revert s. fix F 1. intros s H. destruct s as [|c tl]; [ reflexivity | ].
  inversion H as [|? ? Hc Ht]; subst. cbn [has_interpolation]. rewrite (ceq_neq _ _ Hc).
  destruct (ceq c "\").
  - destruct tl as [|x r]; [ reflexivity | ]. inversion Ht; subst. apply F. assumption.
  - apply F. assumption.
Qed.

(* ---------- evaluation ---------- *)
Definition bound (e : env) (s : segment) : Prop :=
  match s with
  | SExpr ex sp => exists v, lookup e ex = Some v /\ spec_supported v (match sp with Some f => f | None => [] end) = true
  | _ => True
  end.

Definition seg_out (e : env) (s : segment) : bytes :=
  seg_value (fun ex sp => match lookup e ex with
                          | Some v => format_value v (match sp with Some f => f | None => [] end)
                          | None => []
                          end) s.

Theorem eval_segs_concat_l e l : Forall (bound e) l -> eval_segs e l = inl (List.concat (map (seg_out e) l)).
Proof.
  induction 1 as [|s l Hb _ IH]; [ reflexivity | ].
  destruct s as [t|ex sp|]; cbn [eval_segs map List.concat seg_out seg_value].
  - rewrite IH. reflexivity.
  - cbn [bound] in Hb. destruct Hb as (v & Hl & Hs). rewrite Hl, Hs, IH. reflexivity.
  - rewrite IH. reflexivity.
Qed.

Theorem double_brace_literal_l e t : no_dollar t -> no_backslash t -> In "{" t ->
  eval_quoted e (escape_braces t) = inl t.
Proof.
  intros Hd Hb Hin. unfold eval_quoted.
  rewrite has_interpolation_brace.
  - rewrite split_escaped_l by exact Hd. destruct t; [ destruct Hin | ]. cbn [eval_segs rbind]. rewrite app_nil_r. reflexivity.
  - clear Hd Hin. induction Hb as [|c t Hc _ IH]; [ constructor | ].
    cbn [escape_braces]. destruct (ceq c "{"); [ | destruct (ceq c "}") ]; repeat (constructor; try discriminate); assumption.
  - clear Hd Hb. induction t as [|c t IH]; [ destruct Hin | ].
    cbn [escape_braces]. destruct (ceq c "{") eqn:E; [ left; reflexivity | ].
    destruct Hin as [->|Hin]; [ discriminate | ].
    destruct (ceq c "}"); repeat right; apply IH; exact Hin.
Qed.

(* one interpolated expression between two plain texts: the texts come out byte-identical *)
Theorem interp_text_untouched_l e t1 ex t2 v : plain_text t1 -> no_backslash t1 -> plain_text t2 -> no_braces ex ->
  lookup e (fst (split_colon ex)) = Some v ->
  spec_supported v (match snd (split_colon ex) with Some f => f | None => [] end) = true ->
  eval_quoted e (t1 ++ "{" :: ex ++ "}" :: t2) =
  inl (t1 ++ format_value v (match snd (split_colon ex) with Some f => f | None => [] end) ++ t2).
Proof.
  intros H1 Hb H2 He Hl Hsup. unfold eval_quoted.
  assert (Hflag : has_interpolation (t1 ++ "{" :: ex ++ "}" :: t2) = true).
  { clear Hl H2. induction H1 as [|c t (Ho & _ & _) _ IH].
    - cbn [app has_interpolation]. change (ceq "{" "\") with false. change (ceq "{" "{") with true. cbv iota.
      destruct He as [|c ex (Ho & _) _]; cbn [app]; [ reflexivity | ]. rewrite (ceq_neq _ _ Ho). reflexivity.
    - inversion Hb; subst. cbn [app has_interpolation].
      rewrite (ceq_neq c "\") by assumption. rewrite (ceq_neq _ _ Ho). apply IH. assumption. }
  rewrite Hflag. unfold split. rewrite split_go_plain by exact H1. cbn [app].
  cbn [split_go]. change (ceq "{" "$") with false. change (ceq "{" "{") with true. cbn [andb].
  assert (Hnext : match ex ++ "}" :: t2 with
                  | c2 :: r => if ceq c2 "{" then split_go r MText (t1 ++ ["{"])
                               else flush t1 (split_go (ex ++ "}" :: t2) (MExpr 0 []) [])
                  | [] => flush t1 (split_go (ex ++ "}" :: t2) (MExpr 0 []) [])
                  end = flush t1 (split_go (ex ++ "}" :: t2) (MExpr 0 []) [])).
  { destruct He as [|c ex' (Ho & _) _]; cbn [app]; [ reflexivity | ]. rewrite (ceq_neq _ _ Ho). reflexivity. }
  rewrite Hnext. rewrite split_go_expr by exact He. cbn [app].
  rewrite <- (app_nil_r t2) at 1. rewrite split_go_plain by exact H2. cbn [app split_go].
  unfold mk_expr. destruct (split_colon ex) as [a o] eqn:Es. cbn [fst snd] in *.
  destruct t1, t2; cbn [flush oseg eval_segs rbind app]; rewrite Hl, Hsup; cbn [rbind]; rewrite ?app_nil_r; reflexivity.
Qed.
