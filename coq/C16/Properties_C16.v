(* C16 - property theorems only.  Statements are about the Mech model of the output path (Model.v:
   output_manager.cpp, the interpolation splitter, format_interpolated_value) and the readers of Spec.v;
   the proofs are in Digits.v / Format.v / Convert.v / Segments.v / Print.v. *)
From Coq Require Import List Arith Bool Ascii String ZArith NArith.
From Cb Require Import C16.Model C16.Spec C16.Digits C16.Format C16.Convert C16.Segments C16.Print C16.Nested C16.NestedProofs C16.FloatFmt.
Import ListNotations.
Local Open Scope char_scope.

(* ---------------- decimal text of an integer (println, %d, {n}) ---------------- *)

(* reading the printed decimal back gives the value, for every integer (no 64-bit bound) *)
Theorem dec_roundtrip : forall z : Z, parse_dec (dec z) = Some z.
Proof. exact dec_roundtrip_l. Qed.
Print Assumptions dec_roundtrip.

(* digits only, no leading zero, '-' only in front of a non-zero number *)
Theorem dec_canonical : forall z : Z, is_canonical_dec (dec z) = true.
Proof. exact dec_canonical_l. Qed.
Print Assumptions dec_canonical.

Theorem dec_injective : forall a b : Z, dec a = dec b -> a = b.
Proof. exact dec_injective_l. Qed.
Print Assumptions dec_injective.

(* println(n), "%d", "%lld" and "{n}" all print exactly dec n *)
Theorem converters_agree : forall (e : env) (z : Z),
  stmt_out e (SPrint true [AInt z]) = inl (dec z ++ ["010"]) /\
  render (s2l "%d") [FInt z] = Some (dec z) /\
  render (s2l "%lld") [FInt z] = Some (dec z) /\
  format_value (VInt z) [] = dec z.
Proof.
  intros e z. split; [ apply println_int_is_dec | ]. split; [ apply printf_plain_d_is_dec | ].
  split; [ apply printf_lld_is_dec | apply interp_default_is_dec ].
Qed.
Print Assumptions converters_agree.

(* ---------------- printf directives: flags - and 0, any width, any value ---------------- *)

(* %[-][0][w]d prints what C printf prints *)
Theorem printf_d_is_c_printf : forall (minus zero : bool) (w : nat) (v : Z),
  render (directive minus zero w "d") [FInt v] = Some (pad_num minus zero w (sign_of v) (mag_of v)).
Proof. exact printf_d_l. Qed.
Print Assumptions printf_d_is_c_printf.

(* |out| = max w |digits| for d i u o x X *)
Theorem pad_length_printf : forall c minus zero w a out, int_conv_char c ->
  render (directive minus zero w c) [a] = Some out ->
  List.length out =
  Nat.max w (List.length (fst (int_body c (farg_int a))) + List.length (snd (int_body c (farg_int a)))).
Proof. exact printf_int_length. Qed.
Print Assumptions pad_length_printf.

Theorem pad_length_printf_d : forall minus zero w v out,
  render (directive minus zero w "d") [FInt v] = Some out -> List.length out = Nat.max w (List.length (dec v)).
Proof. exact printf_d_length. Qed.
Print Assumptions pad_length_printf_d.

(* %0wd : sign first, zeros between sign and digits, and the text still reads back as the value *)
Theorem printf_zero_pad_keeps_sign_first : forall (w : nat) (v : Z),
  render (directive false true w "d") [FInt v] =
    Some (sign_of v ++ zeros (w - List.length (dec v)) ++ mag_of v) /\
  parse_dec (sign_of v ++ zeros (w - List.length (dec v)) ++ mag_of v) = Some v.
Proof. exact printf_zero_pad_l. Qed.
Print Assumptions printf_zero_pad_keeps_sign_first.

(* %u %o %x %X print the two's-complement image: reading back gives v mod 2^64 *)
Theorem printf_unsigned_roundtrip_mod_2_64 : forall c b u v,
  In (c, b, u) [("u", 10%N, false); ("o", 8%N, false); ("x", 16%N, false); ("X", 16%N, true)] ->
  exists out, render (directive false false 0 c) [FInt v] = Some out /\
              option_map Z.of_N (parse_base b out) = Some (v mod 18446744073709551616)%Z.
Proof. exact printf_unsigned_roundtrip_l. Qed.
Print Assumptions printf_unsigned_roundtrip_mod_2_64.

(* %[-][w]s pads the text with spaces; %[-][w]c prints the one byte *)
Theorem printf_s_pads_text : forall minus zero w s, clean s ->
  render (directive minus zero w "s") [FStr s] = Some (pad_str minus w s).
Proof. exact printf_s_l. Qed.
Print Assumptions printf_s_pads_text.

Theorem printf_c_one_byte : forall minus zero w v, clean [byte_of_Z v] ->
  render (directive minus zero w "c") [FInt v] = Some (pad_str minus w [byte_of_Z v]).
Proof. exact printf_c_l. Qed.
Print Assumptions printf_c_one_byte.

(* ... but not for a byte value 0: the faithful model prints the decimal number (known finding
   C16-percent-c-nul) *)
Theorem printf_c_as_c_printf_refuted :
  exists v, byte_of_Z v = "000" /\ render (s2l "%c|") [FInt v] = Some (s2l "0|").
Proof. exists 0%Z. vm_compute. split; reflexivity. Qed.
Print Assumptions printf_c_as_c_printf_refuted.

(* ... and a backslash produced by %c merges with the following format text, because escapes are
   processed after substitution (known finding C16-escapes-after-substitution) *)
Theorem printf_escapes_after_substitution_refuted :
  exists v, byte_of_Z v = "\" /\ render (s2l "%cn|") [FInt v] = Some ["010"; "|"].
Proof. exists 92%Z. vm_compute. split; reflexivity. Qed.
Print Assumptions printf_escapes_after_substitution_refuted.

(* %% : a text with every '%' doubled renders as the text *)
Theorem percent_percent : forall t, no_backslash t -> render (escape_percent t) [] = Some t.
Proof. exact render_percent_percent. Qed.
Print Assumptions percent_percent.

(* ---------------- interpolation specs ---------------- *)

Theorem interp_width_is_right_aligned : forall zero w z tc,
  tc = [] \/ tc = ["d"] -> (zero = true \/ w <> 0 \/ tc <> []) ->
  format_value (VInt z) (ispec zero w tc) =
  if zero then pad_num false true w (sign_of z) (mag_of z) else ipad false w (dec z).
Proof. exact interp_dec_width_l. Qed.
Print Assumptions interp_width_is_right_aligned.

Theorem pad_length_interp : forall zero w z tc,
  tc = [] \/ tc = ["d"] -> (zero = true \/ w <> 0 \/ tc <> []) ->
  List.length (format_value (VInt z) (ispec zero w tc)) = Nat.max w (List.length (dec z)).
Proof. exact interp_width_length_l. Qed.
Print Assumptions pad_length_interp.

(* {n:x} {n:X} {n:0Nx}: reading back gives n mod 2^64 *)
Theorem hex_roundtrip_mod_2_64 : forall w z upper,
  option_map Z.of_N (parse_base 16 (format_value (VInt z) (ispec true w [hex_letter upper])))
  = Some (z mod 18446744073709551616)%Z /\
  option_map Z.of_N (parse_base 16 (format_value (VInt z) [hex_letter upper]))
  = Some (z mod 18446744073709551616)%Z.
Proof. exact interp_hex_roundtrip_l. Qed.
Print Assumptions hex_roundtrip_mod_2_64.

Theorem bin_roundtrip_mod_2_64 : forall zero w z,
  option_map Z.of_N (parse_base 2 (format_value (VInt z) (ispec zero w ["b"])))
  = Some (z mod 18446744073709551616)%Z.
Proof. exact interp_bin_roundtrip_l. Qed.
Print Assumptions bin_roundtrip_mod_2_64.

(* {n:0N} / {n:0Nd}: sign first, then zeros, then digits; reads back as n - for every n, negative ones
   included (former finding #27 / C16-interp-zero-pad-sign, repaired by /repo commit 4cd822e) *)
Theorem interp_zero_pad_keeps_sign_first : forall w z tc, tc = [] \/ tc = ["d"] ->
  format_value (VInt z) (ispec true w tc) = sign_of z ++ zeros (w - List.length (dec z)) ++ mag_of z /\
  parse_dec (format_value (VInt z) (ispec true w tc)) = Some z.
Proof. exact interp_zero_pad_l. Qed.
Print Assumptions interp_zero_pad_keeps_sign_first.

(* the former witness *)
Example ex_zero_pad_negative : format_value (VInt (-255)) (s2l "05") = s2l "-0255".
Proof. vm_compute. reflexivity. Qed.

(* ---------------- {x:.Nf} : a double with N decimals ---------------- *)
(* a double is given exactly as (-1)^neg * m * 2^e; [fix_q m e p] is the integer q printed as q / 10^p *)

(* {x:[0][W].p[f]} is the fixed rendering right-aligned in W columns; {x} is the rendering with 6 decimals *)
Theorem interp_float_spec : forall zero w p tc ng m e, tc = [] \/ tc = ["f"] ->
  format_value (VFlt ng m e) (fspec zero w p tc) = ipad zero w (fixed ng m e p) /\
  spec_supported (VFlt ng m e) (fspec zero w p tc) = true.
Proof. exact interp_float_spec_l. Qed.
Print Assumptions interp_float_spec.

Theorem interp_float_default : forall ng m e, format_value (VFlt ng m e) [] = fixed ng m e 6.
Proof. exact interp_float_default_l. Qed.
Print Assumptions interp_float_default.

(* the printed number is within half a unit of the last printed digit of the exact value ... *)
Theorem float_fixed_half_ulp : forall m k p,
  (2 * Z.abs (Z.of_N (fix_q m (Zneg k) p * 2 ^ Npos k) - Z.of_N (m * 10 ^ N.of_nat p)) <= Z.of_N (2 ^ Npos k))%Z.
Proof. exact fix_q_half_ulp_l. Qed.
Print Assumptions float_fixed_half_ulp.

(* ... an exact tie goes to the even last digit, a value with at most p decimals and an integral value are exact *)
Theorem float_fixed_tie_to_even : forall m k p,
  (2 * ((m * 10 ^ N.of_nat p) mod 2 ^ Npos k) = 2 ^ Npos k)%N -> N.even (fix_q m (Zneg k) p) = true.
Proof. exact fix_q_tie_even_l. Qed.
Print Assumptions float_fixed_tie_to_even.

Theorem float_fixed_exact_decimal : forall m k p,
  ((m * 10 ^ N.of_nat p) mod 2 ^ Npos k = 0)%N -> (fix_q m (Zneg k) p * 2 ^ Npos k = m * 10 ^ N.of_nat p)%N.
Proof. exact fix_q_exact_decimal_l. Qed.
Print Assumptions float_fixed_exact_decimal.

Theorem float_fixed_exact_integer : forall m e p, (0 <= e)%Z ->
  fix_q m e p = (m * 10 ^ N.of_nat p * 2 ^ Z.to_N e)%N.
Proof. exact fix_q_exact_l. Qed.
Print Assumptions float_fixed_exact_integer.

(* the text: sign, integer part without leading zeros, for p > 0 a point and exactly p digits; integer part and
   fraction read back as q / 10^p and q mod 10^p *)
Theorem float_fixed_shape : forall neg m e p,
  exists ip fp,
    fixed neg m e p = (if neg then ["-"] else []) ++ ip ++ (match p with O => [] | _ => "." :: fp end) /\
    parse_base 10 ip = Some (fix_q m e p / 10 ^ N.of_nat p)%N /\ canonical_unsigned ip = true /\
    List.length fp = p /\ forallb is_digit fp = true /\
    option_map (from_digits 10) (chars_digits 10 fp) = Some (fix_q m e p mod 10 ^ N.of_nat p)%N.
Proof. exact fixed_shape_l. Qed.
Print Assumptions float_fixed_shape.

(* 3.14159265358979 = 7074237752028906 * 2^-51; 2.5 and 0.125 are ties; -2.675 is below the tie *)
Example ex_float :
  format_value (VFlt false 7074237752028906 (-51)) (s2l ".2f") = s2l "3.14" /\
  format_value (VFlt false 7074237752028906 (-51)) (s2l "8.3f") = s2l "   3.142" /\
  format_value (VFlt false 7074237752028906 (-51)) [] = s2l "3.141593" /\
  format_value (VFlt false 5 (-1)) (s2l ".0f") = s2l "2" /\
  format_value (VFlt false 1 (-3)) (s2l ".2f") = s2l "0.12" /\
  format_value (VFlt true 6023508938686005 (-51)) (s2l ".2f") = s2l "-2.67" /\
  format_value (VFlt false 1 70) (s2l ".1f") = s2l "1180591620717411303424.0".
Proof. vm_compute. repeat split; reflexivity. Qed.

(* ---------------- the interpolation splitter ---------------- *)

(* re-bracing the expression segments, re-doubling the braces of the text segments and restoring the
   dropped '$' gives the literal back: nothing is lost, duplicated or reordered; any byte included *)
Theorem segments_partition_text : forall s segs, split s = Some segs -> unsplit segs = s.
Proof. exact split_partitions_l. Qed.
Print Assumptions segments_partition_text.

(* a literal without { } $ is one text segment *)
Theorem plain_text_is_one_segment : forall t, plain_text t ->
  split t = Some (match t with [] => [] | _ => [SText t] end).
Proof. exact split_plain_l. Qed.
Print Assumptions plain_text_is_one_segment.

(* {{ and }} *)
Theorem double_brace_splits_to_text : forall t, no_dollar t ->
  split (escape_braces t) = Some (match t with [] => [] | _ => [SText t] end).
Proof. exact split_escaped_l. Qed.
Print Assumptions double_brace_splits_to_text.

Theorem double_brace_literal : forall e t, no_dollar t -> no_backslash t -> In "{" t ->
  eval_quoted e (escape_braces t) = inl t.
Proof. exact double_brace_literal_l. Qed.
Print Assumptions double_brace_literal.

(* the value of an interpolated literal is the concatenation of its segments' values, text verbatim *)
Theorem interp_value_is_concat : forall e l, Forall (bound e) l ->
  eval_segs e l = inl (List.concat (map (seg_out e) l)).
Proof. exact eval_segs_concat_l. Qed.
Print Assumptions interp_value_is_concat.

(* text around an interpolated expression is byte-identical (every byte value, UTF-8 or not) *)
Theorem interp_text_untouched : forall e t1 ex t2 v,
  plain_text t1 -> no_backslash t1 -> plain_text t2 -> no_braces ex ->
  lookup e (fst (split_colon ex)) = Some v ->
  spec_supported v (match snd (split_colon ex) with Some f => f | None => [] end) = true ->
  eval_quoted e (t1 ++ "{" :: ex ++ "}" :: t2) =
  inl (t1 ++ format_value v (match snd (split_colon ex) with Some f => f | None => [] end) ++ t2).
Proof. exact interp_text_untouched_l. Qed.
Print Assumptions interp_text_untouched.

(* ---------------- print / println ---------------- *)

Theorem println_single_spaces : forall e nl args vs, 2 <= List.length args -> find_fmt args = None ->
  Forall2 (fun a v => print_argument e a = inl v) args vs ->
  stmt_out e (SPrint nl args) = inl (join_sp vs ++ (if nl then ["010"] else [])).
Proof. exact println_single_spaces_l. Qed.
Print Assumptions println_single_spaces.

Theorem println_values : forall e nl args, 2 <= List.length args -> Forall not_literal args ->
  stmt_out e (SPrint nl args) = inl (join_sp (map value_text args) ++ (if nl then ["010"] else [])).
Proof. exact println_values_l. Qed.
Print Assumptions println_values.

Theorem println_format_path : forall e nl pre f post vs fa out,
  find_fmt (pre ++ AQuoted f :: post) = Some (pre, f, post) -> 2 <= List.length (pre ++ AQuoted f :: post) ->
  Forall2 (fun a v => print_argument e a = inl v) pre vs ->
  collect e post = inl fa -> render f fa = Some out ->
  stmt_out e (SPrint nl (pre ++ AQuoted f :: post)) =
  inl (List.concat (map (fun v => v ++ [" "]) vs) ++ cstr out ++ (if nl then ["010"] else [])).
Proof. exact println_format_path_l. Qed.
Print Assumptions println_format_path.

(* a plain string literal prints its escape-processed text, whether it is the only argument or one of several
   (former finding C16-multiarg-escape, repaired by /repo commit 033c981) *)
Theorem println_escapes_uniform : forall e nl s rest vs, has_interpolation s = false -> rest <> [] ->
  find_fmt (AQuoted s :: rest) = None ->
  Forall2 (fun a v => print_argument e a = inl v) rest vs ->
  stmt_out e (SPrint nl [AQuoted s]) = inl (cstr (process_escape s) ++ (if nl then ["010"] else [])) /\
  stmt_out e (SPrint nl (AQuoted s :: rest)) =
    inl (join_sp (cstr (process_escape s) :: vs) ++ (if nl then ["010"] else [])).
Proof. exact println_literal_uniform_l. Qed.
Print Assumptions println_escapes_uniform.

(* the former witness *)
Example ex_multiarg_escape :
  stmt_out [] (SPrint true [AQuoted (s2l "a\tb"); AInt 1]) = inl (["a"; "009"; "b"; " "; "1"; "010"]).
Proof. vm_compute. reflexivity. Qed.

(* only an odd run of backslashes hides a directive: after k escaped backslashes %d is a directive, after
   k escaped backslashes and one more backslash it is not (former finding C16-backslash-before-percent,
   repaired by /repo commit 475de81) *)
Theorem backslash_parity_decides_directive : forall t k rest, no_meta t ->
  has_fmt (t ++ bs_pairs k ++ "%" :: "d" :: rest) = true /\
  has_fmt (t ++ bs_pairs k ++ "\" :: "%" :: "d" :: rest) = has_fmt rest.
Proof. exact backslash_parity_l. Qed.
Print Assumptions backslash_parity_decides_directive.

(* "\\%[-][0][w]d" renders as one backslash followed by what C printf prints for the directive *)
Theorem escaped_backslash_then_directive : forall c minus zero w a, int_conv_char c ->
  render ("\" :: "\" :: directive minus zero w c) [a] =
  Some ("\" :: pad_num minus zero w (fst (int_body c (farg_int a))) (snd (int_body c (farg_int a)))).
Proof. intros. apply render_escaped_backslash_directive. assumption. Qed.
Print Assumptions escaped_backslash_then_directive.

(* the former witness *)
Example ex_backslash_directive :
  stmt_out [] (SPrint true [AQuoted (s2l "a\\%d|"); AInt 5]) = inl (s2l "a\5|" ++ ["010"]).
Proof. vm_compute. reflexivity. Qed.

(* ---------------- order of output ---------------- *)

Theorem output_is_concatenation : forall e p outs, no_fail p ->
  Forall2 (fun s o => stmt_out e s = inl o) p outs -> exec e p = (inl (List.concat outs), false).
Proof. exact exec_concat_l. Qed.
Print Assumptions output_is_concatenation.

Theorem output_in_order : forall e p q op oq, no_fail p ->
  exec e p = (inl op, false) -> exec e q = (inl oq, false) -> exec e (p ++ q) = (inl (op ++ oq), false).
Proof. exact output_in_order_l. Qed.
Print Assumptions output_in_order.

(* everything printed before the failing statement is on stdout, nothing printed after it is *)
Theorem output_before_error_exit : forall e p q op, no_fail p -> exec e p = (inl op, false) ->
  exec e (p ++ SFail :: q) = (inl op, true).
Proof. exact output_before_error_l. Qed.
Print Assumptions output_before_error_exit.

(* ---------------- rendering inside rendering (Nested.v) ---------------- *)

(* the effect-free programs of Model.v, run by the nested model that is extracted and compared with /repo's
   binary ([run_main]), give exactly [run_program]: every theorem above speaks about [run_main] too *)
Theorem nested_model_conservative : forall (e : env) (p : list stmt),
  run_main (lift_program e p) =
  match run_program e p with (inl o, failed) => inl (o, failed) | (inr x, _) => inr x end.
Proof. exact nested_conservative_l. Qed.
Print Assumptions nested_model_conservative.

(* evaluate_interpolated_string is re-entrant: whatever the evaluation of {ex} writes to stdout ([side]) and
   whatever it yields - e.g. the value of another interpolated string built meanwhile - the text before and
   after it is byte-identical and nothing is lost, duplicated or spliced in *)
Theorem interp_nested_frame : forall e t1 ex t2 side v,
  plain_text t1 -> no_backslash t1 -> plain_text t2 -> no_braces ex ->
  mlookup e (fst (split_colon ex)) = inl (side, Some v) ->
  spec_supported v (spec_of (snd (split_colon ex))) = true ->
  eval_quoted_m e (t1 ++ "{" :: ex ++ "}" :: t2) =
  inl (side, Some (t1 ++ format_value v (spec_of (snd (split_colon ex))) ++ t2)).
Proof. exact interp_nested_frame_l. Qed.
Print Assumptions interp_nested_frame.

Theorem interp_nested_error : forall e t1 ex t2 side,
  plain_text t1 -> no_backslash t1 -> plain_text t2 -> no_braces ex ->
  mlookup e (fst (split_colon ex)) = inl (side, None) ->
  eval_quoted_m e (t1 ++ "{" :: ex ++ "}" :: t2) = inl (side, None).
Proof. exact interp_nested_error_l. Qed.
Print Assumptions interp_nested_error.

(* any segment list: the value is the concatenation of the segments' values, what the expressions write
   appears in segment order; a failing expression stops the evaluation there *)
Theorem interp_nested_in_order : forall e l outs, Forall2 (seg_ok e) l outs ->
  eval_segs_m e l = inl (List.concat (map fst outs), Some (List.concat (map snd outs))).
Proof. exact eval_segs_m_ok_l. Qed.
Print Assumptions interp_nested_in_order.

Theorem interp_nested_error_stops : forall e l1 outs ex sp l2 side, Forall2 (seg_ok e) l1 outs ->
  mlookup e ex = inl (side, None) ->
  eval_segs_m e (l1 ++ SExpr ex sp :: l2) = inl (List.concat (map fst outs) ++ side, None).
Proof. exact eval_segs_m_error_l. Qed.
Print Assumptions interp_nested_error_stops.

(* println(f(..)) : what the call writes, then the text of its value; println("..{f(..)}..") likewise *)
Theorem print_call_output_then_value : forall e n side v, mlookup e n = inl (side, Some v) -> is_flt v = false ->
  print_argument_m e (XRef n) = inl (side ++ value_bytes v, Some tt).
Proof. exact print_call_l. Qed.
Print Assumptions print_call_output_then_value.

Theorem print_interpolated_output_then_value : forall e s side b, has_interpolation s = true ->
  eval_quoted_m e s = inl (side, Some b) ->
  print_argument_m e (XQuoted s) = inl (side ++ cstr b, Some tt).
Proof. exact print_interpolated_l. Qed.
Print Assumptions print_interpolated_output_then_value.

(* several arguments, some of which print while they are evaluated: single spaces, each argument's own
   output right after the separator that precedes it *)
Theorem println_nested_single_spaces : forall e nl args vs, 2 <= List.length args -> find_fmt_x args = None ->
  Forall2 (arg_ok e) args vs ->
  stmt_m e (XPrint nl args) = inl (join_sp vs ++ (if nl then ["010"] else []), Some e).
Proof. exact println_m_single_spaces_l. Qed.
Print Assumptions println_nested_single_spaces.

Theorem println_nested_error_keeps_prefix : forall e nl pre vs a post side,
  find_fmt_x (pre ++ a :: post) = None -> 2 <= List.length (pre ++ a :: post) -> Forall2 (arg_ok e) pre vs ->
  print_argument_m e a = inl (side, None) ->
  stmt_m e (XPrint nl (pre ++ a :: post)) =
  inl (join_sp vs ++ (match pre with [] => [] | _ => [" "] end) ++ side, None).
Proof. exact println_m_error_l. Qed.
Print Assumptions println_nested_error_keeps_prefix.

(* the printf path: all arguments after the format literal are evaluated (their output in order) before the
   rendered text is written; the rendering itself is [render] of the values *)
Theorem println_nested_format_path : forall e nl pre f post vs outs out,
  find_fmt_x (pre ++ XQuoted f :: post) = Some (pre, f, post) -> 2 <= List.length (pre ++ XQuoted f :: post) ->
  Forall2 (arg_ok e) pre vs ->
  Forall2 (fun a o => eval_arg_m e a = inl (fst o, Some (snd o)) /\ is_flt (snd o) = false) post outs ->
  render f (map (fun o => farg_of (snd o)) outs) = Some out ->
  stmt_m e (XPrint nl (pre ++ XQuoted f :: post)) =
  inl (List.concat (map (fun v => v ++ [" "]) vs) ++ List.concat (map fst outs) ++ cstr out
       ++ (if nl then ["010"] else []), Some e).
Proof. exact println_m_format_path_l. Qed.
Print Assumptions println_nested_format_path.

(* order of output with nested evaluations, and an error raised anywhere inside a statement *)
Theorem output_in_order_nested : forall e p q op e' oq r,
  exec_m e p = inl (op, Some e') -> exec_m e' q = inl (oq, r) -> exec_m e (p ++ q) = inl (op ++ oq, r).
Proof. exact output_in_order_m_l. Qed.
Print Assumptions output_in_order_nested.

Theorem output_before_nested_error : forall e p s q op e' os,
  exec_m e p = inl (op, Some e') -> stmt_m e' s = inl (os, None) ->
  exec_m e (p ++ s :: q) = inl (op ++ os, None).
Proof. exact output_before_nested_error_l. Qed.
Print Assumptions output_before_nested_error.

(* a call: arguments left to right, body, return expression; an error in the body ends the caller as well *)
Theorem call_sequence : forall ps ls body r sides bound ob e' orr v,
  seq_params ps = inl (sides, Some bound) ->
  exec_m (bound ++ ls) body = inl (ob, Some e') ->
  match r with Some a => eval_arg_m e' a = inl (orr, Some v) | None => orr = [] /\ v = VInt 0 end ->
  call_m ps ls body r = inl (sides ++ ob ++ orr, Some v).
Proof. exact call_sequence_l. Qed.
Print Assumptions call_sequence.

Theorem call_error_in_body : forall ps ls body r sides bound ob,
  seq_params ps = inl (sides, Some bound) -> exec_m (bound ++ ls) body = inl (ob, None) ->
  call_m ps ls body r = inl (sides ++ ob, None).
Proof. exact call_error_in_body_l. Qed.
Print Assumptions call_error_in_body.

(* every depth: a tower of functions f_k() { return "pre_k{f_(k-1)()}post_k"; } around any computation that
   writes [side] and yields s gives pre_1..pre_n s post_n..post_1 and writes exactly [side]; if the innermost
   computation raises an error, so does the tower, with the same output *)
Theorem nested_every_depth : forall ws inner side, Forall wrapper_ok ws ->
  (forall s, run_comp inner = inl (side, Some (VStr s)) ->
     run_comp (tower ws inner) =
     inl (side, Some (VStr (List.concat (map fst ws) ++ s ++ List.concat (map snd (rev ws)))))) /\
  (run_comp inner = inl (side, None) -> run_comp (tower ws inner) = inl (side, None)).
Proof. exact tower_value_l. Qed.
Print Assumptions nested_every_depth.

(* ---------------- non-vacuity ---------------- *)
Example ex_directive : directive false true 5 "d" = s2l "%05d" /\ directive true false 12 "x" = s2l "%-12x".
Proof. split; reflexivity. Qed.
Example ex_printf : render (s2l "[%05d|%-6x|%3s|%c|%%]") [FInt (-42); FInt 255; FStr (s2l "ab"); FInt 65]
                    = Some (s2l "[-0042|ff    | ab|A|%]").
Proof. vm_compute. reflexivity. Qed.
Example ex_interp :
  eval_quoted [(s2l "n", VInt (-255)); (s2l "s", VStr (s2l "é"))] (s2l "a{{{n:x}}}|{n:6}|${s}|{n:012b}")
  = inl (s2l "a{ffffffffffffff01}|  -255|é|1111111111111111111111111111111111111111111111111111111100000001").
Proof. vm_compute. reflexivity. Qed.
Example ex_split : split (s2l "x{{${a+b:04}}}y") =
  Some [SText (s2l "x{"); SDollar; SExpr (s2l "a+b") (Some (s2l "04")); SText (s2l "}y")].
Proof. vm_compute. reflexivity. Qed.
Example ex_program :
  run_program [] [SPrint true [AInt 1; AStr (s2l "two"); AQuoted (s2l "%d!"); AInt 3]; SPrint false [AQuoted (s2l "x\n")]; SFail;
                  SPrint true [AInt 4]]
  = (inl (s2l "1 two 3!" ++ ["010"; "x"; "010"]), true).
Proof. vm_compute. reflexivity. Qed.
(* the seeded-change witness: "item {label(id)} is ready" with label(n) = "#{n:03d}", a call that prints, an
   error inside the innermost call of a println with several arguments *)
Example ex_nested :
  let label n := CCall [(s2l "n", CVal (VInt n))] [] [] (Some (XQuoted (s2l "#{n:03d}"))) in
  let twice v := CCall [(s2l "v", CVal (VInt v))] [] [XPrint true [XQuoted (s2l "  [twice] {v} * 2")]] (Some (XInt (2 * v)%Z)) in
  run_main (CCall [] [(s2l "label(id)", label 7%Z); (s2l "twice(id)", twice 7%Z); (s2l "id", CVal (VInt 7))]
              [XPrint true [XQuoted (s2l "item {label(id)} is ready")];
               XLet (s2l "line") (XQuoted (s2l "result: {twice(id)} (from {id})"));
               XPrint true [XRef (s2l "line")];
               XPrint true [XInt 1; XRef (s2l "twice(id)"); XQuoted (s2l "%s|%d"); XRef (s2l "label(id)"); XRef (s2l "twice(id)")]] None)
  = inl (s2l "item #007 is ready" ++ ["010"] ++ s2l "  [twice] 7 * 2" ++ ["010"] ++ s2l "result: 14 (from 7)" ++ ["010"]
         ++ s2l "1   [twice] 7 * 2" ++ ["010"] ++ s2l "14   [twice] 7 * 2" ++ ["010"] ++ s2l "#007|14" ++ ["010"], false).
Proof. vm_compute. reflexivity. Qed.
Example ex_nested_error :
  let boom := CCall [] [] [XPrint false [XQuoted (s2l "in")]; XFail; XPrint true [XQuoted (s2l "never")]] (Some (XInt 1)) in
  run_main (CCall [] [(s2l "boom()", boom)]
              [XPrint true [XQuoted (s2l "first")]; XPrint true [XInt 5; XQuoted (s2l "a{boom()}b")]; XPrint true [XQuoted (s2l "after")]] None)
  = inl (s2l "first" ++ ["010"] ++ s2l "5 in", true).
Proof. vm_compute. reflexivity. Qed.
Example ex_tower :
  run_comp (tower [(s2l "<", s2l ">"); (s2l "日本", s2l "語"); ([], s2l "!")]
                  (CCall [] [] [XPrint false [XQuoted (s2l "side")]] (Some (XQuoted (s2l "x")))))
  = inl (s2l "side", Some (VStr (s2l "<日本x!語>"))).
Proof. vm_compute. reflexivity. Qed.
