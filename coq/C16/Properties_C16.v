(* C16 - property theorems only (placeholder during development). *)
From Coq Require Import List Arith Bool Ascii String ZArith.
From Cb Require Import C16.Model.
Theorem placeholder_dec0 : dec 0%Z = s2l "0".
Proof. vm_compute. reflexivity. Qed.
Print Assumptions placeholder_dec0.
