(* Extraction of the C16 model to OCaml (ExtrOcamlBasic + ExtrOcamlString only; nat/N/Z stay inductive). *)
From Coq Require Import Extraction ExtrOcamlBasic ExtrOcamlString.
From Cb Require Import C16.Model C16.Nested C16.Contexts.
Extraction Language OCaml.
Extraction "C16/c16_model.ml" run_program stmt_out print_multiple render format_value split has_interpolation has_fmt dec
  run_main run_comp stmt_m exec_m call_m lift_program
  run_main_c run_ccomp step_c exec_c unwind call_c embed.
