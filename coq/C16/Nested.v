(* C16 - rendering inside rendering: the output path of Model.v once the expressions that are printed or
   interpolated may themselves print, render another string, or raise a run-time error.

     evaluator.cpp:evaluate_interpolated_string   evaluates the segments left to right into a LOCAL result string;
                                                  an expression segment may call a function whose body prints or
                                                  whose return value is another interpolated string (the renderer is
                                                  re-entered, up to any depth, also recursively on the same AST node)
     output_manager.cpp:print_value               evaluate_typed_expression(expr) first, then write_string/write_number
     output_manager.cpp:print_multiple            for (j..) { if (j > 0) write_char(' '); print_argument(arg[j]); }
                                                  - the separator is on stdout before argument j is evaluated;
                                                  format path: arguments before the format literal are written, then
                                                  collect_formatted_arguments evaluates ALL remaining arguments, then
                                                  render_formatted_string + write_string
     interpreter: function call                   argument expressions left to right, then the body, then the value of
                                                  the return expression; an error anywhere ends the run (main.cpp
                                                  flushes stdout first)

   An evaluation is described by what it writes to stdout while it runs and what it yields: [M A] below
   (writer + exception; [inr] = outside the model, as in Model.v).  Layer 1 ([*_m] functions) is the print
   path over an environment that maps the source text of an expression to such an outcome.  Layer 2 ([comp],
   [run_comp]) builds the outcomes of calls from the same functions: a call instance = argument expressions,
   the expressions occurring in the body, the body's statements, the return expression.
   Definitions only; proofs are in NestedProofs.v.  Everything is extracted and run against /repo's binary. *)
From Coq Require Import List Arith Bool Ascii String ZArith NArith.
From Cb Require Import C16.Model.
Import ListNotations.
Local Open Scope char_scope.

(* ---------- the effect: bytes written to stdout so far, then a result or a run-time error ---------- *)
Definition M (A : Type) : Type := ((bytes * option A) + err)%type.
Definition mret {A : Type} (a : A) : M A := inl ([], Some a).
Definition emit (b : bytes) : M unit := inl (b, Some tt).
Definition mraise {A : Type} : M A := inl ([], None).
Definition mbind {A B : Type} (m : M A) (f : A -> M B) : M B :=
  match m with
  | inr x => inr x
  | inl (s, None) => inl (s, None)                       (* the error ends the run: nothing after it happens *)
  | inl (s, Some a) =>
      match f a with
      | inr x => inr x
      | inl (s', r) => inl (s ++ s', r)
      end
  end.

(* expression source text -> what evaluating it does (every evaluation of the same text does the same) *)
Definition menv := list (bytes * M value).
Fixpoint mlookup (e : menv) (k : bytes) : M value :=
  match e with
  | [] => inr EUnbound
  | (k', m) :: r => if beq k k' then m else mlookup r k
  end.

(* ---------- arguments and statements ---------- *)
Inductive xarg :=
| XQuoted (s : bytes)      (* a string literal token, possibly interpolated *)
| XInt (z : Z)             (* an effect-free expression with an integer value *)
| XStr (s : bytes)         (* an effect-free expression with a string value *)
| XRef (name : bytes).     (* any other expression (a call): looked up by its source text *)

Inductive xstmt :=
| XPrint (newline : bool) (args : list xarg)
| XFail                                   (* a statement that raises a run-time error *)
| XEval (name : bytes)                    (* expression statement  f(..);  the value is dropped *)
| XLet (name : bytes) (a : xarg).         (* T name = expr;  the variable holds the value from then on *)

Definition spec_of (sp : option bytes) : bytes := match sp with Some f => f | None => [] end.

(* evaluate_interpolated_string: left to right; the text pieces and the formatted values are appended to a
   result that belongs to THIS evaluation, whatever the evaluation of an expression segment does meanwhile *)
Fixpoint eval_segs_m (e : menv) (l : list segment) : M bytes :=
  match l with
  | [] => mret []
  | SText t :: r => mbind (eval_segs_m e r) (fun o => mret (t ++ o))
  | SDollar :: r => eval_segs_m e r
  | SExpr ex sp :: r =>
      mbind (mlookup e ex) (fun v =>
      if spec_supported v (spec_of sp) then
        mbind (eval_segs_m e r) (fun o => mret (format_value v (spec_of sp) ++ o))
      else inr EUnsupported)
  end.

Definition eval_quoted_m (e : menv) (s : bytes) : M bytes :=
  if has_interpolation s then
    match split s with Some segs => eval_segs_m e segs | None => inr EParse end
  else mret s.

(* an argument as an expression (return value, initialiser, printf argument) *)
Definition eval_arg_m (e : menv) (a : xarg) : M value :=
  match a with
  | XQuoted s => mbind (eval_quoted_m e s) (fun b => mret (VStr b))
  | XInt z => mret (VInt z)
  | XStr s => mret (VStr s)
  | XRef n => mlookup e n
  end.

(* write_number / write_string(c_str); a double printed by print/println or passed to a printf directive goes
   through write_numeric_value / %f, which are outside the model *)
Definition is_flt (v : value) : bool := match v with VFlt _ _ _ => true | _ => false end.
Definition value_bytes (v : value) : bytes := match v with VInt z => dec z | VStr s => cstr s | VFlt _ _ _ => [] end.
Definition farg_of (v : value) : farg := match v with VInt z => FInt z | VStr s => FStr s | VFlt _ _ _ => FInt 0 end.

(* print_value: evaluate, then write *)
Definition print_value_m (e : menv) (a : xarg) : M unit :=
  mbind (eval_arg_m e a) (fun v => if is_flt v then inr EUnsupported else emit (value_bytes v)).

(* the print_argument lambda of print_multiple *)
Definition print_argument_m (e : menv) (a : xarg) : M unit :=
  match a with
  | XQuoted s => if has_interpolation s then print_value_m e a else emit (cstr (process_escape s))
  | _ => print_value_m e a
  end.

Fixpoint join_values_m (e : menv) (first : bool) (l : list xarg) : M unit :=
  match l with
  | [] => mret tt
  | a :: r =>
      mbind (emit (if first then [] else [" "])) (fun _ =>
      mbind (print_argument_m e a) (fun _ => join_values_m e false r))
  end.

(* collect_formatted_arguments: every argument is evaluated before anything of the format is written *)
Fixpoint collect_m (e : menv) (l : list xarg) : M (list farg) :=
  match l with
  | [] => mret []
  | a :: r => mbind (eval_arg_m e a) (fun v =>
              if is_flt v then inr EUnsupported
              else mbind (collect_m e r) (fun xs => mret (farg_of v :: xs)))
  end.

Definition is_fmt_literal_x (a : xarg) : option bytes :=
  match a with
  | XQuoted s => if has_interpolation s then None else if has_fmt s then Some s else None
  | _ => None
  end.

Fixpoint find_fmt_x (l : list xarg) : option (list xarg * bytes * list xarg) :=
  match l with
  | [] => None
  | a :: r =>
      match is_fmt_literal_x a with
      | Some f => Some ([], f, r)
      | None => match find_fmt_x r with
                | Some (pre, f, post) => Some (a :: pre, f, post)
                | None => None
                end
      end
  end.

Definition print_multiple_m (e : menv) (args : list xarg) : M unit :=
  match args with
  | [] => mret tt
  | [a] => print_argument_m e a
  | _ =>
      match find_fmt_x args with
      | Some (pre, f, post) =>
          mbind (join_values_m e true pre) (fun _ =>
          mbind (emit (match pre with [] => [] | _ => [" "] end)) (fun _ =>
          mbind (collect_m e post) (fun fa =>
          match render f fa with
          | None => inr EUnsupported
          | Some out => emit (cstr out)
          end)))
      | None => join_values_m e true args
      end
  end.

(* one statement: what it writes, and the environment the following statements see *)
Definition stmt_m (e : menv) (s : xstmt) : M menv :=
  match s with
  | XPrint nl args =>
      mbind (print_multiple_m e args) (fun _ =>
      mbind (emit (if nl then ["010"] else [])) (fun _ => mret e))
  | XFail => mraise
  | XEval n => mbind (mlookup e n) (fun _ => mret e)
  | XLet n a => mbind (eval_arg_m e a) (fun v => mret ((n, mret v) :: e))
  end.

Fixpoint exec_m (e : menv) (p : list xstmt) : M menv :=
  match p with
  | [] => mret e
  | s :: r => mbind (stmt_m e s) (fun e' => exec_m e' r)
  end.

(* a call: the argument expressions are evaluated left to right and bound to the parameter names, the body
   runs, the return expression is evaluated in the environment the body left *)
Fixpoint seq_params (ps : menv) : M menv :=
  match ps with
  | [] => mret []
  | (k, m) :: r => mbind m (fun v => mbind (seq_params r) (fun b => mret ((k, mret v) :: b)))
  end.

Definition call_m (ps ls : menv) (body : list xstmt) (r : option xarg) : M value :=
  mbind (seq_params ps) (fun bound =>
  mbind (exec_m (bound ++ ls) body) (fun e' =>
  match r with
  | None => mret (VInt 0)
  | Some a => eval_arg_m e' a
  end)).

(* ---------- layer 2: call instances ---------- *)
Inductive comp :=
| CVal (v : value)                                  (* effect-free expression; the harness supplies its value *)
| CCall (params : list (bytes * comp))              (* parameter name -> argument expression *)
        (locals : list (bytes * comp))              (* source text of an expression of the body -> what it is *)
        (body : list xstmt) (ret : option xarg).

Fixpoint run_comp (c : comp) : M value :=
  match c with
  | CVal v => mret v
  | CCall ps ls body r =>
      call_m (map (fun p => (fst p, run_comp (snd p))) ps)
             (map (fun p => (fst p, run_comp (snd p))) ls) body r
  end.

(* every string literal of the program is split by the parser before anything runs *)
Definition xarg_parses (a : xarg) : bool :=
  match a with
  | XQuoted s => if has_interpolation s then (match split s with Some _ => true | None => false end) else true
  | _ => true
  end.
Definition xstmt_parses (s : xstmt) : bool :=
  match s with
  | XPrint _ args => forallb xarg_parses args
  | XLet _ a => xarg_parses a
  | _ => true
  end.
Fixpoint comp_parses (c : comp) : bool :=
  match c with
  | CVal _ => true
  | CCall ps ls body r =>
      forallb (fun p => comp_parses (snd p)) ps && forallb (fun p => comp_parses (snd p)) ls
      && forallb xstmt_parses body && match r with Some a => xarg_parses a | None => true end
  end.

(* stdout of the run of main and whether it ended with an error (stdout is flushed on both exits) *)
Definition run_main (c : comp) : ((bytes * bool) + err)%type :=
  if comp_parses c then
    match run_comp c with
    | inl (s, Some _) => inl (s, false)
    | inl (s, None) => inl (s, true)
    | inr x => inr x
    end
  else inr EParse.

(* ---------- the effect-free programs of Model.v inside this model ---------- *)
Definition lift_env (e : env) : menv := map (fun p => (fst p, mret (snd p))) e.
Definition lift_arg (a : arg) : xarg :=
  match a with AQuoted s => XQuoted s | AInt z => XInt z | AStr s => XStr s end.
Definition lift_stmt (s : stmt) : xstmt :=
  match s with SPrint nl args => XPrint nl (map lift_arg args) | SFail => XFail end.
Definition lift_program (e : env) (p : list stmt) : comp :=
  CCall [] (map (fun q => (fst q, CVal (snd q))) e) (map lift_stmt p) None.

(* ---------- a tower of wrappers: f_k() { return "pre_k{f_(k-1)()}post_k"; } ---------- *)
Definition hole : bytes := ["h"].
Definition wrap_one (w : bytes * bytes) (inner : comp) : comp :=
  CCall [] [(hole, inner)] [] (Some (XQuoted (fst w ++ "{" :: hole ++ "}" :: snd w))).
Fixpoint tower (ws : list (bytes * bytes)) (inner : comp) : comp :=
  match ws with
  | [] => inner
  | w :: r => wrap_one w (tower r inner)
  end.
