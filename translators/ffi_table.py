#!/usr/bin/env python3
"""Re-extracts the signature dispatch table of FFIManager::callFunction from the CURRENT C++ text
(src/backend/interpreter/ffi_manager.cpp) into coq/C20/Gen_FfiTable.v.

Shape recognised (anything else -> TranslatorError, the caller then keeps the last generated file
and says `translator: stale` in the evidence):

    if (sig.return_type == TYPE_A || sig.return_type == TYPE_B) {        <- group
        [result.type = TYPE_X;]
        if (sig.parameters.size() == N && sig.parameters[k].first == TYPE_T && ...) {   <- row
            typedef R (*func_type)(P, ...);
            func_type func = reinterpret_cast<func_type>(func_ptr);
            [T argK = <feed>;]...
            [result.double_value = | result.value = ] func(<argK | feed>, ...);
            [result.value = static_cast<int64_t>(result.double_value);]
            [return result;]
        } else if (...) { ... }
        [result.type = TYPE_X; return result;]                              <- group tail
    } else if (sig.return_type == ...) { ... }

    <feed> ::= static_cast<int>(args[K].value) | args[K].double_value | args[K].value
             | static_cast<long|int64_t|long long>(args[K].value)

Output: a dict (groups/rows) and the Coq text. Nothing is assumed about WHICH signatures exist.
"""
import json
import os
import re
import sys

TYPES = {"TYPE_INT": "TInt", "TYPE_LONG": "TLong", "TYPE_DOUBLE": "TDouble", "TYPE_FLOAT": "TFloat",
         "TYPE_VOID": "TVoid", "TYPE_POINTER": "TPointer", "TYPE_UNKNOWN": "TUnknown"}
CTYPES = {"int": "TInt", "long": "TLong", "int64_t": "TLong", "long long": "TLong", "double": "TDouble",
          "float": "TFloat", "void": "TVoid"}


class TranslatorError(Exception):
    pass


def strip_comments(src):
    src = re.sub(r"/\*.*?\*/", lambda m: " " * len(m.group(0)), src, flags=re.S)
    return re.sub(r"//[^\n]*", "", src)


def match_brace(s, i, open_c="{", close_c="}"):
    """s[i] == open_c; returns index of the matching close."""
    assert s[i] == open_c, (s[i:i + 20], open_c)
    d = 0
    for j in range(i, len(s)):
        if s[j] == open_c:
            d += 1
        elif s[j] == close_c:
            d -= 1
            if d == 0:
                return j
    raise TranslatorError("unbalanced %s" % open_c)


def parse_if_chain(s, i):
    """s[i:] starts with `if (`. Returns ([(cond, block)], else_block or None, index after the chain)."""
    arms = []
    els = None
    while True:
        m = re.compile(r"\s*if\s*\(").match(s, i)
        if not m:
            raise TranslatorError("expected `if (` at: %r" % s[i:i + 40])
        p0 = m.end() - 1
        p1 = match_brace(s, p0, "(", ")")
        cond = s[p0 + 1:p1]
        m2 = re.compile(r"\s*\{").match(s, p1 + 1)
        if not m2:
            raise TranslatorError("if without braces")
        b0 = m2.end() - 1
        b1 = match_brace(s, b0)
        arms.append((cond, s[b0 + 1:b1]))
        i = b1 + 1
        m3 = re.compile(r"\s*else\b").match(s, i)
        if not m3:
            return arms, els, i
        i = m3.end()
        if re.compile(r"\s*if\s*\(").match(s, i):
            continue
        m4 = re.compile(r"\s*\{").match(s, i)
        if not m4:
            raise TranslatorError("else without braces")
        e0 = m4.end() - 1
        e1 = match_brace(s, e0)
        els = s[e0 + 1:e1]
        return arms, els, e1 + 1


def ty(name):
    return TYPES.get(name, "TOther")


def cty(name):
    name = " ".join(name.split())
    if name not in CTYPES:
        raise TranslatorError("C type not understood in typedef: %r" % name)
    return CTYPES[name]


FEED_PATTERNS = [
    (re.compile(r"^static_cast<\s*int\s*>\(\s*args\[(\d+)\]\.value\s*\)$"), "FInt"),
    (re.compile(r"^\(int\)\s*args\[(\d+)\]\.value$"), "FInt"),
    (re.compile(r"^static_cast<\s*(?:long|int64_t|long long)\s*>\(\s*args\[(\d+)\]\.value\s*\)$"), "FLong"),
    (re.compile(r"^args\[(\d+)\]\.double_value$"), "FDbl"),
    (re.compile(r"^args\[(\d+)\]\.value$"), "RAWVALUE"),
]


def parse_feed(expr, declared=None):
    """expr: C++ expression feeding one native argument; declared: C type of the local it initialises
    (None when written inline in the call; then the cast parameter type decides for a raw .value)."""
    e = " ".join(expr.split())
    for rx, kind in FEED_PATTERNS:
        m = rx.match(e)
        if m:
            k = int(m.group(1))
            if kind == "RAWVALUE":
                if declared in ("int",):
                    kind = "FInt"          # implicit int64_t -> int narrowing
                elif declared in ("long", "int64_t", "long long"):
                    kind = "FLong"
                else:
                    raise TranslatorError("raw args[%d].value feeding a %r" % (k, declared))
            if declared is not None:
                want = {"FInt": ("int",), "FLong": ("long", "int64_t", "long long"), "FDbl": ("double",)}[kind]
                if declared not in want:
                    raise TranslatorError("local of type %r initialised from %s" % (declared, e))
            return (kind, k)
    raise TranslatorError("argument expression not understood: %r" % e)


def split_args(s):
    out, d, cur = [], 0, ""
    for ch in s:
        if ch in "(<[":
            d += 1
        elif ch in ")>]":
            d -= 1
        if ch == "," and d == 0:
            out.append(cur.strip())
            cur = ""
        else:
            cur += ch
    if cur.strip():
        out.append(cur.strip())
    return out


def parse_row(cond, block):
    row = {}
    # ---- condition
    arity = None
    cons = {}
    for part in [p.strip() for p in cond.split("&&")]:
        part = " ".join(part.split())
        m = re.match(r"^sig\.parameters\.size\(\) == (\d+)$", part)
        if m:
            if arity is not None and arity != int(m.group(1)):
                raise TranslatorError("two different arities in one condition")
            arity = int(m.group(1))
            continue
        m = re.match(r"^sig\.parameters\[(\d+)\]\.first == (TYPE_[A-Z_]+)$", part)
        if m:
            k = int(m.group(1))
            if k in cons and cons[k] != ty(m.group(2)):
                raise TranslatorError("contradictory parameter constraints")
            cons[k] = ty(m.group(2))
            continue
        raise TranslatorError("row condition not understood: %r" % part)
    if arity is None:
        raise TranslatorError("row condition without sig.parameters.size() == N")
    if any(k >= arity for k in cons):
        raise TranslatorError("parameter index beyond the arity tested")
    row["pattern"] = [cons.get(k) for k in range(arity)]          # None = position not constrained
    # ---- body
    stmts = [" ".join(x.split()) for x in block.split(";")]
    stmts = [x for x in stmts if x]
    cast = None
    locs = {}
    call = None
    ret = False
    trunc = False
    for st in stmts:
        m = re.match(r"^typedef (.+?) \(\*func_type\)\((.*)\)$", st)
        if m:
            ps = [p for p in split_args(m.group(2)) if p and p != "void"]
            cast = (cty(m.group(1)), [cty(p) for p in ps])
            continue
        if re.match(r"^func_type func = reinterpret_cast<func_type>\(func_ptr\)$", st):
            continue
        m = re.match(r"^(int|long|int64_t|long long|double) (\w+) = (.+)$", st)
        if m:
            locs[m.group(2)] = parse_feed(m.group(3), m.group(1))
            continue
        m = re.match(r"^(?:(result\.double_value|result\.value) = )?func\((.*)\)$", st)
        if m:
            if call is not None:
                raise TranslatorError("two native calls in one row")
            feeds = []
            for a in split_args(m.group(2)):
                feeds.append(locs[a] if a in locs else parse_feed(a, None) if not re.match(r"^\w+$", a) else None)
                if feeds[-1] is None:
                    raise TranslatorError("call argument %r is not a local of the row" % a)
            call = ({"result.double_value": "RSDouble", "result.value": "RSValue", None: "RSNone"}[m.group(1)], feeds)
            continue
        if st == "result.value = static_cast<int64_t>(result.double_value)":
            trunc = True
            continue
        if st == "return result":
            ret = True
            continue
        raise TranslatorError("statement not understood in a row: %r" % st)
    if cast is None or call is None:
        raise TranslatorError("row without typedef or without call")
    # inline raw feeds with no declared local type take the cast parameter type
    row["cast_ret"], row["cast_params"] = cast
    row["store"], row["feeds"] = call
    row["returns"] = ret
    row["trunc_line"] = trunc
    return row


def parse_group(cond, block):
    g = {"rets": []}
    for part in [p.strip() for p in cond.split("||")]:
        m = re.match(r"^sig\.return_type\s*==\s*(TYPE_[A-Z_]+)$", " ".join(part.split()))
        if not m:
            raise TranslatorError("group condition not understood: %r" % part)
        g["rets"].append(ty(m.group(1)))
    # statements around the inner chain
    i = 0
    pre = None
    m = re.compile(r"\s*result\.type\s*=\s*(TYPE_[A-Z_]+)\s*;").match(block, i)
    if m:
        pre = ty(m.group(1))
        i = m.end()
    g["pre_type"] = pre
    rows = []
    if re.compile(r"\s*if\s*\(").match(block, i):
        arms, els, i = parse_if_chain(block, i)
        if els is not None:
            raise TranslatorError("inner chain with a final else")
        rows = [parse_row(c, b) for c, b in arms]
    g["rows"] = rows
    rest = " ".join(block[i:].split())
    if rest == "":
        g["tail"] = None
    else:
        m = re.match(r"^result\.type = (TYPE_[A-Z_]+); return result;$", rest)
        if not m:
            raise TranslatorError("group tail not understood: %r" % rest)
        g["tail"] = ty(m.group(1))
    return g


def extract(repo):
    path = os.path.join(repo, "src/backend/interpreter/ffi_manager.cpp")
    src = strip_comments(open(path, encoding="utf-8", errors="replace").read())
    m = re.search(r"Variable\s+FFIManager::callFunction\s*\(", src)
    if not m:
        raise TranslatorError("FFIManager::callFunction not found")
    p1 = match_brace(src, m.end() - 1, "(", ")")
    b0 = src.index("{", p1)
    b1 = match_brace(src, b0)
    body = src[b0 + 1:b1]
    m = re.search(r"Variable\s+result\s*;\s*", body)
    if not m:
        raise TranslatorError("`Variable result;` not found")
    head = body[:m.start()]
    arms, els, end = parse_if_chain(body, m.end())
    if els is not None:
        raise TranslatorError("outer chain with a final else")
    groups = [parse_group(c, b) for c, b in arms]
    tail = " ".join(body[end:].split())
    # the fall-through must set last_error_, TYPE_UNKNOWN and return
    fall_ok = ("last_error_ =" in tail and "Unsupported function signature" in tail and
               re.search(r"result\.type = TYPE_UNKNOWN; return result;$", tail) is not None)
    if not fall_ok:
        raise TranslatorError("fall-through after the chain is not `last_error_ = Unsupported...; result.type = TYPE_UNKNOWN; return result;`")
    arity_check = re.search(r"args\.size\(\)\s*!=\s*sig\.parameters\.size\(\)", head) is not None
    return {"groups": groups, "arity_check": arity_check, "source": os.path.relpath(path, repo)}


# ------------------------------------------------------------------ Coq text
def _l(xs):
    return "[" + "; ".join(xs) + "]"


def to_coq(tab):
    out = ["(* GENERATED by translators/ffi_table.py from %s - do not edit.\n"
           "   The signature dispatch chain of FFIManager::callFunction, group by group, row by row, in source order. *)" % tab["source"],
           "From Coq Require Import ZArith List.", "From Cb Require Import C20.Model.", "Import ListNotations.", "",
           "Definition ffi_chain : list group := ["]
    gs = []
    for g in tab["groups"]:
        rows = []
        for r in g["rows"]:
            pat = _l([("Some " + t) if t else "None" for t in r["pattern"]])
            feeds = _l(["%s %d" % f for f in r["feeds"]])
            rows.append("    mk_row %s (mk_csig %s %s) %s %s %s" % (
                pat, r["cast_ret"], _l(r["cast_params"]), feeds, r["store"], "true" if r["returns"] else "false"))
        gs.append("  mk_group %s %s [\n%s\n  ] %s" % (
            _l(g["rets"]), ("(Some %s)" % g["pre_type"]) if g["pre_type"] else "None", ";\n".join(rows),
            ("(Some %s)" % g["tail"]) if g["tail"] else "None"))
    out.append(";\n".join(gs))
    out.append("].")
    out.append("")
    out.append("Definition ffi_arity_check : bool := %s." % ("true" if tab["arity_check"] else "false"))
    return "\n".join(out) + "\n"


def sig_name(ret, params):
    c = {"TInt": "i", "TLong": "l", "TDouble": "d", "TFloat": "f", "TVoid": "v", "TPointer": "p", "TOther": "o", "TUnknown": "u"}
    return c[ret] + "(" + "".join(c[p] for p in params) + ")"


def summary(tab):
    """Human-readable list of what was recognised (goes into the evidence)."""
    res = []
    for g in tab["groups"]:
        for r in g["rows"]:
            res.append("%s %s -> cast %s feeds %s" % (
                "|".join(g["rets"]), [p or "*" for p in r["pattern"]],
                sig_name(r["cast_ret"], r["cast_params"]), ["%s%d" % f for f in r["feeds"]]))
    return res


def regenerate(repo, coq_dir):
    """Returns (status, table or None, message). Writes coq/C20/Gen_FfiTable.v only if it changed."""
    dest = os.path.join(coq_dir, "C20", "Gen_FfiTable.v")
    try:
        tab = extract(repo)
    except (TranslatorError, OSError, KeyError, ValueError, AssertionError) as e:
        return "stale", None, "shape not recognised: %s" % e
    txt = to_coq(tab)
    old = open(dest).read() if os.path.exists(dest) else None
    if old != txt:
        tmp = dest + ".tmp%d" % os.getpid()
        with open(tmp, "w") as fh:
            fh.write(txt)
        os.rename(tmp, dest)
        return "regenerated", tab, "table changed, Gen_FfiTable.v rewritten"
    return "current", tab, "table unchanged"


if __name__ == "__main__":
    repo = sys.argv[1] if len(sys.argv) > 1 else os.environ.get("CB_REPO", "/repo")
    t = extract(repo)
    if "--coq" in sys.argv:
        sys.stdout.write(to_coq(t))
    else:
        print(json.dumps(t, indent=1))
        print("\n".join(summary(t)))
